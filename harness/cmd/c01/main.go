// C01 — Collector relays each configured target's state to subscribers faithfully.
// End-to-end state monitor over the REAL binaries built from the working tree:
// scripted TLS gNMI targets (served by the harness) -> gnmi_collector (child
// process) -> client library subscribers and gnmi_cli (child processes, three
// equivalent invocations x two display types). The oracle is an independent
// model of each target's final state.
package main

import (
	"bufio"
	"bytes"
	"context"
	"crypto/ecdsa"
	"crypto/elliptic"
	crand "crypto/rand"
	"crypto/tls"
	"crypto/x509"
	"crypto/x509/pkix"
	"encoding/pem"
	"fmt"
	"math"
	"math/big"
	"math/rand"
	"net"
	"os"
	"os/exec"
	"path/filepath"
	"reflect"
	"sort"
	"strconv"
	"strings"
	"sync"
	"time"

	"google.golang.org/grpc"
	"google.golang.org/grpc/codes"
	"google.golang.org/grpc/credentials"
	"google.golang.org/grpc/status"
	"google.golang.org/protobuf/encoding/prototext"
	"google.golang.org/protobuf/proto"

	"github.com/openconfig/gnmi/client"
	gclient "github.com/openconfig/gnmi/client/gnmi"
	gpb "github.com/openconfig/gnmi/proto/gnmi"
	tpb "github.com/openconfig/gnmi/proto/target"

	"verif/internal/model"
	"verif/internal/vlib"
)

// ---------- model ----------

type leafVal struct {
	Go interface{} // the Go value a client is expected to see
	TV *gpb.TypedValue
}

type tmodel struct {
	cur  map[string]interface{}
	ever map[string][]interface{}
}

func newTModel() *tmodel {
	return &tmodel{cur: map[string]interface{}{}, ever: map[string][]interface{}{}}
}

func (m *tmodel) set(key []string, v interface{}) {
	k := model.Key(key)
	m.cur[k] = v
	m.ever[k] = append(m.ever[k], v)
}

func (m *tmodel) del(q []string) {
	for k := range m.cur {
		kp := model.Unkey(k)
		if len(q) <= len(kp) && model.MatchQ(q, kp) {
			delete(m.cur, k)
		}
	}
}

// ---------- generator of a target's stream ----------

type pelem struct {
	Name string
	Keys map[string]string
}

func indexOf(es []pelem) []string {
	var out []string
	for _, e := range es {
		out = append(out, e.Name)
		var ks []string
		for k := range e.Keys {
			ks = append(ks, k)
		}
		sort.Strings(ks)
		for _, k := range ks {
			out = append(out, e.Keys[k])
		}
	}
	return out
}

func toPath(es []pelem, deprecated bool) *gpb.Path {
	p := &gpb.Path{}
	for _, e := range es {
		if deprecated {
			p.Element = append(p.Element, e.Name)
			continue
		}
		pe := &gpb.PathElem{Name: e.Name}
		if len(e.Keys) > 0 {
			pe.Key = map[string]string{}
			for k, v := range e.Keys {
				pe.Key[k] = v
			}
		}
		p.Elem = append(p.Elem, pe)
	}
	return p
}

func genValue(rng *rand.Rand) leafVal {
	switch rng.Intn(9) {
	case 0:
		s := []string{"up", "down", "", "eth0", "a b", "x,y", "tab\there", "quote\"q", "ünï"}[rng.Intn(9)]
		return leafVal{s, &gpb.TypedValue{Value: &gpb.TypedValue_StringVal{StringVal: s}}}
	case 1:
		i := []int64{0, 1, -1, 42, -99999, math.MaxInt64, math.MinInt64, rng.Int63n(1 << 40)}[rng.Intn(8)]
		return leafVal{i, &gpb.TypedValue{Value: &gpb.TypedValue_IntVal{IntVal: i}}}
	case 2:
		u := []uint64{0, 1, 42, math.MaxUint64, uint64(rng.Int63())}[rng.Intn(5)]
		return leafVal{u, &gpb.TypedValue{Value: &gpb.TypedValue_UintVal{UintVal: u}}}
	case 3:
		b := rng.Intn(2) == 0
		return leafVal{b, &gpb.TypedValue{Value: &gpb.TypedValue_BoolVal{BoolVal: b}}}
	case 4:
		d := []float64{0, 1.5, -2.25, 1e300, 3.141592653589793, float64(rng.Intn(1000)) / 8}[rng.Intn(6)]
		return leafVal{d, &gpb.TypedValue{Value: &gpb.TypedValue_DoubleVal{DoubleVal: d}}}
	case 5:
		f := []float32{0, 1.5, -2.25, 0.1, float32(rng.Intn(1000)) / 4}[rng.Intn(5)]
		return leafVal{f, &gpb.TypedValue{Value: &gpb.TypedValue_FloatVal{FloatVal: f}}}
	case 6:
		b := []byte{byte(rng.Intn(256)), byte(rng.Intn(256)), 0}
		return leafVal{b, &gpb.TypedValue{Value: &gpb.TypedValue_BytesVal{BytesVal: b}}}
	case 7:
		ss := []string{"a", "bb", "c c"}[:1+rng.Intn(3)]
		var gs []interface{}
		sa := &gpb.ScalarArray{}
		for _, s := range ss {
			gs = append(gs, s)
			sa.Element = append(sa.Element, &gpb.TypedValue{Value: &gpb.TypedValue_StringVal{StringVal: s}})
		}
		return leafVal{gs, &gpb.TypedValue{Value: &gpb.TypedValue_LeaflistVal{LeaflistVal: sa}}}
	default:
		is := []int64{7, -3, 1 << 33}[:1+rng.Intn(3)]
		var gs []interface{}
		sa := &gpb.ScalarArray{}
		for _, i := range is {
			gs = append(gs, i)
			sa.Element = append(sa.Element, &gpb.TypedValue{Value: &gpb.TypedValue_IntVal{IntVal: i}})
		}
		return leafVal{gs, &gpb.TypedValue{Value: &gpb.TypedValue_LeaflistVal{LeaflistVal: sa}}}
	}
}

type scriptT struct {
	name      string
	responses []*gpb.SubscribeResponse
	mdl       *tmodel
	mdlAlt    *tmodel                    // pathorigin mode: the state if path-level origins were ignored (known finding D19)
	pre       [][]*gpb.SubscribeResponse // earlier sessions: streamed, then the stream fails (reconnect mode)
	structOf  map[string]storedLeaf      // index key -> origin and structured elements of the leaf (for keyed CLI queries)
	nonce     string
	nonceKey  []string
	sawReq    *gpb.SubscribeRequest
	sessions  int
	rewrites  int  // same-timestamp rewrites of an existing leaf in the stream
	selfNames bool // the device fills prefix.target with names of its own choosing
	noise     bool // the device also sends updates that carry no value at all
	noised    int
	atomics   int // atomic groups in the stream
	selfNamed int
	allSentAt time.Time // when a session had handed its last response to the transport
	mu        sync.Mutex
	// pollclient mode: the last session pauses after responses[:gateAt] (whose
	// last member is a marker leaf) until the harness closes gate.
	gateAt  int
	gate    chan struct{}
	markKey []string
	markVal string
}

const defaultOrigin = "openconfig"

type storedLeaf struct {
	origin string
	es     []pelem
}

// genScript generates the response stream of one target and its model.
// pathOrigin: put the origin into update paths instead of the prefix (D19's input class).
func genScript(rng *rand.Rand, name string, pathOrigin bool, tsBase int64) *scriptT {
	s := &scriptT{name: name, mdl: newTModel(), mdlAlt: newTModel(), structOf: map[string]storedLeaf{}, selfNames: rng.Intn(3) == 0, noise: !pathOrigin && rng.Intn(4) == 0}
	conts := []string{"c0", "c1", "c2", "interfaces", "state"}
	leafs := []string{"l0", "l1", "l2", "in-octets", "oper-status", "name"}
	keyvals := []string{"k1v", "eth0", "10", "v 2"}
	randElems := func(keyless bool) []pelem {
		n := 1 + rng.Intn(3)
		var es []pelem
		for i := 0; i < n; i++ {
			e := pelem{Name: conts[rng.Intn(len(conts))]}
			if !keyless && rng.Intn(3) == 0 {
				e.Keys = map[string]string{}
				nk := 1 + rng.Intn(3)
				for k := 0; k < nk; k++ {
					e.Keys[fmt.Sprintf("key%d", k)] = keyvals[rng.Intn(len(keyvals))]
				}
			}
			es = append(es, e)
		}
		return es
	}
	origins := []string{"", defaultOrigin, "custom"}
	ts := tsBase
	nLeaves := 5 + rng.Intn(36)
	type stored = storedLeaf
	var known []stored
	storedTS := map[string]int64{} // index key -> timestamp the leaf is stored under
	effOrigin := func(o string) string {
		if o == "" {
			return defaultOrigin
		}
		return o
	}
	nNoti := nLeaves
	for i := 0; i < nNoti; i++ {
		ts += 1000
		origin := origins[rng.Intn(len(origins))]
		deprecated := rng.Intn(6) == 0
		n := &gpb.Notification{Timestamp: ts, Prefix: &gpb.Path{}}
		// An atomic group, written once: its container is this group's alone, four
		// index elements deep (longer than any CLI query drawn below, so that a
		// query selects the container exactly when it selects its members), never
		// rewritten with fewer members and never deleted (the client library
		// applies the members one by one and knows nothing of "atomic"; what a
		// shrinking group leaves behind there is outside the statement).
		if !pathOrigin && rng.Intn(8) == 0 {
			cont := []pelem{{Name: fmt.Sprintf("atom%d", s.atomics)}, {Name: "g"}, {Name: "h"}}
			s.atomics++
			n.Atomic = true
			pre := toPath(cont, false)
			n.Prefix.Elem = pre.Elem
			n.Prefix.Origin = origin
			members := leafs[:2+rng.Intn(3)]
			for _, lf := range members {
				v := genValue(rng)
				n.Update = append(n.Update, &gpb.Update{Path: toPath([]pelem{{Name: lf}}, false), Val: v.TV})
				key := append(append([]string{name, effOrigin(origin)}, indexOf(cont)...), lf)
				s.mdl.set(key, v.Go)
				s.mdlAlt.set(append(append([]string{name, defaultOrigin}, indexOf(cont)...), lf), v.Go)
			}
			if s.noise && rng.Intn(2) == 0 {
				nu := &gpb.Update{Path: toPath([]pelem{{Name: fmt.Sprintf("zznoise%d", s.noised)}}, false)}
				at := rng.Intn(len(n.Update) + 1)
				n.Update = append(n.Update[:at], append([]*gpb.Update{nu}, n.Update[at:]...)...)
				s.noised++
			}
			s.responses = append(s.responses, &gpb.SubscribeResponse{Response: &gpb.SubscribeResponse_Update{Update: n}})
			continue
		}
		useDelete := len(known) > 3 && rng.Intn(6) == 0 && !pathOrigin
		if useDelete {
			// exact leaf, subtree (container prefix) or keyed list entry
			k := known[rng.Intn(len(known))]
			cut := len(k.es)
			if rng.Intn(2) == 0 {
				cut = 1 + rng.Intn(len(k.es))
			}
			es := k.es[:cut]
			dep := true
			for _, e := range es {
				if len(e.Keys) > 0 {
					dep = false
				}
			}
			dep = dep && deprecated
			split := rng.Intn(len(es))
			pre := toPath(es[:split], dep)
			n.Prefix.Elem, n.Prefix.Element = pre.Elem, pre.Element
			n.Prefix.Origin = k.origin
			dp := toPath(es[split:], dep)
			n.Delete = []*gpb.Path{dp}
			s.mdl.del(append([]string{name, effOrigin(k.origin)}, indexOf(es)...))
		} else {
			base := randElems(deprecated)
			// Same-timestamp rewrite: an existing leaf is sent again with the very
			// timestamp it is stored under and (almost always) another value; the
			// statement of C02 lets it replace the stored value, so it is part of
			// the target's final state and every view must show it.
			forcedLeaf := ""
			if !pathOrigin && len(known) > 0 && rng.Intn(6) == 0 {
				k := known[rng.Intn(len(known))]
				key := model.Key(append([]string{name, effOrigin(k.origin)}, indexOf(k.es)...))
				if _, present := s.mdl.cur[key]; present && storedTS[key] > 0 {
					ts -= 1000
					n.Timestamp = storedTS[key]
					origin, deprecated = k.origin, false
					base, forcedLeaf = k.es[:len(k.es)-1], k.es[len(k.es)-1].Name
					s.rewrites++
				}
			}
			split := rng.Intn(len(base) + 1)
			if pathOrigin {
				split = 0
			}
			pre := toPath(base[:split], deprecated)
			n.Prefix.Elem, n.Prefix.Element = pre.Elem, pre.Element
			if !pathOrigin {
				n.Prefix.Origin = origin
			}
			nu := 1
			if rng.Intn(3) == 0 && forcedLeaf == "" {
				nu = 2 + rng.Intn(3)
			}
			// Container-replace idiom: one notification deletes the container and
			// carries its new content (deletes are applied to what was there
			// before; the notification's own updates stay).
			if !pathOrigin && split < len(base) && rng.Intn(8) == 0 && forcedLeaf == "" {
				n.Delete = []*gpb.Path{toPath(base[split:], deprecated)}
				s.mdl.del(append([]string{name, effOrigin(origin)}, indexOf(base)...))
				s.mdlAlt.del(append([]string{name, defaultOrigin}, indexOf(base)...))
			}
			used := map[string]bool{}
			for u := 0; u < nu; u++ {
				lf := leafs[rng.Intn(len(leafs))]
				if forcedLeaf != "" {
					lf = forcedLeaf
				}
				if used[lf] {
					continue
				}
				used[lf] = true
				es := append(append([]pelem{}, base...), pelem{Name: lf})
				v := genValue(rng)
				up := toPath(es[split:], deprecated)
				if pathOrigin {
					up.Origin = origin
				}
				n.Update = append(n.Update, &gpb.Update{Path: up, Val: v.TV})
				s.mdl.set(append([]string{name, effOrigin(origin)}, indexOf(es)...), v.Go)
				storedTS[model.Key(append([]string{name, effOrigin(origin)}, indexOf(es)...))] = n.Timestamp
				s.structOf[model.Key(append([]string{name, effOrigin(origin)}, indexOf(es)...))] = storedLeaf{effOrigin(origin), es}
				s.mdlAlt.set(append([]string{name, defaultOrigin}, indexOf(es)...), v.Go)
				known = append(known, stored{origin, es})
			}
			// Noise: an update without any value (a device bug, or a schema node the
			// device cannot render) somewhere among the notification's updates. The
			// statement says nothing about what becomes of it; every OTHER leaf of
			// the stream must be relayed regardless, so no view is compared on it.
			if s.noise && forcedLeaf == "" && rng.Intn(4) == 0 {
				es := append(append([]pelem{}, base...), pelem{Name: fmt.Sprintf("zznoise%d", s.noised)})
				nu := &gpb.Update{Path: toPath(es[split:], deprecated)}
				at := rng.Intn(len(n.Update) + 1)
				n.Update = append(n.Update[:at], append([]*gpb.Update{nu}, n.Update[at:]...)...)
				s.noised++
			}
		}
		// A target may omit the prefix altogether.
		if n.Prefix.Origin == "" && len(n.Prefix.Elem) == 0 && len(n.Prefix.Element) == 0 && rng.Intn(2) == 0 {
			n.Prefix = nil
		}
		// A device (or a proxy in front of it) may name itself in prefix.target:
		// its own hostname, or a name that happens to be another configured
		// target's. The leaf is still part of the state THIS configured target
		// streams and must be relayed under the configured name.
		if n.Prefix != nil && s.selfNames && rng.Intn(3) == 0 {
			n.Prefix.Target = []string{"dev0", "dev1", "dev2", "device-hostname.example", name}[rng.Intn(5)]
			s.selfNamed++
		}
		s.responses = append(s.responses, &gpb.SubscribeResponse{Response: &gpb.SubscribeResponse_Update{Update: n}})
	}
	// sync at a seeded position
	at := rng.Intn(len(s.responses) + 1)
	s.responses = append(s.responses[:at], append([]*gpb.SubscribeResponse{{Response: &gpb.SubscribeResponse_SyncResponse{SyncResponse: true}}}, s.responses[at:]...)...)
	// sentinel
	s.nonce = fmt.Sprintf("nonce-%d", rng.Int63())
	ts += 1000
	s.nonceKey = []string{name, defaultOrigin, "zzsentinel", "nonce"}
	s.responses = append(s.responses, &gpb.SubscribeResponse{Response: &gpb.SubscribeResponse_Update{Update: &gpb.Notification{Timestamp: ts, Prefix: &gpb.Path{},
		Update: []*gpb.Update{{Path: &gpb.Path{Elem: []*gpb.PathElem{{Name: "zzsentinel"}, {Name: "nonce"}}}, Val: &gpb.TypedValue{Value: &gpb.TypedValue_StringVal{StringVal: s.nonce}}}}}}})
	s.mdl.set(s.nonceKey, s.nonce)
	s.mdlAlt.set(s.nonceKey, s.nonce)
	return s
}

// ---------- scripted TLS target ----------

type targetServer struct {
	gpb.UnimplementedGNMIServer
	s *scriptT
}

func (t *targetServer) Subscribe(stream gpb.GNMI_SubscribeServer) error {
	req, err := stream.Recv()
	if err != nil {
		return err
	}
	t.s.mu.Lock()
	t.s.sawReq = req
	idx := t.s.sessions
	t.s.sessions++
	t.s.mu.Unlock()
	if idx < len(t.s.pre) {
		// An earlier session: stream it, then the stream breaks.
		for _, r := range t.s.pre[idx] {
			if err := stream.Send(proto.Clone(r).(*gpb.SubscribeResponse)); err != nil {
				return err
			}
		}
		return status.Error(codes.Unavailable, "scripted stream failure")
	}
	for i, r := range t.s.responses {
		if t.s.gate != nil && i == t.s.gateAt {
			select {
			case <-t.s.gate:
			case <-stream.Context().Done():
				return nil
			}
		}
		if err := stream.Send(proto.Clone(r).(*gpb.SubscribeResponse)); err != nil {
			return err
		}
	}
	t.s.mu.Lock()
	t.s.allSentAt = time.Now()
	t.s.mu.Unlock()
	<-stream.Context().Done()
	return nil
}

func selfSigned(dir string) (tls.Certificate, string, string, error) {
	priv, err := ecdsa.GenerateKey(elliptic.P256(), crand.Reader)
	if err != nil {
		return tls.Certificate{}, "", "", err
	}
	tmpl := &x509.Certificate{SerialNumber: big.NewInt(1), Subject: pkix.Name{CommonName: "localhost"}, NotBefore: time.Now().Add(-time.Hour), NotAfter: time.Now().Add(24 * time.Hour),
		KeyUsage: x509.KeyUsageDigitalSignature | x509.KeyUsageCertSign, ExtKeyUsage: []x509.ExtKeyUsage{x509.ExtKeyUsageServerAuth}, IsCA: true, BasicConstraintsValid: true,
		DNSNames: []string{"localhost"}, IPAddresses: []net.IP{net.IPv4(127, 0, 0, 1)}}
	der, err := x509.CreateCertificate(crand.Reader, tmpl, tmpl, &priv.PublicKey, priv)
	if err != nil {
		return tls.Certificate{}, "", "", err
	}
	kb, _ := x509.MarshalECPrivateKey(priv)
	certPEM := pem.EncodeToMemory(&pem.Block{Type: "CERTIFICATE", Bytes: der})
	keyPEM := pem.EncodeToMemory(&pem.Block{Type: "EC PRIVATE KEY", Bytes: kb})
	cf, kf := filepath.Join(dir, "cert.pem"), filepath.Join(dir, "key.pem")
	os.WriteFile(cf, certPEM, 0o600)
	os.WriteFile(kf, keyPEM, 0o600)
	c, err := tls.X509KeyPair(certPEM, keyPEM)
	return c, cf, kf, err
}

// listensOn reports whether process pid itself owns a listening TCP socket on
// the port. A port obtained by binding :0 and closing can be taken by another
// scenario's listener before the collector binds it; a successful dial then
// reaches a stranger (the collector exits with "address already in use") and
// everything observed afterwards would be about the stranger, not about the
// collector under test. Ownership is decided from /proc: the inode of the
// LISTEN entry for the port must be among the child's socket descriptors.
func listensOn(pid, port int) bool {
	inodes := map[string]bool{}
	for _, f := range []string{"/proc/net/tcp", "/proc/net/tcp6"} {
		b, err := os.ReadFile(f)
		if err != nil {
			continue
		}
		for _, l := range strings.Split(string(b), "\n")[1:] {
			fs := strings.Fields(l)
			if len(fs) < 10 || fs[3] != "0A" {
				continue
			}
			i := strings.LastIndex(fs[1], ":")
			if i < 0 {
				continue
			}
			if p, err := strconv.ParseInt(fs[1][i+1:], 16, 32); err == nil && int(p) == port {
				inodes[fs[9]] = true
			}
		}
	}
	if len(inodes) == 0 {
		return false
	}
	ents, err := os.ReadDir(fmt.Sprintf("/proc/%d/fd", pid))
	if err != nil {
		return false
	}
	for _, e := range ents {
		if t, err := os.Readlink(fmt.Sprintf("/proc/%d/fd/%s", pid, e.Name())); err == nil && strings.HasPrefix(t, "socket:[") {
			if inodes[strings.TrimSuffix(strings.TrimPrefix(t, "socket:["), "]")] {
				return true
			}
		}
	}
	return false
}

func freePort() int {
	l, err := net.Listen("tcp", "127.0.0.1:0")
	if err != nil {
		return 0
	}
	defer l.Close()
	return l.Addr().(*net.TCPAddr).Port
}

// ---------- CLI output parsing ----------

// parseGroup flattens the CLI's group display into path -> raw value text.
func parseGroup(out string) (map[string]string, error) {
	res := map[string]string{}
	var stack []string
	sc := bufio.NewScanner(strings.NewReader(out))
	sc.Buffer(make([]byte, 1<<20), 1<<24)
	depth := 0
	for sc.Scan() {
		line := strings.TrimSpace(sc.Text())
		switch {
		case line == "":
		case line == "{":
			depth++
		case line == "}" || line == "},":
			depth--
			if len(stack) > 0 {
				stack = stack[:len(stack)-1]
			}
		default:
			if !strings.HasPrefix(line, "\"") {
				return nil, fmt.Errorf("unparseable line %q", line)
			}
			// key is a Go-quoted string
			key, rest, err := unquotePrefix(line)
			if err != nil || !strings.HasPrefix(rest, ": ") {
				return nil, fmt.Errorf("unparseable line %q", line)
			}
			val := strings.TrimSuffix(rest[2:], ",")
			if val == "{" {
				stack = append(stack, key)
				depth++
				continue
			}
			res[model.Key(append(append([]string{}, stack...), key))] = val
		}
	}
	return res, nil
}

func unquotePrefix(s string) (string, string, error) {
	// find the closing quote of a Go-quoted string starting at s[0]
	for i := 1; i < len(s); i++ {
		if s[i] == '\\' {
			i++
			continue
		}
		if s[i] == '"' {
			u, err := strconv.Unquote(s[:i+1])
			return u, s[i+1:], err
		}
	}
	return "", "", fmt.Errorf("unterminated string")
}

func renderGroup(v interface{}) string {
	switch x := v.(type) {
	case string:
		return fmt.Sprintf("%q", x)
	case []interface{}:
		var parts []string
		for _, e := range x {
			parts = append(parts, renderGroup(e))
		}
		return "[" + strings.Join(parts, ", ") + "]"
	default:
		return fmt.Sprintf("%v", x)
	}
}

// ---------- scenario ----------

type scenario struct {
	dir         string
	scripts     []*scriptT
	servers     []*grpc.Server
	addrs       []string
	collector   *exec.Cmd
	collExited  chan struct{} // closed when the collector child has been reaped
	collWaitErr error         // valid once collExited is closed
	collAddr    string
	collLog     string
}

// killedFromOutside: the collector child is gone because something outside the
// harness sent it SIGKILL (the kernel under memory pressure), not because it
// ended by its own hand; whatever the observers saw then is not about the code.
func (sc *scenario) killedFromOutside() bool {
	if sc.collExited == nil {
		return false
	}
	select {
	case <-sc.collExited:
		return sc.collWaitErr != nil && strings.Contains(sc.collWaitErr.Error(), "signal: killed")
	case <-time.After(time.Second): // the observers may see the end a moment before the child is reaped
		return false
	}
}

func (sc *scenario) stop() {
	if sc.collector != nil && sc.collector.Process != nil {
		sc.collector.Process.Kill()
		if sc.collExited != nil {
			<-sc.collExited
		} else {
			sc.collector.Wait()
		}
	}
	for _, s := range sc.servers {
		s.Stop()
	}
}

func tailFile(p string, n int) string {
	b, _ := os.ReadFile(p)
	if len(b) > n {
		b = b[len(b)-n:]
	}
	return string(b)
}

// ignored: paths no view is compared on — the collector's own meta/ subtree and
// the value-less noise updates some targets send (see genScript).
func ignored(path []string) bool {
	if len(path) >= 2 && path[1] == "meta" {
		return true
	}
	for _, e := range path {
		if strings.HasPrefix(e, "zznoise") {
			return true
		}
	}
	return false
}

func valuesEqual(a, b interface{}) bool {
	if fa, ok := a.(float64); ok {
		if fb, ok := b.(float64); ok {
			return fa == fb || (math.IsNaN(fa) && math.IsNaN(fb))
		}
	}
	return reflect.DeepEqual(a, b)
}

func runScenario(r *vlib.Run, mode string, trial int, rng *rand.Rand) {
	pathOrigin := mode == "pathorigin"
	dir, err := os.MkdirTemp(r.WorkDir, fmt.Sprintf("sc-%s-%d-", mode, trial))
	if err != nil {
		r.Inconclusive("cannot create scenario directory")
		return
	}
	sc := &scenario{dir: dir}
	defer sc.stop()
	cert, certFile, keyFile, err := selfSigned(dir)
	if err != nil {
		r.Inconclusive("cannot generate certificate")
		return
	}
	nT := 1 + rng.Intn(3)
	cfg := &tpb.Configuration{Request: map[string]*gpb.SubscribeRequest{}, Target: map[string]*tpb.Target{}, Revision: 1}
	sharedReq := rng.Intn(2) == 0
	mkReq := func(i int) *gpb.SubscribeRequest {
		return &gpb.SubscribeRequest{Request: &gpb.SubscribeRequest_Subscribe{Subscribe: &gpb.SubscriptionList{
			Prefix:       &gpb.Path{Origin: []string{"", "openconfig"}[i%2]},
			Mode:         gpb.SubscriptionList_STREAM,
			Subscription: []*gpb.Subscription{{Path: &gpb.Path{Elem: []*gpb.PathElem{{Name: fmt.Sprintf("root%d", i)}}}}},
		}}}
	}
	cfg.Request["shared"] = mkReq(0)
	for i := 0; i < nT; i++ {
		name := fmt.Sprintf("dev%d", i)
		// Timestamps of a target whose clock is right, or runs far ahead of the collector's.
		tsBase := []int64{1_600_000_000_000_000_000, 4_102_444_800_000_000_000}[rng.Intn(2)]
		s := genScript(rng, name, pathOrigin, tsBase)
		if mode == "reconnect" {
			// The stream breaks once (or twice) and is re-established: the final
			// state is what the LAST session streamed.
			for k := 0; k < 1+rng.Intn(2); k++ {
				s0 := genScript(rng, name, false, tsBase)
				s.pre = append(s.pre, s0.responses)
				for key, vs := range s0.mdl.ever {
					s.mdl.ever[key] = append(s.mdl.ever[key], vs...)
				}
			}
		}
		if mode == "pollclient" {
			// A marker leaf in the middle of the stream; the target pauses behind it
			// until a POLL client has taken a round of the state so far.
			at := len(s.responses) / 2
			s.markKey = []string{name, defaultOrigin, "zzgate", "mark"}
			s.markVal = fmt.Sprintf("mark-%d", rng.Int63())
			mk := &gpb.SubscribeResponse{Response: &gpb.SubscribeResponse_Update{Update: &gpb.Notification{Timestamp: tsBase + 1, Prefix: &gpb.Path{},
				Update: []*gpb.Update{{Path: &gpb.Path{Elem: []*gpb.PathElem{{Name: "zzgate"}, {Name: "mark"}}}, Val: &gpb.TypedValue{Value: &gpb.TypedValue_StringVal{StringVal: s.markVal}}}}}}}
			// A subtree only this pair touches: written before the pause, deleted after
			// it; a POLL client that asks for nothing else gets an EMPTY final round.
			zz := &gpb.SubscribeResponse{Response: &gpb.SubscribeResponse_Update{Update: &gpb.Notification{Timestamp: tsBase + 2, Prefix: &gpb.Path{},
				Update: []*gpb.Update{{Path: &gpb.Path{Elem: []*gpb.PathElem{{Name: "zzpoll"}, {Name: "a"}}}, Val: &gpb.TypedValue{Value: &gpb.TypedValue_IntVal{IntVal: 1}}},
					{Path: &gpb.Path{Elem: []*gpb.PathElem{{Name: "zzpoll"}, {Name: "b"}}}, Val: &gpb.TypedValue{Value: &gpb.TypedValue_IntVal{IntVal: 2}}}}}}}
			zzDel := &gpb.SubscribeResponse{Response: &gpb.SubscribeResponse_Update{Update: &gpb.Notification{Timestamp: tsBase + 3, Prefix: &gpb.Path{},
				Delete: []*gpb.Path{{Elem: []*gpb.PathElem{{Name: "zzpoll"}}}}}}}
			last := len(s.responses) - 1 // the sentinel stays last
			s.responses = append(s.responses[:last], append([]*gpb.SubscribeResponse{zzDel}, s.responses[last:]...)...)
			s.responses = append(s.responses[:at], append([]*gpb.SubscribeResponse{zz, mk}, s.responses[at:]...)...)
			at++
			s.mdl.ever[model.Key([]string{name, defaultOrigin, "zzpoll", "a"})] = []interface{}{int64(1)}
			s.mdl.ever[model.Key([]string{name, defaultOrigin, "zzpoll", "b"})] = []interface{}{int64(2)}
			s.gateAt = at + 1
			s.gate = make(chan struct{})
			s.mdl.set(s.markKey, s.markVal)
			s.mdlAlt.set(s.markKey, s.markVal)
		}
		sc.scripts = append(sc.scripts, s)
		r.Count("stream_same_timestamp_rewrites", int64(s.rewrites))
		r.Count("stream_notifications_with_device_chosen_prefix_target", int64(s.selfNamed))
		r.Count("stream_value_less_noise_updates", int64(s.noised))
		r.Count("stream_atomic_groups", int64(s.atomics))
		lis, err := net.Listen("tcp", "127.0.0.1:0")
		if err != nil {
			r.Inconclusive("cannot listen")
			return
		}
		srv := grpc.NewServer(grpc.Creds(credentials.NewServerTLSFromCert(&cert)))
		gpb.RegisterGNMIServer(srv, &targetServer{s: s})
		go srv.Serve(lis)
		sc.servers = append(sc.servers, srv)
		sc.addrs = append(sc.addrs, lis.Addr().String())
		reqName := "shared"
		if !sharedReq {
			reqName = fmt.Sprintf("req%d", i)
			cfg.Request[reqName] = mkReq(i + 1)
		}
		cfg.Target[name] = &tpb.Target{Addresses: []string{lis.Addr().String()}, Request: reqName}
	}
	cfgFile := filepath.Join(dir, "collector.cfg")
	os.WriteFile(cfgFile, []byte(prototext.Format(cfg)), 0o600)
	// Start the real collector.
	collBin := filepath.Join(r.WorkDir, "gnmi_collector")
	cliBin := filepath.Join(r.WorkDir, "gnmi_cli")
	sc.collLog = filepath.Join(dir, "collector.log")
	started := false
	for attempt := 0; attempt < 3 && !started; attempt++ {
		port := freePort()
		sc.collAddr = fmt.Sprintf("127.0.0.1:%d", port)
		args := []string{"-config_file", cfgFile, "-cert_file", certFile, "-key_file", keyFile, "-port", strconv.Itoa(port), "-logtostderr", "-v=2", "-dial_timeout=20s"}
		if trial%2 == 0 {
			args = append(args, "-metadata_update_period=50ms", "-size_update_period=70ms")
		}
		cmd := exec.Command(collBin, args...)
		lf, _ := os.Create(sc.collLog)
		cmd.Stdout, cmd.Stderr = lf, lf
		if err := cmd.Start(); err != nil {
			lf.Close()
			continue
		}
		lf.Close()
		sc.collector = cmd
		exited := make(chan struct{})
		sc.collExited = exited
		go func() { sc.collWaitErr = cmd.Wait(); close(exited) }()
	wait:
		for i := 0; i < 400; i++ {
			select {
			case <-exited: // e.g. "failed to listen: address already in use": take another port
				r.Count("collector_start_retries_port_taken", 1)
				break wait
			default:
			}
			if listensOn(cmd.Process.Pid, port) {
				if c, err := net.DialTimeout("tcp", sc.collAddr, 200*time.Millisecond); err == nil {
					c.Close()
					started = true
					break
				}
			}
			time.Sleep(25 * time.Millisecond)
		}
		if !started {
			cmd.Process.Kill()
			<-exited
			sc.collector, sc.collExited = nil, nil
		}
	}
	if !started {
		r.Inconclusive("collector did not start listening: " + tailFile(sc.collLog, 300))
		return
	}
	r.Eval(1)
	wit := func() map[string]interface{} {
		streams := map[string][]string{}
		for _, s := range sc.scripts {
			for i, x := range s.responses {
				if i < 80 {
					streams[s.name] = append(streams[s.name], prototext.MarshalOptions{}.Format(x))
				}
			}
		}
		sessions := map[string]int{}
		for _, s := range sc.scripts {
			s.mu.Lock()
			sessions[s.name] = s.sessions
			s.mu.Unlock()
		}
		var notable []string
		if b, err := os.ReadFile(sc.collLog); err == nil {
			for _, l := range strings.Split(string(b), "\n") {
				if strings.Contains(l, "Retrying") || strings.Contains(l, "successfully subscribed") || strings.Contains(l, "Attempting") || strings.HasPrefix(l, "E") || strings.HasPrefix(l, "W") || strings.Contains(l, "dropped") {
					if len(notable) < 60 {
						notable = append(notable, l)
					}
				}
			}
		}
		return map[string]interface{}{"mode": mode, "targets": nT, "shared_request": sharedReq, "streams": streams, "target_sessions": sessions, "collector_log_notable": notable, "collector_log_tail": tailFile(sc.collLog, 1500)}
	}
	// Client-library subscribers: one per target plus one for "*".
	type obs struct {
		target string
		c      *client.CacheClient
		mu     sync.Mutex
		seen   []client.Notification
		err    error
		done   chan struct{}
	}
	var observers []*obs
	ctx, cancel := context.WithCancel(context.Background())
	defer cancel()
	targets := []string{"*"}
	for _, s := range sc.scripts {
		targets = append(targets, s.name)
	}
	for _, t := range targets {
		o := &obs{target: t, c: client.New(), done: make(chan struct{})}
		observers = append(observers, o)
		q := client.Query{Addrs: []string{sc.collAddr}, Target: t, Queries: []client.Path{{"*"}}, Type: client.Stream, Timeout: 20 * time.Second,
			TLS: &tls.Config{InsecureSkipVerify: true},
			NotificationHandler: func(n client.Notification) error {
				o.mu.Lock()
				o.seen = append(o.seen, n)
				o.mu.Unlock()
				return nil
			}}
		go func() {
			defer close(o.done)
			o.err = o.c.Subscribe(ctx, q, gclient.Type)
		}()
	}
	defer func() {
		cancel()
		for _, o := range observers {
			o.c.Close()
		}
	}()
	deadline := time.Now().Add(90 * time.Second)
	// pollclient mode: a client-library POLL subscriber for "*" takes one round
	// while every target is paused behind its marker, and another one at the end.
	var pollc, pollNarrow *client.CacheClient
	narrowMid := 0
	pollMid := map[string]bool{}
	if mode == "pollclient" {
		openGates := func() {
			for _, s := range sc.scripts {
				close(s.gate)
			}
		}
		star := observers[0]
		for _, s := range sc.scripts {
			for {
				if tv, ok := star.c.GetLeafValue(s.markKey).(client.TreeVal); ok && tv.Val == s.markVal {
					break
				}
				select {
				case <-star.done:
					openGates()
					r.Violation(mode, trial, "subscribe-refused", fmt.Sprintf("client subscription for target %q through the collector ended: %v", star.target, star.err), wit())
					return
				default:
				}
				if time.Now().After(deadline.Add(-45 * time.Second)) {
					openGates()
					r.Inconclusive("pollclient: the marker of a paused target did not reach the STREAM subscriber within 45 s")
					return
				}
				time.Sleep(5 * time.Millisecond)
			}
		}
		pollc = client.New()
		defer pollc.Close()
		pctx, pcancel := context.WithTimeout(ctx, 30*time.Second)
		defer pcancel()
		err := pollc.Subscribe(pctx, client.Query{Addrs: []string{sc.collAddr}, Target: "*", Queries: []client.Path{{"*"}}, Type: client.Poll, Timeout: 20 * time.Second,
			TLS: &tls.Config{InsecureSkipVerify: true}}, gclient.Type)
		if err == nil {
			err = pollc.Poll()
		}
		if err != nil {
			openGates()
			if pctx.Err() != nil || strings.Contains(err.Error(), "DeadlineExceeded") || strings.Contains(err.Error(), "deadline exceeded") {
				r.Inconclusive("pollclient: the POLL subscription did not complete its first rounds within 30 s (loaded machine)")
				return
			}
			r.Violation(mode, trial, "subscribe-refused", fmt.Sprintf("client-library POLL subscription for target \"*\" through the collector failed: %v", err), wit())
			return
		}
		for _, l := range pollc.Leaves() {
			if !ignored(l.Path) {
				pollMid[model.Key(l.Path)] = true
			}
		}
		// A second POLL client asks only for the first target's zzpoll subtree.
		pollNarrow = client.New()
		defer pollNarrow.Close()
		err = pollNarrow.Subscribe(pctx, client.Query{Addrs: []string{sc.collAddr}, Target: sc.scripts[0].name, Queries: []client.Path{{defaultOrigin, "zzpoll"}}, Type: client.Poll, Timeout: 20 * time.Second,
			TLS: &tls.Config{InsecureSkipVerify: true}}, gclient.Type)
		if err == nil {
			err = pollNarrow.Poll()
		}
		if err != nil {
			openGates()
			if pctx.Err() != nil || strings.Contains(err.Error(), "eadline") {
				r.Inconclusive("pollclient: the POLL subscription did not complete its first rounds within 30 s (loaded machine)")
				return
			}
			r.Violation(mode, trial, "subscribe-refused", fmt.Sprintf("client-library POLL subscription for %q through the collector failed: %v", sc.scripts[0].name, err), wit())
			return
		}
		narrowMid = len(pollNarrow.Leaves())
		openGates()
	}
	// Logical quiescence: every observer sees the nonce of every target it covers.
	for _, o := range observers {
		for _, s := range sc.scripts {
			if o.target != "*" && o.target != s.name {
				continue
			}
			for {
				if tv, ok := o.c.GetLeafValue(s.nonceKey).(client.TreeVal); ok && tv.Val == s.nonce {
					break
				}
				ended := false
				select {
				case <-o.done:
					ended = true
				default:
				}
				s.mu.Lock()
				sentAt := s.allSentAt
				s.mu.Unlock()
				// Attributable stuck: the target handed its whole stream (sentinel
				// included) to the transport more than 30 s ago on an otherwise idle
				// local system, and the subscriber still has not seen the sentinel.
				overdue := !sentAt.IsZero() && time.Since(sentAt) > 30*time.Second
				if ended || overdue || time.Now().After(deadline) {
					log := tailFile(sc.collLog, 4000)
					w := wit()
					switch {
					case strings.Contains(log, "not found in cache") || strings.Contains(log, "dropped cache.Update"):
						r.Violation(mode, trial, "relay-dropped-updates", fmt.Sprintf("subscriber for %q never saw the sentinel of %s; the collector's log shows it dropped the target's updates", o.target, s.name), w)
					case ended && sc.killedFromOutside():
						r.Inconclusive("the collector process was killed by SIGKILL from outside the harness; scenario not judged")
					case ended:
						r.Violation(mode, trial, "subscribe-refused", fmt.Sprintf("client subscription for target %q through the collector ended: %v", o.target, o.err), w)
					case overdue:
						// Does a fresh ONCE query see it? Then only the streaming path lost it.
						fresh := client.New()
						fctx, fcancel := context.WithTimeout(context.Background(), 20*time.Second)
						ferr := fresh.Subscribe(fctx, client.Query{Addrs: []string{sc.collAddr}, Target: s.name, Queries: []client.Path{{"*"}}, Type: client.Once, Timeout: 20 * time.Second, TLS: &tls.Config{InsecureSkipVerify: true}}, gclient.Type)
						fcancel()
						var leaves []string
						for _, l := range fresh.Leaves() {
							if len(leaves) < 12 && !ignored(l.Path) {
								leaves = append(leaves, strings.Join(l.Path, "/"))
							}
						}
						w["fresh_once_query_error"] = fmt.Sprint(ferr)
						w["fresh_once_query_leaves"] = leaves
						if tv, ok := fresh.GetLeafValue(s.nonceKey).(client.TreeVal); ok && tv.Val == s.nonce {
							r.Violation(mode, trial, "stream-subscriber-missed-updates", fmt.Sprintf("STREAM subscriber for %q never received the sentinel of %s although the target sent it > 30 s ago and a fresh ONCE query through the collector shows it", o.target, s.name), w)
						} else {
							r.Violation(mode, trial, "relay-lost-updates", fmt.Sprintf("the sentinel %v of %s was sent by the target > 30 s ago but is visible neither to the STREAM subscriber for %q nor to a fresh ONCE query (leaves visible: %v)", s.nonceKey, s.name, o.target, leaves), w)
						}
						fresh.Close()
					default:
						r.Inconclusive("sentinel not seen within 60 s, the target never finished sending and the collector log does not attribute it")
					}
					return
				}
				time.Sleep(10 * time.Millisecond)
			}
		}
	}
	// The sentinel alone is not quiescence: a subscriber that started while the
	// collector was still receiving may get the sentinel through the streaming
	// path while its initial walk is still inserting leaves. The walk's last
	// insertion is the sync marker, so sentinel AND sync (FIFO per subscriber)
	// mean nothing is pending.
	for _, o := range observers {
		select {
		case <-o.c.Synced():
		case <-o.done:
			if sc.killedFromOutside() {
				r.Inconclusive("the collector process was killed by SIGKILL from outside the harness; scenario not judged")
				return
			}
			r.Violation(mode, trial, "subscribe-refused", fmt.Sprintf("client subscription for target %q through the collector ended: %v", o.target, o.err), wit())
			return
		case <-time.After(time.Until(deadline)):
			r.Inconclusive("subscriber saw the sentinel but no sync_response within the deadline")
			return
		}
	}
	// The request each target received = configured request with the target stamped in.
	for _, s := range sc.scripts {
		want := proto.Clone(cfg.Request[cfg.Target[s.name].Request]).(*gpb.SubscribeRequest)
		want.GetSubscribe().Prefix.Target = s.name
		s.mu.Lock()
		got := s.sawReq
		s.mu.Unlock()
		r.Count("requests_checked", 1)
		if !proto.Equal(got, want) {
			r.Violation(mode, trial, "request-not-as-configured", fmt.Sprintf("target %s received %v, configured (with target stamped) %v", s.name, got, want), wit())
			return
		}
	}
	// State comparison.
	merged := newTModel()
	byName := map[string]*tmodel{}
	for _, s := range sc.scripts {
		byName[s.name] = s.mdl
		for k, v := range s.mdl.cur {
			merged.cur[k] = v
		}
		for k, v := range s.mdl.ever {
			merged.ever[k] = v
		}
	}
	ok := true
	for _, o := range observers {
		want := merged.cur
		if o.target != "*" {
			want = byName[o.target].cur
		}
		got := map[string]interface{}{}
		for _, l := range o.c.Leaves() {
			if ignored(l.Path) {
				continue
			}
			got[model.Key(l.Path)] = l.Val
		}
		var diffs []string
		for k, wv := range want {
			gv, present := got[k]
			if !present {
				diffs = append(diffs, fmt.Sprintf("missing %v", model.Unkey(k)))
			} else if !valuesEqual(gv, wv) {
				diffs = append(diffs, fmt.Sprintf("wrong value at %v: got %#v want %#v", model.Unkey(k), gv, wv))
			}
		}
		for k, gv := range got {
			if _, present := want[k]; !present {
				diffs = append(diffs, fmt.Sprintf("extra/stale %v=%#v", model.Unkey(k), gv))
			}
		}
		r.Count("client_views_compared", 1)
		r.Count("leaves_compared", int64(len(want)))
		if len(diffs) > 0 {
			sort.Strings(diffs)
			if len(diffs) > 8 {
				diffs = diffs[:8]
			}
			sig := "client-view-differs"
			if pathOrigin {
				// Known finding D19 only if the view is EXACTLY the state with
				// path-level origins ignored (everything under openconfig).
				alt := map[string]interface{}{}
				for _, s := range sc.scripts {
					if o.target == "*" || o.target == s.name {
						for k, v := range s.mdlAlt.cur {
							alt[k] = v
						}
					}
				}
				same := len(alt) == len(got)
				for k, v := range alt {
					if gv, ok := got[k]; !ok || !valuesEqual(gv, v) {
						same = false
					}
				}
				if same {
					sig = "origin-in-update-path"
				}
			}
			r.Violation(mode, trial, sig, fmt.Sprintf("client-library view of target %q differs from the target's final state: %s", o.target, strings.Join(diffs, "; ")), wit())
			ok = false
			break
		}
		// No invented data during the run.
		o.mu.Lock()
		seen := append([]client.Notification{}, o.seen...)
		o.mu.Unlock()
		connectedFirst := len(seen) > 0
		if connectedFirst {
			_, connectedFirst = seen[0].(client.Connected)
		}
		for _, n := range seen {
			u, isUpd := n.(client.Update)
			if !isUpd || ignored(u.Path) {
				continue
			}
			r.Count("streamed_updates_checked", 1)
			held := false
			for _, v := range merged.ever[model.Key(u.Path)] {
				if valuesEqual(v, u.Val) {
					held = true
				}
			}
			if !held && !pathOrigin {
				r.Violation(mode, trial, "invented-data", fmt.Sprintf("subscriber for %q received %v=%#v, a value the target never held for that path", o.target, []string(u.Path), u.Val), wit())
				ok = false
				break
			}
		}
		if !ok {
			break
		}
	}
	if !ok {
		return
	}
	if pollc != nil {
		if err := pollc.Poll(); err != nil {
			r.Violation(mode, trial, "subscribe-refused", fmt.Sprintf("client-library POLL round through the collector failed: %v", err), wit())
			return
		}
		got := map[string]interface{}{}
		for _, l := range pollc.Leaves() {
			if ignored(l.Path) {
				continue
			}
			got[model.Key(l.Path)] = l.Val
		}
		gone := 0
		for k := range pollMid {
			if _, still := merged.cur[k]; !still {
				gone++
			}
		}
		r.Count("poll_client_views_compared", 1)
		r.Count("poll_client_leaves_seen_in_an_earlier_round_and_deleted_since", int64(gone))
		var diffs []string
		for k, wv := range merged.cur {
			gv, present := got[k]
			if !present {
				diffs = append(diffs, fmt.Sprintf("missing %v", model.Unkey(k)))
			} else if !valuesEqual(gv, wv) {
				diffs = append(diffs, fmt.Sprintf("wrong value at %v: got %#v want %#v", model.Unkey(k), gv, wv))
			}
		}
		for k, gv := range got {
			if _, present := merged.cur[k]; !present {
				diffs = append(diffs, fmt.Sprintf("extra/stale %v=%#v", model.Unkey(k), gv))
			}
		}
		if len(diffs) > 0 {
			sort.Strings(diffs)
			if len(diffs) > 8 {
				diffs = diffs[:8]
			}
			sig := "poll-client-view-differs"
			onlyStale := true
			for _, d := range diffs {
				if !strings.HasPrefix(d, "extra/stale") {
					onlyStale = false
				}
			}
			if onlyStale {
				sig = "poll-client-view-keeps-deleted-leaves"
			}
			r.Violation(mode, trial, sig, fmt.Sprintf("client-library POLL view of \"*\" after a round taken at quiescence differs from the targets' final state (%d leaves of an earlier round were deleted since): %s", gone, strings.Join(diffs, "; ")), wit())
			return
		}
	}
	if pollNarrow != nil {
		if err := pollNarrow.Poll(); err != nil {
			r.Violation(mode, trial, "subscribe-refused", fmt.Sprintf("client-library POLL round through the collector failed: %v", err), wit())
			return
		}
		r.Count("poll_client_empty_final_rounds_judged", 1)
		r.Count("poll_client_leaves_before_the_empty_round", int64(narrowMid))
		if ls := pollNarrow.Leaves(); len(ls) != 0 {
			var desc []string
			for _, l := range ls {
				desc = append(desc, fmt.Sprintf("%v=%v", []string(l.Path), l.Val))
			}
			r.Violation(mode, trial, "poll-client-view-keeps-deleted-leaves", fmt.Sprintf("client-library POLL view of %v on %s after a round taken at quiescence: everything the query selects was deleted (the round is a bare sync), yet the view still holds %s (it held %d leaves after the earlier round)", []string{defaultOrigin, "zzpoll"}, sc.scripts[0].name, strings.Join(desc, ", "), narrowMid), wit())
			return
		}
	}
	// CLI: three equivalent invocations x two display types, ONCE.
	if !pathOrigin {
		for _, s := range sc.scripts {
			if !cliChecks(r, mode, trial, rng, sc, s, cliBin, wit) {
				return
			}
		}
	}
	r.Distinct(vlib.Hash(mode, trial, nT, len(merged.cur)))
	if r.WantSample() {
		var keys []string
		for k := range merged.cur {
			if len(keys) < 6 {
				keys = append(keys, strings.Join(model.Unkey(k), "/")+"="+fmt.Sprintf("%#v", merged.cur[k]))
			}
		}
		r.Sample(map[string]interface{}{"mode": mode, "trial": trial, "targets": nT, "shared_request": sharedReq, "final_leaves": len(merged.cur), "some_leaves": keys, "dev0_responses": len(sc.scripts[0].responses)})
	}
}

func cliChecks(r *vlib.Run, mode string, trial int, rng *rand.Rand, sc *scenario, s *scriptT, cliBin string, wit func() map[string]interface{}) bool {
	// Query set: plain elements only.
	pool := [][]string{{"*"}, {defaultOrigin}, {"custom"}, {defaultOrigin, "c0"}, {"*", "c1"}, {defaultOrigin, "*", "l0"}, {"custom", "interfaces"}, {defaultOrigin, "zzsentinel"}}
	nq := 1 + rng.Intn(2)
	var queries [][]string
	var qflags []string
	var qpaths []*gpb.Path
	for len(queries) < nq {
		q := pool[rng.Intn(len(pool))]
		queries = append(queries, q)
		qflags = append(qflags, strings.Join(q, "/"))
		p := &gpb.Path{}
		for _, e := range q {
			p.Elem = append(p.Elem, &gpb.PathElem{Name: e})
		}
		qpaths = append(qpaths, p)
	}
	// A keyed query for a stored keyed leaf (or one of its containers): the
	// index of name[k=v] is the name followed by the key values.
	var keyed []storedLeaf
	for k := range s.mdl.cur {
		if sl, ok := s.structOf[k]; ok {
			hasKey, plainVals := false, true
			for _, e := range sl.es {
				for _, v := range e.Keys {
					hasKey = true
					if strings.ContainsAny(v, " ,") {
						plainVals = false
					}
				}
			}
			if hasKey && plainVals {
				keyed = append(keyed, sl)
			}
		}
	}
	sort.Slice(keyed, func(i, j int) bool { return fmt.Sprint(keyed[i]) < fmt.Sprint(keyed[j]) })
	if len(keyed) > 0 {
		sl := keyed[rng.Intn(len(keyed))]
		cut := 1 + rng.Intn(len(sl.es))
		for cut < len(sl.es) && len(sl.es[cut-1].Keys) == 0 && rng.Intn(2) == 0 {
			cut++
		}
		es := sl.es[:cut]
		queries = append(queries, append([]string{sl.origin}, indexOf(es)...))
		parts := []string{sl.origin}
		p := &gpb.Path{Elem: []*gpb.PathElem{{Name: sl.origin}}}
		for _, e := range es {
			str := e.Name
			var ks []string
			for k := range e.Keys {
				ks = append(ks, k)
			}
			sort.Strings(ks)
			pe := &gpb.PathElem{Name: e.Name}
			for _, k := range ks {
				str += fmt.Sprintf("[%s=%s]", k, e.Keys[k])
				if pe.Key == nil {
					pe.Key = map[string]string{}
				}
				pe.Key[k] = e.Keys[k]
			}
			parts = append(parts, str)
			p.Elem = append(p.Elem, pe)
		}
		qflags = append(qflags, strings.Join(parts, "/"))
		qpaths = append(qpaths, p)
		r.Count("cli_keyed_queries", 1)
	}
	want := map[string]interface{}{}
	for k, v := range s.mdl.cur {
		kp := model.Unkey(k)
		for _, q := range queries {
			if model.MatchQ(q, kp[1:]) {
				want[k] = v
			}
		}
	}
	qstrs := qflags
	sl := &gpb.SubscriptionList{Prefix: &gpb.Path{Target: s.name}, Mode: gpb.SubscriptionList_ONCE}
	for _, p := range qpaths {
		sl.Subscription = append(sl.Subscription, &gpb.Subscription{Path: p})
	}
	ptxt := prototext.MarshalOptions{Multiline: false}.Format(&gpb.SubscribeRequest{Request: &gpb.SubscribeRequest_Subscribe{Subscribe: sl}})
	pfile := filepath.Join(sc.dir, fmt.Sprintf("req-%s.txt", s.name))
	os.WriteFile(pfile, []byte(ptxt), 0o600)
	common := []string{"-a", sc.collAddr, "-tls_skip_verify", "-timeout", "20s", "-logtostderr"}
	// The flags form separates path nodes by "/" or, by seed, by another single
	// code point (one, two and three bytes long in UTF-8); no element name, key
	// name or key value drawn by the generator contains any of them.
	delim := []string{"/", "/", ".", "·", "→"}[rng.Intn(5)]
	flagQ := make([]string, len(qflags))
	for i, q := range qflags {
		flagQ[i] = strings.ReplaceAll(q, "/", delim)
	}
	r.Count("cli_flags_delimiter_bytes_"+strconv.Itoa(len(delim)), 1)
	forms := map[string][]string{
		"flags":      {"-t", s.name, "-q", strings.Join(flagQ, ","), "-qt", "once", "-d", delim},
		"proto":      {"-proto", ptxt},
		"proto_file": {"-proto_file", pfile},
	}
	for _, dt := range []string{"group", "single"} {
		results := map[string]map[string]string{}
		for _, form := range []string{"flags", "proto", "proto_file"} {
			args := append(append(append([]string{}, common...), "-dt", dt), forms[form]...)
			cctx, cancel := context.WithTimeout(context.Background(), 60*time.Second)
			cmd := exec.CommandContext(cctx, cliBin, args...)
			var stdout, stderr bytes.Buffer
			cmd.Stdout, cmd.Stderr = &stdout, &stderr
			err := cmd.Run()
			timedOut := cctx.Err() == context.DeadlineExceeded
			cancel()
			r.Count("cli_invocations_"+dt+"_"+form, 1)
			if timedOut {
				r.Inconclusive("gnmi_cli did not finish within 60 s")
				return false
			}
			if err != nil {
				w := wit()
				w["cli_args"] = args
				w["cli_stdout"] = tail(stdout.String(), 800)
				w["cli_stderr"] = tail(stderr.String(), 800)
				r.Violation(mode, trial, "cli-failed:"+form, fmt.Sprintf("gnmi_cli (%s form, %s display) exited with %v: %s", form, dt, err, tail(stdout.String()+stderr.String(), 300)), w)
				return false
			}
			var got map[string]string
			if dt == "group" {
				var perr error
				got, perr = parseGroup(stdout.String())
				if perr != nil {
					r.Violation(mode, trial, "cli-output-unparseable", fmt.Sprintf("gnmi_cli group output cannot be parsed: %v", perr), map[string]interface{}{"stdout": tail(stdout.String(), 1500)})
					return false
				}
			} else {
				got = map[string]string{}
				for _, line := range strings.Split(strings.TrimRight(stdout.String(), "\n"), "\n") {
					if line == "" {
						continue
					}
					i := strings.Index(line, ", ")
					if i < 0 {
						got["?"+line] = ""
						continue
					}
					// The single display joins path nodes by the configured delimiter.
					key := line[:i]
					if form == "flags" && delim != "/" {
						key = strings.ReplaceAll(key, delim, "/")
					}
					// A leaf matched by several (overlapping) query paths may be sent
					// more than once; only a different value for the same path is a finding.
					if prev, dup := got[key]; dup && prev != line[i+2:] {
						got["conflicting:"+line] = ""
					}
					got[key] = line[i+2:]
				}
			}
			results[form] = got
		}
		wantR := map[string]string{}
		for k, v := range want {
			kp := model.Unkey(k)
			if dt == "group" {
				wantR[k] = renderGroup(v)
			} else {
				wantR[strings.Join(kp, "/")] = fmt.Sprintf("%v", v)
			}
		}
		for _, form := range []string{"flags", "proto", "proto_file"} {
			got := results[form]
			// drop the collector's own meta subtree
			for k := range got {
				var kp []string
				if dt == "group" {
					kp = model.Unkey(k)
				} else {
					kp = strings.Split(k, "/")
				}
				if ignored(kp) {
					delete(got, k)
				}
			}
			r.Count("cli_outputs_compared", 1)
			if !reflect.DeepEqual(got, wantR) {
				var diffs []string
				for k, wv := range wantR {
					if gv, ok := got[k]; !ok {
						diffs = append(diffs, "missing "+show(k, dt))
					} else if gv != wv {
						diffs = append(diffs, fmt.Sprintf("%s: printed %s, want %s", show(k, dt), gv, wv))
					}
				}
				for k, gv := range got {
					if _, ok := wantR[k]; !ok {
						diffs = append(diffs, fmt.Sprintf("extra %s=%s", show(k, dt), gv))
					}
				}
				sort.Strings(diffs)
				if len(diffs) > 8 {
					diffs = diffs[:8]
				}
				w := wit()
				w["queries"] = qstrs
				r.Violation(mode, trial, "cli-output-differs:"+form, fmt.Sprintf("gnmi_cli %s form, %s display, queries %v on %s: %s", form, dt, qstrs, s.name, strings.Join(diffs, "; ")), w)
				return false
			}
		}
	}
	// Fourth display: shortproto (one text-format SubscribeResponse per line, the
	// CLI's ProtoHandler path, which bypasses the client library's conversion to
	// paths and scalars). The printed responses are replayed by the harness's own
	// indexing and value decoding and must give the same leaves.
	wantKeys := func() []string {
		var ks []string
		for k := range want {
			ks = append(ks, k)
		}
		sort.Strings(ks)
		return ks
	}
	for _, form := range []string{"flags", "proto", "proto_file"} {
		args := append(append(append([]string{}, common...), "-dt", "sp"), forms[form]...)
		stdout, stderr, err, timedOut := runCLI(cliBin, args)
		r.Count("cli_invocations_shortproto_"+form, 1)
		if timedOut {
			r.Inconclusive("gnmi_cli did not finish within 60 s")
			return false
		}
		if err != nil {
			w := wit()
			w["cli_args"] = args
			w["cli_stdout"] = tail(stdout, 800)
			w["cli_stderr"] = tail(stderr, 800)
			r.Violation(mode, trial, "cli-failed:"+form, fmt.Sprintf("gnmi_cli (%s form, shortproto display) exited with %v: %s", form, err, tail(stdout+stderr, 300)), w)
			return false
		}
		got := map[string]interface{}{}
		syncs, conflict := 0, ""
		for _, line := range strings.Split(stdout, "\n") {
			line = strings.TrimSpace(line)
			if line == "" || strings.HasPrefix(line, "//") {
				continue
			}
			resp := &gpb.SubscribeResponse{}
			if perr := prototext.Unmarshal([]byte(line), resp); perr != nil {
				r.Violation(mode, trial, "cli-output-unparseable", fmt.Sprintf("gnmi_cli shortproto output line is not a text-format SubscribeResponse: %v", perr), map[string]interface{}{"line": tail(line, 600)})
				return false
			}
			if resp.GetSyncResponse() {
				syncs++
				continue
			}
			n := resp.GetUpdate()
			pre := []string{n.GetPrefix().GetTarget()}
			if o := n.GetPrefix().GetOrigin(); o != "" {
				pre = append(pre, o)
			}
			pre = append(pre, pbIndex(n.GetPrefix())...)
			for _, u := range n.GetUpdate() {
				kp := append(append([]string{}, pre...), pbIndex(u.GetPath())...)
				if ignored(kp) {
					continue
				}
				k := model.Key(kp)
				v := decodeTV(u.GetVal())
				if prev, dup := got[k]; dup && !valuesEqual(prev, v) {
					conflict = strings.Join(kp, "/")
				}
				got[k] = v
			}
		}
		r.Count("cli_outputs_compared", 1)
		var diffs []string
		if conflict != "" {
			diffs = append(diffs, "conflicting values printed for "+conflict)
		}
		if syncs != 1 {
			diffs = append(diffs, fmt.Sprintf("%d sync responses printed", syncs))
		}
		for _, k := range wantKeys() {
			if gv, ok := got[k]; !ok {
				diffs = append(diffs, "missing "+strings.Join(model.Unkey(k), "/"))
			} else if !valuesEqual(gv, want[k]) {
				diffs = append(diffs, fmt.Sprintf("%s: printed %#v, want %#v", strings.Join(model.Unkey(k), "/"), gv, want[k]))
			}
		}
		for k, gv := range got {
			if _, ok := want[k]; !ok {
				diffs = append(diffs, fmt.Sprintf("extra %s=%#v", strings.Join(model.Unkey(k), "/"), gv))
			}
		}
		if len(diffs) > 0 {
			sort.Strings(diffs)
			if len(diffs) > 8 {
				diffs = diffs[:8]
			}
			w := wit()
			w["queries"] = qstrs
			r.Violation(mode, trial, "cli-output-differs:"+form, fmt.Sprintf("gnmi_cli %s form, shortproto display, queries %v on %s: %s", form, qstrs, s.name, strings.Join(diffs, "; ")), w)
			return false
		}
	}
	// POLL through the CLI: two rounds, group display; the streams are quiescent, so
	// both printed trees must be the final state.
	slp := proto.Clone(sl).(*gpb.SubscriptionList)
	slp.Mode = gpb.SubscriptionList_POLL
	ptxtP := prototext.MarshalOptions{Multiline: false}.Format(&gpb.SubscribeRequest{Request: &gpb.SubscribeRequest_Subscribe{Subscribe: slp}})
	pfileP := filepath.Join(sc.dir, fmt.Sprintf("req-poll-%s.txt", s.name))
	os.WriteFile(pfileP, []byte(ptxtP), 0o600)
	pollForms := map[string][]string{
		"flags":      {"-t", s.name, "-q", strings.Join(flagQ, ","), "-qt", "polling", "-d", delim},
		"proto":      {"-proto", ptxtP},
		"proto_file": {"-proto_file", pfileP},
	}
	pf := []string{"flags", "proto", "proto_file"}[rng.Intn(3)]
	{
		args := append(append(append([]string{}, common...), "-dt", "group", "-pi", "20ms", "-c", "2"), pollForms[pf]...)
		stdout, stderr, err, timedOut := runCLI(cliBin, args)
		r.Count("cli_invocations_poll_"+pf, 1)
		if timedOut {
			r.Inconclusive("gnmi_cli did not finish within 60 s")
			return false
		}
		if err != nil {
			w := wit()
			w["cli_args"] = args
			w["cli_stdout"] = tail(stdout, 800)
			w["cli_stderr"] = tail(stderr, 800)
			r.Violation(mode, trial, "cli-failed:"+pf, fmt.Sprintf("gnmi_cli (%s form, POLL x2, group display) exited with %v: %s", pf, err, tail(stdout+stderr, 300)), w)
			return false
		}
		groups, perr := parseGroups(stdout)
		if perr != nil {
			r.Violation(mode, trial, "cli-output-unparseable", fmt.Sprintf("gnmi_cli group output (POLL) cannot be parsed: %v", perr), map[string]interface{}{"stdout": tail(stdout, 1500)})
			return false
		}
		wantR := map[string]string{}
		for k, v := range want {
			wantR[k] = renderGroup(v)
		}
		var diffs []string
		if len(groups) != 2 {
			diffs = append(diffs, fmt.Sprintf("%d trees printed for -count 2", len(groups)))
		}
		for gi, got := range groups {
			for k := range got {
				if kp := model.Unkey(k); ignored(kp) {
					delete(got, k)
				}
			}
			for k, wv := range wantR {
				if gv, ok := got[k]; !ok {
					diffs = append(diffs, fmt.Sprintf("round %d: missing %s", gi+1, show(k, "group")))
				} else if gv != wv {
					diffs = append(diffs, fmt.Sprintf("round %d: %s: printed %s, want %s", gi+1, show(k, "group"), gv, wv))
				}
			}
			for k, gv := range got {
				if _, ok := wantR[k]; !ok {
					diffs = append(diffs, fmt.Sprintf("round %d: extra %s=%s", gi+1, show(k, "group"), gv))
				}
			}
		}
		r.Count("cli_outputs_compared", 1)
		if len(diffs) > 0 {
			sort.Strings(diffs)
			if len(diffs) > 8 {
				diffs = diffs[:8]
			}
			w := wit()
			w["queries"] = qstrs
			r.Violation(mode, trial, "cli-output-differs:"+pf, fmt.Sprintf("gnmi_cli %s form, POLL x2, group display, queries %v on %s: %s", pf, qstrs, s.name, strings.Join(diffs, "; ")), w)
			return false
		}
	}
	return true
}

func runCLI(cliBin string, args []string) (string, string, error, bool) {
	cctx, cancel := context.WithTimeout(context.Background(), 60*time.Second)
	defer cancel()
	cmd := exec.CommandContext(cctx, cliBin, args...)
	var stdout, stderr bytes.Buffer
	cmd.Stdout, cmd.Stderr = &stdout, &stderr
	err := cmd.Run()
	return stdout.String(), stderr.String(), err, cctx.Err() == context.DeadlineExceeded
}

// pbIndex is the harness's own index form of a path: elem names followed by
// their key values in key-name order; the deprecated element strings when no
// elem is present.
func pbIndex(p *gpb.Path) []string {
	var out []string
	if len(p.GetElem()) == 0 {
		return append(out, p.GetElement()...)
	}
	for _, e := range p.GetElem() {
		out = append(out, e.GetName())
		var ks []string
		for k := range e.GetKey() {
			ks = append(ks, k)
		}
		sort.Strings(ks)
		for _, k := range ks {
			out = append(out, e.GetKey()[k])
		}
	}
	return out
}

// decodeTV is the inverse of the generator's hand encoding.
func decodeTV(tv *gpb.TypedValue) interface{} {
	switch v := tv.GetValue().(type) {
	case *gpb.TypedValue_StringVal:
		return v.StringVal
	case *gpb.TypedValue_IntVal:
		return v.IntVal
	case *gpb.TypedValue_UintVal:
		return v.UintVal
	case *gpb.TypedValue_BoolVal:
		return v.BoolVal
	case *gpb.TypedValue_DoubleVal:
		return v.DoubleVal
	case *gpb.TypedValue_FloatVal:
		return v.FloatVal
	case *gpb.TypedValue_BytesVal:
		return v.BytesVal
	case *gpb.TypedValue_LeaflistVal:
		var out []interface{}
		for _, e := range v.LeaflistVal.GetElement() {
			out = append(out, decodeTV(e))
		}
		return out
	}
	return fmt.Sprintf("undecoded:%v", tv)
}

// parseGroups splits a CLI output holding several group displays (one per
// poll round) and parses each.
func parseGroups(out string) ([]map[string]string, error) {
	var res []map[string]string
	var cur []string
	for _, line := range strings.Split(out, "\n") {
		if strings.HasPrefix(line, "//") {
			continue
		}
		cur = append(cur, line)
		if line == "}" {
			g, err := parseGroup(strings.Join(cur, "\n"))
			if err != nil {
				return nil, err
			}
			res = append(res, g)
			cur = nil
		}
	}
	if strings.TrimSpace(strings.Join(cur, "")) != "" {
		return nil, fmt.Errorf("trailing output %q", tail(strings.Join(cur, "\n"), 200))
	}
	return res, nil
}

func show(k, dt string) string {
	if dt == "group" {
		return strings.Join(model.Unkey(k), "/")
	}
	return k
}

func tail(s string, n int) string {
	if len(s) > n {
		return s[len(s)-n:]
	}
	return s
}

func prepare(tier, work string) error {
	repo := os.Getenv("VERIF_REPO")
	if repo == "" {
		repo = "/repo"
	}
	for _, b := range []string{"gnmi_collector", "gnmi_cli"} {
		cmd := exec.Command("go", "build", "-tags", "verif", "-o", filepath.Join(work, b), "./cmd/"+b)
		cmd.Dir = repo
		cmd.Env = append(os.Environ(), "GOFLAGS=-mod=mod", "GOPROXY=off", "GOSUMDB=off", "GOTOOLCHAIN=local")
		if out, err := cmd.CombinedOutput(); err != nil {
			return fmt.Errorf("building %s from %s: %v: %s", b, repo, err, out)
		}
	}
	return nil
}

func body(r *vlib.Run) {
	r.ForTrials("relay", r.N(48, 2400), func(trial int, rng *rand.Rand) { runScenario(r, "relay", trial, rng) })
	r.ForTrials("pathorigin", r.N(4, 80), func(trial int, rng *rand.Rand) { runScenario(r, "pathorigin", trial, rng) })
	r.ForTrials("reconnect", r.N(12, 360), func(trial int, rng *rand.Rand) { runScenario(r, "reconnect", trial, rng) })
	r.ForTrials("pollclient", r.N(12, 360), func(trial int, rng *rand.Rand) { runScenario(r, "pollclient", trial, rng) })
}

func main() {
	vlib.Main(&vlib.Spec{
		ID:   "C01",
		Rule: "Each scenario builds nothing itself: the real gnmi_collector and gnmi_cli binaries are built from the working tree once per run. 1-3 scripted TLS gNMI targets stream 5-40 generated notifications each (plain / keyed (1-3 keys) / deprecated-encoding paths split between prefix and path, origins empty / openconfig / custom, every scalar arm and leaf-lists, multi-update notifications, exact / subtree / keyed deletes, a sync at a seeded position, then a nonce sentinel); the collector is configured with shared or distinct requests, half of the scenarios with periodic metadata/size refresh on. Observed: client-library CacheClient STREAM subscribers per target and for '*', and gnmi_cli ONCE in group and single display invoked three equivalent ways (flags, -proto, -proto_file). A scenario is distinct non-trivial when all views were compared with the model (hash of mode, trial, targets, final leaf count). Mode pathorigin puts the origin into update paths (input class of known finding D19).",
		Assumptions: []string{
			"the model (map from index path [target, origin-or-openconfig, elems and key values ordered by key name] to the Go scalar the generator chose before hand-encoding it) is the specification of a target's final state",
			"quiescence is logical (nonce sentinel seen by every observer); a sentinel not seen within 60 s is inconclusive unless the collector's log shows dropped updates or the subscription was refused",
			"a notification's deletes never cover paths updated by the same notification; timestamps strictly increase; atomic groups are written once into a container of their own and never shrink or get deleted; value-less updates are noise no view is compared on; path element names contain no '/' or '\"'",
			"the collector's own meta/ subtree is excluded from every comparison",
		},
		QuickShards: 8, ThoroughShards: 16,
		MinDistinctQuick: 10, MinDistinctThorough: 300,
		Prepare: prepare,
		Body:    body,
	})
}
