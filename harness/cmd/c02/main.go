// C02 — Cache keeps the newest value per leaf (timestamp discipline).
//
// Sequential reference-model differential. Every notification of every
// history is sent to a real cache.Cache (cache.Now replaced by a virtual
// clock) and to a small model written from the property statement: per
// target a map index-path -> stored message plus the latest accepted
// non-metadata timestamp. After every step the value returned by
// Cache.GnmiUpdate must be of the class the model predicts (accepted /
// stale / future) and the full content of every target
// (Cache.Query(target, ["*"]): path, timestamp, whole stored message) must
// equal the model's.
package main

import (
	"errors"
	"fmt"
	"math/rand"
	"runtime/debug"
	"sort"
	"strings"
	"time"

	"google.golang.org/protobuf/proto"

	"github.com/openconfig/gnmi/cache"
	"github.com/openconfig/gnmi/ctree"
	pb "github.com/openconfig/gnmi/proto/gnmi"

	"verif/internal/gen"
	"verif/internal/model"
	"verif/internal/vlib"
)

// ---------------------------------------------------------------- clock ----

// vnow is the reading of the virtual clock (ns since the epoch). The harness
// is single-goroutine, so a plain variable is enough.
var vnow int64

func virtualNow() time.Time { return time.Unix(0, vnow) }

// ---------------------------------------------------------------- model ----

// tmodel is the specification of one target.
type tmodel struct {
	leaves    map[string]*pb.Notification // model.Key(index path) -> stored message
	latest    int64                       // greatest accepted non-metadata timestamp since the last Reset
	hasLatest bool
	deleted   map[string]bool // keys that were removed at least once (for the re-add counter)
}

func newTModel() *tmodel {
	return &tmodel{leaves: map[string]*pb.Notification{}, deleted: map[string]bool{}}
}

// outcome is what the model predicts for one GnmiUpdate call.
type outcome struct {
	rejections []string // class of every rejected update in order: "stale" | "future"
	nUpdates   int
	branches   []string // decision branches taken (evidence counters)
}

const metaRoot = "meta"

// update decides one update (piece is the message that would be stored).
func (m *tmodel) update(key string, piece *pb.Notification, now, f int64) (class, branch string) {
	old, ok := m.leaves[key]
	t := piece.GetTimestamp()
	if !ok {
		// New leaf (never seen or deleted since): always stored.
		m.leaves[key] = piece
		if m.deleted[key] {
			return "ok", "new_leaf_readd_after_delete"
		}
		return "ok", "new_leaf"
	}
	s := old.GetTimestamp()
	switch {
	case t < s:
		return "stale", "stale_older"
	case t == s:
		if proto.Equal(old, piece) {
			return "stale", "stale_identical"
		}
		m.leaves[key] = piece
		return "ok", "replace_same_timestamp"
	}
	// Strictly newer than the stored one.
	branch = "replace_newer"
	if f > 0 {
		switch {
		case t-now <= f:
			branch = "replace_newer_within_threshold_of_clock"
		case !m.hasLatest:
			branch = "replace_newer_ahead_of_clock_no_latest_yet"
		case t-m.latest <= f:
			branch = "replace_newer_ahead_of_clock_within_threshold_of_latest"
		default:
			return "future", "future_rejected"
		}
	}
	m.leaves[key] = piece
	return "ok", branch
}

// remove applies one delete at time t of (wildcard) path q.
func (m *tmodel) remove(q []string, t int64) (branches []string) {
	matched := false
	for k, old := range m.leaves {
		if !model.MatchQ(q, model.Unkey(k)) {
			continue
		}
		matched = true
		switch s := old.GetTimestamp(); {
		case s < t:
			delete(m.leaves, k)
			m.deleted[k] = true
			branches = append(branches, "delete_removed_older_leaf")
		case s == t:
			branches = append(branches, "delete_kept_leaf_same_timestamp")
		default:
			branches = append(branches, "delete_kept_newer_leaf")
		}
	}
	if !matched {
		branches = append(branches, "delete_matched_nothing")
	}
	return branches
}

// apply runs one notification through the model at clock reading now.
func (m *tmodel) apply(in *pb.Notification, now, f int64) outcome {
	n := proto.Clone(in).(*pb.Notification) // the model never aliases what the real cache holds
	var out outcome
	t := n.GetTimestamp()
	accepted := false
	isMeta := false
	note := func(class, branch string) {
		out.nUpdates++
		out.branches = append(out.branches, branch)
		if class == "ok" {
			accepted = true
		} else {
			out.rejections = append(out.rejections, class)
		}
	}
	if n.GetAtomic() {
		if len(n.GetUpdate()) == 0 {
			return out
		}
		idx := model.CacheIndex(n.GetPrefix(), nil)
		isMeta = idx[0] == metaRoot
		c, b := m.update(model.Key(idx), n, now, f)
		note(c, "atomic_"+b)
	} else {
		single := len(n.GetUpdate())+len(n.GetDelete()) == 1
		for i, u := range n.GetUpdate() {
			idx := model.CacheIndex(n.GetPrefix(), u.GetPath())
			if i == 0 {
				isMeta = idx[0] == metaRoot
			}
			piece := n
			if !single {
				piece = &pb.Notification{Timestamp: t, Prefix: n.GetPrefix(), Update: []*pb.Update{u}}
			}
			c, b := m.update(model.Key(idx), piece, now, f)
			note(c, b)
		}
		for _, d := range n.GetDelete() {
			out.branches = append(out.branches, m.remove(model.CacheIndex(n.GetPrefix(), d), t)...)
		}
	}
	// latest: once per call that accepted at least one update, after the call.
	if accepted && !isMeta {
		if !m.hasLatest || t > m.latest {
			m.latest = t
		}
		m.hasLatest = true
	}
	return out
}

// reset is Cache.Reset: every non-metadata leaf goes, latest is forgotten.
func (m *tmodel) reset() {
	for k := range m.leaves {
		if model.Unkey(k)[0] != metaRoot {
			delete(m.leaves, k)
			m.deleted[k] = true
		}
	}
	m.latest, m.hasLatest = 0, false
}

// ------------------------------------------------------------- rendering ---

func renderPath(p *pb.Path) string {
	if p == nil {
		return "-"
	}
	var b strings.Builder
	if len(p.GetElem()) > 0 {
		b.WriteString("E:")
		for i, e := range p.GetElem() {
			if i > 0 {
				b.WriteByte('/')
			}
			b.WriteString(e.GetName())
			ks := make([]string, 0, len(e.GetKey()))
			for k := range e.GetKey() {
				ks = append(ks, k)
			}
			sort.Strings(ks)
			for _, k := range ks {
				fmt.Fprintf(&b, "[%s=%s]", k, e.GetKey()[k])
			}
		}
	} else {
		b.WriteString("D:" + strings.Join(p.GetElement(), "/"))
	}
	return b.String()
}

func renderVal(v *pb.TypedValue) string {
	switch x := v.GetValue().(type) {
	case *pb.TypedValue_StringVal:
		return fmt.Sprintf("%q", x.StringVal)
	case *pb.TypedValue_IntVal:
		return fmt.Sprintf("%d", x.IntVal)
	case nil:
		return "nil"
	}
	return fmt.Sprintf("%v", v)
}

// renderN is a stable, compact rendering of a notification (witness, hash).
func renderN(n *pb.Notification) string {
	if n == nil {
		return "<nil>"
	}
	var b strings.Builder
	fmt.Fprintf(&b, "ts=%d target=%s", n.GetTimestamp(), n.GetPrefix().GetTarget())
	if o := n.GetPrefix().GetOrigin(); o != "" {
		fmt.Fprintf(&b, " origin=%s", o)
	}
	if len(n.GetPrefix().GetElem())+len(n.GetPrefix().GetElement()) > 0 {
		fmt.Fprintf(&b, " prefix=%s", renderPath(n.GetPrefix()))
	}
	if n.GetAtomic() {
		b.WriteString(" ATOMIC")
	}
	for _, u := range n.GetUpdate() {
		fmt.Fprintf(&b, " upd(%s=%s)", renderPath(u.GetPath()), renderVal(u.GetVal()))
	}
	for _, d := range n.GetDelete() {
		fmt.Fprintf(&b, " del(%s)", renderPath(d))
	}
	return b.String()
}

type step struct {
	Reset  bool
	Target string
	Now    int64
	N      *pb.Notification
}

func (s step) String() string {
	if s.Reset {
		return fmt.Sprintf("now=%d Reset(%s)", s.Now, s.Target)
	}
	return fmt.Sprintf("now=%d %s", s.Now, renderN(s.N))
}

func renderSteps(steps []step) []string {
	out := make([]string, len(steps))
	for i, s := range steps {
		out[i] = s.String()
	}
	return out
}

func renderLeaves(m map[string]*pb.Notification) []string {
	out := make([]string, 0, len(m))
	for k, n := range m {
		out = append(out, strings.Join(model.Unkey(k), "/")+" <- "+renderN(n))
	}
	sort.Strings(out)
	return out
}

// ---------------------------------------------------------------- driver ---

type config struct {
	F           int64 `json:"future_threshold_ns"`
	EventDriven bool  `json:"event_driven_emulation"`
}

type mismatch struct {
	sig, what string
	real      map[string][]string
	want      map[string][]string
}

// harnessMeta are the metadata-root leaves the harness itself writes; every
// other leaf under "meta" is generated by the cache (Reset) and is not part
// of the comparison.
func harnessOwned(p []string) bool {
	if len(p) == 0 || p[0] != metaRoot {
		return true
	}
	return len(p) == 2 && (p[1] == "hx" || p[1] == "hy")
}

func classOf(err error) string {
	switch {
	case err == nil:
		return "ok"
	case errors.Is(err, cache.ErrStale):
		return "stale"
	case errors.Is(err, cache.ErrFuture):
		return "future"
	}
	return "error"
}

// errClasses flattens the value returned by GnmiUpdate into rejection classes.
func errClasses(err error) []string {
	if err == nil {
		return nil
	}
	if el, isList := err.(interface{ Errors() []error }); isList {
		var out []string
		for _, e := range el.Errors() {
			out = append(out, classOf(e))
		}
		return out
	}
	return []string{classOf(err)}
}

// checkReturn compares the error returned by GnmiUpdate with the model's
// outcome: the multiset of rejection classes must be the model's. diff names
// the first difference ("unexpected-stale": the call rejected an update the
// model accepts; "missed-future": the model rejects, the call did not).
func checkReturn(err error, o outcome) (got, want, diff string) {
	render := func(l []string) string {
		if len(l) == 0 {
			return "accepted"
		}
		l = append([]string{}, l...)
		sort.Strings(l)
		return strings.Join(l, "+")
	}
	g, w := errClasses(err), o.rejections
	cnt := map[string]int{}
	for _, c := range g {
		cnt[c]++
	}
	for _, c := range w {
		cnt[c]--
	}
	for _, c := range []string{"error", "stale", "future"} {
		if cnt[c] > 0 {
			diff = "unexpected-" + c
			break
		}
	}
	if diff == "" {
		for _, c := range []string{"stale", "future"} {
			if cnt[c] < 0 {
				diff = "missed-" + c
				break
			}
		}
	}
	return render(g), render(w), diff
}

// observe reads the full content of one target.
func observe(c *cache.Cache, target string) (leaves map[string]*pb.Notification, problem string) {
	leaves = map[string]*pb.Notification{}
	err := c.Query(target, []string{"*"}, func(p []string, _ *ctree.Leaf, v interface{}) error {
		if !harnessOwned(p) {
			return nil
		}
		k := model.Key(p)
		n, ok := v.(*pb.Notification)
		if !ok {
			problem = fmt.Sprintf("leaf %v holds a %T, not a notification", p, v)
			return nil
		}
		if _, dup := leaves[k]; dup {
			problem = fmt.Sprintf("leaf %v reported twice by one query", p)
		}
		leaves[k] = n
		return nil
	})
	if err != nil {
		problem = fmt.Sprintf("Query(%s, [*]) failed: %v", target, err)
	}
	return leaves, problem
}

func compareContent(c *cache.Cache, targets []string, models map[string]*tmodel, after string) *mismatch {
	for _, tg := range targets {
		got, problem := observe(c, tg)
		m := models[tg]
		sig, what := "", ""
		switch {
		case problem != "":
			sig, what = "content:query", problem
		default:
			keys := map[string]bool{}
			for k := range got {
				keys[k] = true
			}
			for k := range m.leaves {
				keys[k] = true
			}
			sorted := make([]string, 0, len(keys))
			for k := range keys {
				sorted = append(sorted, k)
			}
			sort.Strings(sorted)
			for _, k := range sorted {
				g, gok := got[k]
				w, wok := m.leaves[k]
				p := strings.Join(model.Unkey(k), "/")
				switch {
				case !gok:
					sig, what = "content:leaf-missing", fmt.Sprintf("target %s: leaf %s is gone, the model holds {%s}", tg, p, renderN(w))
				case !wok:
					sig, what = "content:leaf-not-removed-or-unexpected", fmt.Sprintf("target %s: leaf %s holds {%s}, the model holds nothing there", tg, p, renderN(g))
				case g.GetTimestamp() != w.GetTimestamp():
					sig, what = "content:timestamp", fmt.Sprintf("target %s: leaf %s holds {%s}, the model holds {%s}", tg, p, renderN(g), renderN(w))
				case !proto.Equal(g, w):
					sig, what = "content:message", fmt.Sprintf("target %s: leaf %s holds {%s}, the model holds {%s} (same timestamp, different message)", tg, p, renderN(g), renderN(w))
				}
				if sig != "" {
					break
				}
			}
		}
		if sig != "" {
			return &mismatch{sig: sig + ":after-" + after, what: what,
				real: map[string][]string{tg: renderLeaves(got)}, want: map[string][]string{tg: renderLeaves(m.leaves)}}
		}
	}
	return nil
}

type stats struct {
	branches  map[string]int
	callbacks int
	steps     int
}

func stepKind(s step) string {
	switch {
	case s.Reset:
		return "reset"
	case s.N.GetAtomic():
		return "atomic"
	case len(s.N.GetUpdate())+len(s.N.GetDelete()) > 1:
		return "multi"
	case len(s.N.GetUpdate()) == 1:
		return "update"
	case len(s.N.GetDelete()) == 1:
		return "delete"
	}
	return "empty"
}

// runHistory executes the steps on a fresh real cache and on the model and
// compares after every step.
func runHistory(cfg config, targets []string, steps []step) (mm *mismatch, at int, st stats) {
	st.branches = map[string]int{}
	opts := []cache.Option{}
	if cfg.F != 0 {
		opts = append(opts, cache.WithFutureThreshold(time.Duration(cfg.F)))
	}
	if !cfg.EventDriven {
		opts = append(opts, cache.DisableEventDrivenEmulation())
	}
	vnow = 0
	c := cache.New(targets, opts...)
	c.SetClient(func(*ctree.Leaf) { st.callbacks++ })
	models := map[string]*tmodel{}
	for _, tg := range targets {
		models[tg] = newTModel()
	}
	for i, s := range steps {
		vnow = s.Now
		st.steps++
		kind := stepKind(s)
		m := models[s.Target]
		if s.Reset {
			m.reset()
			if p := safely(func() { c.Reset(s.Target) }); p != "" {
				return &mismatch{sig: "panic:reset", what: "Reset panicked: " + p}, i, st
			}
			st.branches["reset"]++
		} else {
			o := m.apply(s.N, s.Now, cfg.F)
			var err error
			if p := safely(func() { err = c.GnmiUpdate(s.N) }); p != "" {
				return &mismatch{sig: "panic:" + kind, what: "GnmiUpdate panicked: " + p}, i, st
			}
			for _, b := range o.branches {
				st.branches[b]++
			}
			if got, want, diff := checkReturn(err, o); diff != "" {
				return &mismatch{sig: fmt.Sprintf("return:%s:%s", kind, diff),
					what: fmt.Sprintf("GnmiUpdate returned %v (class %s), the model decides %s (branches %v)", err, got, want, o.branches)}, i, st
			}
		}
		if mm := compareContentSafe(c, targets, models, kind); mm != nil {
			return mm, i, st
		}
	}
	return nil, -1, st
}

func compareContentSafe(c *cache.Cache, targets []string, models map[string]*tmodel, after string) (mm *mismatch) {
	defer func() {
		if r := recover(); r != nil {
			mm = &mismatch{sig: "panic:query", what: fmt.Sprintf("Query panicked: %v", r)}
		}
	}()
	return compareContent(c, targets, models, after)
}

func safely(f func()) (panicked string) {
	defer func() {
		if r := recover(); r != nil {
			panicked = fmt.Sprint(r)
		}
	}()
	f()
	return ""
}

func report(r *vlib.Run, mode string, trial int, cfg config, targets []string, steps []step, at int, mm *mismatch) {
	ss := renderSteps(steps)
	shown := ss
	if at >= 0 && at+1 < len(shown) {
		shown = shown[:at+1]
	}
	if len(shown) > 12 {
		shown = append([]string{fmt.Sprintf("… %d earlier steps …", len(shown)-12)}, shown[len(shown)-12:]...)
	}
	r.Violation(mode, trial, mm.sig,
		fmt.Sprintf("config %+v, step %d {%s}: %s; history up to the step: %v", cfg, at, ss[at], mm.what, shown),
		map[string]interface{}{"config": cfg, "targets": targets, "steps": ss, "failed_at_step": at, "real_content": mm.real, "model_content": mm.want})
}

func countStats(r *vlib.Run, prefix string, st stats) {
	for b, n := range st.branches {
		r.Count(prefix+"decision_"+b, int64(n))
	}
	r.Count(prefix+"steps", int64(st.steps))
	r.Count(prefix+"client_callbacks", int64(st.callbacks))
}

// ------------------------------------------------------------ exhaustive ---

type exhOp struct {
	label string
	reset bool
	mk    func(dep bool) *pb.Notification
}

const exhTarget = "dev"

// exhAlphabet: 2 paths (a/b, a/c) x 3 timestamps x 2 values of updates,
// exact / subtree / wildcard deletes x 3 timestamps, Reset.
func exhAlphabet() []exhOp {
	var al []exhOp
	tss := []int64{10, 20, 30}
	for _, leaf := range []string{"b", "c"} {
		for _, ts := range tss {
			for _, v := range []string{"x", "y"} {
				leaf, ts, v := leaf, ts, v
				al = append(al, exhOp{label: fmt.Sprintf("upd(a/%s@%d=%s)", leaf, ts, v), mk: func(dep bool) *pb.Notification {
					return gen.Update(exhTarget, "", ts, nil, gen.Path(dep, "a", leaf), gen.S(v))
				}})
			}
		}
	}
	for _, q := range [][]string{{"a", "b"}, {"a"}, {"*", "c"}} {
		for _, ts := range tss {
			q, ts := q, ts
			al = append(al, exhOp{label: fmt.Sprintf("del(%s@%d)", strings.Join(q, "/"), ts), mk: func(dep bool) *pb.Notification {
				return gen.Delete(exhTarget, "", ts, nil, gen.Path(dep, q...))
			}})
		}
	}
	al = append(al, exhOp{label: "reset", reset: true})
	return al
}

type exhConfig struct {
	cfg     config
	now     int64 // reading of the virtual clock during the whole history
	dep     bool  // deprecated element encoding of the paths
	primary bool  // explored one operation deeper than the others
}

// exhConfigs: future threshold and clock (off; 10 ns with the clock at 0, so
// that timestamp 10 is within the threshold of the clock and 20, 30 are ahead
// of it, and a step of 10 over latest is on the boundary; 10 ns with the clock
// at 20, so that 30 is exactly on the boundary of the clock) x event-driven
// emulation x path encoding. Four of the twelve, covering every value of
// every dimension, are the primary ones.
func exhConfigs() []exhConfig {
	var out []exhConfig
	for fi, fc := range [][2]int64{{0, 0}, {10, 0}, {10, 20}} {
		for _, ed := range []bool{true, false} {
			for _, dep := range []bool{false, true} {
				primary := false
				switch fi {
				case 0:
					primary = !ed && !dep
				case 1:
					primary = ed != dep
				case 2:
					primary = ed && dep
				}
				out = append(out, exhConfig{cfg: config{F: fc[0], EventDriven: ed}, now: fc[1], dep: dep, primary: primary})
			}
		}
	}
	return out
}

func nontrivialExh(st stats) bool {
	for b := range st.branches {
		switch {
		case strings.HasPrefix(b, "stale_"), strings.HasPrefix(b, "replace_"), b == "future_rejected",
			b == "delete_removed_older_leaf", b == "delete_kept_leaf_same_timestamp", b == "delete_kept_newer_leaf":
			return true
		}
	}
	return false
}

func exhaustive(r *vlib.Run) {
	al := exhAlphabet()
	cfgs := exhConfigs()
	primaryLen := r.N(4, 5)
	idx := 0
	var nRun, nNontrivial int64
	sampled := 0
	agg := stats{branches: map[string]int{}}
	for ci, ec := range cfgs {
		maxLen := primaryLen
		if !ec.primary {
			maxLen--
		}
		var rec func(seq []int)
		rec = func(seq []int) {
			if len(seq) > 0 {
				mine := r.Mine(idx)
				idx++
				if mine {
					steps := make([]step, len(seq))
					labels := make([]string, len(seq))
					for i, oi := range seq {
						o := al[oi]
						labels[i] = o.label
						steps[i] = step{Reset: o.reset, Target: exhTarget, Now: ec.now}
						if !o.reset {
							steps[i].N = o.mk(ec.dep)
						}
					}
					mm, at, st := runHistory(ec.cfg, []string{exhTarget}, steps)
					r.Eval(1)
					nRun++
					nt := nontrivialExh(st)
					if mm != nil {
						report(r, "exhaustive", idx-1, ec.cfg, []string{exhTarget}, steps, at, mm)
					} else if nt {
						nNontrivial++
						// Memory bound of the distinct set: histories of length 5 enter it
						// one in eight (by hash); all of them are counted in exh_nontrivial_histories.
						if h := vlib.Hash("exh", ci, strings.Join(labels, " ")); len(seq) <= 4 || h%8 == 0 {
							r.Distinct(h)
						}
					}
					for b, n := range st.branches {
						agg.branches[b] += n
					}
					agg.steps += st.steps
					agg.callbacks += st.callbacks
					if sampled < 2 && r.WantSample() && len(seq) == maxLen && (idx-1)%100003 < r.Shards && nt {
						sampled++
						r.Sample(map[string]interface{}{"mode": "exhaustive", "index": idx - 1, "config": ec.cfg, "clock": ec.now, "deprecated_element_encoding": ec.dep, "history": labels})
					}
				}
			}
			if len(seq) == maxLen {
				return
			}
			for oi := range al {
				rec(append(seq, oi))
			}
		}
		rec(nil)
	}
	countStats(r, "exh_", agg)
	r.Count("exh_histories", nRun)
	r.Count("exh_nontrivial_histories", nNontrivial)
	if r.Shard == 0 {
		r.Count("exh_alphabet_size", int64(len(al)))
		r.Count("exh_configs", int64(len(cfgs)))
		r.Count("exh_max_len_primary_configs", int64(primaryLen))
		r.Count("exh_max_len_other_configs", int64(primaryLen-1))
	}
}

// ---------------------------------------------------------------- random ---

type kv struct{ k, v string }

type seg struct {
	name string
	keys []kv // sorted by key name
}

type lpath []seg

func (p lpath) index() []string {
	var out []string
	for _, s := range p {
		out = append(out, s.name)
		for _, k := range s.keys {
			out = append(out, k.v)
		}
	}
	return out
}

// toPB encodes segments [from, to) in the elem or the deprecated element encoding.
func (p lpath) toPB(from, to int, dep bool) *pb.Path {
	if dep {
		return &pb.Path{Element: lpath(p[from:to]).index()}
	}
	out := &pb.Path{}
	for _, s := range p[from:to] {
		e := &pb.PathElem{Name: s.name}
		if len(s.keys) > 0 {
			e.Key = map[string]string{}
			for _, k := range s.keys {
				e.Key[k.k] = k.v
			}
		}
		out.Elem = append(out.Elem, e)
	}
	return out
}

func randSeg(rng *rand.Rand) seg {
	switch rng.Intn(8) {
	case 0:
		return seg{name: "l", keys: []kv{{"k", []string{"1", "2"}[rng.Intn(2)]}}}
	case 1:
		return seg{name: "m", keys: []kv{{"x", []string{"1", "2"}[rng.Intn(2)]}, {"y", "9"}}}
	}
	return seg{name: []string{"a", "b", "c"}[rng.Intn(3)]}
}

func prefixFree(set [][]string, p []string) bool {
	for _, q := range set {
		if model.IsProperPrefix(q, p) || model.IsProperPrefix(p, q) || model.Key(p) == model.Key(q) {
			return false
		}
	}
	return true
}

type world struct {
	rng      *rand.Rand
	paths    []lpath // prefix-free data paths
	atomic   []bool  // path i is (mostly) written as an atomic container
	metas    []lpath // harness-owned metadata paths (may be empty)
	origin   string
	targets  []string
	tsPool   []int64
	nowPool  []int64
	encMode  int // 0 elem, 1 deprecated, 2 mixed
	earlier  []*pb.Notification
	cfg      config
	farStamp int64
	dup      uint32 // every update of this world carries this value in its (peer-settable) duplicates field
}

const tsBase = int64(10_000_000)

func newWorld(rng *rand.Rand) *world {
	w := &world{rng: rng}
	if rng.Intn(4) == 0 {
		w.dup = uint32(1 + rng.Intn(9))
	}
	// Path table: 2-5 prefix-free paths of 1-3 segments.
	want := 2 + rng.Intn(4)
	var idxs [][]string
	for tries := 0; len(w.paths) < want && tries < 60; tries++ {
		d := 1 + rng.Intn(3)
		var p lpath
		// Share parents often: start from a prefix of an existing path.
		if len(w.paths) > 0 && rng.Intn(3) > 0 {
			src := w.paths[rng.Intn(len(w.paths))]
			p = append(p, src[:rng.Intn(len(src))]...)
		}
		for len(p) < d {
			p = append(p, randSeg(rng))
		}
		ix := p.index()
		if ix[0] == metaRoot || !prefixFree(idxs, ix) {
			continue
		}
		idxs = append(idxs, ix)
		w.paths = append(w.paths, p)
		w.atomic = append(w.atomic, false)
	}
	if rng.Intn(2) == 0 {
		w.atomic[rng.Intn(len(w.paths))] = true
	}
	if rng.Intn(4) == 0 {
		w.origin = "oc"
	}
	if w.origin == "" && rng.Intn(3) == 0 {
		w.metas = append(w.metas, lpath{{name: metaRoot}, {name: "hx"}})
		if rng.Intn(2) == 0 {
			w.metas = append(w.metas, lpath{{name: metaRoot}, {name: "hy"}})
		}
	}
	w.targets = []string{"t0"}
	if rng.Intn(3) == 0 {
		w.targets = append(w.targets, "t1")
	}
	// Timestamps: a window of 6-10 distinct values, 10 ns apart.
	nts := 6 + rng.Intn(5)
	for k := 0; k < nts; k++ {
		w.tsPool = append(w.tsPool, tsBase+10*int64(k))
	}
	w.farStamp = tsBase + 5_000_000
	// Future threshold: off, small (on the timestamp grid and off it), large.
	switch x := rng.Intn(10); {
	case x < 3:
		w.cfg.F = 0
	case x < 8:
		w.cfg.F = []int64{5, 10, 15, 20, 30}[rng.Intn(5)]
	default:
		w.cfg.F = 1_000_000
	}
	w.cfg.EventDriven = rng.Intn(2) == 0
	// Clock readings: well before, on, between and after the timestamps, and far in the past.
	w.nowPool = []int64{tsBase - 500, tsBase - 10, tsBase, tsBase + 5, tsBase + 10, tsBase + 20, tsBase + 35, tsBase + 500, tsBase - 3_000_000}
	w.encMode = rng.Intn(3)
	return w
}

func (w *world) dep() bool {
	switch w.encMode {
	case 0:
		return false
	case 1:
		return true
	}
	return w.rng.Intn(2) == 0
}

func (w *world) ts() int64 {
	if w.rng.Intn(25) == 0 {
		return w.farStamp
	}
	return w.tsPool[w.rng.Intn(len(w.tsPool))]
}

func (w *world) val() *pb.TypedValue {
	switch w.rng.Intn(3) {
	case 0:
		return gen.S("v0")
	case 1:
		return gen.S("v1")
	}
	return gen.I(7)
}

func (w *world) prefix(target string, p lpath, k int, dep bool) *pb.Path {
	pre := p.toPB(0, k, dep)
	pre.Target, pre.Origin = target, w.origin
	return pre
}

// update builds a single-update notification for path p with a random prefix split.
func (w *world) update(target string, p lpath, ts int64) *pb.Notification {
	k := 0
	if w.rng.Intn(3) == 0 {
		k = w.rng.Intn(len(p) + 1) // k == len(p): the whole path sits in the prefix
	}
	return &pb.Notification{Timestamp: ts, Prefix: w.prefix(target, p, k, w.dep()),
		Update: []*pb.Update{{Path: p.toPB(k, len(p), w.dep()), Val: w.val(), Duplicates: w.dup}}}
}

func (w *world) atomicUpdate(target string, p lpath, ts int64) *pb.Notification {
	n := &pb.Notification{Timestamp: ts, Atomic: true, Prefix: w.prefix(target, p, len(p), w.dep())}
	for i, cnt := 0, 1+w.rng.Intn(3); i < cnt; i++ {
		n.Update = append(n.Update, &pb.Update{Path: gen.Path(w.dep(), []string{"p", "q"}[w.rng.Intn(2)]), Val: w.val(), Duplicates: w.dup})
	}
	return n
}

// query derives a delete path (index form) from the path table: exact,
// subtree, wildcard, one glob past the leaf, or not matching anything.
func (w *world) query(all []lpath) []string {
	ix := append([]string{}, all[w.rng.Intn(len(all))].index()...)
	if w.origin != "" {
		ix = append([]string{w.origin}, ix...)
	}
	switch w.rng.Intn(10) {
	case 0, 1, 2: // exact
	case 3, 4: // subtree (possibly the whole target)
		ix = ix[:w.rng.Intn(len(ix))]
	case 5, 6: // wildcard(s)
		for i := range ix {
			if w.rng.Intn(2) == 0 {
				ix[i] = "*"
			}
		}
		if w.rng.Intn(3) == 0 {
			ix = ix[:1+w.rng.Intn(len(ix))]
		}
	case 7: // everything
		ix = []string{"*"}
	case 8: // a glob running one element past the leaf
		ix = append(ix, "*")
	case 9: // no match
		ix[w.rng.Intn(len(ix))] = "zz"
	}
	return ix
}

func (w *world) singleDelete(target string, all []lpath, ts int64) *pb.Notification {
	q := w.query(all)
	pre := &pb.Path{Target: target}
	if w.origin != "" {
		// The origin is the first index element; a query that globs or drops it
		// is sent without origin (the glob then stands for the origin itself).
		if len(q) > 0 && q[0] == w.origin {
			pre.Origin = w.origin
			q = q[1:]
		}
	}
	k := 0
	if len(q) > 0 && w.rng.Intn(3) == 0 {
		k = w.rng.Intn(len(q) + 1)
	}
	if w.dep() {
		pre.Element = append([]string{}, q[:k]...)
	} else {
		pre.Elem = gen.Elems(q[:k]...)
	}
	return &pb.Notification{Timestamp: ts, Prefix: pre, Delete: []*pb.Path{gen.Path(w.dep(), q[k:]...)}}
}

// multi builds a notification with 2-4 items (updates and deletes) sharing
// an element-less prefix. Deletes never cover a path updated by the same
// notification, so the verdict does not depend on the order in which a
// notification's updates and deletes are applied.
func (w *world) multi(target string, pool []lpath, all []lpath, ts int64, allowDeletes bool) *pb.Notification {
	n := &pb.Notification{Timestamp: ts, Prefix: &pb.Path{Target: target, Origin: w.origin}}
	items := 2 + w.rng.Intn(3)
	var updated [][]string
	for i := 0; i < items; i++ {
		if allowDeletes && i > 0 && w.rng.Intn(3) == 0 {
			continue // decided below, once the updated paths are known
		}
		p := pool[w.rng.Intn(len(pool))]
		n.Update = append(n.Update, &pb.Update{Path: p.toPB(0, len(p), w.dep()), Val: w.val(), Duplicates: w.dup})
		ix := p.index()
		if w.origin != "" {
			ix = append([]string{w.origin}, ix...)
		}
		updated = append(updated, ix)
	}
	for len(n.Update)+len(n.Delete) < items {
		q := w.query(all)
		clash := false
		for _, u := range updated {
			if model.MatchQ(q, u) {
				clash = true
			}
		}
		if clash || (w.origin != "" && (len(q) == 0 || q[0] != w.origin)) {
			// Fall back to a delete that matches nothing.
			q = []string{"zz"}
			if w.origin != "" {
				q = []string{w.origin, "zz"}
			}
		}
		if w.origin != "" {
			q = q[1:]
		}
		n.Delete = append(n.Delete, gen.Path(w.dep(), q...))
	}
	return n
}

// derive clones an earlier notification and changes at most one aspect, so
// that identical / same-timestamp-different / one-tick-older-or-newer
// messages occur often.
func (w *world) derive() *pb.Notification {
	src := w.earlier[w.rng.Intn(len(w.earlier))]
	n := proto.Clone(src).(*pb.Notification)
	switch w.rng.Intn(6) {
	case 0: // verbatim duplicate
	case 1: // other value, same timestamp
		for _, u := range n.Update {
			u.Val = w.val()
		}
	case 2:
		n.Timestamp -= 10
	case 3:
		n.Timestamp += 10
	case 4: // same content, other encoding of the paths
		if len(n.Update) > 0 && !n.Atomic {
			for _, u := range n.Update {
				u.Path = flipEncoding(u.Path)
			}
		}
	case 5: // turn an update into a delete of the same path at the same timestamp (and vice versa keeps being a delete)
		if !n.Atomic && len(n.Update) == 1 && len(n.Delete) == 0 {
			n.Delete = []*pb.Path{n.Update[0].Path}
			n.Update = nil
			if w.rng.Intn(2) == 0 {
				n.Timestamp += 10
			}
		}
	}
	return n
}

// flipEncoding re-encodes a key-less path in the other encoding (index unchanged).
func flipEncoding(p *pb.Path) *pb.Path {
	if len(p.GetElem()) > 0 {
		return &pb.Path{Element: model.IndexPath(p)}
	}
	return &pb.Path{Elem: gen.Elems(p.GetElement()...)}
}

func (w *world) history(n int) []step {
	all := append(append([]lpath{}, w.paths...), w.metas...)
	now := w.nowPool[w.rng.Intn(len(w.nowPool))]
	var steps []step
	for len(steps) < n {
		if w.rng.Intn(4) == 0 {
			now = w.nowPool[w.rng.Intn(len(w.nowPool))]
		}
		target := w.targets[w.rng.Intn(len(w.targets))]
		ts := w.ts()
		var nt *pb.Notification
		switch x := w.rng.Intn(100); {
		case x < 2:
			steps = append(steps, step{Reset: true, Target: target, Now: now})
			continue
		case x < 3:
			nt = &pb.Notification{Timestamp: ts, Prefix: &pb.Path{Target: target, Origin: w.origin}} // empty
		case x < 25 && len(w.earlier) > 0:
			nt = w.derive()
			target = nt.GetPrefix().GetTarget()
		case x < 47:
			nt = w.singleDelete(target, all, ts)
		case x < 60:
			nt = w.multi(target, w.paths, all, ts, true)
		case x < 64 && len(w.metas) > 0:
			if len(w.metas) > 1 && w.rng.Intn(2) == 0 {
				nt = w.multi(target, w.metas, all, ts, false)
			} else {
				nt = w.update(target, w.metas[w.rng.Intn(len(w.metas))], ts)
			}
		default:
			i := w.rng.Intn(len(w.paths))
			if w.atomic[i] != (w.rng.Intn(8) == 0) {
				nt = w.atomicUpdate(target, w.paths[i], ts)
			} else {
				nt = w.update(target, w.paths[i], ts)
			}
		}
		w.earlier = append(w.earlier, proto.Clone(nt).(*pb.Notification))
		steps = append(steps, step{Target: target, Now: now, N: nt})
	}
	return steps
}

func random(r *vlib.Run) {
	nSteps := r.N(30, 60)
	agg := stats{branches: map[string]int{}}
	defer func() { countStats(r, "rnd_", agg) }()
	r.ForTrials("random", r.N(12000, 150000), func(trial int, rng *rand.Rand) {
		w := newWorld(rng)
		steps := w.history(nSteps)
		mm, at, st := runHistory(w.cfg, w.targets, steps)
		r.Eval(1)
		for b, n := range st.branches {
			agg.branches[b] += n
		}
		agg.steps += st.steps
		agg.callbacks += st.callbacks
		if mm != nil {
			report(r, "random", trial, w.cfg, w.targets, steps, at, mm)
			return
		}
		stale, sameTS, del := false, false, false
		for b := range st.branches {
			b = strings.TrimPrefix(b, "atomic_")
			switch b {
			case "stale_older":
				stale = true
			case "stale_identical", "replace_same_timestamp":
				sameTS = true
			case "delete_removed_older_leaf", "delete_kept_leaf_same_timestamp", "delete_kept_newer_leaf":
				del = true
			}
		}
		if stale && sameTS && del {
			r.Distinct(vlib.Hash("rnd", fmt.Sprint(w.cfg), strings.Join(renderSteps(steps), "\n")))
		}
		if w.cfg.F > 0 {
			r.Count("rnd_histories_with_future_threshold", 1)
		}
		if w.cfg.EventDriven {
			r.Count("rnd_histories_event_driven", 1)
		}
		r.Count(fmt.Sprintf("rnd_histories_encoding_mode_%d", w.encMode), 1)
		if r.WantSample() && trial%331 == 0 {
			ss := renderSteps(steps)
			if len(ss) > 10 {
				ss = ss[:10]
			}
			r.Sample(map[string]interface{}{"mode": "random", "trial": trial, "config": w.cfg, "targets": w.targets, "steps": len(steps), "first_steps": ss})
		}
	})
}

func body(r *vlib.Run) {
	cache.Now = virtualNow
	// Millions of short-lived caches and messages: trade a few MB for less GC work.
	debug.SetGCPercent(400)
	if r.OnlyTrial < 0 || r.OnlyMode == "exhaustive" {
		exhaustive(r)
	}
	random(r)
}

func main() {
	vlib.Main(&vlib.Spec{
		ID: "C02",
		Rule: "exhaustive: every history of <= 4 (thorough 5) operations over a 22-operation alphabet (update of a/b or a/c at timestamp 10/20/30 with value x/y; delete of a/b (exact), a (subtree), */c (wildcard) at 10/20/30; Reset) under each of 4 primary configurations, and every history one operation shorter under 8 further ones; the 12 configurations are {future threshold off; 10 ns with the virtual clock at 0; 10 ns with the clock at 20} x event-driven emulation on/off x elem / deprecated element path encoding, the primary four cover every value of every dimension; " +
			"random: seeded histories of 30 (thorough 60) notifications over 2-5 prefix-free paths of 1-3 segments (keyed list entries, an atomic container, harness-owned meta/ leaves, optional origin, 1-2 targets), 6-10 timestamps 10 ns apart plus one far-future stamp, 3 values, single / multi-update / atomic / delete (exact, subtree, wildcard, glob past the leaf, no match) / Reset / empty notifications, random prefix split and encoding per message, a quarter of the messages derived from an earlier one (verbatim, other value, +-1 tick, other encoding, turned into a delete), future threshold 0 / 5-30 ns / 1 ms and a clock reading re-drawn every ~4 steps from before / on / between / after / far before the timestamps. " +
			"After every step the class of the value returned by GnmiUpdate and the whole content of every target (Query [*]: path, timestamp, stored message) are compared with the model. " +
			"Distinct non-trivial: exhaustive — the history contains a decision about an existing leaf (stale, same-timestamp, newer, future) or a delete that matched a leaf, hashed by (configuration, operation list); to bound memory only one in eight (by hash) of the length-5 histories enters the distinct set, the counter exh_nontrivial_histories has them all; random — it contains a stale-older decision AND a same-timestamp decision AND a delete that matched a leaf, hashed by configuration and rendered history.",
		Assumptions: []string{
			"model: per target a prefix-free map index path -> stored message (single update: the notification; one of several updates/deletes: timestamp + prefix + that update; atomic: the whole notification under its prefix); identical means proto.Equal on that message",
			"latest = greatest timestamp of the GnmiUpdate calls since the last Reset whose first update is not under meta/ and that accepted at least one update; it advances after the call, so every update of one notification is judged against the value from before the call; unset latest means the future clause accepts",
			"the future clause is evaluated only for updates strictly newer than the stored leaf (same-timestamp replacement and new leaves are never rejected as future)",
			"timestamps are positive; path sets are prefix-free (no leaf/branch collisions); a notification is either all metadata or all data; within one notification no delete covers a path updated by the same notification",
			"delete matching is model.MatchQ (C09): prefix match with '*' per element, one trailing glob may match a leaf one element above",
			"Reset removes every leaf outside meta/ and forgets latest; leaves under meta/ other than the harness's own meta/hx, meta/hy are cache-generated and ignored",
			"cache.Now is replaced by a virtual clock; single goroutine; the returned error of a multi-update call is compared as a multiset of rejection classes",
		},
		QuickShards: 8, ThoroughShards: 16,
		MinDistinctQuick: 20000, MinDistinctThorough: 200000,
		Body: body,
	})
}
