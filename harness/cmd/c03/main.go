// C03 — Cache change feed reproduces the cache exactly.
//
// Replay monitor + differential twin. Every *ctree.Leaf the real cache hands
// to the callback registered with SetClient is recorded (value cloned at
// callback time, handle retained). A shadow map is driven by that feed only
// and compared with what Cache.Query returns after every call. A twin cache
// receives the same history with every multi-update/delete notification split
// into singles. Notifications are built from a pool of SHARED *pb.Path prefix
// objects whose elem slices have spare capacity.
//
// Oracle clauses (DESIGN.md, C03):
//
//	(1) replay equivalence incl. the event-driven timestamp rule and the
//	    suppressed-counter accounting,
//	(2) withholding is justified (rejected, or emulation on and value unchanged),
//	(3) multi = sequence (twin cache, feed groups and content),
//	(4) atomic notifications are fed whole or not at all,
//	(5) the caller's message (and the shared prefix objects, including the spare
//	    capacity of their slices) is unmodified after return,
//	(6) retained detached (delete) leaves still read what they read at callback time.
//
// Modes: "history" generates only notifications whose prefix and update path
// use one encoding, with origins in the prefix, and whose index paths keep
// their kind (scalar leaf / atomic container). Three further, separately named
// modes add one input class each; a violation whose witness contains that
// class carries the class as signature suffix:
//
//	"mixed-encoding": prefix in `elem` and update path in deprecated `element`
//	                  (or vice versa) inside one notification,
//	"path-origin":    origin carried in the update path instead of the prefix,
//	"kind-flip":      a scalar update addressed to the key of an atomic
//	                  container and vice versa.
package main

import (
	"fmt"
	"math"
	"math/rand"
	"sort"
	"strings"
	"time"

	"google.golang.org/protobuf/proto"

	"github.com/openconfig/gnmi/cache"
	"github.com/openconfig/gnmi/ctree"
	"github.com/openconfig/gnmi/errlist"
	"github.com/openconfig/gnmi/metadata"
	pb "github.com/openconfig/gnmi/proto/gnmi"

	"verif/internal/gen"
	"verif/internal/model"
	"verif/internal/vlib"
)

// ---------------------------------------------------------------------------
// small helpers

type mismatch struct {
	sig, what string
}

func canon(m proto.Message) string {
	b, err := proto.MarshalOptions{Deterministic: true}.Marshal(m)
	if err != nil {
		return "ERR:" + err.Error()
	}
	return string(b)
}

func canonVal(v *pb.TypedValue) string {
	if v == nil {
		return "<nil>"
	}
	return "v:" + canon(v)
}

// canonUpd is the value of an update as a consumer reads it: the typed `val`
// when it is set (the deprecated field is then only a mirror for old
// consumers), otherwise the deprecated `value` field (bytes + encoding),
// otherwise nothing.
func canonUpd(u *pb.Update) string {
	switch {
	case u.GetVal() != nil:
		return canonVal(u.GetVal())
	case u.GetValue() != nil:
		return "d:" + canon(u.GetValue())
	}
	return "<none>"
}

// sameUpdContent: did an update leave the value a consumer reads unchanged?
func sameUpdContent(a, b *pb.Update) bool { return canonUpd(a) == canonUpd(b) }

func showUpd(u *pb.Update) string {
	s := showVal(u.GetVal())
	if d := u.GetValue(); d != nil {
		dep := fmt.Sprintf("deprecated-value(%s:%q)", d.GetType(), d.GetValue())
		if u.GetVal() == nil {
			return dep
		}
		return s + "+" + dep
	}
	if u.GetVal() == nil {
		return "no-value"
	}
	return s
}

func showVal(v *pb.TypedValue) string {
	if v == nil {
		return "nil"
	}
	switch x := v.GetValue().(type) {
	case *pb.TypedValue_StringVal:
		return fmt.Sprintf("str:%q", x.StringVal)
	case *pb.TypedValue_IntVal:
		return fmt.Sprintf("int:%d", x.IntVal)
	case *pb.TypedValue_UintVal:
		return fmt.Sprintf("uint:%d", x.UintVal)
	case *pb.TypedValue_BoolVal:
		return fmt.Sprintf("bool:%v", x.BoolVal)
	case *pb.TypedValue_DoubleVal:
		return fmt.Sprintf("double:%v", x.DoubleVal)
	case *pb.TypedValue_FloatVal:
		return fmt.Sprintf("float:%v", x.FloatVal)
	case *pb.TypedValue_BytesVal:
		return fmt.Sprintf("bytes:%x", x.BytesVal)
	case *pb.TypedValue_JsonVal:
		return fmt.Sprintf("json:%s", x.JsonVal)
	case *pb.TypedValue_DecimalVal:
		return fmt.Sprintf("dec:%d/%d", x.DecimalVal.GetDigits(), x.DecimalVal.GetPrecision())
	case *pb.TypedValue_LeaflistVal:
		var s []string
		for _, e := range x.LeaflistVal.GetElement() {
			s = append(s, showVal(e))
		}
		return "ll[" + strings.Join(s, ",") + "]"
	}
	return fmt.Sprintf("%v", v)
}

func showPath(p *pb.Path) string {
	if p == nil {
		return "nil"
	}
	var b strings.Builder
	if p.GetTarget() != "" {
		b.WriteString("target=" + p.GetTarget() + " ")
	}
	if p.GetOrigin() != "" {
		b.WriteString("origin=" + p.GetOrigin() + " ")
	}
	if len(p.GetElem()) > 0 {
		var s []string
		for _, e := range p.GetElem() {
			x := e.GetName()
			if len(e.GetKey()) > 0 {
				var ks []string
				for k, v := range e.GetKey() {
					ks = append(ks, k+"="+v)
				}
				sort.Strings(ks)
				x += "{" + strings.Join(ks, ",") + "}"
			}
			s = append(s, x)
		}
		b.WriteString("elem[" + strings.Join(s, " ") + "]")
	}
	if len(p.GetElement()) > 0 {
		b.WriteString("element[" + strings.Join(p.GetElement(), " ") + "]")
	}
	if len(p.GetElem()) == 0 && len(p.GetElement()) == 0 {
		b.WriteString("[]")
	}
	return b.String()
}

func showNotif(n *pb.Notification) string {
	if n == nil {
		return "nil"
	}
	var b strings.Builder
	fmt.Fprintf(&b, "ts=%d", n.GetTimestamp())
	if n.GetAtomic() {
		b.WriteString(" ATOMIC")
	}
	b.WriteString(" prefix{" + showPath(n.GetPrefix()) + "}")
	for _, u := range n.GetUpdate() {
		b.WriteString(" upd{" + showPath(u.GetPath()) + " = " + showUpd(u) + "}")
	}
	for _, d := range n.GetDelete() {
		b.WriteString(" del{" + showPath(d) + "}")
	}
	return b.String()
}

func showKey(k string) string { return strings.Join(model.Unkey(k), "/") }

// valSem is the value of a stored notification as far as the statement is
// concerned: the typed value of a scalar leaf, or the whole ordered group
// (sub-path, value) of an atomic container. The timestamp is separate.
func valSem(n *pb.Notification) string {
	var b strings.Builder
	if n.GetAtomic() {
		b.WriteString("A;")
		for _, u := range n.GetUpdate() {
			b.WriteString(model.Key(model.IndexPath(u.GetPath())))
			b.WriteString("=")
			b.WriteString(canonUpd(u))
			b.WriteString(";")
		}
		return b.String()
	}
	b.WriteString("S;")
	for _, u := range n.GetUpdate() {
		b.WriteString(canonUpd(u))
		b.WriteString(";")
	}
	return b.String()
}

func showValSem(n *pb.Notification) string {
	var s []string
	for _, u := range n.GetUpdate() {
		if n.GetAtomic() {
			s = append(s, strings.Join(model.IndexPath(u.GetPath()), "/")+"="+showUpd(u))
		} else {
			s = append(s, showUpd(u))
		}
	}
	pre := ""
	if n.GetAtomic() {
		pre = "atomic"
	}
	return fmt.Sprintf("%s{%s}@%d", pre, strings.Join(s, ", "), n.GetTimestamp())
}

func join(a, b []string) []string {
	out := make([]string, 0, len(a)+len(b))
	return append(append(out, a...), b...)
}

// updateKeys returns the keys (target first) a fed update notification sets.
func updateKeys(n *pb.Notification) []string {
	pre := model.IndexPrefix(n.GetPrefix())
	if n.GetAtomic() {
		return []string{model.Key(pre)}
	}
	var out []string
	for _, u := range n.GetUpdate() {
		out = append(out, model.Key(join(pre, model.IndexPath(u.GetPath()))))
	}
	return out
}

func deleteQueries(n *pb.Notification) [][]string {
	pre := model.IndexPrefix(n.GetPrefix())
	var out [][]string
	for _, d := range n.GetDelete() {
		out = append(out, join(pre, model.IndexPath(d)))
	}
	return out
}

// entrySem renders a feed entry as (kind, paths, timestamp, values).
func entrySem(n *pb.Notification) string {
	var b strings.Builder
	if len(n.GetUpdate()) > 0 {
		b.WriteString("U|")
		b.WriteString(strings.Join(updateKeys(n), ","))
		fmt.Fprintf(&b, "|%d|", n.GetTimestamp())
		b.WriteString(valSem(n))
	}
	if len(n.GetDelete()) > 0 {
		b.WriteString("D|")
		for _, q := range deleteQueries(n) {
			b.WriteString(model.Key(q))
			b.WriteString(",")
		}
		fmt.Fprintf(&b, "|%d", n.GetTimestamp())
	}
	return b.String()
}

func showEntry(n *pb.Notification) string {
	if len(n.GetDelete()) > 0 && len(n.GetUpdate()) == 0 {
		var s []string
		for _, q := range deleteQueries(n) {
			s = append(s, strings.Join(q, "/"))
		}
		return fmt.Sprintf("delete %s @%d", strings.Join(s, ", "), n.GetTimestamp())
	}
	var s []string
	for _, k := range updateKeys(n) {
		s = append(s, showKey(k))
	}
	return fmt.Sprintf("update %s = %s", strings.Join(s, ", "), showValSem(n))
}

// inputClass classifies a stored (non-atomic) notification by the special
// input class it belongs to, "" for plain ones.
func inputClass(n *pb.Notification) string {
	if n == nil || n.GetAtomic() || len(n.GetUpdate()) == 0 {
		return ""
	}
	pre, p := n.GetPrefix(), n.GetUpdate()[0].GetPath()
	if pre.GetOrigin() == "" && p.GetOrigin() != "" {
		return "path-origin"
	}
	preElem, preElement := len(pre.GetElem()) > 0, len(pre.GetElem()) == 0 && len(pre.GetElement()) > 0
	pElem, pElement := len(p.GetElem()) > 0, len(p.GetElem()) == 0 && len(p.GetElement()) > 0
	if (preElem && pElement) || (preElement && pElem) {
		return "mixed-encoding"
	}
	return ""
}

// ---------------------------------------------------------------------------
// monitor: one real cache, its feed, the shadow, the per-cache oracle clauses

type entry struct {
	leaf  *ctree.Leaf
	n     *pb.Notification // clone at callback time
	canon string           // serialisation at callback time
	isDel bool
}

type heldMsg struct {
	ptr   *pb.Notification
	canon string
	clone *pb.Notification
	step  int
}

type leafObs struct {
	ptr *pb.Notification
	sem string
	ts  int64
}

type stats map[string]int64

type monitor struct {
	name     string
	c        *cache.Cache
	ed       bool
	pool     []string
	shadow   *model.Shadow
	prev     map[string]leafObs
	feed     []entry
	retained []entry
	// Every notification object the history has submitted so far and every
	// notification object the feed has handed out for an update, each with its
	// serialisation at that time: the cache may replace what a leaf holds, but
	// it must not write into an object the caller or a feed consumer still holds.
	nCalls       int
	submitted    []heldMsg
	submittedSet map[*pb.Notification]struct{}
	fedObjs      []heldMsg
	fedSet       map[*pb.Notification]struct{}
	cbBad        *mismatch
	st           stats
	count        bool // only the primary counts workload statistics
	// per-trial facts for the non-triviality rule
	fedUpd, rejected, delEntries, suppressed int
}

func newMonitor(name string, targets, pool []string, ed bool, st stats, count bool) *monitor {
	var opts []cache.Option
	if !ed {
		opts = append(opts, cache.DisableEventDrivenEmulation())
	}
	m := &monitor{name: name, ed: ed, pool: pool, shadow: model.NewShadow(), prev: map[string]leafObs{}, st: st, count: count,
		submittedSet: map[*pb.Notification]struct{}{}, fedSet: map[*pb.Notification]struct{}{}}
	m.c = cache.New(targets, opts...)
	m.c.SetClient(m.callback)
	return m
}

func (m *monitor) inc(k string, d int) {
	if m.count {
		m.st[k] += int64(d)
	}
}

func (m *monitor) callback(l *ctree.Leaf) {
	v, ok := l.Value().(*pb.Notification)
	if !ok || v == nil {
		if m.cbBad == nil {
			m.cbBad = &mismatch{"feed-not-a-notification", fmt.Sprintf("the callback received a leaf holding %T", l.Value())}
		}
		return
	}
	e := entry{leaf: l, n: proto.Clone(v).(*pb.Notification), canon: canon(v)}
	e.isDel = len(v.GetUpdate()) == 0
	m.feed = append(m.feed, e)
	if !e.isDel {
		if _, seen := m.fedSet[v]; !seen {
			m.fedSet[v] = struct{}{}
			m.fedObjs = append(m.fedObjs, heldMsg{ptr: v, canon: e.canon, clone: e.n, step: m.nCalls})
		}
	}
}

// guard runs f and turns a panic into a mismatch.
func guard(what string, f func()) (mm *mismatch) {
	defer func() {
		if r := recover(); r != nil {
			mm = &mismatch{"panic:" + what, fmt.Sprintf("%s panicked: %v", what, r)}
		}
	}()
	f()
	return nil
}

func (m *monitor) observe() (out map[string]leafObs, mm *mismatch) {
	out = map[string]leafObs{}
	if g := guard("Query", func() {
		for _, t := range m.pool {
			tt := t
			m.c.Query(tt, []string{"*"}, func(p []string, _ *ctree.Leaf, v interface{}) error {
				n, ok := v.(*pb.Notification)
				if !ok || n == nil {
					mm = &mismatch{"query-not-a-notification", fmt.Sprintf("Query(%s) returned a %T at %v", tt, v, p)}
					return nil
				}
				k := model.Key(join([]string{tt}, p))
				if _, dup := out[k]; dup {
					mm = &mismatch{"query-duplicate", fmt.Sprintf("Query(%s,[*]) visited %v twice", tt, p)}
				}
				out[k] = leafObs{ptr: n, sem: valSem(n), ts: n.GetTimestamp()}
				return nil
			})
		}
	}); g != nil {
		return out, g
	}
	if mm != nil || !m.count {
		return out, mm
	}
	// The same content must come back from the all-targets query.
	star := map[string]*pb.Notification{}
	if g := guard("Query", func() {
		m.c.Query("*", []string{"*"}, func(p []string, _ *ctree.Leaf, v interface{}) error {
			n, _ := v.(*pb.Notification)
			star[model.Key(join([]string{n.GetPrefix().GetTarget()}, p))] = n
			return nil
		})
	}); g != nil {
		return out, g
	}
	if len(star) != len(out) {
		return out, &mismatch{"query-star-differs", fmt.Sprintf("Query(*,[*]) returns %d leaves, the per-target queries %d", len(star), len(out))}
	}
	for k, n := range star {
		if o, ok := out[k]; !ok || o.ptr != n {
			return out, &mismatch{"query-star-differs", fmt.Sprintf("Query(*,[*]) returns leaf %s = %s, the per-target query does not", showKey(k), showValSem(n))}
		}
	}
	m.inc("oracle_all_targets_query_agrees", 1)
	return out, nil
}

func (m *monitor) suppressedCounter(target string) (int64, bool) {
	md := m.c.Metadata()[target]
	if md == nil {
		return 0, false
	}
	v, err := md.GetInt(metadata.SuppressedCount)
	if err != nil {
		return 0, false
	}
	return v, true
}

// applyFeed replays the entries of the current call onto the shadow and moves
// the detached delete leaves to the retained set.
func (m *monitor) applyFeed() {
	for _, e := range m.feed {
		m.shadow.Apply(e.n)
		if e.isDel {
			m.retained = append(m.retained, e)
			m.delEntries++
			m.inc("feed_delete_entries", 1)
		} else {
			m.inc("feed_update_entries", 1)
			if e.n.GetAtomic() {
				m.inc("feed_atomic_entries", 1)
			}
		}
	}
}

// compareShadow is clause (1): shadow == cache content.
func (m *monitor) compareShadow(content map[string]leafObs) *mismatch {
	keys := make([]string, 0, len(content)+len(m.shadow.M))
	for k := range content {
		keys = append(keys, k)
	}
	for k := range m.shadow.M {
		if _, ok := content[k]; !ok {
			keys = append(keys, k)
		}
	}
	sort.Strings(keys)
	for _, k := range keys {
		c, inC := content[k]
		s, inS := m.shadow.M[k]
		switch {
		case inC && !inS:
			return &mismatch{"replay:leaf-only-in-cache", fmt.Sprintf("the cache returns leaf %s = %s to queries but replaying the feed does not produce it (never announced, or removed by an announced delete that covers more than the cache removed)", showKey(k), showValSem(c.ptr))}
		case !inC && inS:
			return &mismatch{"replay:leaf-only-in-feed", fmt.Sprintf("replaying the feed yields leaf %s = %s but the cache no longer returns it (its removal was not announced, or announced under another path)", showKey(k), showValSem(s))}
		}
		if valSem(s) != c.sem {
			return &mismatch{"replay:value", fmt.Sprintf("leaf %s: the cache holds %s, replaying the feed yields %s", showKey(k), showValSem(c.ptr), showValSem(s))}
		}
		switch {
		case c.ts == s.GetTimestamp():
			m.inc("oracle_leaf_equal_ts", 1)
		case m.ed && c.ts > s.GetTimestamp():
			m.inc("oracle_leaf_newer_ts_in_cache_value_equal(suppressed)", 1)
		default:
			return &mismatch{"replay:timestamp", fmt.Sprintf("leaf %s: the cache holds timestamp %d, replaying the feed yields %d (event-driven emulation %v: the cache may be newer than the feed only with emulation on and an equal value, never older)", showKey(k), c.ts, s.GetTimestamp(), m.ed)}
		}
	}
	return nil
}

// checkHeld re-compares, at a quiescent point, every notification object an
// earlier call submitted (second half of clause 5) and every notification
// object the feed handed out for an update (second half of clause 6) with its
// serialisation at that time. A leaf may be given a new object; an object
// that was handed in or out must not be written to afterwards.
func (m *monitor) checkHeld() *mismatch {
	for _, h := range m.submitted {
		if canon(h.ptr) != h.canon {
			return &mismatch{"earlier-caller-message-modified", fmt.Sprintf("the notification submitted at call %d was %q when that call returned and reads %q now (call %d): the caller still holds that object", h.step, showNotif(h.clone), showNotif(h.ptr), m.nCalls)}
		}
	}
	for _, h := range m.fedObjs {
		if canon(h.ptr) != h.canon {
			return &mismatch{"fed-notification-mutated-later", fmt.Sprintf("the notification object handed to the callback during call %d read %q then and reads %q now (call %d): it was modified in place after it had been handed out", h.step, showNotif(h.clone), showNotif(h.ptr), m.nCalls)}
		}
	}
	m.inc("oracle_earlier_submitted_messages_rechecked", len(m.submitted))
	m.inc("oracle_fed_update_objects_rechecked", len(m.fedObjs))
	return nil
}

// checkRetained is clause (6).
func (m *monitor) checkRetained() *mismatch {
	for _, e := range m.retained {
		v, ok := e.leaf.Value().(*pb.Notification)
		if !ok || canon(v) != e.canon {
			now := "?"
			if ok {
				now = showEntry(v)
			}
			return &mismatch{"detached-leaf-changed", fmt.Sprintf("a delete leaf handed to the callback read %q at callback time and reads %q now", showEntry(e.n), now)}
		}
	}
	m.inc("oracle_retained_delete_leaves_rechecked", len(m.retained))
	return nil
}

func sameContent(a, b map[string]leafObs) (string, bool) {
	for k, x := range a {
		y, ok := b[k]
		if !ok {
			return fmt.Sprintf("leaf %s disappeared", showKey(k)), false
		}
		if x.ptr != y.ptr || x.sem != y.sem || x.ts != y.ts {
			return fmt.Sprintf("leaf %s changed from %s to %s", showKey(k), showValSem(x.ptr), showValSem(y.ptr)), false
		}
	}
	for k := range b {
		if _, ok := a[k]; !ok {
			return fmt.Sprintf("leaf %s appeared", showKey(k)), false
		}
	}
	return "", true
}

// countWindows records how often the situation the aliasing clauses aim at
// actually occurred: one call removed several leaves whose stored
// notifications share one prefix backing array that has spare capacity.
func (m *monitor) countWindows(content map[string]leafObs) {
	if !m.count {
		return
	}
	removed := 0
	elemArr := map[**pb.PathElem]int{}
	strArr := map[*string]int{}
	for k, o := range m.prev {
		if _, ok := content[k]; ok {
			continue
		}
		removed++
		pre := o.ptr.GetPrefix()
		if e := pre.GetElem(); cap(e) > len(e) {
			elemArr[&e[:cap(e)][0]]++
		}
		if e := pre.GetElement(); cap(e) > len(e) {
			strArr[&e[:cap(e)][0]]++
		}
	}
	if removed == 0 {
		return
	}
	m.inc("window_call_removed_leaves", 1)
	if removed > 1 {
		m.inc("window_call_removed_several_leaves", 1)
	}
	shared := false
	for _, c := range elemArr {
		if c > 1 {
			shared = true
		}
	}
	for _, c := range strArr {
		if c > 1 {
			shared = true
		}
	}
	if shared {
		m.inc("window_removed_leaves_share_prefix_array_with_spare_capacity", 1)
	}
	if len(elemArr)+len(strArr) > 0 {
		m.inc("window_removed_leaf_prefix_has_spare_capacity", 1)
	}
}

type callResult struct {
	err      error
	nErrs    int
	rejUnits int
	feed     []entry
	content  map[string]leafObs
	class    string // input class of the witness, "" for plain
}

func errCount(err error) int {
	if err == nil {
		return 0
	}
	if el, ok := err.(errlist.Errors); ok {
		return len(el.Errors())
	}
	return 1
}

// classify computes the input class of a step from what it touched: the stored
// notifications of the leaves the step removed, and a scalar update onto an
// atomic container (or the reverse).
func (m *monitor) classify(n *pb.Notification, content map[string]leafObs) string {
	var removed []string
	for k := range m.prev {
		if _, ok := content[k]; !ok {
			removed = append(removed, k)
		}
	}
	sort.Strings(removed)
	for _, k := range removed {
		if c := inputClass(m.prev[k].ptr); c != "" {
			return c
		}
	}
	if n != nil && len(n.GetUpdate()) > 0 && n.GetPrefix() != nil {
		for _, k := range updateKeys(n) {
			if old, ok := m.prev[k]; ok && old.ptr.GetAtomic() != n.GetAtomic() {
				return "kind-flip"
			}
		}
		// A leaf written and removed again by the deletes of the same call.
		if !n.GetAtomic() && len(n.GetDelete()) > 0 {
			for _, u := range n.GetUpdate() {
				one := &pb.Notification{Prefix: n.GetPrefix(), Update: []*pb.Update{u}}
				if _, still := content[updateKeys(one)[0]]; !still {
					if c := inputClass(one); c != "" {
						return c
					}
				}
			}
		}
	}
	return ""
}

// notif submits one notification and applies clauses (1), (2), (4), (5: the
// message itself) and (6).
func (m *monitor) notif(n *pb.Notification) (res callResult, mm *mismatch) {
	pre := proto.Clone(n).(*pb.Notification)
	target := n.GetPrefix().GetTarget()
	suppBefore, haveBefore := m.suppressedCounter(target)
	m.feed, m.cbBad = nil, nil
	m.nCalls++
	var err error
	if g := guard("GnmiUpdate", func() { err = m.c.GnmiUpdate(n) }); g != nil {
		return res, g
	}
	suppAfter, haveAfter := m.suppressedCounter(target)
	res.err, res.nErrs, res.feed = err, errCount(err), m.feed
	if m.cbBad != nil {
		return res, m.cbBad
	}
	content, omm := m.observe()
	res.content = content
	if omm != nil {
		return res, omm
	}
	res.class = m.classify(pre, content)
	m.countWindows(content)

	// (5) caller's message unmodified.
	if !proto.Equal(n, pre) {
		return res, &mismatch{"caller-message-modified", fmt.Sprintf("the notification passed to GnmiUpdate was %q before the call and is %q after it returned", showNotif(pre), showNotif(n))}
	}
	m.inc("oracle_caller_message_compared", 1)
	// ... and neither are the messages of earlier calls, nor the objects the
	// feed handed out earlier.
	if mm := m.checkHeld(); mm != nil {
		return res, mm
	}
	if _, seen := m.submittedSet[n]; !seen {
		m.submittedSet[n] = struct{}{}
		m.submitted = append(m.submitted, heldMsg{ptr: n, canon: canon(n), clone: pre, step: m.nCalls})
	}

	nUpd, nDel := len(pre.GetUpdate()), len(pre.GetDelete())
	fedUpd, fedDel := 0, 0
	for _, e := range m.feed {
		if e.isDel {
			fedDel++
		} else {
			fedUpd++
		}
	}

	// No feed entry may carry part of an atomic group: every non-atomic entry
	// of this call names exactly one update or one delete.
	for _, e := range m.feed {
		if !e.n.GetAtomic() && len(e.n.GetUpdate())+len(e.n.GetDelete()) != 1 {
			return res, &mismatch{"feed-entry-shape", fmt.Sprintf("feed entry %q carries %d updates and %d deletes", showNotif(e.n), len(e.n.GetUpdate()), len(e.n.GetDelete()))}
		}
	}

	// (2) withholding is justified — judged directly on single updates (the
	// twin turns every multi-update into single updates).
	if !pre.GetAtomic() && nUpd == 1 && nDel == 0 && pre.GetPrefix() != nil && haveBefore {
		key := updateKeys(pre)[0]
		switch {
		case err == nil && fedUpd == 0:
			old, existed := m.prev[key]
			switch {
			case !m.ed:
				return res, &mismatch{"withheld-with-emulation-off", fmt.Sprintf("%q was accepted (nil error) but nothing was fed although event-driven emulation is disabled", showNotif(pre))}
			case !existed:
				return res, &mismatch{"withheld-new-leaf", fmt.Sprintf("%q created leaf %s (nil error) but nothing was fed", showNotif(pre), showKey(key))}
			case old.ptr.GetAtomic() || len(old.ptr.GetUpdate()) != 1 || !sameUpdContent(old.ptr.GetUpdate()[0], pre.GetUpdate()[0]):
				return res, &mismatch{"withheld-changed-value", fmt.Sprintf("%q was accepted and withheld from the feed, but it changed the value of leaf %s: previous %s", showNotif(pre), showKey(key), showValSem(old.ptr))}
			}
			m.inc("oracle_withheld_unchanged_value_justified", 1)
		case err == nil:
			if len(m.feed) != 1 || fedUpd != 1 {
				return res, &mismatch{"single-update-feed-shape", fmt.Sprintf("%q produced %d feed entries (%d updates)", showNotif(pre), len(m.feed), fedUpd)}
			}
			fe := m.feed[0].n
			fk := updateKeys(fe)
			if len(fk) != 1 || fk[0] != key || fe.GetTimestamp() != pre.GetTimestamp() || valSem(fe) != valSem(pre) {
				return res, &mismatch{"fed-entry-differs-from-update", fmt.Sprintf("%q was fed as %q", showNotif(pre), showEntry(fe))}
			}
			if old, existed := m.prev[key]; existed && m.ed && !old.ptr.GetAtomic() && len(old.ptr.GetUpdate()) == 1 &&
				sameUpdContent(old.ptr.GetUpdate()[0], pre.GetUpdate()[0]) && pre.GetUpdate()[0].GetVal() != nil {
				if _, isJSON := pre.GetUpdate()[0].GetVal().GetValue().(*pb.TypedValue_JsonVal); !isJSON {
					m.inc("diag_unchanged_scalar_fed_with_emulation_on", 1)
				}
			}
			m.inc("oracle_single_update_fed_as_submitted", 1)
		}
	}

	// (4) atomic units.
	if pre.GetAtomic() && pre.GetPrefix() != nil && haveBefore {
		switch {
		case err == nil && nUpd > 0:
			if len(m.feed) != 1 {
				return res, &mismatch{"atomic-split-or-missing", fmt.Sprintf("atomic %q was accepted and produced %d feed entries instead of one", showNotif(pre), len(m.feed))}
			}
			fe := m.feed[0].n
			if !fe.GetAtomic() || entrySem(fe) != entrySem(pre) {
				return res, &mismatch{"atomic-fed-partially", fmt.Sprintf("atomic %q was fed as %q", showNotif(pre), showEntry(fe))}
			}
			if got, ok := content[updateKeys(pre)[0]]; !ok || got.sem != valSem(pre) || got.ts != pre.GetTimestamp() {
				return res, &mismatch{"atomic-stored-partially", fmt.Sprintf("atomic %q was accepted but the cache returns %v", showNotif(pre), func() string {
					if !ok {
						return "nothing"
					}
					return showValSem(got.ptr)
				}())}
			}
			m.inc("oracle_atomic_fed_and_stored_whole", 1)
		default:
			if len(m.feed) != 0 {
				return res, &mismatch{"atomic-split-or-missing", fmt.Sprintf("atomic %q (error %v) produced %d feed entries", showNotif(pre), err, len(m.feed))}
			}
		}
	}
	// (1) replay equivalence.
	m.applyFeed()
	if mm := m.compareShadow(content); mm != nil {
		return res, mm
	}

	// Accounting of accepted / fed / suppressed.
	accepted := 0
	switch {
	case pre.GetPrefix() == nil || !haveBefore:
		accepted = 0
	case pre.GetAtomic():
		if err == nil && nUpd > 0 {
			accepted = 1
		}
	default:
		accepted = nUpd - res.nErrs
		if accepted < 0 {
			accepted = 0
		}
	}
	var growth int64
	if haveBefore && haveAfter {
		growth = suppAfter - suppBefore
	}
	// The returned error list does not say which part failed: should a delete
	// ever report an error, the count of accepted updates is only bounded.
	maxAccepted := accepted
	if !pre.GetAtomic() && nDel > 0 && res.nErrs > 0 && pre.GetPrefix() != nil && haveBefore {
		maxAccepted = nUpd
	}
	if got := int64(fedUpd) + growth; got < int64(accepted) || got > int64(maxAccepted) {
		return res, &mismatch{"suppress-accounting", fmt.Sprintf("%q: %d update(s) accepted (of %d, %d error(s) returned), %d update entries fed, suppressed counter grew by %d — accepted minus fed must equal the growth", showNotif(pre), accepted, nUpd, res.nErrs, fedUpd, growth)}
	}
	accepted = fedUpd + int(growth)
	if !m.ed && growth != 0 {
		return res, &mismatch{"suppressed-with-emulation-off", fmt.Sprintf("%q: suppressed counter grew by %d although event-driven emulation is disabled", showNotif(pre), growth)}
	}
	rejUnits := nUpd - accepted
	if pre.GetAtomic() {
		rejUnits = 0
		if nUpd > 0 && accepted == 0 {
			rejUnits = 1
		}
	}
	res.rejUnits = rejUnits
	m.fedUpd += fedUpd
	m.suppressed += int(growth)
	m.rejected += rejUnits
	m.inc("decision_updates_fed", fedUpd)
	m.inc("decision_updates_suppressed", int(growth))
	m.inc("decision_update_units_rejected", rejUnits)
	m.inc("decision_leaves_removed_by_deletes", fedDel)

	// A call that was rejected as a whole leaves no trace.
	if err != nil && (pre.GetPrefix() == nil || !haveBefore || pre.GetAtomic() || (accepted == 0 && nDel == 0)) {
		if len(m.feed) != 0 {
			return res, &mismatch{"rejected-but-fed", fmt.Sprintf("%q was rejected (%v) but %d entries were fed, first %q", showNotif(pre), err, len(m.feed), showEntry(m.feed[0].n))}
		}
		if why, ok := sameContent(m.prev, content); !ok {
			return res, &mismatch{"rejected-but-changed", fmt.Sprintf("%q was rejected (%v) but the cache content changed: %s", showNotif(pre), err, why)}
		}
		m.inc("oracle_rejected_call_left_no_trace", 1)
	}

	// (6) retained detached leaves.
	if mm := m.checkRetained(); mm != nil {
		return res, mm
	}
	m.prev = content
	return res, nil
}

// lifecycle runs Reset / Remove / Add and applies clauses (1) and (6).
func (m *monitor) lifecycle(kind, target string) (res callResult, mm *mismatch) {
	m.feed, m.cbBad = nil, nil
	m.nCalls++
	if g := guard(kind, func() {
		switch kind {
		case "reset":
			m.c.Reset(target)
		case "remove":
			m.c.Remove(target)
		case "add":
			m.c.Add(target)
		}
	}); g != nil {
		return res, g
	}
	res.feed = m.feed
	if m.cbBad != nil {
		return res, m.cbBad
	}
	content, omm := m.observe()
	res.content = content
	if omm != nil {
		return res, omm
	}
	res.class = m.classify(nil, content)
	if mm := m.checkHeld(); mm != nil {
		return res, mm
	}
	for _, e := range m.feed {
		if e.isDel {
			m.inc("feed_"+kind+"_delete_entries", 1)
		} else {
			m.inc("feed_"+kind+"_meta_update_entries", 1)
		}
	}
	m.applyFeed()
	if mm := m.compareShadow(content); mm != nil {
		mm.sig = kind + ":" + mm.sig
		return res, mm
	}
	if kind == "add" && len(m.feed) != 0 {
		// Not demanded by the statement; recorded only.
		m.inc("diag_add_fed_entries", len(m.feed))
	}
	if mm := m.checkRetained(); mm != nil {
		return res, mm
	}
	m.prev = content
	return res, nil
}

// ---------------------------------------------------------------------------
// generator

type kv struct{ k, v string }

type el struct {
	name string
	keys []kv // sorted by key name
}

func (e el) flat() []string {
	out := []string{e.name}
	for _, x := range e.keys {
		out = append(out, x.v)
	}
	return out
}

func flat(p []el) []string {
	var out []string
	for _, e := range p {
		out = append(out, e.flat()...)
	}
	return out
}

func plain(names ...string) []el {
	out := make([]el, len(names))
	for i, n := range names {
		out[i] = el{name: n}
	}
	return out
}

type leafSpec struct {
	origin string
	path   []el
	fam    int // length of the family prefix this leaf shares with siblings, 0 if none
}

type poolObj struct {
	id          int
	key         string
	target      string
	origin      string
	enc         int
	flatLen     int
	flatEls     []string
	p           *pb.Path
	pristine    *pb.Path
	fullElem    []*pb.PathElem
	fullElement []string
}

type cfg struct {
	Mode       string `json:"mode"`
	ED         bool   `json:"event_driven_emulation"`
	Mixed      bool   `json:"mixed_encoding,omitempty"`
	PathOrigin bool   `json:"path_origin,omitempty"`
	KindFlip   bool   `json:"kind_flip,omitempty"`
}

type op struct {
	kind   string // notif, reset, remove, add
	shape  string // single, multi, atomic, delete, malformed, resubmit
	target string
	n      *pb.Notification
	now    int64
	share  string
}

func (o op) String() string {
	if o.kind != "notif" {
		return fmt.Sprintf("[now=%d] %s(%s)", o.now, o.kind, o.target)
	}
	return fmt.Sprintf("[now=%d] %s %s {%s}", o.now, o.shape, showNotif(o.n), o.share)
}

type world struct {
	dup      uint32 // value of the peer-settable duplicates field in every update of this history
	rng      *rand.Rand
	cfg      cfg
	targets  []string
	initial  []string
	present  map[string]bool
	leaves   []leafSpec
	conts    []leafSpec
	vals     []*pb.TypedValue
	pool     map[string]*poolObj
	poolList []*poolObj
	pathPool map[string]*pb.Path
	clock    int64
	last     *op
	st       stats
	encBias  int // the encoding most notifications of this history use
	deps     []*pb.Value
	pending  []op
}

// enc draws a path encoding: 0 = elem, 1 = deprecated element.
func (w *world) enc() int {
	if w.rng.Intn(4) == 0 {
		return 1 - w.encBias
	}
	return w.encBias
}

var allVals = []*pb.TypedValue{
	gen.S("x"), gen.S("y"), gen.I(1), gen.I(2), gen.U(1), gen.B(true), gen.B(false), gen.D(1.5), gen.F(2.5),
	gen.Bytes([]byte{1}), gen.LL(gen.S("a"), gen.S("b")), gen.LL(gen.S("a"), gen.S("c")),
	{Value: &pb.TypedValue_DecimalVal{DecimalVal: &pb.Decimal64{Digits: 15, Precision: 1}}},
	{Value: &pb.TypedValue_JsonVal{JsonVal: []byte(`{"a":1}`)}},
	gen.I(1), gen.S("x"), // a second object of an equal value
}

// valFamilies are groups of values that a sloppy equality could confuse: one
// is a prefix / widening / other arm of the other. A world that draws a family
// takes several of its members, so "changed" updates between near-equal values
// occur (the feed must carry them; only a truly unchanged value may be withheld).
var valFamilies = [][]*pb.TypedValue{
	{gen.LL(), gen.LL(gen.S("a")), gen.LL(gen.S("a"), gen.S("b")), gen.LL(gen.S("a"), gen.S("b"), gen.S("c"))},
	{gen.LL(gen.I(1)), gen.LL(gen.I(1), gen.I(2)), gen.LL(gen.I(2), gen.I(1))},
	{gen.Bytes([]byte{1}), gen.Bytes([]byte{1, 2}), gen.Bytes(nil)},
	{gen.I(1), gen.U(1), gen.D(1), gen.F(1), gen.S("1")},
	{gen.S(""), gen.S("x"), gen.S("xx")},
	{gen.LL(gen.LL(gen.S("a"))), gen.LL(gen.LL(gen.S("a"), gen.S("b"))), gen.LL(gen.S("a"))},
}

func dec(digits int64, precision uint32) *pb.TypedValue {
	return &pb.TypedValue{Value: &pb.TypedValue_DecimalVal{DecimalVal: &pb.Decimal64{Digits: digits, Precision: precision}}}
}

// numFamilies stress numeric comparison: members of one family differ only
// beyond float32 / float64 precision, in the last bit, by 1 near 2^53 / 2^63,
// in the arm (int vs uint, float vs double), or are the same number in another
// Decimal64 encoding. The value of a leaf is what a consumer reads, i.e. its
// serialisation: every step between two distinct members is a change that
// must be fed (value.Equal on the repository treats none of them as equal).
// Negative zero and NaN are left out: 0 == -0 and NaN != NaN are matters of
// float semantics the statement does not settle.
var numFamilies = [][]*pb.TypedValue{
	{dec(123456789, 3), dec(123456790, 3), dec(123456791, 3), dec(123456789, 3)},
	{dec(12345678, 2), dec(12345679, 2), dec(12345680, 2)},
	{dec(123456789012345678, 6), dec(123456789012345679, 6), dec(123456789012345778, 6)},
	{dec(150, 2), dec(15, 1), dec(1500, 3), dec(15, 1)},
	{dec(100000000, 8), dec(1, 0), dec(100000001, 8)},
	{gen.F(1), gen.F(math.Nextafter32(1, 2)), gen.F(math.Nextafter32(1, 0)), gen.F(1)},
	{gen.D(1), gen.D(math.Nextafter(1, 2)), gen.D(0.1 + 0.2), gen.D(0.3), gen.D(1)},
	{gen.D(16777216), gen.D(16777217), gen.F(16777216), gen.D(1 << 53), gen.D(1<<53 + 2)},
	{gen.I(1 << 53), gen.I(1<<53 + 1), gen.I(1<<53 - 1), gen.U(1 << 53), gen.U(1<<53 + 1)},
	{gen.I(math.MaxInt64), gen.I(math.MaxInt64 - 1), gen.U(math.MaxInt64), gen.U(1 << 63), gen.U(1<<63 + 1)},
	{gen.U(math.MaxUint64), gen.U(math.MaxUint64 - 1), gen.I(-1), gen.I(math.MinInt64), gen.I(math.MinInt64 + 1)},
	{gen.F(1.5), gen.D(1.5), dec(15, 1), gen.I(1), gen.U(1)},
}

func (w *world) randEl() el {
	switch x := w.rng.Intn(10); {
	case x < 7:
		return el{name: []string{"a", "b", "c"}[w.rng.Intn(3)]}
	case x < 9:
		return el{name: "l", keys: []kv{{"k", []string{"1", "2"}[w.rng.Intn(2)]}}}
	default:
		return el{name: "m", keys: []kv{{"x", "1"}, {"y", []string{"1", "2"}[w.rng.Intn(2)]}}}
	}
}

func newWorld(rng *rand.Rand, c cfg, st stats) *world {
	w := &world{rng: rng, cfg: c, present: map[string]bool{}, pool: map[string]*poolObj{}, pathPool: map[string]*pb.Path{}, clock: 100, st: st}
	w.targets = []string{"t1", "t2", "t3"}[:2+rng.Intn(2)]
	if rng.Intn(4) == 0 {
		w.dup = uint32(1 + rng.Intn(9))
	}
	w.encBias = rng.Intn(2)
	nInit := 1 + rng.Intn(len(w.targets))
	for _, t := range w.targets[:nInit] {
		w.present[t] = true
		w.initial = append(w.initial, t)
	}
	origin := func() string {
		if rng.Intn(4) == 0 {
			return "oc"
		}
		return ""
	}
	// One or two families of leaves below a common prefix (the leaves a
	// producer would send with one reused prefix object), plus unrelated ones.
	var fams []leafSpec
	for i, n := 0, 1+rng.Intn(2); i < n; i++ {
		p := make([]el, 1+rng.Intn(2))
		for j := range p {
			p[j] = w.randEl()
		}
		fams = append(fams, leafSpec{origin: origin(), path: p})
	}
	nLeaves := 4 + rng.Intn(5)
	for i := 0; i < nLeaves; i++ {
		if rng.Intn(10) < 6 {
			f := fams[rng.Intn(len(fams))]
			p := append([]el{}, f.path...)
			for j, n := 0, 1+rng.Intn(2); j < n; j++ {
				p = append(p, w.randEl())
			}
			w.leaves = append(w.leaves, leafSpec{origin: f.origin, path: p, fam: len(f.path)})
			continue
		}
		d := 1 + rng.Intn(3)
		p := make([]el, d)
		for j := range p {
			p[j] = w.randEl()
		}
		w.leaves = append(w.leaves, leafSpec{origin: origin(), path: p})
	}
	nCont := 1 + rng.Intn(2)
	for i := 0; i < nCont; i++ {
		var p []el
		if rng.Intn(2) == 0 {
			p = append(p, w.randEl())
		}
		p = append(p, el{name: []string{"c1", "c2"}[i]})
		cs := leafSpec{origin: origin(), path: p}
		w.conts = append(w.conts, cs)
		if rng.Intn(2) == 0 {
			// A scalar path below the container: collides, one of the two is rejected.
			w.leaves = append(w.leaves, leafSpec{origin: cs.origin, path: append(append([]el{}, p...), el{name: "x"})})
		}
	}
	// Three or four values so that equal and different values both recur.
	nv := 3 + rng.Intn(2)
	for i := 0; i < nv; i++ {
		w.vals = append(w.vals, allVals[rng.Intn(len(allVals))])
	}
	if x := rng.Intn(6); x < 3 {
		fam := valFamilies[rng.Intn(len(valFamilies))]
		if x > 0 {
			fam = numFamilies[rng.Intn(len(numFamilies))]
			w.st["gen_worlds_with_numeric_near_equal_family"]++
		}
		w.vals = w.vals[:1]
		for _, i := range rng.Perm(len(fam))[:2+rng.Intn(len(fam)-1)] {
			w.vals = append(w.vals, fam[i])
		}
	}
	for i := 0; i < 3; i++ {
		w.deps = append(w.deps, allDeprecated[rng.Intn(len(allDeprecated))])
	}
	return w
}

func (w *world) val() *pb.TypedValue { return w.vals[w.rng.Intn(len(w.vals))] }

var allDeprecated = []*pb.Value{
	{Value: []byte("1"), Type: pb.Encoding_JSON}, {Value: []byte("2"), Type: pb.Encoding_JSON},
	{Value: []byte("1"), Type: pb.Encoding_BYTES}, {Value: []byte{0, 1}, Type: pb.Encoding_BYTES},
	{Value: []byte("up"), Type: pb.Encoding_ASCII}, {Value: []byte("down"), Type: pb.Encoding_ASCII},
	{Value: []byte(`{"a":1}`), Type: pb.Encoding_JSON_IETF}, {Value: []byte("1"), Type: pb.Encoding_PROTO},
}

// fill gives an update its value: mostly the typed `val`; a share carries the
// value in the deprecated `value` field only (bytes + encoding), some carry
// both (the deprecated bytes mirror the typed value, as a producer that fills
// both for old consumers does), some carry neither.
func (w *world) fill(u *pb.Update) {
	u.Val, u.Value = nil, nil
	u.Duplicates = w.dup // a peer may set the field; constant per history, so it never makes a value "change"
	switch x := w.rng.Intn(100); {
	case x < 70:
		u.Val = w.val()
		w.st["gen_update_val_only"]++
	case x < 85:
		u.Value = w.deps[w.rng.Intn(len(w.deps))]
		w.st["gen_update_deprecated_value_only"]++
	case x < 94:
		u.Val = w.val()
		u.Value = &pb.Value{Value: []byte(showVal(u.Val)), Type: pb.Encoding_ASCII}
		w.st["gen_update_val_and_deprecated_value"]++
	default:
		w.st["gen_update_no_value_at_all"]++
	}
}

func (w *world) ts() int64 {
	t := w.clock + int64(w.rng.Intn(7)) - 3
	if t < 1 {
		t = 1
	}
	return t
}

func elemsOf(p []el, spare int) []*pb.PathElem {
	out := make([]*pb.PathElem, 0, len(p)+spare)
	for _, e := range p {
		pe := &pb.PathElem{Name: e.name}
		if len(e.keys) > 0 {
			pe.Key = map[string]string{}
			for _, x := range e.keys {
				pe.Key[x.k] = x.v
			}
		}
		out = append(out, pe)
	}
	return out
}

func stringsOf(p []el, spare int) []string {
	f := flat(p)
	out := make([]string, 0, len(f)+spare)
	return append(out, f...)
}

func renderEls(p []el) string {
	var s []string
	for _, e := range p {
		x := e.name
		for _, k := range e.keys {
			x += "{" + k.k + "=" + k.v + "}"
		}
		s = append(s, x)
	}
	return strings.Join(s, "/")
}

// prefixFor returns a prefix path for (target, origin, encoding, elements)
// drawn from the pool of shared objects, in one of four sharing styles.
func (w *world) prefixFor(target, origin string, enc int, els []el) (*pb.Path, string) {
	key := fmt.Sprintf("%s|%s|%d|%s", target, origin, enc, renderEls(els))
	obj := w.pool[key]
	if obj == nil {
		spare := 1 + w.rng.Intn(4)
		obj = &poolObj{id: len(w.poolList), key: key, target: target, origin: origin, enc: enc, flatEls: flat(els), flatLen: len(flat(els))}
		obj.p = &pb.Path{Target: target, Origin: origin}
		if enc == 0 {
			obj.p.Elem = elemsOf(els, spare)
			obj.fullElem = append([]*pb.PathElem{}, obj.p.Elem[:cap(obj.p.Elem)]...)
		} else {
			obj.p.Element = stringsOf(els, spare)
			obj.fullElement = append([]string{}, obj.p.Element[:cap(obj.p.Element)]...)
		}
		obj.pristine = proto.Clone(obj.p).(*pb.Path)
		w.pool[key] = obj
		w.poolList = append(w.poolList, obj)
		w.st["gen_pool_prefix_objects"]++
	}
	switch x := w.rng.Intn(10); {
	case x < 6:
		w.st["gen_prefix_shared_object"]++
		return obj.p, fmt.Sprintf("prefix=pool#%d shared object, spare cap %d", obj.id, cap(obj.p.Elem)-len(obj.p.Elem)+cap(obj.p.Element)-len(obj.p.Element))
	case x < 8:
		w.st["gen_prefix_fresh_struct_shared_slice"]++
		return &pb.Path{Target: target, Origin: origin, Elem: obj.p.Elem, Element: obj.p.Element}, fmt.Sprintf("prefix=new struct sharing the slice of pool#%d", obj.id)
	case x < 9:
		// A shorter prefix cut out of a longer pool object's slice: its capacity
		// reaches into the longer prefix's elements.
		for _, o := range w.poolList {
			if o == obj || o.target != target || o.origin != origin || o.enc != enc || o.flatLen <= obj.flatLen {
				continue
			}
			if strings.Join(o.flatEls[:obj.flatLen], "\x00") != strings.Join(obj.flatEls, "\x00") {
				continue
			}
			if enc == 0 {
				if len(els) > len(o.p.Elem) || renderElemPrefix(o.p.Elem, len(els)) != renderEls(els) {
					continue
				}
				w.st["gen_prefix_subslice_of_longer"]++
				return &pb.Path{Target: target, Origin: origin, Elem: o.p.Elem[:len(els)]}, fmt.Sprintf("prefix=pool#%d.elem[:%d] (subslice of a longer shared prefix)", o.id, len(els))
			}
			w.st["gen_prefix_subslice_of_longer"]++
			return &pb.Path{Target: target, Origin: origin, Element: o.p.Element[:obj.flatLen]}, fmt.Sprintf("prefix=pool#%d.element[:%d] (subslice of a longer shared prefix)", o.id, obj.flatLen)
		}
		w.st["gen_prefix_shared_object"]++
		return obj.p, fmt.Sprintf("prefix=pool#%d shared object", obj.id)
	default:
		w.st["gen_prefix_private_copy"]++
		return proto.Clone(obj.p).(*pb.Path), "prefix=private copy"
	}
}

func renderElemPrefix(pe []*pb.PathElem, n int) string {
	var s []string
	for _, e := range pe[:n] {
		x := e.GetName()
		var ks []string
		for k := range e.GetKey() {
			ks = append(ks, k)
		}
		sort.Strings(ks)
		for _, k := range ks {
			x += "{" + k + "=" + e.Key[k] + "}"
		}
		s = append(s, x)
	}
	return strings.Join(s, "/")
}

// pathFor builds an update/delete path; a third of them are shared objects.
func (w *world) pathFor(enc int, els []el, origin string) *pb.Path {
	mk := func() *pb.Path {
		p := &pb.Path{Origin: origin}
		if enc == 0 {
			p.Elem = elemsOf(els, w.rng.Intn(3))
		} else {
			p.Element = stringsOf(els, w.rng.Intn(3))
		}
		return p
	}
	if w.rng.Intn(3) != 0 {
		return mk()
	}
	key := fmt.Sprintf("%d|%s|%s", enc, origin, renderEls(els))
	if p := w.pathPool[key]; p != nil {
		w.st["gen_update_path_object_reused"]++
		return p
	}
	p := mk()
	w.pathPool[key] = p
	return p
}

func (w *world) pickTarget() string {
	if w.rng.Intn(12) == 0 {
		return w.targets[w.rng.Intn(len(w.targets))] // possibly absent
	}
	var ps []string
	for _, t := range w.targets {
		if w.present[t] {
			ps = append(ps, t)
		}
	}
	if len(ps) == 0 {
		return w.targets[w.rng.Intn(len(w.targets))]
	}
	if w.rng.Intn(2) == 0 {
		return ps[0] // one busy target, so that leaves accumulate
	}
	return ps[w.rng.Intn(len(ps))]
}

// scalarUpdate builds one update of leaf spec ls below a prefix of k elements.
func (w *world) scalarUpdate(ls leafSpec, k, enc int) (*pb.Update, string) {
	penc := enc
	note := ""
	rest := ls.path[k:]
	if w.cfg.Mixed && k > 0 && len(rest) > 0 && w.rng.Intn(100) < 40 {
		penc = 1 - enc
		note = "MIXED "
		w.st["gen_mixed_encoding_updates"]++
	}
	po := ""
	if w.cfg.PathOrigin && ls.origin == "po" {
		po = "po"
		note += "PATH-ORIGIN "
		w.st["gen_path_origin_updates"]++
	}
	var p *pb.Path
	if len(rest) == 0 && w.rng.Intn(2) == 0 && po == "" {
		p = nil // all elements in the prefix, no path at all
	} else {
		p = w.pathFor(penc, rest, po)
	}
	u := &pb.Update{Path: p}
	w.fill(u)
	return u, note
}

func (w *world) genSingle() op {
	ls := w.leaves[w.rng.Intn(len(w.leaves))]
	if w.cfg.KindFlip && w.rng.Intn(100) < 25 {
		ls = w.conts[w.rng.Intn(len(w.conts))]
		w.st["gen_kind_flip_scalar_onto_container"]++
	}
	t := w.pickTarget()
	enc := w.enc()
	k := w.rng.Intn(len(ls.path) + 1)
	if k == len(ls.path) && w.rng.Intn(3) != 0 {
		k = w.rng.Intn(len(ls.path))
	}
	if ls.fam > 0 && ls.fam <= len(ls.path) && w.rng.Intn(10) < 6 {
		k = ls.fam
	}
	origin := ls.origin
	if origin == "po" {
		origin = ""
	}
	pre, share := w.prefixFor(t, origin, enc, ls.path[:k])
	u, note := w.scalarUpdate(ls, k, enc)
	return op{kind: "notif", shape: "single", target: t, share: note + share,
		n: &pb.Notification{Timestamp: w.ts(), Prefix: pre, Update: []*pb.Update{u}}}
}

func hasPrefix(p, pre []el) bool {
	if len(pre) > len(p) {
		return false
	}
	return renderEls(p[:len(pre)]) == renderEls(pre)
}

// wild turns a flat path into a (wildcard) query relative to nothing.
func (w *world) wild(f []string) []string {
	d := w.rng.Intn(len(f) + 1)
	if w.rng.Intn(3) == 0 {
		d = len(f)
	}
	q := append([]string{}, f[:d]...)
	for i := range q {
		if w.rng.Intn(5) == 0 {
			q[i] = "*"
		}
	}
	if w.rng.Intn(5) == 0 {
		q = append(q, "*")
	}
	return q
}

func (w *world) genMulti() op {
	base := w.leaves[w.rng.Intn(len(w.leaves))]
	t := w.pickTarget()
	enc := w.enc()
	k := w.rng.Intn(len(base.path))
	if k > 2 {
		k = 2
	}
	prefixEls := base.path[:k]
	var cands []leafSpec
	for _, l := range w.leaves {
		if l.origin == base.origin && hasPrefix(l.path, prefixEls) {
			cands = append(cands, l)
		}
	}
	origin := base.origin
	if origin == "po" {
		origin = ""
	}
	pre, share := w.prefixFor(t, origin, enc, prefixEls)
	nU, nD := w.rng.Intn(5), w.rng.Intn(3)
	for nU+nD < 2 {
		nU++
	}
	n := &pb.Notification{Timestamp: w.ts(), Prefix: pre}
	notes := ""
	var lastU *pb.Update
	for i := 0; i < nU; i++ {
		if lastU != nil && w.rng.Intn(6) == 0 {
			// The same leaf again, often with the same value: suppression
			// inside one multi-update call.
			u := &pb.Update{Path: lastU.Path, Val: lastU.Val, Value: lastU.Value}
			if w.rng.Intn(2) == 0 {
				w.fill(u)
			}
			n.Update = append(n.Update, u)
			continue
		}
		ls := cands[w.rng.Intn(len(cands))]
		u, note := w.scalarUpdate(ls, k, enc)
		if note != "" && !strings.Contains(notes, note) {
			notes += note
		}
		n.Update = append(n.Update, u)
		lastU = u
	}
	for i := 0; i < nD; i++ {
		ls := cands[w.rng.Intn(len(cands))]
		q := w.wild(flat(ls.path[k:]))
		n.Delete = append(n.Delete, w.pathFor(enc, plain(q...), ""))
	}
	return op{kind: "notif", shape: "multi", target: t, share: notes + share, n: n}
}

func (w *world) genAtomic() op {
	cs := w.conts[w.rng.Intn(len(w.conts))]
	if w.cfg.KindFlip && w.rng.Intn(100) < 25 {
		cs = w.leaves[w.rng.Intn(len(w.leaves))]
		w.st["gen_kind_flip_atomic_onto_scalar"]++
	}
	origin := cs.origin
	if origin == "po" {
		origin = ""
	}
	t := w.pickTarget()
	enc := w.enc()
	pre, share := w.prefixFor(t, origin, enc, cs.path)
	subs := [][]el{plain("x"), plain("y"), plain("z", "w")}
	n := &pb.Notification{Timestamp: w.ts(), Prefix: pre, Atomic: true}
	nU := 1 + w.rng.Intn(3)
	for i := 0; i < nU; i++ {
		penc := enc
		if w.cfg.Mixed && w.rng.Intn(3) == 0 {
			penc = 1 - enc
		}
		au := &pb.Update{Path: w.pathFor(penc, subs[w.rng.Intn(len(subs))], "")}
		w.fill(au)
		n.Update = append(n.Update, au)
	}
	return op{kind: "notif", shape: "atomic", target: t, share: share, n: n}
}

func (w *world) genDelete() op {
	var ls leafSpec
	if w.rng.Intn(5) == 0 {
		ls = w.conts[w.rng.Intn(len(w.conts))]
	} else {
		ls = w.leaves[w.rng.Intn(len(w.leaves))]
	}
	t := w.pickTarget()
	enc := w.enc()
	origin := ls.origin
	if origin == "po" {
		origin = ""
	}
	f := flat(ls.path)
	var q []string
	switch w.rng.Intn(10) {
	case 0:
		q = []string{"*"}
		origin = ""
	case 1:
		q = nil
		if w.rng.Intn(2) == 0 {
			origin = ""
		}
	default:
		q = w.wild(f)
	}
	k := 0
	if len(q) > 0 {
		k = w.rng.Intn(len(q) + 1)
	}
	pre, share := w.prefixFor(t, origin, enc, plain(q[:k]...))
	var p *pb.Path
	if k == len(q) && w.rng.Intn(2) == 0 {
		p = &pb.Path{}
	} else {
		p = w.pathFor(enc, plain(q[k:]...), "")
	}
	return op{kind: "notif", shape: "delete", target: t, share: share,
		n: &pb.Notification{Timestamp: w.ts(), Prefix: pre, Delete: []*pb.Path{p}}}
}

func (w *world) genMalformed() op {
	t := w.pickTarget()
	switch w.rng.Intn(5) {
	case 0:
		return op{kind: "notif", shape: "malformed", target: t, share: "nil prefix", n: &pb.Notification{Timestamp: w.ts(), Update: []*pb.Update{{Path: gen.Path(false, "a"), Val: w.val()}}}}
	case 1:
		return op{kind: "notif", shape: "malformed", target: "nosuch", share: "unknown target", n: &pb.Notification{Timestamp: w.ts(), Prefix: &pb.Path{Target: "nosuch"}, Update: []*pb.Update{{Path: gen.Path(false, "a"), Val: w.val()}}}}
	case 2:
		pre, share := w.prefixFor(t, "", 0, nil)
		return op{kind: "notif", shape: "malformed", target: t, share: "empty notification; " + share, n: &pb.Notification{Timestamp: w.ts(), Prefix: pre}}
	case 3:
		o := w.genAtomic()
		o.shape, o.share = "malformed", "atomic with a delete; "+o.share
		o.n.Delete = []*pb.Path{gen.Path(false, "x")}
		return o
	default:
		o := w.genAtomic()
		o.shape, o.share = "malformed", "atomic without updates; "+o.share
		o.n.Update = nil
		return o
	}
}

// genBurst queues single updates of sibling leaves that all carry the very
// same shared prefix object: a producer walking one subtree.
func (w *world) genBurst() {
	var fam []leafSpec
	base := w.leaves[w.rng.Intn(len(w.leaves))]
	k := base.fam
	if k == 0 || k > len(base.path) {
		k = w.rng.Intn(len(base.path))
	}
	for _, l := range w.leaves {
		if l.origin == base.origin && len(l.path) >= k && hasPrefix(l.path, base.path[:k]) {
			fam = append(fam, l)
		}
	}
	t := w.pickTarget()
	enc := w.enc()
	origin := base.origin
	if origin == "po" {
		origin = ""
	}
	var pre *pb.Path
	var share string
	for i, n := 0, 2+w.rng.Intn(3); i < n; i++ {
		if pre == nil || w.rng.Intn(4) == 0 {
			pre, share = w.prefixFor(t, origin, enc, base.path[:k])
		}
		ls := fam[w.rng.Intn(len(fam))]
		u, note := w.scalarUpdate(ls, k, enc)
		w.pending = append(w.pending, op{kind: "notif", shape: "single", target: t, share: "burst; " + note + share,
			n: &pb.Notification{Timestamp: w.ts(), Prefix: pre, Update: []*pb.Update{u}}})
	}
	w.st["gen_bursts"]++
}

func (w *world) genOp() op {
	w.clock += 1 + int64(w.rng.Intn(2))
	var o op
	if len(w.pending) == 0 && w.rng.Intn(100) < 8 {
		w.genBurst()
	}
	if len(w.pending) > 0 {
		o = w.pending[0]
		w.pending = w.pending[1:]
		if w.rng.Intn(3) != 0 {
			o.n.Timestamp = w.ts()
		}
		o.now = w.clock
		c := o
		w.last = &c
		w.st["gen_"+o.kind+"_"+o.shape]++
		return o
	}
	var absent []string
	for _, t := range w.targets {
		if !w.present[t] {
			absent = append(absent, t)
		}
	}
	switch x := w.rng.Intn(100); {
	case x < 36:
		o = w.genSingle()
	case x < 54:
		o = w.genMulti()
	case x < 64:
		o = w.genAtomic()
	case x < 83:
		o = w.genDelete()
	case x < 88:
		o = op{kind: "reset", target: w.pickTarget()}
	case x < 92:
		o = op{kind: "remove", target: w.pickTarget()}
		delete(w.present, o.target)
	case x < 96:
		if len(absent) > 0 {
			o = op{kind: "add", target: absent[w.rng.Intn(len(absent))]}
			w.present[o.target] = true
		} else {
			o = w.genSingle()
		}
	case x < 98:
		o = w.genMalformed()
	default:
		if w.last != nil {
			// The very same notification object again.
			o = *w.last
			o.shape, o.share = "resubmit", "same object as an earlier step; "+w.last.share
		} else {
			o = w.genSingle()
		}
	}
	o.now = w.clock
	if o.kind == "notif" && o.shape != "malformed" {
		c := o
		w.last = &c
	}
	w.st["gen_"+o.kind+"_"+o.shape]++
	return o
}

// checkPool is the second half of clause (5): no shared prefix object, and no
// element of the backing arrays of their slices (spare capacity included), may
// change.
func (w *world) checkPool() *mismatch {
	for _, o := range w.poolList {
		if !proto.Equal(o.p, o.pristine) {
			return &mismatch{"caller-message-modified", fmt.Sprintf("shared prefix object pool#%d was %q when built and is %q now", o.id, showPath(o.pristine), showPath(o.p))}
		}
		if o.enc == 0 {
			full := o.p.Elem[:cap(o.p.Elem)]
			for i := range full {
				if full[i] != o.fullElem[i] {
					return &mismatch{"caller-backing-array-written", fmt.Sprintf("slot %d of the elem backing array of shared prefix pool#%d (%q, len %d, cap %d) was overwritten with %v", i, o.id, showPath(o.pristine), len(o.p.Elem), cap(o.p.Elem), full[i])}
				}
			}
		} else {
			full := o.p.Element[:cap(o.p.Element)]
			for i := range full {
				if full[i] != o.fullElement[i] {
					return &mismatch{"caller-backing-array-written", fmt.Sprintf("slot %d of the element backing array of shared prefix pool#%d (%q, len %d, cap %d) was overwritten with %q", i, o.id, showPath(o.pristine), len(o.p.Element), cap(o.p.Element), full[i])}
				}
			}
		}
	}
	return nil
}

// ---------------------------------------------------------------------------
// twin

func splitForTwin(n *pb.Notification) []*pb.Notification {
	c := proto.Clone(n).(*pb.Notification)
	if c.GetAtomic() || len(c.GetUpdate())+len(c.GetDelete()) <= 1 {
		return []*pb.Notification{c}
	}
	var out []*pb.Notification
	for _, u := range c.GetUpdate() {
		out = append(out, &pb.Notification{Timestamp: c.Timestamp, Prefix: proto.Clone(c.Prefix).(*pb.Path), Update: []*pb.Update{u}})
	}
	for _, d := range c.GetDelete() {
		out = append(out, &pb.Notification{Timestamp: c.Timestamp, Prefix: proto.Clone(c.Prefix).(*pb.Path), Delete: []*pb.Path{d}})
	}
	return out
}

func semList(es []entry) []string {
	out := make([]string, len(es))
	for i, e := range es {
		out[i] = entrySem(e.n)
	}
	sort.Strings(out)
	return out
}

func showEntries(es []entry) string {
	s := make([]string, len(es))
	for i, e := range es {
		s[i] = showEntry(e.n)
	}
	return "[" + strings.Join(s, "; ") + "]"
}

// compareTwin is clause (3).
func compareTwin(o op, p callResult, groups [][]entry, wRej int, wContent map[string]leafObs) *mismatch {
	total := 0
	var all []entry
	for _, g := range groups {
		total += len(g)
		all = append(all, g...)
	}
	if len(p.feed) != total {
		return &mismatch{"multi-vs-sequence:feed", fmt.Sprintf("%v fed %d entries %s; the same updates then deletes applied one at a time fed %d entries %s", o, len(p.feed), showEntries(p.feed), total, showEntries(all))}
	}
	off := 0
	for i, g := range groups {
		a, b := semList(p.feed[off:off+len(g)]), semList(g)
		for j := range a {
			if a[j] != b[j] {
				return &mismatch{"multi-vs-sequence:feed", fmt.Sprintf("%v: feed entries for part %d are %s; the same part applied on its own fed %s", o, i, showEntries(p.feed[off:off+len(g)]), showEntries(g))}
			}
		}
		off += len(g)
	}
	if p.rejUnits != wRej {
		return &mismatch{"multi-vs-sequence:rejections", fmt.Sprintf("%v rejected %d update(s) (returned %v); applied one at a time %d update(s) were rejected", o, p.rejUnits, p.err, wRej)}
	}
	keys := map[string]struct{}{}
	for k := range p.content {
		keys[k] = struct{}{}
	}
	for k := range wContent {
		keys[k] = struct{}{}
	}
	ks := make([]string, 0, len(keys))
	for k := range keys {
		ks = append(ks, k)
	}
	sort.Strings(ks)
	for _, k := range ks {
		a, inA := p.content[k]
		b, inB := wContent[k]
		switch {
		case inA != inB:
			return &mismatch{"multi-vs-sequence:content", fmt.Sprintf("after %v leaf %s present=%v; after the same parts applied one at a time present=%v", o, showKey(k), inA, inB)}
		case a.sem != b.sem || a.ts != b.ts:
			return &mismatch{"multi-vs-sequence:content", fmt.Sprintf("after %v leaf %s = %s; after the same parts applied one at a time %s", o, showKey(k), showValSem(a.ptr), showValSem(b.ptr))}
		}
	}
	return nil
}

// ---------------------------------------------------------------------------
// trial

// finalSig attaches the input class of the witness to the signature. The
// failures the three special classes are known to produce are named by what
// fails, one signature per class.
func finalSig(base, class string) string {
	switch {
	case class == "":
		return base
	case (class == "mixed-encoding" || class == "path-origin") && strings.HasPrefix(base, "replay:leaf-only-in-"):
		return "delete-announced-under-wrong-path:" + class
	case class == "kind-flip" && (base == "replay:value" || base == "withheld-changed-value"):
		return "withheld-changed-value:kind-flip"
	}
	return base + ":" + class
}

func runTrial(r *vlib.Run, c cfg, trial int, rng *rand.Rand, steps int, st stats) {
	c.ED = rng.Intn(2) == 0
	w := newWorld(rng, c, st)
	if c.PathOrigin {
		// Some scalar leaves carry their origin in the update path.
		for i := range w.leaves {
			if w.leaves[i].origin == "" && rng.Intn(2) == 0 {
				w.leaves[i].origin = "po"
			}
		}
	}
	ops := make([]op, steps)
	for i := range ops {
		ops[i] = w.genOp()
	}
	now := int64(0)
	cache.Now = func() time.Time { return cache.T(now) }
	defer func() { cache.Now = time.Now }()

	P := newMonitor("primary", w.initial, w.targets, c.ED, st, true)
	W := newMonitor("twin", w.initial, w.targets, c.ED, st, false)
	r.Eval(1)
	st["trials_ed_"+fmt.Sprint(c.ED)]++

	multiCalls := 0
	fail := func(i int, mm *mismatch, class string, pf []entry, on string) {
		sig := finalSig(mm.sig, class)
		strs := make([]string, i+1)
		for j := 0; j <= i; j++ {
			strs[j] = ops[j].String()
		}
		feed := make([]string, len(pf))
		for j, e := range pf {
			feed[j] = showEntry(e.n)
		}
		r.Violation(c.Mode, trial, sig, fmt.Sprintf("event-driven emulation %v, targets %v; at step %d (%s cache) %v: %s", c.ED, w.initial, i, on, ops[i], mm.what),
			map[string]interface{}{"config": c, "initial_targets": w.initial, "ops": strs, "failed_at_step": i, "feed_of_step": feed, "input_class": class, "cache": on})
	}

	for i, o := range ops {
		now = o.now
		var pres callResult
		var mm *mismatch
		if o.kind == "notif" {
			pres, mm = P.notif(o.n)
			if len(o.n.GetUpdate())+len(o.n.GetDelete()) > 1 && !o.n.GetAtomic() {
				multiCalls++
			}
		} else {
			pres, mm = P.lifecycle(o.kind, o.target)
		}
		if mm == nil {
			mm = w.checkPool()
		}
		if mm != nil {
			fail(i, mm, pres.class, pres.feed, "primary")
			return
		}
		// Twin: the same step, multi-notifications split into singles.
		var groups [][]entry
		wRej := 0
		if o.kind == "notif" {
			for _, s := range splitForTwin(o.n) {
				wres, wmm := W.notif(s)
				if wmm != nil {
					wmm.what = fmt.Sprintf("(on the split history, part %q) %s", showNotif(s), wmm.what)
					fail(i, wmm, wres.class, wres.feed, "twin")
					return
				}
				groups = append(groups, wres.feed)
				wRej += wres.rejUnits
			}
		} else {
			wres, wmm := W.lifecycle(o.kind, o.target)
			if wmm != nil {
				fail(i, wmm, wres.class, wres.feed, "twin")
				return
			}
			groups = append(groups, wres.feed)
		}
		if mm := compareTwin(o, pres, groups, wRej, W.prev); mm != nil {
			fail(i, mm, pres.class, pres.feed, "primary vs twin")
			return
		}
		st["oracle_twin_steps_compared"]++
		st["steps"]++
	}
	// Non-triviality: the oracle judged fed updates, rejected updates, announced
	// removals and a multi-notification; with emulation on also a suppression.
	if P.fedUpd > 0 && P.rejected > 0 && P.delEntries > 0 && multiCalls > 0 && (!c.ED || P.suppressed > 0) {
		strs := make([]string, len(ops))
		for j := range ops {
			strs[j] = ops[j].String()
		}
		r.Distinct(vlib.Hash(c.Mode, c.ED, strings.Join(strs, "\n")))
		st["nontrivial_"+c.Mode]++
	}
	if r.WantSample() && trial%211 == 0 {
		strs := []string{}
		for j := 0; j < len(ops) && j < 8; j++ {
			strs = append(strs, ops[j].String())
		}
		r.Sample(map[string]interface{}{"mode": c.Mode, "trial": trial, "event_driven_emulation": c.ED, "targets": w.targets, "steps": len(ops), "first_ops": strs,
			"fed_updates": P.fedUpd, "suppressed": P.suppressed, "rejected": P.rejected, "delete_entries_fed": P.delEntries})
	}
}

func body(r *vlib.Run) {
	st := stats{}
	steps := r.N(25, 50)
	r.ForTrials("history", r.N(4000, 80000), func(trial int, rng *rand.Rand) {
		runTrial(r, cfg{Mode: "history"}, trial, rng, steps, st)
	})
	r.ForTrials("mixed-encoding", r.N(600, 8000), func(trial int, rng *rand.Rand) {
		runTrial(r, cfg{Mode: "mixed-encoding", Mixed: true}, trial, rng, steps, st)
	})
	r.ForTrials("path-origin", r.N(400, 4000), func(trial int, rng *rand.Rand) {
		runTrial(r, cfg{Mode: "path-origin", PathOrigin: true}, trial, rng, steps, st)
	})
	r.ForTrials("kind-flip", r.N(400, 4000), func(trial int, rng *rand.Rand) {
		runTrial(r, cfg{Mode: "kind-flip", KindFlip: true}, trial, rng, steps, st)
	})
	for k, v := range st {
		r.Count(k, v)
	}
	// The statement permits, but does not demand, withholding. A run in which
	// emulation was on, unchanged scalar values arrived and none was ever
	// withheld has not exercised the suppression clauses: say so.
	if st["decision_updates_suppressed"] == 0 && st["diag_unchanged_scalar_fed_with_emulation_on"] > 50 {
		r.Inconclusive("event-driven emulation on, yet no unchanged update was ever withheld: the suppression clauses (timestamp rule, counter accounting, justified withholding) were not exercised")
	}
}

func main() {
	vlib.Main(&vlib.Spec{
		ID: "C03",
		Rule: "seeded histories of 25 (thorough 50) steps over 2-3 targets: single / multi-update+delete / atomic / exact, subtree and wildcard delete notifications, bursts of sibling updates carrying one prefix object, Reset, Remove, re-Add, malformed and resubmitted notifications, event-driven emulation on or off per history; " +
			"prefixes come from a pool of shared *pb.Path objects whose elem/element slices have spare capacity (shared object, new struct on the shared slice, subslice of a longer shared prefix, private copy). After every call on the real cache: feed replayed onto a shadow and compared with Query of every target (and of '*'), accepted/fed/suppressed accounting, withholding justified, atomic whole, caller's message and pool objects (backing arrays included) unchanged, retained delete leaves unchanged; a twin cache gets the same history split into singles and feed groups + content are compared. " +
			"Mode history: 4000 (thorough 80000) histories of plain input; modes mixed-encoding 600 (8000), path-origin 400 (4000), kind-flip 400 (4000) add one input class each (signature suffix). A history counts as distinct non-trivial when the oracle judged at least one fed update, one rejected update, one announced removal and one multi-notification (with emulation on also one suppression); hashed by mode, emulation flag and the rendered operation list.",
		Assumptions: []string{
			"a consumer replays the feed with the index rule of subscribe.Server.Update: target + origin of the prefix, then prefix and path elements (model.Shadow, model.MatchQ for deletes)",
			"the value of an update is its typed `val` when set, otherwise its deprecated `value` field (bytes + encoding), otherwise nothing; 'unchanged' means that value serialises identically (value.Equal, the code's test, is at most as wide; updates without `val` are never suppressed by the code)",
			"single goroutine; cache.Now is a virtual clock that is constant within a step and strictly increases between steps; no future threshold; no latency windows",
			"Add is only called for targets that are absent (Add of a present target silently replaces it without any feed entry; the statement does not quantify over that)",
			"update paths contain no '*' elements and are never empty as a whole; the harness never mutates a message after building it",
			"the suppressed-update count is read from the target's own metadata counter (targetLeavesSuppressed)",
		},
		QuickShards: 8, ThoroughShards: 16,
		MinDistinctQuick: 800, MinDistinctThorough: 15000,
		Body: body,
	})
}
