// C04 — STREAM subscribers converge to the cache; sync marks the initial snapshot.
// Trace monitor over in-memory streams: writers (one per target) update,
// delete, re-add and reset while STREAM subscriptions start at seeded moments;
// the exact response sequence of every subscriber is judged against the write
// history and, at logical quiescence, against the cache.
package main

import (
	"context"
	"fmt"
	"math/rand"
	"runtime"
	"sort"
	"strings"
	"sync"
	"sync/atomic"
	"time"

	"github.com/openconfig/gnmi/cache"
	"github.com/openconfig/gnmi/ctree"
	pb "github.com/openconfig/gnmi/proto/gnmi"
	"github.com/openconfig/gnmi/subscribe"
	"github.com/openconfig/gnmi/verifhook"

	"verif/internal/gen"
	"verif/internal/model"
	"verif/internal/vlib"
)

var clock int64

// stuckTrials counts trials of this process that ended in the attributable
// stuck verdict; each costs the full grace period, so after a few of them the
// rest of the shard is skipped (the violation is already established).
var stuckTrials int

func tick() int64 { return atomic.AddInt64(&clock, 1) }

type wop struct {
	Kind      string   // upd, del, reset
	Target    string
	Path      []string // data path below origin (upd: leaf; del: query)
	Val       int64
	Call, Ret int64
}

type sub struct {
	idx         int
	target      string // target name or "*"
	paths       [][]string // index form below the target: origin (if any) followed by the pattern
	porigin     []string   // origin of each path ("" = none)
	updatesOnly bool
	startAt     int64
	req         *pb.SubscribeRequest
	stream      *vlib.Stream
	callTick    int64
	phase       int32 // 0 none 1 registering 2 registered 3 walk.begin 4 walk.end
	err         error
	done        chan struct{}
}

const (
	sentA = "zz"
)

var dataA = []string{"a", "b"}
var dataB = []string{"x", "y", "z"}

func leafPaths(nl int) [][]string {
	var out [][]string
	for _, a := range dataA {
		for _, b := range dataB {
			for l := 0; l < nl; l++ {
				out = append(out, []string{a, b, fmt.Sprintf("l%d", l)})
			}
		}
	}
	return out
}

func subPathPool() [][]string {
	return [][]string{{}, {"a"}, {"b"}, {"a", "x"}, {"*", "y"}, {"b", "*"}, {"a", "*", "l1"}, {"b", "z", "l0"}, {"a", "y"}, {"*"}, {"a", "x", "*"}}
}

type trialCfg struct {
	targets []string
	// origin per top-level family of the data ("a", "b", the sentinel family):
	// "" = no origin. Families may carry different origins in one trial.
	origin map[string]string
}

// originOf returns the origin of the family a data path (or delete query) belongs to.
func (tc *trialCfg) originOf(p []string) string {
	if len(p) == 0 {
		return ""
	}
	return tc.origin[p[0]]
}

// fullKey is the index of a DATA path: target, the family's origin if any, the path.
func (tc *trialCfg) fullKey(target string, p []string) []string {
	k := []string{target}
	if o := tc.originOf(p); o != "" {
		k = append(k, o)
	}
	return append(k, p...)
}

// subKey is the index of a subscription path (already carrying its origin) under a target.
func subKey(target string, p []string) []string {
	return append([]string{target}, p...)
}

func runTrial(r *vlib.Run, mode string, trial int, rng *rand.Rand) {
	procs := []int{2, 4, 16}[rng.Intn(3)]
	runtime.GOMAXPROCS(procs)
	defer runtime.GOMAXPROCS(16)
	tc := &trialCfg{}
	nT := 2 + rng.Intn(3)
	for i := 0; i < nT; i++ {
		tc.targets = append(tc.targets, fmt.Sprintf("T%d", i))
	}
	tc.origin = map[string]string{sentA: ""}
	origins := []string{"", "oc", "o2"}
	switch rng.Intn(3) {
	case 0: // no origins at all
		tc.origin["a"], tc.origin["b"] = "", ""
	case 1: // one origin for all data
		tc.origin["a"], tc.origin["b"] = "oc", "oc"
	default: // families differ (one may have none)
		tc.origin["a"], tc.origin["b"] = origins[rng.Intn(3)], origins[rng.Intn(3)]
	}
	c := cache.New(tc.targets)
	srv, _ := subscribe.NewServer(c)
	c.SetClient(srv.Update)
	leaves := leafPaths(2 + rng.Intn(3))
	nops := 50 + rng.Intn(250)
	totalOps := int64(nops * nT)

	// Subscriptions.
	M := 2 + rng.Intn(5)
	pool := subPathPool()
	subs := make([]*sub, M)
	byReq := map[*pb.SubscribeRequest]*sub{}
	for i := range subs {
		s := &sub{idx: i, done: make(chan struct{})}
		if rng.Intn(3) == 0 {
			s.target = "*"
		} else {
			s.target = tc.targets[rng.Intn(nT)]
		}
		np := 1 + rng.Intn(3)
		seen := map[string]bool{}
		for len(s.paths) < np {
			p := pool[rng.Intn(len(pool))]
			// The path's origin: the family's own origin when the pattern names a
			// family (so that it selects data), any origin otherwise.
			po := origins[rng.Intn(3)]
			if len(p) > 0 && p[0] != "*" && rng.Intn(8) != 0 {
				po = tc.origin[p[0]]
			}
			ip := append([]string{}, p...)
			if po != "" {
				ip = append([]string{po}, p...)
			}
			if !seen[model.Key(ip)] {
				seen[model.Key(ip)] = true
				s.paths = append(s.paths, ip)
				s.porigin = append(s.porigin, po)
			}
		}
		// The sentinel path (no origin) is listed last or, sometimes, first.
		if rng.Intn(4) == 0 {
			s.paths = append([][]string{{sentA}}, s.paths...)
			s.porigin = append([]string{""}, s.porigin...)
		} else {
			s.paths = append(s.paths, []string{sentA})
			s.porigin = append(s.porigin, "")
		}
		s.updatesOnly = rng.Intn(4) == 0
		switch rng.Intn(5) {
		case 0:
			s.startAt = 0
		case 1:
			s.startAt = totalOps
		default:
			s.startAt = rng.Int63n(totalOps)
		}
		sl := &pb.SubscriptionList{Prefix: &pb.Path{Target: s.target}, Mode: pb.SubscriptionList_STREAM, UpdatesOnly: s.updatesOnly}
		// Origins travel in the prefix when every path has the same one (and the
		// seed says so), else in the individual paths.
		common, same := s.porigin[0], true
		for _, po := range s.porigin {
			if po != common {
				same = false
			}
		}
		inPrefix := same && common != "" && rng.Intn(2) == 0
		if inPrefix {
			sl.Prefix.Origin = common
		}
		for i, p := range s.paths {
			pat := p
			if s.porigin[i] != "" {
				pat = p[1:]
			}
			sp := gen.Path(false, pat...)
			if !inPrefix {
				sp.Origin = s.porigin[i]
			}
			sl.Subscription = append(sl.Subscription, &pb.Subscription{Path: sp})
		}
		s.req = &pb.SubscribeRequest{Request: &pb.SubscribeRequest_Subscribe{Subscribe: sl}}
		s.stream = vlib.NewStream(context.Background(), "u")
		s.stream.Push(s.req)
		subs[i] = s
		byReq[s.req] = s
	}

	// Hooks: phases (observation) + perturbation.
	pert := vlib.NewPerturb(vlib.Mix(r.Seed, int64(trial), 4))
	pert.MaxSleep = time.Duration(rng.Intn(300)) * time.Microsecond
	points := []string{"subscribe.registering", "subscribe.registered", "subscribe.walk.begin", "subscribe.walk.end", "subscribe.dequeue", "cache.update.written", "cache.remove.walked"}
	holdPoint := ""
	if trial%4 == 0 {
		holdPoint = points[(trial/4)%len(points)]
		if holdPoint != "subscribe.dequeue" && holdPoint != "cache.update.written" {
			pert.Hold = map[string]time.Duration{holdPoint: time.Duration(1000+rng.Intn(2000)) * time.Microsecond}
		} else {
			pert.Hold = map[string]time.Duration{holdPoint: time.Duration(50+rng.Intn(200)) * time.Microsecond}
		}
	}
	phaseOf := map[string]int32{"subscribe.registering": 1, "subscribe.registered": 2, "subscribe.walk.begin": 3, "subscribe.walk.end": 4}
	pert.OnPoint = func(name string, key interface{}) {
		if ph, ok := phaseOf[name]; ok {
			if sr, ok := key.(*pb.SubscribeRequest); ok {
				if s := byReq[sr]; s != nil {
					// updates_only subscriptions never walk; registered is their last phase.
					atomic.StoreInt32(&s.phase, ph)
				}
			}
		}
	}
	verifhook.Set(pert.Handle)
	defer verifhook.Set(nil)

	var windowHits [6]int64
	noteWindows := func() {
		for _, s := range subs {
			windowHits[atomic.LoadInt32(&s.phase)]++
		}
	}

	// Writers.
	var progress int64
	hist := make([][]wop, nT)
	var wg sync.WaitGroup
	wseeds := make([]int64, nT)
	for i := range wseeds {
		wseeds[i] = rng.Int63()
	}
	tsOf := make([]int64, nT)
	write := func(ti int, kind string, p []string, val int64) wop {
		tsOf[ti]++
		o := wop{Kind: kind, Target: tc.targets[ti], Path: p, Val: val}
		var n *pb.Notification
		switch kind {
		case "upd":
			n = gen.Update(o.Target, tc.originOf(p), tsOf[ti], nil, gen.Path(false, p...), gen.I(val))
		case "del":
			n = gen.Delete(o.Target, tc.originOf(p), tsOf[ti], nil, gen.Path(false, p...))
		}
		o.Call = tick()
		if kind == "reset" {
			c.Reset(o.Target)
		} else if err := c.GnmiUpdate(n); err != nil {
			o.Kind = "rejected:" + err.Error()
		}
		o.Ret = tick()
		noteWindows()
		return o
	}
	var ctr int64
	newVal := func(ti int) int64 { return int64(ti+1)<<40 | atomic.AddInt64(&ctr, 1) }
	// Prefill from the harness goroutine (before anything runs).
	for ti := range tc.targets {
		for _, p := range leaves {
			if rng.Intn(2) == 0 {
				hist[ti] = append(hist[ti], write(ti, "upd", p, newVal(ti)))
			}
		}
	}
	for ti := 0; ti < nT; ti++ {
		ti := ti
		wg.Add(1)
		go func() {
			defer wg.Done()
			wr := rand.New(rand.NewSource(wseeds[ti]))
			for i := 0; i < nops; i++ {
				x := wr.Intn(100)
				p := leaves[wr.Intn(len(leaves))]
				switch {
				case x < 55:
					hist[ti] = append(hist[ti], write(ti, "upd", p, newVal(ti)))
				case x < 67:
					for k := 0; k < 2+wr.Intn(4); k++ {
						hist[ti] = append(hist[ti], write(ti, "upd", p, newVal(ti)))
					}
				case x < 82:
					hist[ti] = append(hist[ti], write(ti, "del", p, 0))
				case x < 92:
					hist[ti] = append(hist[ti], write(ti, "del", p[:2], 0))
				case x < 96:
					hist[ti] = append(hist[ti], write(ti, "del", p[:1], 0))
				default:
					hist[ti] = append(hist[ti], write(ti, "reset", nil, 0))
				}
				atomic.AddInt64(&progress, 1)
				if wr.Intn(8) == 0 {
					runtime.Gosched()
				}
			}
		}()
	}
	// Subscribers.
	for _, s := range subs {
		s := s
		go func() {
			defer close(s.done)
			for atomic.LoadInt64(&progress) < s.startAt {
				runtime.Gosched()
				time.Sleep(20 * time.Microsecond)
			}
			s.callTick = tick()
			s.err = srv.Subscribe(s.stream)
		}()
	}
	wg.Wait()

	// Quiescence: each target's writer keeps rewriting its sentinel leaf until
	// every subscriber covering it has received that very value, and every
	// non-updates_only subscriber has received its sync.
	sentPath := []string{sentA, "end", "end"}
	deadline := time.Now().Add(40 * time.Second)
	finalSent := make([]int64, nT)
	stuck := ""
	for ti := range tc.targets {
		for {
			v := newVal(ti)
			hist[ti] = append(hist[ti], write(ti, "upd", sentPath, v))
			finalSent[ti] = v
			all := true
			waitUntil := time.Now().Add(150 * time.Millisecond)
			for _, s := range subs {
				if s.target != "*" && s.target != tc.targets[ti] {
					continue
				}
				ctx, cancel := context.WithDeadline(context.Background(), waitUntil)
				ok := s.stream.WaitSent(ctx, func(sent []*pb.SubscribeResponse) bool {
					for i := len(sent) - 1; i >= 0; i-- {
						if u := sent[i].GetUpdate(); u != nil && len(u.Update) == 1 && u.Update[0].GetVal().GetIntVal() == v {
							return true
						}
					}
					return false
				})
				cancel()
				if !ok {
					all = false
					select {
					case <-s.done:
						stuck = fmt.Sprintf("subscriber %d RPC ended on its own: %v", s.idx, s.err)
					default:
					}
				}
			}
			if all || stuck != "" {
				break
			}
			if time.Now().After(deadline) {
				stuck = fmt.Sprintf("sentinel of %s not delivered to every subscriber within 40 s although the system was otherwise idle", tc.targets[ti])
				break
			}
		}
		if stuck != "" {
			break
		}
	}
	if stuck == "" {
		for _, s := range subs {
			ctx, cancel := context.WithDeadline(context.Background(), deadline)
			ok := s.stream.WaitSent(ctx, func(sent []*pb.SubscribeResponse) bool {
				for _, m := range sent {
					if m.GetSyncResponse() {
						return true
					}
				}
				return false
			})
			cancel()
			if !ok {
				stuck = fmt.Sprintf("subscriber %d never received a sync_response", s.idx)
			}
		}
	}
	r.Eval(1)
	witness := func(s *sub) map[string]interface{} {
		return map[string]interface{}{"targets": tc.targets, "origins": tc.origin, "subscription": map[string]interface{}{"target": s.target, "paths": s.paths, "path_origins": s.porigin, "updates_only": s.updatesOnly, "start_at_op": s.startAt}, "gomaxprocs": procs, "hold_point": holdPoint, "ops_per_writer": nops}
	}
	if stuck != "" {
		stuckTrials++
		r.Violation(mode, trial, "no-convergence:stuck", stuck, witness(subs[0]))
	} else {
		for _, s := range subs {
			judge(r, mode, trial, tc, c, s, hist, finalSent, witness(s))
		}
	}
	// Tear down.
	for _, s := range subs {
		s.stream.Cancel()
	}
	for _, s := range subs {
		select {
		case <-s.done:
		case <-time.After(30 * time.Second):
			r.Inconclusive("Subscribe did not return within 30 s after its context was cancelled")
		}
	}
	for i, n := range windowHits {
		r.Count(fmt.Sprintf("writes_seen_in_phase_%d_%s", i, []string{"before-registering", "registering-to-registered", "registered-to-walk", "inside-walk", "after-walk-end", ""}[i]), n)
	}
	for k, v := range pert.Hits() {
		r.Count("point_"+k, v)
	}
	r.SetAdd("interleavings", pert.Signature())
	if stuck == "" {
		r.Distinct(vlib.Hash(mode, trial, pert.Signature()))
	}
	if r.WantSample() && trial%37 == 0 {
		s := subs[0]
		var first []string
		for i, m := range s.stream.Sent() {
			if i < 6 {
				first = append(first, compact(m))
			}
		}
		r.Sample(map[string]interface{}{"trial": trial, "targets": nT, "origins": tc.origin, "writers_ops": nops, "subscriptions": M, "sub0": witness(s)["subscription"], "sub0_responses": s.stream.NSent(), "sub0_first": first})
	}
}

func compact(m *pb.SubscribeResponse) string {
	if m.GetSyncResponse() {
		return "sync"
	}
	n := m.GetUpdate()
	var b strings.Builder
	fmt.Fprintf(&b, "%s/%s:", n.GetPrefix().GetTarget(), n.GetPrefix().GetOrigin())
	for _, u := range n.Update {
		fmt.Fprintf(&b, " upd %s=%d", strings.Join(model.IndexPath(u.Path), "/"), u.GetVal().GetIntVal())
	}
	for _, d := range n.Delete {
		fmt.Fprintf(&b, " del %s", strings.Join(model.IndexPath(d), "/"))
	}
	return b.String()
}

func covers(s *sub, tc *trialCfg, key []string) bool {
	for _, p := range s.paths {
		if model.Compat(subKey(s.target, p), key) {
			return true
		}
	}
	return false
}

func judge(r *vlib.Run, mode string, trial int, tc *trialCfg, c *cache.Cache, s *sub, hist [][]wop, finalSent []int64, wit map[string]interface{}) {
	log := s.stream.Sent()
	viol := func(sig, what string) {
		var tail []string
		for i := len(log) - 8; i < len(log); i++ {
			if i >= 0 {
				tail = append(tail, compact(log[i]))
			}
		}
		wit["responses"] = len(log)
		wit["last_responses"] = tail
		r.Violation(mode, trial, sig, fmt.Sprintf("subscriber %d (target %s paths %v updates_only=%v): %s", s.idx, s.target, s.paths, s.updatesOnly, what), wit)
	}
	// (a) exactly one sync; first for updates_only.
	syncAt := -1
	nsync := 0
	for i, m := range log {
		if m.GetSyncResponse() {
			nsync++
			if syncAt < 0 {
				syncAt = i
			}
		}
	}
	r.Count("subscriber_logs_judged", 1)
	r.Count("responses_observed", int64(len(log)))
	if nsync != 1 {
		viol("sync-count", fmt.Sprintf("%d sync_responses", nsync))
		return
	}
	if s.updatesOnly && syncAt != 0 {
		viol("sync-not-first-updates-only", fmt.Sprintf("sync_response is response #%d", syncAt))
		return
	}
	// Written values per key, and write history per target.
	written := map[string]map[int64]bool{}
	for ti := range hist {
		for _, o := range hist[ti] {
			if o.Kind == "upd" {
				k := model.Key(tc.fullKey(o.Target, o.Path))
				if written[k] == nil {
					written[k] = map[int64]bool{}
				}
				written[k][o.Val] = true
			}
		}
	}
	// (c) per data leaf: values received were written to it, never older after newer.
	// (b) pre-sync coverage; (d) replay.
	shadow := model.NewShadow()
	last := map[string]int64{}
	preSync := map[string]bool{}
	for i, m := range log {
		n := m.GetUpdate()
		if n == nil {
			continue
		}
		pre := model.IndexPrefix(n.GetPrefix())
		for _, u := range n.Update {
			key := append(append([]string{}, pre...), model.IndexPath(u.GetPath())...)
			k := model.Key(key)
			if !covers(s, tc, key) {
				viol("received-non-matching", fmt.Sprintf("response #%d carries %v which none of its paths is compatible with", i, key))
				return
			}
			if len(key) >= 2 && (key[1] == "meta") {
				continue
			}
			v := u.GetVal().GetIntVal()
			if !written[k][v] {
				viol("invented-value", fmt.Sprintf("response #%d carries %v=%d, a value never written to that leaf", i, key, v))
				return
			}
			if lv, ok := last[k]; ok && v < lv {
				viol("older-value-after-newer", fmt.Sprintf("response #%d carries %v=%d after %d had been sent", i, key, v, lv))
				return
			}
			last[k] = v
			if i < syncAt {
				preSync[k] = true
			}
		}
		shadow.Apply(n)
	}
	if !s.updatesOnly {
		for ti := range hist {
			if s.target != "*" && s.target != tc.targets[ti] {
				continue
			}
			// Last write per leaf before the Subscribe call; qualifies if nothing
			// covering it was deleted after that write was invoked.
			lastW := map[string]wop{}
			for _, o := range hist[ti] {
				if o.Kind == "upd" && o.Ret < s.callTick {
					lastW[model.Key(tc.fullKey(o.Target, o.Path))] = o
				}
			}
			for k, w := range lastW {
				key := model.Unkey(k)
				if !covers(s, tc, key) {
					continue
				}
				deleted := false
				for _, o := range hist[ti] {
					if o.Call <= w.Call {
						continue
					}
					if o.Kind == "reset" || (o.Kind == "del" && model.MatchQ(tc.fullKey(o.Target, o.Path), key)) {
						deleted = true
						break
					}
				}
				if deleted {
					continue
				}
				r.Count("presync_leaves_required", 1)
				if !preSync[k] {
					viol("snapshot-leaf-missing-before-sync", fmt.Sprintf("leaf %v existed before the Subscribe call (written at tick %d < call tick %d) and was never deleted, but no update for it precedes the sync_response", key, w.Ret, s.callTick))
					return
				}
			}
		}
	}
	// (d) convergence.
	want := map[string]*pb.Notification{}
	for _, t := range tc.targets {
		if s.target != "*" && s.target != t {
			continue
		}
		c.Query(t, []string{"*"}, func(p []string, _ *ctree.Leaf, v interface{}) error {
			key := append([]string{t}, p...)
			if covers(s, tc, key) {
				want[model.Key(key)] = v.(*pb.Notification)
			}
			return nil
		})
	}
	var diffs []string
	for k, wn := range want {
		gn, ok := shadow.M[k]
		key := model.Unkey(k)
		isMeta := len(key) >= 2 && key[1] == "meta"
		if !ok {
			if s.updatesOnly {
				continue
			}
			diffs = append(diffs, fmt.Sprintf("missing %v (cache holds %d)", key, wn.Update[0].GetVal().GetIntVal()))
			continue
		}
		var gv *pb.TypedValue
		for _, u := range gn.Update {
			if model.Key(append(model.IndexPrefix(gn.Prefix), model.IndexPath(u.Path)...)) == k {
				gv = u.Val
			}
		}
		if gv.String() != wn.Update[0].GetVal().String() || (!isMeta && gn.Timestamp != wn.Timestamp) {
			diffs = append(diffs, fmt.Sprintf("stale %v: subscriber holds %v@%d, cache holds %v@%d", key, gv, gn.Timestamp, wn.Update[0].GetVal(), wn.Timestamp))
		}
	}
	for k := range shadow.M {
		if _, ok := want[k]; !ok {
			diffs = append(diffs, fmt.Sprintf("extra %v (deleted in the cache, still held by the subscriber)", model.Unkey(k)))
		}
	}
	r.Count("convergence_leaves_compared", int64(len(want)))
	if len(diffs) > 0 {
		sort.Strings(diffs)
		if len(diffs) > 6 {
			diffs = diffs[:6]
		}
		viol("no-convergence", "after quiescence the replayed responses differ from the cache: "+strings.Join(diffs, "; "))
		return
	}
	r.Count("subscriber_logs_held", 1)
}

func body(r *vlib.Run) {
	r.ForTrials("stream", r.N(400, 20000), func(trial int, rng *rand.Rand) {
		if stuckTrials >= 3 {
			r.Count("trials_skipped_after_repeated_stuck_verdicts", 1)
			return
		}
		runTrial(r, "stream", trial, rng)
	})
}

func postMerge(tier string, c map[string]int64) []string {
	var out []string
	for _, k := range []string{"writes_seen_in_phase_1_registering-to-registered", "writes_seen_in_phase_2_registered-to-walk", "writes_seen_in_phase_3_inside-walk", "writes_seen_in_phase_4_after-walk-end"} {
		if c[k] == 0 {
			out = append(out, "no write was observed in window "+k+" (hook points not reached?): the interleavings aimed at were not exercised")
		}
	}
	return out
}

func main() {
	vlib.Main(&vlib.Spec{
		ID: "C04",
		Rule: "Each trial: real cache + subscribe.Server, 2-4 targets, one writer goroutine per target issuing 50-300 updates (unique values, strictly increasing timestamps), leaf/subtree deletes, re-adds and Resets; 2-6 STREAM subscriptions (single target or '*', 1-3 wildcard paths, updates_only on/off, with or without an origin) started at seeded moments; GOMAXPROCS in {2,4,16}; seeded delays at 7 schedule points, every 4th trial a long hold at one point (round-robin). Judged per subscriber log: one sync (first for updates_only), snapshot leaves before sync, received values were written and never go backwards, and replay == cache content at logical quiescence (sentinel protocol). A trial is distinct non-trivial when all its subscriber logs were judged and its sequence of schedule points reached is new.",
		Assumptions: []string{
			"one writer goroutine per target (the collector's discipline); concurrent writers to one target are out of scope",
			"leaf paths have fixed depth 3 and subscription paths are chosen so that 'compatible' (streaming) and 'selected by a query' coincide for all stored leaf shapes incl. the depth-2 meta/ leaves",
			"quiescence is logical: each writer rewrites a sentinel leaf until every covering subscriber has received that value; FIFO per subscriber then guarantees nothing is pending; a sentinel not delivered within 40 s on an otherwise idle system is reported as a violation (attributable stuck), not a timeout verdict on a busy system",
			"schedules are explored by perturbation at the verif points, not enumerated; the evidence reports how many writes landed in each registration/walk window",
		},
		QuickShards: 8, ThoroughShards: 16,
		MinDistinctQuick: 100, MinDistinctThorough: 1000,
		PostMerge: postMerge,
		Body:      body,
	})
}
