// C05 — ONCE and POLL return exactly the matching snapshot, then sync.
//
// Reference-model differential over in-memory streams. The real cache and the
// real subscribe.Server are driven with generated cache contents and generated
// ONCE / POLL subscriptions; the exact response sequence and the final RPC
// status are judged against a small model: a map from index path to the
// notification the leaf currently holds, and an independent glob matcher with
// the origin placed per the documented rules of path.CompletePath.
//
// Modes
//
//	exhaustive  all glob placements over a 3-level x 2-name tree (every query
//	            over {a,b,*} up to length 4, every prefix/path split, every
//	            origin placement, one target and '*', ONCE and POLL), plus all
//	            ordered pairs of queries up to length 3 as two-path subscriptions
//	static      random cache contents and subscription path sets; the cache only
//	            changes between POLL rounds, by the harness, sequentially
//	concurrent  one writer goroutine per target runs while ONCE / POLL RPCs are
//	            issued; seeded delays at the walk / dequeue / cache points
//
// The POLL stream is interactive: the next trigger is handed to Recv only
// after the previous round's sync_response was observed; finally CloseSend.
package main

import (
	"context"
	"fmt"
	"math/rand"
	"runtime"
	"sort"
	"strings"
	"sync"
	"sync/atomic"
	"time"

	"google.golang.org/protobuf/proto"

	"github.com/openconfig/gnmi/cache"
	pb "github.com/openconfig/gnmi/proto/gnmi"
	"github.com/openconfig/gnmi/subscribe"
	"github.com/openconfig/gnmi/verifhook"

	"verif/internal/gen"
	"verif/internal/model"
	"verif/internal/vlib"
)

// ---------------------------------------------------------------------------
// Logical clock (concurrent mode) and stuck bookkeeping.

var clock int64

func tick() int64 { return atomic.AddInt64(&clock, 1) }

// stuckSeen counts attributable-stuck RPCs in this process; after two of them
// the remaining RPCs of the shard are skipped (each costs the full grace).
var stuckSeen int32

const stuckGrace = 20 * time.Second

// ---------------------------------------------------------------------------
// Model of the cache content.

// pelem is one path element with its keys sorted by key name.
type pelem struct {
	Name string
	Keys [][2]string
}

func (e pelem) toPB() *pb.PathElem {
	pe := &pb.PathElem{Name: e.Name}
	if len(e.Keys) > 0 {
		pe.Key = map[string]string{}
		for _, kv := range e.Keys {
			pe.Key[kv[0]] = kv[1]
		}
	}
	return pe
}

// index is the specification of the index form: name, then key values in key-name order.
func (e pelem) index() []string {
	out := []string{e.Name}
	for _, kv := range e.Keys {
		out = append(out, kv[1])
	}
	return out
}

func elemsIndex(es []pelem) []string {
	out := []string{}
	for _, e := range es {
		out = append(out, e.index()...)
	}
	return out
}

func elemsPB(es []pelem) []*pb.PathElem {
	out := make([]*pb.PathElem, 0, len(es))
	for _, e := range es {
		out = append(out, e.toPB())
	}
	return out
}

// mkPath encodes elements either as elem list or, deprecated, as the flat element list.
func mkPath(es []pelem, deprecated bool) *pb.Path {
	if deprecated {
		return &pb.Path{Element: elemsIndex(es)}
	}
	return &pb.Path{Elem: elemsPB(es)}
}

type leaf struct {
	Target string
	Origin string
	Elems  []pelem  // structure of the stored path (prefix + update path; the container path for an atomic leaf)
	Key    []string // target, [origin], index strings...
	N      *pb.Notification
	Atomic bool
}

type world struct {
	targets []string
	leaves  map[string]*leaf
	order   []string // keys in insertion order (deterministic iteration)
	trees   map[string]*model.Tree
	ts      int64
	val     int64
	c       *cache.Cache
	srv     *subscribe.Server
	broken  string // the cache refused something the model accepts (not this property's business)
}

// newWorld creates the real cache and server. opt selects a server option: 0 none, 1 WithStats, 2 WithoutDupReport.
func newWorld(targets []string, opt int) *world { return newWorldT(targets, opt, 0) }

// newWorldT: as newWorld; timeout > 0 sets the server's send timeout (default: one minute).
func newWorldT(targets []string, opt int, timeout time.Duration) *world {
	w := &world{targets: append([]string{}, targets...), leaves: map[string]*leaf{}, trees: map[string]*model.Tree{}}
	w.c = cache.New(targets)
	var opts []subscribe.Option
	switch opt {
	case 1:
		opts = append(opts, subscribe.WithStats())
	case 2:
		opts = append(opts, subscribe.WithoutDupReport())
	}
	if timeout > 0 {
		opts = append(opts, subscribe.WithTimeout(timeout))
	}
	w.srv, _ = subscribe.NewServer(w.c, opts...)
	w.c.SetClient(w.srv.Update)
	for _, t := range targets {
		w.trees[t] = model.NewTree()
	}
	return w
}

func (w *world) addTarget(t string) {
	w.targets = append(w.targets, t)
	w.trees[t] = model.NewTree()
	w.c.Add(t)
}

func (w *world) nextTS() int64  { w.ts++; return w.ts }
func (w *world) nextVal() int64 { w.val++; return w.val }

func cacheKey(target, origin string, es []pelem) []string {
	k := []string{target}
	if origin != "" {
		k = append(k, origin)
	}
	return append(k, elemsIndex(es)...)
}

// canHold reports whether the prefix-free map of the target can hold key (either it is there already or it can be added).
func (w *world) canHold(key []string) bool {
	if _, ok := w.leaves[model.Key(key)]; ok {
		return true
	}
	t := w.trees[key[0]]
	return t != nil && t.CanAdd(key[1:])
}

func (w *world) setLeaf(l *leaf) {
	k := model.Key(l.Key)
	if _, ok := w.leaves[k]; !ok {
		w.order = append(w.order, k)
		w.trees[l.Target].M[model.Key(l.Key[1:])] = true
	}
	w.leaves[k] = l
}

func (w *world) dropLeaf(k string) {
	l := w.leaves[k]
	if l == nil {
		return
	}
	delete(w.leaves, k)
	delete(w.trees[l.Target].M, model.Key(l.Key[1:]))
	for i, o := range w.order {
		if o == k {
			w.order = append(w.order[:i], w.order[i+1:]...)
			break
		}
	}
}

func (w *world) feed(n *pb.Notification) {
	defer func() {
		if p := recover(); p != nil {
			w.broken = fmt.Sprintf("cache.GnmiUpdate panicked: %v", p)
		}
	}()
	if err := w.c.GnmiUpdate(proto.Clone(n).(*pb.Notification)); err != nil && w.broken == "" {
		w.broken = fmt.Sprintf("cache.GnmiUpdate(%v) = %v although the model accepts it", compactN(n), err)
	}
}

// putUpdates stores one notification: prefix (split elems) and one or more
// updates below it. The model keeps, per leaf, the notification the cache is
// documented to hold: the notification itself for a single update, a copy with
// just that update for each update of a multi-update notification.
// It reports false (and changes nothing) when the prefix-free map cannot hold a key.
func (w *world) putUpdates(target, origin string, pre []pelem, subs [][]pelem, vals []*pb.TypedValue, deprecated bool) bool {
	seen := map[string]bool{}
	scratch := w.trees[target].Clone()
	for _, s := range subs {
		key := cacheKey(target, origin, append(append([]pelem{}, pre...), s...))
		if len(key) < 2 || seen[model.Key(key)] {
			return false
		}
		seen[model.Key(key)] = true
		if _, ok := w.leaves[model.Key(key)]; ok {
			continue
		}
		if !scratch.Add(key[1:], true) {
			return false
		}
	}
	prefix := mkPath(pre, deprecated)
	prefix.Target, prefix.Origin = target, origin
	n := &pb.Notification{Timestamp: w.nextTS(), Prefix: prefix}
	for i, s := range subs {
		n.Update = append(n.Update, &pb.Update{Path: mkPath(s, deprecated), Val: vals[i]})
	}
	w.feed(n)
	for i, s := range subs {
		all := append(append([]pelem{}, pre...), s...)
		stored := n
		if len(subs) > 1 {
			stored = &pb.Notification{Timestamp: n.Timestamp, Prefix: n.Prefix, Update: []*pb.Update{n.Update[i]}}
		}
		w.setLeaf(&leaf{Target: target, Origin: origin, Elems: all, Key: cacheKey(target, origin, all), N: proto.Clone(stored).(*pb.Notification)})
	}
	return true
}

// putAtomic stores an atomic container: one leaf at the prefix.
func (w *world) putAtomic(target, origin string, pre []pelem, subs [][]pelem, vals []*pb.TypedValue, deprecated bool) bool {
	key := cacheKey(target, origin, pre)
	if len(key) < 2 || !w.canHold(key) {
		return false
	}
	prefix := mkPath(pre, deprecated)
	prefix.Target, prefix.Origin = target, origin
	n := &pb.Notification{Timestamp: w.nextTS(), Prefix: prefix, Atomic: true}
	for i, s := range subs {
		n.Update = append(n.Update, &pb.Update{Path: mkPath(s, deprecated), Val: vals[i]})
	}
	w.feed(n)
	w.setLeaf(&leaf{Target: target, Origin: origin, Elems: append([]pelem{}, pre...), Key: key, N: proto.Clone(n).(*pb.Notification), Atomic: true})
	return true
}

// del deletes by an index-level query below the origin (timestamps only grow,
// so everything selected is removed).
func (w *world) del(target, origin string, q []string, deprecated bool) int {
	p := gen.Path(deprecated, q...)
	n := &pb.Notification{Timestamp: w.nextTS(), Prefix: &pb.Path{Target: target, Origin: origin}, Delete: []*pb.Path{p}}
	w.feed(n)
	full := []string{}
	if origin != "" {
		full = append(full, origin)
	}
	full = append(full, q...)
	removed := 0
	for _, k := range append([]string{}, w.order...) {
		l := w.leaves[k]
		if l.Target == target && model.MatchQ(full, l.Key[1:]) {
			w.dropLeaf(k)
			removed++
		}
	}
	return removed
}

// ---------------------------------------------------------------------------
// Subscriptions and the matching oracle.

type subSpec struct {
	Target string
	Prefix *pb.Path
	Paths  []*pb.Path // a nil entry is a Subscription without a path
	Poll   bool
	Polls  int
	// HalfClose: the client's last request (the initial one when Polls == 0,
	// else the last trigger, issued after the previous sync_response was seen)
	// is followed by CloseSend at once, before the round it asks for is read.
	HalfClose bool
}

func (s *subSpec) request() *pb.SubscribeRequest {
	sl := &pb.SubscriptionList{Prefix: proto.Clone(s.Prefix).(*pb.Path), Mode: pb.SubscriptionList_ONCE}
	if s.Poll {
		sl.Mode = pb.SubscriptionList_POLL
	}
	for _, p := range s.Paths {
		sub := &pb.Subscription{}
		if p != nil {
			sub.Path = proto.Clone(p).(*pb.Path)
		}
		sl.Subscription = append(sl.Subscription, sub)
	}
	return &pb.SubscribeRequest{Request: &pb.SubscribeRequest_Subscribe{Subscribe: sl}}
}

// queries is the specification of what each subscription path selects below a
// target: [origin] + prefix elements + path elements, the origin taken from
// the prefix or, with an element-less prefix, from the path. Two combinations
// are rejected by the documented rules (origin in both; origin in the path
// with elements in the prefix); for those no matching set is defined.
func (s *subSpec) queries() (qs [][]string, rejected bool) {
	oPre := s.Prefix.GetOrigin()
	pre := model.IndexPath(s.Prefix)
	for _, p := range s.Paths {
		oPath := p.GetOrigin()
		var q []string
		switch {
		case oPre != "" && oPath != "":
			return nil, true
		case oPre != "":
			q = append(q, oPre)
			q = append(q, pre...)
		case oPath != "":
			if len(pre) > 0 {
				return nil, true
			}
			q = append(q, oPath)
		default:
			q = append(q, pre...)
		}
		q = append(q, model.IndexPath(p)...)
		qs = append(qs, q)
	}
	return qs, false
}

// nMatching: how many of the subscription's paths select the leaf stored under key (target first).
func nMatching(target string, qs [][]string, key []string) int {
	if len(key) == 0 || (target != "*" && target != key[0]) {
		return 0
	}
	n := 0
	for _, q := range qs {
		if model.MatchQ(q, key[1:]) {
			n++
		}
	}
	return n
}

func compactPath(p *pb.Path) string {
	if p == nil {
		return "<nil>"
	}
	var b strings.Builder
	if p.Origin != "" {
		fmt.Fprintf(&b, "%s:", p.Origin)
	}
	if len(p.Elem) == 0 && len(p.Element) > 0 {
		b.WriteString("(element)" + strings.Join(p.Element, "/"))
		return b.String()
	}
	for i, e := range p.Elem {
		if i > 0 {
			b.WriteString("/")
		}
		b.WriteString(e.Name)
		ks := make([]string, 0, len(e.Key))
		for k := range e.Key {
			ks = append(ks, k)
		}
		sort.Strings(ks)
		for _, k := range ks {
			fmt.Fprintf(&b, "[%s=%s]", k, e.Key[k])
		}
	}
	return b.String()
}

func (s *subSpec) describe() map[string]interface{} {
	var ps []string
	for _, p := range s.Paths {
		ps = append(ps, compactPath(p))
	}
	qs, rej := s.queries()
	var qstr []string
	for _, q := range qs {
		qstr = append(qstr, strings.Join(q, "/"))
	}
	mode := "ONCE"
	if s.Poll {
		mode = fmt.Sprintf("POLL(%d triggers)", s.Polls)
		if s.HalfClose {
			mode = fmt.Sprintf("POLL(%d triggers, request stream closed right after the last request)", s.Polls)
		}
	}
	return map[string]interface{}{"mode": mode, "target": s.Target, "prefix": compactPath(s.Prefix), "paths": ps, "model_queries_below_target": qstr, "rejected_origin_combination": rej}
}

func compactVal(v *pb.TypedValue) string {
	if v == nil {
		return "<nil>"
	}
	if _, ok := v.Value.(*pb.TypedValue_IntVal); ok {
		return fmt.Sprint(v.GetIntVal())
	}
	return strings.TrimSpace(v.String())
}

func compactN(n *pb.Notification) string {
	var b strings.Builder
	fmt.Fprintf(&b, "{%s %s", n.GetPrefix().GetTarget(), compactPath(&pb.Path{Origin: n.GetPrefix().GetOrigin(), Elem: n.GetPrefix().GetElem(), Element: n.GetPrefix().GetElement()}))
	if n.Atomic {
		b.WriteString(" atomic")
	}
	fmt.Fprintf(&b, " ts=%d", n.Timestamp)
	for _, u := range n.Update {
		fmt.Fprintf(&b, " upd %s=%s", compactPath(u.Path), compactVal(u.Val))
		if u.Duplicates != 0 {
			fmt.Fprintf(&b, "(dup %d)", u.Duplicates)
		}
	}
	for _, d := range n.Delete {
		fmt.Fprintf(&b, " del %s", compactPath(d))
	}
	b.WriteString("}")
	return b.String()
}

func compactR(m *pb.SubscribeResponse) string {
	switch {
	case m.GetSyncResponse():
		return "sync"
	case m.GetUpdate() != nil:
		return compactN(m.GetUpdate())
	}
	return "other:" + m.String()
}

func compactLog(log []*pb.SubscribeResponse, max int) []string {
	var out []string
	for i, m := range log {
		if i >= max {
			out = append(out, fmt.Sprintf("... %d more", len(log)-max))
			break
		}
		out = append(out, compactR(m))
	}
	return out
}

// respKey is the index path (target first) a snapshot response speaks about.
func respKey(n *pb.Notification) ([]string, bool) {
	if len(n.GetDelete()) > 0 || len(n.GetUpdate()) == 0 {
		return nil, false
	}
	pre := model.IndexPrefix(n.GetPrefix())
	if n.GetAtomic() {
		return pre, true
	}
	if len(n.GetUpdate()) != 1 {
		return nil, false
	}
	return append(append([]string{}, pre...), model.IndexPath(n.Update[0].GetPath())...), true
}

func equalIgnoringDup(got, want *pb.Notification) bool {
	g := proto.Clone(got).(*pb.Notification)
	for _, u := range g.Update {
		u.Duplicates = 0
	}
	return proto.Equal(g, want)
}

// ---------------------------------------------------------------------------
// Driving one RPC over the interactive in-memory stream.

type roundObs struct {
	Start, End int64
	Resp       []*pb.SubscribeResponse // up to and including the round's sync_response
	Ticks      []int64                 // logical time at which each response was handed to Send
	HasSync    bool
	Spurious   int  // responses that appeared after the sync before the next trigger was issued / the RPC ended
	HalfClosed bool // the request stream was closed right after the request this round answers
}

type rpcObs struct {
	Rounds     []roundObs
	Ended      bool
	Err        error
	Panic      string
	EndedEarly bool   // the RPC ended before a round's sync_response was observed
	EndedIdle  int    // > 0: the RPC ended on its own while the client was idle after the sync_response of round EndedIdle-1
	Stuck      string // what was awaited when nothing moved for the whole grace period
	StuckAttr  bool   // the goroutine dump shows the RPC still inside Subscribe
	Late       int    // responses sent after Subscribe had returned
}

type driveOpts struct {
	poll       bool
	polls      int
	closeFirst bool            // end the request stream right after the request (rejected combinations)
	between    func(round int) // after a round's sync was observed, before the next trigger
	quiet      func() bool     // nothing else is running (writers done); nil = always quiet
	slowSend   int             // 0 none, 1 yield in Send, 2 short sleep in the first sends
	halfClose  bool            // POLL: CloseSend immediately after the last request (initial request or last trigger)
	idle       time.Duration   // POLL: after every round's sync_response the client stays idle this long (nothing is being sent)
}

var pollTrigger = &pb.SubscribeRequest{Request: &pb.SubscribeRequest_Poll{Poll: &pb.Poll{}}}

func drive(srv *subscribe.Server, req *pb.SubscribeRequest, o driveOpts) *rpcObs {
	obs := &rpcObs{}
	st := vlib.NewStream(context.Background(), "u")
	defer st.Cancel()
	var mu sync.Mutex
	var ticks []int64
	var ended atomic.Bool
	var late int64
	st.SendGate = func(i int, _ *pb.SubscribeResponse) error {
		if ended.Load() {
			atomic.AddInt64(&late, 1)
		}
		switch o.slowSend {
		case 1:
			runtime.Gosched()
		case 2:
			if i < 4 {
				time.Sleep(30 * time.Microsecond)
			}
		}
		mu.Lock()
		for len(ticks) <= i {
			ticks = append(ticks, 0)
		}
		ticks[i] = tick()
		mu.Unlock()
		return nil
	}
	getTicks := func(from, to int) []int64 {
		mu.Lock()
		defer mu.Unlock()
		out := make([]int64, to-from)
		for i := from; i < to && i < len(ticks); i++ {
			out[i-from] = ticks[i]
		}
		return out
	}
	done := make(chan struct{})
	nAtReturn := -1
	// await waits for pred (nil: for the end of the RPC). "ok" | "ended" | "stuck".
	await := func(pred func(sent []*pb.SubscribeResponse) bool) string {
		last := st.NSent()
		lastChange := time.Now()
		slices := 0
		for {
			if pred != nil {
				ctx, cancel := context.WithTimeout(context.Background(), 20*time.Millisecond)
				ok := st.WaitSent(ctx, pred)
				cancel()
				if ok {
					return "ok"
				}
				select {
				case <-done:
					ctx, cancel := context.WithCancel(context.Background())
					cancel()
					if st.WaitSent(ctx, pred) {
						return "ok"
					}
					return "ended"
				default:
				}
			} else {
				select {
				case <-done:
					return "ended"
				case <-time.After(20 * time.Millisecond):
				}
			}
			n := st.NSent()
			if n != last || (o.quiet != nil && !o.quiet()) {
				last, lastChange, slices = n, time.Now(), 0
			} else {
				slices++
			}
			// Watch-dog only: the grace must have passed entirely without any
			// response while this process demonstrably kept being scheduled.
			if time.Since(lastChange) >= stuckGrace && slices >= 300 {
				return "stuck"
			}
		}
	}
	stuck := func(what string) {
		obs.Stuck = what
		buf := make([]byte, 1<<20)
		buf = buf[:runtime.Stack(buf, true)]
		obs.StuckAttr = strings.Contains(string(buf), "subscribe.(*Server).Subscribe")
	}

	st.Push(req)
	if o.closeFirst {
		st.CloseSend()
	}
	start := tick()
	go func() {
		defer close(done)
		defer func() {
			if p := recover(); p != nil {
				obs.Panic = fmt.Sprint(p)
			}
		}()
		err := srv.Subscribe(st)
		nAtReturn = st.NSent()
		ended.Store(true)
		obs.Err = err
	}()
	finish := func(from int) {
		// Subscribe has returned.
		obs.Ended = true
		if obs.Panic != "" {
			return
		}
		runtime.Gosched()
		obs.Late = int(atomic.LoadInt64(&late))
		if n := st.NSent(); n > nAtReturn && obs.Late == 0 {
			obs.Late = n - nAtReturn
		}
		if nAtReturn > from && len(obs.Rounds) > 0 {
			obs.Rounds[len(obs.Rounds)-1].Spurious += nAtReturn - from
		}
	}

	if !o.poll || o.closeFirst {
		if await(nil) == "stuck" {
			stuck("the end of the RPC")
			return obs
		}
		if obs.Panic == "" {
			sent := st.Sent()[:nAtReturn]
			obs.Rounds = append(obs.Rounds, roundObs{Start: start, End: tick(), Resp: sent, Ticks: getTicks(0, len(sent))})
		}
		finish(nAtReturn)
		return obs
	}

	from := 0
	if o.halfClose && o.polls == 0 {
		st.CloseSend()
	}
	for rd := 0; rd <= o.polls; rd++ {
		if o.halfClose && rd == o.polls {
			// The request this round answers (issued after the previous round's
			// sync_response was observed) was followed by CloseSend at once: the
			// round is read only now, up to the end of the RPC.
			if await(nil) == "stuck" {
				stuck(fmt.Sprintf("the end of the RPC (round %d requested, then the request stream closed at once)", rd))
				return obs
			}
			if obs.Panic != "" {
				obs.Ended = true
				return obs
			}
			sent := st.Sent()[:nAtReturn]
			idx := -1
			for i := from; i < len(sent); i++ {
				if sent[i].GetSyncResponse() {
					idx = i
					break
				}
			}
			ro := roundObs{Start: start, End: tick(), HalfClosed: true}
			if idx < 0 {
				ro.Resp, ro.Ticks = sent[from:], getTicks(from, len(sent))
				from = len(sent)
			} else {
				ro.Resp, ro.Ticks, ro.HasSync = sent[from:idx+1], getTicks(from, idx+1), true
				from = idx + 1
			}
			obs.Rounds = append(obs.Rounds, ro)
			finish(from)
			return obs
		}
		f := from
		res := await(func(sent []*pb.SubscribeResponse) bool {
			for _, m := range sent[f:] {
				if m.GetSyncResponse() {
					return true
				}
			}
			return false
		})
		if res == "stuck" {
			stuck(fmt.Sprintf("the sync_response of round %d", rd))
			return obs
		}
		sent := st.Sent()
		idx := -1
		for i := from; i < len(sent); i++ {
			if sent[i].GetSyncResponse() {
				idx = i
				break
			}
		}
		if idx < 0 {
			// The RPC ended before this round's sync.
			if obs.Panic == "" {
				sent = sent[:nAtReturn]
			}
			obs.EndedEarly = true
			obs.Rounds = append(obs.Rounds, roundObs{Start: start, End: tick(), Resp: sent[from:], Ticks: getTicks(from, len(sent))})
			obs.Ended = true
			return obs
		}
		ro := roundObs{Start: start, End: tick(), Resp: sent[from : idx+1], Ticks: getTicks(from, idx+1), HasSync: true}
		from = idx + 1
		if o.idle > 0 {
			// The round is complete and no trigger is outstanding: the server has
			// nothing to send, so nothing of it may time out, however long this lasts.
			select {
			case <-done:
				obs.Rounds = append(obs.Rounds, ro)
				obs.EndedIdle = rd + 1
				obs.Ended = true
				return obs
			case <-time.After(o.idle):
			}
		}
		if rd == o.polls {
			obs.Rounds = append(obs.Rounds, ro)
			break
		}
		if o.between != nil {
			o.between(rd)
		}
		if n := st.NSent(); n > from {
			ro.Spurious = n - from
			from = n
		}
		obs.Rounds = append(obs.Rounds, ro)
		start = tick()
		st.Push(pollTrigger)
		if o.halfClose && rd+1 == o.polls {
			st.CloseSend()
		}
	}
	st.CloseSend()
	if await(nil) == "stuck" {
		stuck("the end of the RPC after the request stream was closed")
		return obs
	}
	finish(from)
	return obs
}

// ---------------------------------------------------------------------------
// Judging.

type verdict struct {
	sig, what string
	round     int
}

// structural checks common to both modes: RPC status, sync placement, nothing after sync / end.
func judgeShape(s *subSpec, obs *rpcObs) *verdict {
	if obs.Panic != "" {
		return &verdict{"panic:subscribe", "Server.Subscribe panicked: " + obs.Panic, -1}
	}
	if obs.EndedEarly {
		rd := len(obs.Rounds) - 1
		return &verdict{"rpc-ended-before-sync", fmt.Sprintf("the RPC ended (status %v) before the sync_response of round %d was sent", obs.Err, rd), rd}
	}
	if obs.Err != nil {
		return &verdict{"rpc-error", fmt.Sprintf("the RPC ended with %v instead of success", obs.Err), -1}
	}
	for rd, ro := range obs.Rounds {
		nsync, firstSync := 0, -1
		for i, m := range ro.Resp {
			if m.GetSyncResponse() {
				nsync++
				if firstSync < 0 {
					firstSync = i
				}
			} else if m.GetUpdate() == nil {
				return &verdict{"malformed-response", fmt.Sprintf("round %d response #%d is neither an update nor a sync_response: %v", rd, i, m), rd}
			}
		}
		if nsync == 0 && ro.HalfClosed {
			asked := "by the initial request"
			if rd > 0 {
				asked = "by a trigger issued after the previous sync_response had been received"
			}
			return &verdict{"round-truncated-on-half-close", fmt.Sprintf("round %d was asked for %s and the request stream was closed right after that request; the RPC ended with status %v after only %d responses of that round and without its sync_response", rd, asked, obs.Err, len(ro.Resp)), rd}
		}
		if nsync == 0 {
			return &verdict{"sync-missing", fmt.Sprintf("round %d ended without a sync_response (%d responses)", rd, len(ro.Resp)), rd}
		}
		if nsync > 1 {
			return &verdict{"sync-count", fmt.Sprintf("round %d carries %d sync_responses", rd, nsync), rd}
		}
		if firstSync != len(ro.Resp)-1 {
			return &verdict{"update-after-sync", fmt.Sprintf("round %d: %d responses follow the sync_response", rd, len(ro.Resp)-1-firstSync), rd}
		}
		if ro.Spurious > 0 {
			return &verdict{"sent-after-sync", fmt.Sprintf("round %d: %d more responses were sent after the sync_response although no poll trigger had been issued", rd, ro.Spurious), rd}
		}
	}
	if obs.Late > 0 {
		return &verdict{"sent-after-rpc-end", fmt.Sprintf("%d responses were passed to Send after Subscribe had returned", obs.Late), -1}
	}
	return nil
}

type staticStats struct {
	expected, delivered, repeats, dupReported, beyondPaths int
	class                                                  string // empty | all | proper
}

// judgeStatic: against the cache content at the time of the round, the updates
// before the sync cover exactly the matching set, each with the leaf's current notification.
func judgeStatic(w *world, s *subSpec, qs [][]string, rd int, ro roundObs) (*verdict, staticStats) {
	var stt staticStats
	exp := map[string]*leaf{}
	for _, k := range w.order {
		l := w.leaves[k]
		if nMatching(s.Target, qs, l.Key) > 0 {
			exp[k] = l
		}
	}
	stt.expected = len(exp)
	switch {
	case len(exp) == 0:
		stt.class = "empty"
	case len(exp) == len(w.leaves):
		stt.class = "all"
	default:
		stt.class = "proper"
	}
	seen := map[string]int{}
	for i, m := range ro.Resp {
		n := m.GetUpdate()
		if n == nil {
			continue
		}
		key, ok := respKey(n)
		if !ok {
			return &verdict{"malformed-response", fmt.Sprintf("round %d response #%d is not a snapshot of one leaf: %s", rd, i, compactN(n)), rd}, stt
		}
		k := model.Key(key)
		if nMatching(s.Target, qs, key) == 0 {
			return &verdict{"non-matching-leaf-sent", fmt.Sprintf("round %d response #%d carries %v which no subscription path selects: %s", rd, i, key, compactN(n)), rd}, stt
		}
		l := w.leaves[k]
		if l == nil {
			return &verdict{"unknown-leaf-sent", fmt.Sprintf("round %d response #%d carries %v which the cache does not hold at that time: %s", rd, i, key, compactN(n)), rd}, stt
		}
		if !equalIgnoringDup(n, l.N) {
			return &verdict{"value-mismatch", fmt.Sprintf("round %d response #%d for %v is %s but the leaf holds %s", rd, i, key, compactN(n), compactN(l.N)), rd}, stt
		}
		seen[k]++
		stt.delivered++
		if len(n.Update) > 0 {
			stt.dupReported += int(n.Update[0].Duplicates)
		}
	}
	var missing []string
	for k, l := range exp {
		if seen[k] == 0 {
			missing = append(missing, strings.Join(l.Key, "/"))
		}
	}
	if len(missing) > 0 {
		sort.Strings(missing)
		return &verdict{"matching-leaf-missing", fmt.Sprintf("round %d: %d of %d matching leaves have no update before the sync_response: %v", rd, len(missing), len(exp), missing), rd}, stt
	}
	for k, c := range seen {
		if c > 1 {
			stt.repeats++
		}
		if c > nMatching(s.Target, qs, w.leaves[k].Key) {
			stt.beyondPaths++
		}
	}
	return nil, stt
}

func (w *world) dump() []string {
	var out []string
	for _, k := range w.order {
		l := w.leaves[k]
		out = append(out, strings.Join(l.Key, "/")+" = "+compactN(l.N))
	}
	return out
}

func reportStuck(r *vlib.Run, mode string, trial int, tag string, s *subSpec, obs *rpcObs, wit map[string]interface{}) {
	if !obs.StuckAttr {
		r.Inconclusive("nothing was sent for " + stuckGrace.String() + " while waiting for " + obs.Stuck + ", but the goroutine dump does not show the RPC inside Subscribe")
		return
	}
	atomic.AddInt32(&stuckSeen, 1)
	sig := "rpc-does-not-end"
	if strings.HasPrefix(obs.Stuck, "the sync_response") {
		sig = "no-sync"
	}
	wit["subscription"] = s.describe()
	r.Violation(mode, trial, sig, fmt.Sprintf("%s %s: nothing was sent for %v while the harness waited for %s with nothing else running, and the RPC goroutine is still inside Subscribe (%d rounds completed before)", tag, s.describe()["mode"], stuckGrace, obs.Stuck, len(obs.Rounds)), wit)
}

// ---------------------------------------------------------------------------
// Static mode: one RPC against a world whose content only the harness changes.

type staticCase struct {
	mode  string
	trial int
	tag   string
}

// runStatic drives one RPC and judges it. mutate is called between POLL rounds (may be nil).
func runStatic(r *vlib.Run, cs staticCase, w *world, s *subSpec, slow int, mutate func(round int)) {
	if atomic.LoadInt32(&stuckSeen) >= 2 {
		r.Count("rpcs_skipped_after_two_stuck_rpcs", 1)
		return
	}
	qs, rejected := s.queries()
	req := s.request()
	r.Eval(1)
	if rejected {
		obs := drive(w.srv, req, driveOpts{poll: s.Poll, closeFirst: true})
		r.Count("rejected_origin_combination_rpcs", 1)
		switch {
		case obs.Stuck != "":
			reportStuck(r, cs.mode, cs.trial, cs.tag, s, obs, map[string]interface{}{"case": cs.tag})
		case obs.Panic != "":
			r.Violation(cs.mode, cs.trial, "panic:subscribe", "Server.Subscribe panicked on a rejected origin combination: "+obs.Panic, map[string]interface{}{"case": cs.tag, "subscription": s.describe()})
		case obs.Err != nil:
			r.Count("rejected_origin_combination_ended_with_error", 1)
		default:
			r.Count("rejected_origin_combination_ended_ok", 1)
		}
		return
	}
	// Every round is judged against the model content at the time of that
	// round: the model is snapshotted before the first round and after each
	// between-rounds change (leaves are never modified in place).
	snaps := []*world{w.snapshot()}
	opts := driveOpts{poll: s.Poll, polls: s.Polls, slowSend: slow, halfClose: s.Poll && s.HalfClose}
	if s.Poll {
		opts.between = func(rd int) {
			if mutate != nil {
				mutate(rd)
			}
			snaps = append(snaps, w.snapshot())
		}
	}
	obs := drive(w.srv, req, opts)
	wit := func() map[string]interface{} {
		m := map[string]interface{}{"case": cs.tag, "subscription": s.describe(), "request": req.String()}
		var rounds []interface{}
		for i, ro := range obs.Rounds {
			rounds = append(rounds, map[string]interface{}{"round": i, "responses": compactLog(ro.Resp, 60)})
		}
		m["rounds_observed"] = rounds
		if obs.Stuck == "" {
			m["rpc_error"] = fmt.Sprint(obs.Err)
		}
		return m
	}
	if obs.Stuck != "" {
		m := wit()
		m["cache_content_now"] = w.dump()
		reportStuck(r, cs.mode, cs.trial, cs.tag, s, obs, m)
		return
	}
	mode := "once"
	if s.Poll {
		mode = "poll"
	}
	if v := judgeShape(s, obs); v != nil {
		m := wit()
		rd := v.round
		if rd < 0 || rd >= len(snaps) {
			rd = len(snaps) - 1
		}
		m["cache_content_at_that_round"] = snaps[rd].dump()
		r.Count("violations_"+mode, 1)
		r.Violation(cs.mode, cs.trial, v.sig, fmt.Sprintf("%s %s: %s", cs.tag, s.describe()["mode"], v.what), m)
		return
	}
	nontrivial := false
	for rd, ro := range obs.Rounds {
		sw := snaps[rd]
		v, stt := judgeStatic(sw, s, qs, rd, ro)
		if v != nil {
			m := wit()
			m["cache_content_at_that_round"] = sw.dump()
			r.Count("violations_"+mode, 1)
			r.Violation(cs.mode, cs.trial, v.sig, fmt.Sprintf("%s %s: %s", cs.tag, s.describe()["mode"], v.what), m)
			return
		}
		switch {
		case !s.Poll:
			r.Count("rounds_judged_once", 1)
		case rd == 0:
			r.Count("rounds_judged_poll_initial", 1)
		default:
			r.Count("rounds_judged_poll_after_trigger", 1)
		}
		if ro.HalfClosed {
			if rd == 0 {
				r.Count("rounds_judged_poll_initial_request_then_immediate_close", 1)
			} else {
				r.Count("rounds_judged_poll_trigger_then_immediate_close", 1)
			}
		}
		r.Count("matching_set_"+stt.class, 1)
		r.Count("matching_leaves_required", int64(stt.expected))
		r.Count("snapshot_updates_compared", int64(stt.delivered))
		r.Count("leaves_delivered_more_than_once", int64(stt.repeats))
		r.Count("coalesced_duplicates_reported", int64(stt.dupReported))
		r.Count("leaves_delivered_more_often_than_paths_select_them_diagnostic", int64(stt.beyondPaths))
		if stt.expected > 0 {
			nontrivial = true
		}
	}
	r.Count("rpcs_held_"+mode, 1)
	if nontrivial {
		r.Distinct(vlib.Hash(cs.mode, req.String(), strings.Join(snaps[0].dump(), "\n"), len(obs.Rounds), s.HalfClose))
	}
}

// snapshot copies the model part of the world (leaves are never modified in place).
func (w *world) snapshot() *world {
	c := &world{targets: w.targets, leaves: make(map[string]*leaf, len(w.leaves)), order: append([]string{}, w.order...)}
	for k, l := range w.leaves {
		c.leaves[k] = l
	}
	return c
}

// ---------------------------------------------------------------------------
// Exhaustive sub-mode.

func exhWorld() *world {
	w := newWorld([]string{"T0", "T1"}, 0)
	for _, a := range []string{"a", "b"} {
		for _, b := range []string{"a", "b"} {
			for _, c := range []string{"a", "b"} {
				es := []pelem{{Name: a}, {Name: b}, {Name: c}}
				w.putUpdates("T0", "oc", nil, [][]pelem{es}, []*pb.TypedValue{gen.I(w.nextVal())}, false)
				if (a == "b") != (b == "b") != (c == "b") {
					continue
				}
				w.putUpdates("T1", "oc", es[:1], [][]pelem{es[1:]}, []*pb.TypedValue{gen.I(w.nextVal())}, false)
			}
		}
	}
	return w
}

func allQueries(maxLen int) [][]string {
	out := [][]string{{}}
	level := [][]string{{}}
	for l := 1; l <= maxLen; l++ {
		var next [][]string
		for _, p := range level {
			for _, x := range []string{"a", "b", "*"} {
				next = append(next, append(append([]string{}, p...), x))
			}
		}
		out = append(out, next...)
		level = next
	}
	return out
}

func runExhaustive(r *vlib.Run) {
	var w *world
	idx := 0
	var n int64
	one := func(tag string, s *subSpec) {
		mine := r.Mine(idx)
		idx++
		if !mine {
			return
		}
		if w == nil {
			w = exhWorld()
			if w.broken != "" {
				r.Inconclusive("exhaustive world could not be built: " + w.broken)
			}
		}
		n++
		slow := 0
		if s.HalfClose && (idx/2)%2 == 1 {
			slow = 1 // every other half-close case with a slow receiver
		}
		runStatic(r, staticCase{"exhaustive", idx - 1, tag}, w, s, slow, nil)
	}
	maxLen := r.N(4, 5)
	for _, q := range allQueries(maxLen) {
		for _, placement := range []string{"prefix-origin", "path-origin", "no-origin-star-first", "no-origin-literal-first", "no-origin-bare"} {
			full := q
			switch placement {
			case "no-origin-star-first":
				full = append([]string{"*"}, q...)
			case "no-origin-literal-first":
				full = append([]string{"oc"}, q...)
			}
			for j := 0; j <= len(full); j++ {
				if placement == "path-origin" && j > 0 {
					break
				}
				for _, target := range []string{"T0", "*"} {
					for _, variant := range []string{"once", "poll-1", "poll-1-half-close", "poll-0-half-close"} {
						s := &subSpec{Target: target, Poll: variant != "once"}
						switch variant {
						case "poll-1":
							s.Polls = 1
						case "poll-1-half-close":
							s.Polls, s.HalfClose = 1, true
						case "poll-0-half-close":
							s.Polls, s.HalfClose = 0, true
						}
						s.Prefix = gen.Path(false, full[:j]...)
						s.Prefix.Target = target
						p := gen.Path(false, full[j:]...)
						switch placement {
						case "prefix-origin":
							s.Prefix.Origin = "oc"
						case "path-origin":
							p.Origin = "oc"
						}
						s.Paths = []*pb.Path{p}
						one(fmt.Sprintf("%s split=%d", placement, j), s)
					}
				}
			}
		}
	}
	r.Count("exhaustive_single_path_cases", n)
	n = 0
	// All ordered pairs of queries up to length 3 as a two-path subscription.
	qs3 := allQueries(3)
	for _, q1 := range qs3 {
		for _, q2 := range qs3 {
			s := &subSpec{Target: "*", Prefix: &pb.Path{Target: "*", Origin: "oc"}, Paths: []*pb.Path{gen.Path(false, q1...), gen.Path(false, q2...)}}
			one("pair", s)
		}
	}
	r.Count("exhaustive_path_pair_cases", n)
	if r.Shard == 0 {
		r.Count("exhaustive_max_query_len", int64(maxLen))
	}
}

// ---------------------------------------------------------------------------
// Random static mode: generators.

var plainNames = []string{"a", "b", "c"}
var strayNames = []string{"a", "b", "c", "l", "m", "1", "2", "x", "y", "oc", "o2", "zz"}

func randElem(rng *rand.Rand) pelem {
	switch x := rng.Intn(20); {
	case x < 12:
		return pelem{Name: plainNames[rng.Intn(len(plainNames))]}
	case x < 17:
		return pelem{Name: "l", Keys: [][2]string{{"k", []string{"1", "2"}[rng.Intn(2)]}}}
	default:
		return pelem{Name: "m", Keys: [][2]string{{"k1", []string{"x", "y"}[rng.Intn(2)]}, {"k2", []string{"x", "y"}[rng.Intn(2)]}}}
	}
}

func randValue(rng *rand.Rand, w *world) *pb.TypedValue {
	if rng.Intn(10) < 7 {
		return gen.I(w.nextVal() + 1000)
	}
	return gen.Value(rng)
}

// randElems draws an element path, often sharing a stem with an existing leaf.
func randElems(rng *rand.Rand, w *world, minDepth, maxDepth int) []pelem {
	var es []pelem
	if len(w.order) > 0 && rng.Intn(3) > 0 {
		base := w.leaves[w.order[rng.Intn(len(w.order))]].Elems
		if len(base) > 0 {
			es = append(es, base[:rng.Intn(len(base))]...)
		}
	}
	if len(es) > maxDepth-1 {
		es = es[:maxDepth-1]
	}
	d := minDepth + rng.Intn(maxDepth-minDepth+1)
	for len(es) < d {
		es = append(es, randElem(rng))
	}
	return es
}

func (w *world) addRandomLeaf(rng *rand.Rand, origins []string) {
	es := randElems(rng, w, 1, 4)
	origin := origins[rng.Intn(len(origins))]
	j := rng.Intn(len(es) + 1)
	if rng.Intn(3) == 0 {
		j = 0
	}
	deprecated := rng.Intn(8) == 0
	subs := [][]pelem{es[j:]}
	if j < len(es) && rng.Intn(7) == 0 {
		// multi-update notification: siblings under the same prefix
		for _, nm := range []string{"s1", "s2"}[:1+rng.Intn(2)] {
			sib := append(append([]pelem{}, es[j:len(es)-1]...), pelem{Name: nm})
			subs = append(subs, sib)
		}
	}
	for _, t := range w.targets {
		if rng.Intn(10) >= 6 {
			continue
		}
		vals := make([]*pb.TypedValue, len(subs))
		for i := range vals {
			vals[i] = randValue(rng, w)
		}
		if !w.putUpdates(t, origin, es[:j], subs, vals, deprecated) && len(subs) > 1 {
			w.putUpdates(t, origin, es[:j], subs[:1], vals[:1], deprecated)
		}
	}
}

func (w *world) addRandomAtomic(rng *rand.Rand, origins []string, target string) bool {
	pre := randElems(rng, w, 1, 3)
	origin := origins[rng.Intn(len(origins))]
	var subs [][]pelem
	var vals []*pb.TypedValue
	for i := 0; i < 2+rng.Intn(3); i++ {
		s := []pelem{{Name: fmt.Sprintf("f%d", i)}}
		if rng.Intn(3) == 0 {
			s = append([]pelem{randElem(rng)}, s...)
		}
		subs = append(subs, s)
		vals = append(vals, randValue(rng, w))
	}
	return w.putAtomic(target, origin, pre, subs, vals, rng.Intn(8) == 0)
}

var originSets = [][]string{{""}, {"oc"}, {"oc", "o2"}, {"", "oc"}}

func genWorld(rng *rand.Rand, timeout time.Duration) (*world, []string) {
	nT := 1 + rng.Intn(3)
	var targets []string
	for i := 0; i < nT; i++ {
		targets = append(targets, fmt.Sprintf("T%d", i))
	}
	w := newWorldT(targets, []int{0, 0, 1, 2}[rng.Intn(4)], timeout)
	origins := originSets[rng.Intn(len(originSets))]
	want := 5 + rng.Intn(26)
	if rng.Intn(10) < 7 {
		for try := 0; try < 5; try++ {
			if w.addRandomAtomic(rng, origins, targets[rng.Intn(nT)]) {
				break
			}
		}
	}
	for try := 0; try < 400 && len(w.leaves) < want; try++ {
		w.addRandomLeaf(rng, origins)
	}
	return w, origins
}

// globbed derives an index-level query from an index path: cut (possibly one
// past the end), '*' or a stray name at random positions.
func globbed(rng *rand.Rand, idx []string) []string {
	c := rng.Intn(len(idx) + 2)
	if rng.Intn(3) == 0 {
		c = len(idx) - rng.Intn(2)
		if c < 0 {
			c = 0
		}
	}
	var q []string
	if c <= len(idx) {
		q = append(q, idx[:c]...)
	} else {
		q = append(q, idx...)
		if rng.Intn(10) < 7 {
			q = append(q, "*")
		} else {
			q = append(q, strayNames[rng.Intn(len(strayNames))])
		}
	}
	for i := range q {
		switch x := rng.Intn(100); {
		case x < 28:
			q[i] = "*"
		case x < 33:
			q[i] = strayNames[rng.Intn(len(strayNames))]
		}
	}
	return q
}

// encode turns the index-level strings q[from:to] into a path. enc 0: the
// deprecated element list; 1: one key-less elem per string; 2: elems with keys
// following the structure of the leaf the query was derived from (falls back
// to 1 when from/to cut through a keyed element).
func encode(q []string, from, to int, enc int, shape []pelem) *pb.Path {
	if from > len(q) {
		from = len(q)
	}
	if to > len(q) {
		to = len(q)
	}
	switch enc {
	case 0:
		return &pb.Path{Element: append([]string{}, q[from:to]...)}
	case 2:
		var out []*pb.PathElem
		pos := 0
		ok := true
		for _, e := range shape {
			span := 1 + len(e.Keys)
			if pos >= to {
				break
			}
			if pos < from {
				if pos+span > from {
					ok = false
					break
				}
				pos += span
				continue
			}
			if pos+span > to {
				ok = false
				break
			}
			pe := &pb.PathElem{Name: q[pos]}
			if len(e.Keys) > 0 {
				pe.Key = map[string]string{}
				for t, kv := range e.Keys {
					pe.Key[kv[0]] = q[pos+1+t]
				}
			}
			out = append(out, pe)
			pos += span
		}
		if ok {
			if pos < from {
				pos = from
			}
			for ; pos < to; pos++ {
				out = append(out, &pb.PathElem{Name: q[pos]})
			}
			return &pb.Path{Elem: out}
		}
	}
	return &pb.Path{Elem: gen.Elems(q[from:to]...)}
}

func genSub(rng *rand.Rand, w *world, poll bool) *subSpec {
	s := &subSpec{Poll: poll}
	if poll {
		s.Polls = rng.Intn(5)
		s.HalfClose = rng.Intn(3) == 0
	}
	if rng.Intn(100) < 35 {
		s.Target = "*"
	} else {
		s.Target = w.targets[rng.Intn(len(w.targets))]
	}
	pick := func() *leaf {
		if len(w.order) == 0 {
			return &leaf{Target: w.targets[0], Elems: []pelem{{Name: "a"}}, Key: []string{w.targets[0], "a"}}
		}
		// Prefer leaves of the subscribed target.
		for try := 0; try < 4; try++ {
			l := w.leaves[w.order[rng.Intn(len(w.order))]]
			if s.Target == "*" || l.Target == s.Target || try == 3 {
				return l
			}
		}
		return nil
	}
	scheme := "none"
	switch x := rng.Intn(100); {
	case x < 28:
		scheme = "none"
	case x < 60:
		scheme = "prefix"
	case x < 92:
		scheme = "path"
	case x < 96:
		scheme = "reject-both"
	default:
		scheme = "reject-path-origin-with-prefix-elems"
	}
	originFor := func(l *leaf) string {
		if rng.Intn(100) < 85 {
			return l.Origin
		}
		return []string{"oc", "o2", "zz", ""}[rng.Intn(4)]
	}
	np := 1 + rng.Intn(4)
	first := pick()
	prefixOrigin := ""
	if scheme == "prefix" || scheme == "reject-both" {
		prefixOrigin = originFor(first)
		if scheme == "reject-both" && prefixOrigin == "" {
			prefixOrigin = "oc"
		}
	}
	j := 0 // index strings carried by the prefix
	s.Prefix = &pb.Path{Target: s.Target, Origin: prefixOrigin}
	for i := 0; i < np; i++ {
		l := first
		if i > 0 {
			l = pick()
		}
		pathOrigin := ""
		if scheme == "path" || scheme == "reject-path-origin-with-prefix-elems" || (scheme == "reject-both" && (i == 0 || rng.Intn(2) == 0)) {
			pathOrigin = originFor(l)
			if strings.HasPrefix(scheme, "reject") && pathOrigin == "" && i == 0 {
				pathOrigin = "oc"
			}
		}
		// The index the query is derived from: below the origin when the query
		// names an origin, the full index (origin first) otherwise.
		idx := elemsIndex(l.Elems)
		shape := l.Elems
		if prefixOrigin == "" && pathOrigin == "" && l.Origin != "" {
			idx = append([]string{l.Origin}, idx...)
			shape = append([]pelem{{Name: l.Origin}}, shape...)
		}
		q := globbed(rng, idx)
		enc := []int{0, 1, 1, 1, 2, 2, 2}[rng.Intn(7)]
		if i == 0 {
			switch {
			case scheme == "path":
				j = 0
			case scheme == "reject-path-origin-with-prefix-elems":
				j = 1
				if len(q) == 0 {
					q = []string{"*"}
				}
			case rng.Intn(2) == 0:
				j = 0
			default:
				j = 1 + rng.Intn(2)
			}
			if j > len(q) {
				j = len(q)
			}
			pe := encode(q, 0, j, enc, shape)
			s.Prefix.Elem, s.Prefix.Element = pe.Elem, pe.Element
			// the index strings the prefix really carries
			j = len(model.IndexPath(pe))
		}
		var p *pb.Path
		if rng.Intn(100) < 3 && pathOrigin == "" {
			p = nil
		} else {
			p = encode(q, j, len(q), enc, shape)
			p.Origin = pathOrigin
		}
		s.Paths = append(s.Paths, p)
		if rng.Intn(100) < 12 && len(s.Paths) < 4 {
			var dup *pb.Path
			if p != nil {
				dup = proto.Clone(p).(*pb.Path)
			}
			s.Paths = append(s.Paths, dup)
			i++
		}
	}
	return s
}

// mutate changes the cache (and the model) between two POLL rounds.
func (w *world) mutate(rng *rand.Rand, origins []string) (did []string) {
	for n := 1 + rng.Intn(4); n > 0; n-- {
		x := rng.Intn(100)
		if len(w.order) == 0 {
			x = 40
		}
		switch {
		case x < 35: // new value for an existing leaf
			l := w.leaves[w.order[rng.Intn(len(w.order))]]
			nn := proto.Clone(l.N).(*pb.Notification)
			nn.Timestamp = w.nextTS()
			nn.Update[rng.Intn(len(nn.Update))].Val = gen.I(w.nextVal() + 1000)
			w.feed(nn)
			nl := *l
			nl.N = proto.Clone(nn).(*pb.Notification)
			w.setLeaf(&nl)
			did = append(did, "update "+strings.Join(l.Key, "/"))
		case x < 55: // new leaf
			before := len(w.leaves)
			w.addRandomLeaf(rng, origins)
			did = append(did, fmt.Sprintf("add %d leaves", len(w.leaves)-before))
		case x < 75: // delete one leaf exactly
			l := w.leaves[w.order[rng.Intn(len(w.order))]]
			q := elemsIndex(l.Elems)
			k := w.del(l.Target, l.Origin, q, rng.Intn(6) == 0)
			did = append(did, fmt.Sprintf("delete %s/%s:%s (%d leaves)", l.Target, l.Origin, strings.Join(q, "/"), k))
		case x < 88: // delete by a shorter / globbed path
			l := w.leaves[w.order[rng.Intn(len(w.order))]]
			q := elemsIndex(l.Elems)
			q = append([]string{}, q[:1+rng.Intn(len(q))]...)
			for i := range q {
				if rng.Intn(4) == 0 && (i > 0 || rng.Intn(6) == 0) {
					q[i] = "*"
				}
			}
			k := w.del(l.Target, l.Origin, q, false)
			did = append(did, fmt.Sprintf("delete %s/%s:%s (%d leaves)", l.Target, l.Origin, strings.Join(q, "/"), k))
		case x < 95: // another atomic container
			ok := w.addRandomAtomic(rng, origins, w.targets[rng.Intn(len(w.targets))])
			did = append(did, fmt.Sprintf("atomic container added=%v", ok))
		default: // a new target
			if len(w.targets) < 4 {
				t := fmt.Sprintf("T%d", len(w.targets))
				w.addTarget(t)
				es := randElems(rng, w, 1, 3)
				w.putUpdates(t, origins[rng.Intn(len(origins))], nil, [][]pelem{es}, []*pb.TypedValue{randValue(rng, w)}, false)
				did = append(did, "new target "+t)
			}
		}
	}
	return did
}

func runRandomStatic(r *vlib.Run, trial int, rng *rand.Rand) {
	r.SaveCurrent(map[string]interface{}{"mode": "static", "trial": trial})
	w, origins := genWorld(rng, 0)
	if w.broken != "" {
		r.Inconclusive("static world could not be built (cache refused an update the prefix-free model accepts)")
		r.Count("worlds_not_built", 1)
		return
	}
	r.Count("worlds_built", 1)
	r.Count("world_leaves", int64(len(w.leaves)))
	once := genSub(rng, w, false)
	poll := genSub(rng, w, true)
	slow := []int{0, 0, 0, 1, 1, 2}[rng.Intn(6)]
	mrng := rand.New(rand.NewSource(rng.Int63()))
	runStatic(r, staticCase{"static", trial, "rpc 1 of the trial"}, w, once, slow, nil)
	var changes []string
	runStatic(r, staticCase{"static", trial, "rpc 2 of the trial"}, w, poll, slow, func(rd int) {
		changes = append(changes, w.mutate(mrng, origins)...)
	})
	if w.broken != "" {
		r.Inconclusive("a between-rounds cache change was refused by the cache although the prefix-free model accepts it")
	}
	r.Count("between_round_cache_changes", int64(len(changes)))
	if r.WantSample() && trial%211 == 0 {
		r.Sample(map[string]interface{}{"mode": "static", "trial": trial, "targets": w.targets, "origins": origins, "leaves_at_end": len(w.leaves), "once": once.describe(), "poll": poll.describe(), "between_round_changes": changes})
	}
}

// ---------------------------------------------------------------------------
// Concurrent-writer mode.

type wop struct {
	Kind      string // upd, del
	Target    string
	Path      []string // below the origin (upd: leaf; del: query)
	Val       int64
	Call, Ret int64
}

var dataA = []string{"a", "b"}
var dataB = []string{"x", "y", "z"}

func concLeafPaths(nl int) [][]string {
	var out [][]string
	for _, a := range dataA {
		for _, b := range dataB {
			for l := 0; l < nl; l++ {
				out = append(out, []string{a, b, fmt.Sprintf("l%d", l)})
			}
		}
	}
	return out
}

var concPool = [][]string{{}, {"*"}, {"a"}, {"b"}, {"a", "x"}, {"*", "y"}, {"b", "*"}, {"a", "*", "l1"}, {"b", "z", "l0"}, {"*", "*", "l0"}, {"a", "x", "*"}, {"a", "x", "l0", "*"}, {"*", "*", "*"}, {"b", "y", "l1"}}

type concRPC struct {
	sub     *subSpec
	qs      [][]string
	startAt int64
	obs     *rpcObs
}

func runConcurrent(r *vlib.Run, trial int, rng *rand.Rand) {
	if atomic.LoadInt32(&stuckSeen) >= 2 {
		r.Count("rpcs_skipped_after_two_stuck_rpcs", 1)
		return
	}
	r.SaveCurrent(map[string]interface{}{"mode": "concurrent", "trial": trial})
	procs := []int{2, 4, 16}[rng.Intn(3)]
	runtime.GOMAXPROCS(procs)
	defer runtime.GOMAXPROCS(16)
	nT := 1 + rng.Intn(3)
	var targets []string
	for i := 0; i < nT; i++ {
		targets = append(targets, fmt.Sprintf("T%d", i))
	}
	origin := ""
	if rng.Intn(3) > 0 {
		origin = "oc"
	}
	fullKey := func(target string, p []string) []string {
		k := []string{target}
		if origin != "" {
			k = append(k, origin)
		}
		return append(k, p...)
	}
	c := cache.New(targets)
	srv, _ := subscribe.NewServer(c)
	c.SetClient(srv.Update)
	leaves := concLeafPaths(2 + rng.Intn(3))
	nops := 150 + rng.Intn(350)
	totalOps := int64(nops * nT)

	// RPC plan.
	nR := 3 + rng.Intn(4)
	rpcs := make([]*concRPC, nR)
	for i := range rpcs {
		s := &subSpec{Poll: rng.Intn(2) == 0}
		if s.Poll {
			s.Polls = 1 + rng.Intn(3)
			s.HalfClose = rng.Intn(3) == 0
		}
		if rng.Intn(3) == 0 {
			s.Target = "*"
		} else {
			s.Target = targets[rng.Intn(nT)]
		}
		s.Prefix = &pb.Path{Target: s.Target}
		placement := rng.Intn(3) // 0 prefix origin, 1 path origin, 2 none (origin as first element or '*')
		if origin != "" && placement == 0 {
			s.Prefix.Origin = origin
		}
		np := 1 + rng.Intn(3)
		for k := 0; k < np; k++ {
			q := concPool[rng.Intn(len(concPool))]
			p := gen.Path(false, q...)
			if origin != "" {
				switch placement {
				case 1:
					p.Origin = origin
				case 2:
					first := "*"
					if rng.Intn(2) == 0 {
						first = origin
					}
					p = gen.Path(false, append([]string{first}, q...)...)
				}
			}
			s.Paths = append(s.Paths, p)
		}
		qs, _ := s.queries()
		rc := &concRPC{sub: s, qs: qs}
		switch rng.Intn(6) {
		case 0:
			rc.startAt = 0
		default:
			rc.startAt = rng.Int63n(totalOps)
		}
		rpcs[i] = rc
	}
	sort.Slice(rpcs, func(i, j int) bool { return rpcs[i].startAt < rpcs[j].startAt })

	// Hooks.
	pert := vlib.NewPerturb(vlib.Mix(r.Seed, int64(trial), 5))
	pert.MaxSleep = time.Duration(rng.Intn(300)) * time.Microsecond
	points := []string{"subscribe.walk.begin", "subscribe.walk.end", "subscribe.dequeue", "cache.update.written", "cache.remove.walked"}
	holdPoint := ""
	if trial%3 == 0 {
		holdPoint = points[(trial/3)%len(points)]
		if strings.HasPrefix(holdPoint, "subscribe.walk") {
			pert.Hold = map[string]time.Duration{holdPoint: time.Duration(1000+rng.Intn(2000)) * time.Microsecond}
		} else {
			pert.Hold = map[string]time.Duration{holdPoint: time.Duration(50+rng.Intn(200)) * time.Microsecond}
		}
	}
	var phase int32 // 0 no round in flight; 1 called, before the walk; 2 inside the walk; 3 walk done, not yet synced
	pert.OnPoint = func(name string, key interface{}) {
		switch name {
		case "subscribe.walk.begin":
			atomic.CompareAndSwapInt32(&phase, 1, 2)
		case "subscribe.walk.end":
			atomic.CompareAndSwapInt32(&phase, 2, 3)
		}
	}
	verifhook.Set(pert.Handle)
	defer verifhook.Set(nil)
	var windowHits [4]int64

	// Writers.
	var progress int64
	var writersLeft int32 = int32(nT)
	hist := make([][]wop, nT)
	tsOf := make([]int64, nT)
	var rejected int32
	var ctr int64
	newVal := func(ti int) int64 { return int64(ti+1)<<40 | atomic.AddInt64(&ctr, 1) }
	write := func(ti int, kind string, p []string, val int64) {
		tsOf[ti]++
		o := wop{Kind: kind, Target: targets[ti], Path: p, Val: val}
		var n *pb.Notification
		if kind == "upd" {
			n = gen.Update(o.Target, origin, tsOf[ti], nil, gen.Path(false, p...), gen.I(val))
		} else {
			n = gen.Delete(o.Target, origin, tsOf[ti], nil, gen.Path(false, p...))
		}
		o.Call = tick()
		if err := c.GnmiUpdate(n); err != nil {
			atomic.AddInt32(&rejected, 1)
			o.Kind = "rejected"
		}
		o.Ret = tick()
		atomic.AddInt64(&windowHits[atomic.LoadInt32(&phase)], 1)
		hist[ti] = append(hist[ti], o)
	}
	for ti := range targets {
		for _, p := range leaves {
			if rng.Intn(3) > 0 {
				write(ti, "upd", p, newVal(ti))
			}
		}
	}
	windowHits = [4]int64{}
	var wg sync.WaitGroup
	for ti := 0; ti < nT; ti++ {
		ti := ti
		seed := rng.Int63()
		wg.Add(1)
		go func() {
			defer wg.Done()
			defer atomic.AddInt32(&writersLeft, -1)
			wr := rand.New(rand.NewSource(seed))
			for i := 0; i < nops; i++ {
				x := wr.Intn(100)
				p := leaves[wr.Intn(len(leaves))]
				switch {
				case x < 58:
					write(ti, "upd", p, newVal(ti))
				case x < 70:
					for k := 0; k < 2+wr.Intn(4); k++ {
						write(ti, "upd", p, newVal(ti))
					}
				case x < 86:
					write(ti, "del", p, 0)
				case x < 96:
					write(ti, "del", p[:2], 0)
				default:
					write(ti, "del", p[:1], 0)
				}
				atomic.AddInt64(&progress, 1)
				if wr.Intn(8) == 0 {
					runtime.Gosched()
				}
			}
		}()
	}
	quiet := func() bool { return atomic.LoadInt32(&writersLeft) == 0 }

	// RPCs, one after the other, while the writers run.
	stuckAt := -1
	for i, rc := range rpcs {
		for atomic.LoadInt64(&progress) < rc.startAt && !quiet() {
			runtime.Gosched()
			time.Sleep(20 * time.Microsecond)
		}
		atomic.StoreInt32(&phase, 1)
		r.Eval(1)
		rc.obs = drive(srv, rc.sub.request(), driveOpts{poll: rc.sub.Poll, polls: rc.sub.Polls, halfClose: rc.sub.Poll && rc.sub.HalfClose, quiet: quiet,
			between: func(int) { atomic.StoreInt32(&phase, 1) }})
		atomic.StoreInt32(&phase, 0)
		if rc.obs.Stuck != "" {
			stuckAt = i
			break
		}
	}
	wg.Wait()
	verifhook.Set(nil)

	base := map[string]interface{}{"targets": targets, "origin": origin, "gomaxprocs": procs, "hold_point": holdPoint, "ops_per_writer": nops, "leaves_per_target_universe": len(leaves)}
	if rejected > 0 {
		r.Inconclusive("the cache rejected a writer's operation (unexpected for strictly increasing timestamps); trial not judged")
		return
	}
	for k, v := range pert.Hits() {
		r.Count("conc_point_"+k, v)
	}
	names := []string{"no-round-in-flight", "called-before-walk", "inside-walk", "after-walk-before-sync"}
	for i, n := range windowHits {
		r.Count("conc_writes_seen_"+names[i], n)
	}
	if stuckAt >= 0 {
		rc := rpcs[stuckAt]
		reportStuck(r, "concurrent", trial, fmt.Sprintf("rpc %d", stuckAt), rc.sub, rc.obs, base)
		return
	}

	// Per leaf key: the writer's operations touching it, in program order.
	type ev struct {
		del       bool
		val       int64
		call, ret int64
	}
	byKey := map[string][]ev{}
	for ti := range hist {
		for _, o := range hist[ti] {
			switch o.Kind {
			case "upd":
				k := model.Key(fullKey(o.Target, o.Path))
				byKey[k] = append(byKey[k], ev{false, o.Val, o.Call, o.Ret})
			}
		}
		for _, o := range hist[ti] {
			if o.Kind != "del" {
				continue
			}
			dq := fullKey(o.Target, o.Path)
			for _, p := range leaves {
				key := fullKey(o.Target, p)
				if model.MatchQ(dq[1:], key[1:]) {
					k := model.Key(key)
					byKey[k] = append(byKey[k], ev{true, 0, o.Call, o.Ret})
				}
			}
		}
	}
	for k := range byKey {
		evs := byKey[k]
		sort.Slice(evs, func(i, j int) bool { return evs[i].call < evs[j].call })
	}
	allHeld := true
	for i, rc := range rpcs {
		s := rc.sub
		obs := rc.obs
		viol := func(sig, what string, rd int) {
			allHeld = false
			m := map[string]interface{}{}
			for k, v := range base {
				m[k] = v
			}
			m["subscription"] = s.describe()
			m["rpc_index"] = i
			m["started_after_writer_ops"] = rc.startAt
			if rd >= 0 && rd < len(obs.Rounds) {
				m["round"] = rd
				m["round_start_tick"] = obs.Rounds[rd].Start
				m["round_end_tick"] = obs.Rounds[rd].End
				m["round_responses"] = compactLog(obs.Rounds[rd].Resp, 80)
			}
			r.Violation("concurrent", trial, sig, fmt.Sprintf("rpc %d %s target %s: %s", i, s.describe()["mode"], s.Target, what), m)
		}
		if v := judgeShape(s, obs); v != nil {
			viol(v.sig, v.what, v.round)
			continue
		}
		ok := true
		for rd, ro := range obs.Rounds {
			if !ok {
				break
			}
			seen := map[string]bool{}
			for ri, m := range ro.Resp {
				n := m.GetUpdate()
				if n == nil {
					continue
				}
				key, kok := respKey(n)
				if !kok {
					viol("malformed-response", fmt.Sprintf("round %d response #%d is not a snapshot of one leaf: %s", rd, ri, compactN(n)), rd)
					ok = false
					break
				}
				if nMatching(s.Target, rc.qs, key) == 0 {
					viol("non-matching-leaf-sent", fmt.Sprintf("round %d response #%d carries %v which no subscription path selects", rd, ri, key), rd)
					ok = false
					break
				}
				k := model.Key(key)
				v := n.Update[0].GetVal().GetIntVal()
				evs := byKey[k]
				wi := -1
				for x, e := range evs {
					if !e.del && e.val == v {
						wi = x
						break
					}
				}
				if wi < 0 {
					viol("invented-value", fmt.Sprintf("round %d response #%d carries %v=%d, a value never written to that leaf", rd, ri, key, v), rd)
					ok = false
					break
				}
				if evs[wi].call >= ro.Ticks[ri] {
					viol("value-from-the-future", fmt.Sprintf("round %d response #%d carries %v=%d whose write was invoked (tick %d) after the response was sent (tick %d)", rd, ri, key, v, evs[wi].call, ro.Ticks[ri]), rd)
					ok = false
					break
				}
				if wi+1 < len(evs) && evs[wi+1].ret < ro.Start {
					what := "overwritten"
					if evs[wi+1].del {
						what = "deleted"
					}
					viol("stale-value", fmt.Sprintf("round %d response #%d carries %v=%d, but that value had been %s (operation returned at tick %d) before the round started (tick %d): the leaf did not hold it at any time between call start and send", rd, ri, key, v, what, evs[wi+1].ret, ro.Start), rd)
					ok = false
					break
				}
				seen[k] = true
				r.Count("conc_values_judged", 1)
			}
			if !ok {
				break
			}
			// Leaves that matched and existed for the whole round.
			overlapped := false
			for k, evs := range byKey {
				key := model.Unkey(k)
				if nMatching(s.Target, rc.qs, key) == 0 {
					continue
				}
				alive := false
				var since int64
				for _, e := range evs {
					if e.call >= ro.End {
						break
					}
					if e.ret > ro.Start {
						overlapped = true
					}
					if e.del {
						alive = false
					} else if !alive {
						alive, since = true, e.ret
					}
				}
				if alive && since < ro.Start {
					r.Count("conc_leaves_required_present", 1)
					if !seen[k] {
						viol("matching-leaf-missing", fmt.Sprintf("round %d: leaf %v matched and existed for the whole round (written by tick %d < round start %d, no delete invoked before round end %d) but has no update before the sync_response", rd, key, since, ro.Start, ro.End), rd)
						ok = false
						break
					}
				}
			}
			if !ok {
				break
			}
			r.Count("conc_rounds_judged", 1)
			if ro.HalfClosed {
				r.Count("conc_rounds_judged_request_then_immediate_close", 1)
			}
			if overlapped {
				r.Count("conc_rounds_overlapping_writes_to_matching_leaves", 1)
			}
		}
		if ok {
			r.Count("conc_rpcs_held", 1)
		}
	}
	r.SetAdd("conc_interleavings", pert.Signature())
	if allHeld {
		r.Distinct(vlib.Hash("concurrent", trial, pert.Signature()))
	}
	if r.WantSample() && trial%29 == 0 {
		rc := rpcs[0]
		var rounds []interface{}
		for rd, ro := range rc.obs.Rounds {
			rounds = append(rounds, map[string]interface{}{"round": rd, "responses": len(ro.Resp), "first": compactLog(ro.Resp, 4)})
		}
		r.Sample(map[string]interface{}{"mode": "concurrent", "trial": trial, "setup": base, "rpcs": len(rpcs), "rpc0": rc.sub.describe(), "rpc0_rounds": rounds})
	}
}

// ---------------------------------------------------------------------------
// Idle POLL client: the server's send timeout must only cover sends. The
// server gets a short timeout T; after every round's sync_response the client
// waits 3-4 x T before it issues the next trigger (or closes the request
// stream). Nothing is being sent meanwhile, so correct code has no timer
// armed: waiting longer can only make a wrongly armed timer more certain to
// fire (one-sided, load only lengthens the wait). Every round must still be
// answered completely and the RPC must end with nil.
// (ONCE has no such phase: after its sync_response the queue is closed and the
// RPC returns at once, there is no server-side idle period to observe.)

// runPollIdle runs the trial at the drawn send timeout and, if the RPC ended
// while the client was idle, again with the timeout (and the idle period)
// scaled x6 and x30. "Idle" is what the harness can see: the sync_response was
// recorded by the stream. The server's Send call returns, and its timer is
// stopped, a moment later; on a starved machine that moment can outlast a
// 50-150 ms timeout, and the timer then fires legitimately. A timer that is
// wrongly left armed fires at every scale (the idle period is 3-4 timeouts at
// every scale); a starved goroutine does not stay descheduled for seconds three
// times in a row. Only a termination reproduced at all three scales is reported.
func runPollIdle(r *vlib.Run, trial int, _ *rand.Rand) {
	for i, scale := range []int{1, 6, 30} {
		suspect := runPollIdleAt(r, trial, r.Rand("pollidle", trial), scale)
		if !suspect {
			if i > 0 {
				r.Count("pollidle_terminations_not_reproduced_at_larger_timeout", 1)
				r.Inconclusive("pollidle: an idle POLL stream ended with the send-timeout error once, but not with the timeout scaled up (starved machine: the server's Send had not returned yet when its short timer fired)")
			}
			return
		}
		r.Count(fmt.Sprintf("pollidle_suspected_terminations_at_timeout_scale_x%d", scale), 1)
	}
}

func runPollIdleAt(r *vlib.Run, trial int, rng *rand.Rand, scale int) (suspect bool) {
	if atomic.LoadInt32(&stuckSeen) >= 2 {
		r.Count("rpcs_skipped_after_two_stuck_rpcs", 1)
		return
	}
	timeout := time.Duration(50+rng.Intn(101)) * time.Millisecond * time.Duration(scale)
	idle := time.Duration(float64(timeout) * (3 + rng.Float64()))
	w, origins := genWorld(rng, timeout)
	if w.broken != "" {
		r.Inconclusive("static world could not be built (cache refused an update the prefix-free model accepts)")
		return
	}
	var s *subSpec
	for try := 0; try < 20; try++ {
		s = genSub(rng, w, true)
		if _, rejected := s.queries(); !rejected {
			break
		}
		s = nil
	}
	if s == nil {
		return
	}
	s.Polls = 1 + rng.Intn(2)
	s.HalfClose = false // this mode closes the request stream only after an idle period
	qs, _ := s.queries()
	req := s.request()
	mrng := rand.New(rand.NewSource(rng.Int63()))
	snaps := []*world{w.snapshot()}
	var changes []string
	r.Eval(1)
	obs := drive(w.srv, req, driveOpts{poll: true, polls: s.Polls, idle: idle, between: func(rd int) {
		changes = append(changes, w.mutate(mrng, origins)...)
		snaps = append(snaps, w.snapshot())
	}})
	tag := fmt.Sprintf("send timeout %v, client idle %v after every sync_response", timeout, idle.Round(time.Millisecond))
	wit := func() map[string]interface{} {
		m := map[string]interface{}{"case": tag, "subscription": s.describe(), "request": req.String(), "send_timeout_ms": timeout.Milliseconds(), "idle_ms": idle.Milliseconds(), "between_round_changes": changes}
		var rounds []interface{}
		for i, ro := range obs.Rounds {
			rounds = append(rounds, map[string]interface{}{"round": i, "responses": compactLog(ro.Resp, 40)})
		}
		m["rounds_observed"] = rounds
		if obs.Stuck == "" {
			m["rpc_error"] = fmt.Sprint(obs.Err)
		}
		return m
	}
	if obs.Stuck != "" {
		reportStuck(r, "pollidle", trial, tag, s, obs, wit())
		return
	}
	if obs.EndedIdle > 0 {
		if scale < 30 {
			return true // to be confirmed at a larger timeout
		}
		r.Violation("pollidle", trial, "poll-terminated-while-idle", fmt.Sprintf("%s: %s: the RPC ended on its own with status %v while the client was idle after the sync_response of round %d (round complete, no trigger outstanding, nothing being sent); the next poll trigger could not be answered; reproduced with the send timeout scaled x6 and x30", tag, s.describe()["mode"], obs.Err, obs.EndedIdle-1), wit())
		return
	}
	if scale > 1 {
		return false // confirmation runs only answer the one question
	}
	if obs.EndedEarly && obs.Err != nil && strings.Contains(obs.Err.Error(), "timed out while sending") {
		// The timeout fired while a round was being sent: with 50-150 ms this is
		// what a starved process looks like, not something this mode decides.
		r.Inconclusive("pollidle: the server's short send timeout fired while a round was being sent (machine load); trial not judged")
		return
	}
	if v := judgeShape(s, obs); v != nil {
		m := wit()
		rd := v.round
		if rd < 0 || rd >= len(snaps) {
			rd = len(snaps) - 1
		}
		m["cache_content_at_that_round"] = snaps[rd].dump()
		r.Violation("pollidle", trial, v.sig, fmt.Sprintf("%s: %s: %s", tag, s.describe()["mode"], v.what), m)
		return
	}
	nontrivial := false
	for rd, ro := range obs.Rounds {
		v, stt := judgeStatic(snaps[rd], s, qs, rd, ro)
		if v != nil {
			m := wit()
			m["cache_content_at_that_round"] = snaps[rd].dump()
			r.Violation("pollidle", trial, v.sig, fmt.Sprintf("%s: %s: %s", tag, s.describe()["mode"], v.what), m)
			return
		}
		if rd > 0 {
			r.Count("pollidle_rounds_answered_completely_after_idle", 1)
			if stt.expected > 0 {
				nontrivial = true
			}
		}
		r.Count("pollidle_matching_leaves_required", int64(stt.expected))
	}
	r.Count("pollidle_rpcs_ended_ok_after_idle_close", 1)
	r.Count("pollidle_idle_periods", int64(len(obs.Rounds)))
	r.Count("pollidle_idle_ms_total", int64(len(obs.Rounds))*idle.Milliseconds())
	if nontrivial {
		r.Distinct(vlib.Hash("pollidle", req.String(), strings.Join(snaps[0].dump(), "\n"), timeout))
	}
	return false
}

// ---------------------------------------------------------------------------

func body(r *vlib.Run) {
	if r.OnlyTrial < 0 || r.OnlyMode == "exhaustive" {
		runExhaustive(r)
	}
	r.ForTrials("static", r.N(4000, 100000), func(trial int, rng *rand.Rand) {
		runRandomStatic(r, trial, rng)
	})
	r.ForTrials("concurrent", r.N(200, 3000), func(trial int, rng *rand.Rand) {
		runConcurrent(r, trial, rng)
	})
	// The idle trials mostly sleep; those of a shard run side by side (no hooks,
	// no shared state besides the mutex-guarded Run).
	var wg sync.WaitGroup
	sem := make(chan struct{}, 12)
	r.ForTrials("pollidle", r.N(40, 600), func(trial int, rng *rand.Rand) {
		wg.Add(1)
		sem <- struct{}{}
		go func() {
			defer wg.Done()
			defer func() { <-sem }()
			runPollIdle(r, trial, rng)
		}()
	})
	wg.Wait()
}

func postMerge(tier string, c map[string]int64) []string {
	var out []string
	for _, k := range []string{"rounds_judged_once", "rounds_judged_poll_initial", "rounds_judged_poll_after_trigger", "matching_set_proper", "rejected_origin_combination_rpcs", "leaves_delivered_more_than_once", "between_round_cache_changes", "conc_rounds_overlapping_writes_to_matching_leaves", "conc_leaves_required_present", "conc_values_judged", "pollidle_rounds_answered_completely_after_idle", "rounds_judged_poll_initial_request_then_immediate_close", "rounds_judged_poll_trigger_then_immediate_close"} {
		if c[k] == 0 {
			out = append(out, "oracle branch never exercised: "+k)
		}
	}
	return out
}

func main() {
	vlib.Main(&vlib.Spec{
		ID: "C05",
		Rule: "exhaustive: every query over {a,b,*} up to length 4 (thorough 5) against a 3-level x 2-name tree held by two targets under origin 'oc', at every prefix/path split, with the origin in the prefix, in the path, or absent (first element '*', the literal origin, or nothing), for one target and target '*', as ONCE, as POLL with one trigger (request stream closed after the last sync_response), as POLL whose single trigger (issued after the first sync_response was received) is followed by CloseSend at once, and as POLL whose initial request is followed by CloseSend at once (every other half-close case with a slow receiver); plus every ordered pair of queries up to length 3 as a two-path ONCE subscription on '*'. " +
			"static: seeded cache contents (1-3 targets, origin sets {''},{oc},{oc,o2},{'',oc} stamped in the prefix, keyed elements with one and two keys, both path encodings, multi-update notifications, one atomic container, 5-30 leaves) and, per content, one ONCE and one POLL subscription (1-4 paths derived from stored leaves by cutting, running one element past the leaf, '*' or a stray name at any position; origin in prefix / path / absent; target '*' in 35 %; duplicate and path-less subscriptions; 8 % rejected origin combinations), POLL with 0-4 triggers, in a third of the POLL RPCs the request stream is closed immediately after the last request (the initial one or the last trigger) instead of after its sync_response, and 1-4 sequential cache changes (update, add, exact / wildcard delete, atomic container, new target) between rounds; every third trial a slow receiver. " +
			"concurrent: 1-3 targets, one writer goroutine per target (150-500 updates with unique values, leaf / subtree deletes, re-adds) while 3-6 ONCE / POLL(1-3, a third with the request stream closed right after the last trigger) RPCs are issued at seeded moments; GOMAXPROCS in {2,4,16}; seeded delays at 5 schedule points, every 3rd trial a long hold at one of them. " +
			"pollidle: server with a send timeout T of 50-150 ms, random content, POLL with 1-2 triggers; after every round's sync_response (also the last) the client stays idle for 3-4 x T, then changes the cache, issues the next trigger or closes the request stream; same snapshot oracle per round, RPC must end with nil; the trials of a shard run side by side. " +
			"An RPC is a distinct non-trivial case when it was judged to the end and at least one of its rounds had a non-empty matching set (hashed by request, cache content and number of rounds); a concurrent trial when all its RPCs were judged (hashed by its schedule-point sequence).",
		Assumptions: []string{
			"'matching' is the documented selection: target equal or '*'; query = [origin] + prefix elements + path elements with the origin taken from the prefix or, with an element-less prefix, from the path (no default origin is added); index form = element name followed by its key values in key-name order; a query selects a leaf when it agrees element-wise ('*' = any) and is no longer than the leaf's path, except that one trailing '*' may run past it (model.MatchQ)",
			"the cache content is fed through Cache.GnmiUpdate only with strictly increasing timestamps and prefix-free paths (stale / colliding updates are C02/C09's subject); origins of stored data are in the notification prefix (path-level origins: D19); no meta/ leaves, no Reset/Remove (C14)",
			"the model holds, per leaf, the notification the cache is documented to hold (the notification itself, or a copy with the single update for each update of a multi-update notification, the whole notification for an atomic one); responses are compared with proto.Equal after clearing the 'duplicates' field",
			"a leaf delivered more often than it is selected is counted as a diagnostic only (the statement says 'at least once')",
			"for the two origin combinations CompletePath rejects only the end of the RPC is required (the request stream is closed right after the request)",
			"POLL is driven interactively: a trigger is issued only after the previous sync_response was observed by the harness (a trigger sent earlier may legitimately be coalesced with the running round and is never generated); CloseSend comes either after the last round's sync_response or, in the half-close class, immediately after the last request (initial request or last trigger) before that round is read: every round asked for is still owed completely (matching set, one sync) and the RPC must end with nil",
			"concurrent mode: one writer per target, unique int values, fixed-depth leaves; a value is accepted iff its write was invoked before the response was handed to Send and the next operation on that leaf had not returned before the round started; a leaf is required iff a write to it returned before the round started and no delete covering it was invoked before the round ended; logical clock = one shared atomic counter",
			"pollidle is one-sided: while the client is idle the server has nothing to send, so correct code has no send timer armed and a longer wait (load) changes nothing; an RPC that ends during that idle period is a violation, a send timeout firing while a round is being sent is recorded as inconclusive (load)",
			"an RPC or round that does not complete is a violation only when nothing was sent for 20 s after the writers had finished, the harness kept being scheduled throughout, and the goroutine dump shows the RPC still inside Subscribe; otherwise inconclusive. After two such RPCs the remaining RPCs of the shard are skipped",
		},
		QuickShards: 8, ThoroughShards: 16,
		MinDistinctQuick: 1000, MinDistinctThorough: 10000,
		PostMerge: postMerge,
		Body:      body,
	})
}
