package main

import (
	"fmt"
	"math/rand"
	"runtime"
	"sync"
	"sync/atomic"
	"time"

	"github.com/openconfig/gnmi/match"

	"verif/internal/model"
	"verif/internal/vlib"
)

// Mode "concremove": dispatch concurrent with unsubscription, the way the
// server uses the trie (cache feed goroutines call Update while an ending RPC
// runs its deferred remove). The clause judged is the one the statement gives
// for removal: once a subscription's remove function has RETURNED, no offer to
// that subscription may BEGIN, and offers to other subscribers registered with
// the same paths keep arriving. Both are decided on ticks of one atomic
// counter taken at the harness boundary (callback entry, return of remove).

var cclock int64

func ctick() int64 { return atomic.AddInt64(&cclock, 1) }

type tcli struct {
	id        int
	removedAt int64 // tick at which remove() returned (0: still registered)
	lateEntry int64 // tick of the first callback that began after removedAt
	calls     int64
	slow      time.Duration
}

func (c *tcli) Update(v interface{}) {
	t := ctick()
	atomic.AddInt64(&c.calls, 1)
	if r := atomic.LoadInt64(&c.removedAt); r != 0 && t > r {
		atomic.CompareAndSwapInt64(&c.lateEntry, 0, t)
	}
	if c.slow > 0 {
		time.Sleep(c.slow)
	} else if c.id%3 == 0 {
		runtime.Gosched()
	}
}

func modeConcRemove(r *vlib.Run) {
	r.ForTrials("concremove", r.N(300, 6000), func(trial int, rng *rand.Rand) {
		m := match.New()
		alpha := []string{"a", "b", "*"}
		nq := 2 + rng.Intn(4)
		var queries [][]string
		for i := 0; i < nq; i++ {
			queries = append(queries, randPath(rng, alpha, 0.25, 3))
		}
		nc := 3 + rng.Intn(6)
		clients := make([]*tcli, nc)
		removes := make([][]func(), nc)
		regs := make([][][]string, nc)
		buf := make([]string, 0, 8)
		for i := range clients {
			clients[i] = &tcli{id: i}
			if rng.Intn(3) == 0 {
				clients[i].slow = time.Duration(20+rng.Intn(200)) * time.Microsecond
			}
			k := 1 + rng.Intn(2)
			for j := 0; j < k; j++ {
				q := queries[rng.Intn(nq)]
				// registered from a reused backing array, as the server does
				qq := append(buf[:0], q...)
				removes[i] = append(removes[i], m.AddQuery(qq, clients[i]))
				regs[i] = append(regs[i], cp(q))
			}
		}
		// A bystander registered with exactly the same paths as client 0 and never removed.
		by := &tcli{id: 1000}
		for _, q := range regs[0] {
			m.AddQuery(cp(q), by)
		}
		stop := make(chan struct{})
		var wg sync.WaitGroup
		nw := 2 + rng.Intn(3)
		var dispatched int64
		wseed := make([]int64, nw)
		for i := range wseed {
			wseed[i] = rng.Int63()
		}
		for w := 0; w < nw; w++ {
			w := w
			wg.Add(1)
			go func() {
				defer wg.Done()
				wr := rand.New(rand.NewSource(wseed[w]))
				for {
					select {
					case <-stop:
						return
					default:
					}
					p := randPath(wr, alpha, 0.1, 3)
					if wr.Intn(2) == 0 {
						m.Update(w, p)
					} else {
						m.UpdateOnce(w, p, map[match.Client]struct{}{})
					}
					atomic.AddInt64(&dispatched, 1)
				}
			}()
		}
		// Unsubscribe a seeded subset while dispatch is running; at the same
		// moment late joiners register on the very paths that are being left (a
		// registration racing the pruning of the branch it lands on).
		order := rng.Perm(nc)
		nrem := 1 + rng.Intn(nc)
		type joiner struct {
			c *tcli
			q [][]string
		}
		var joiners []joiner
		var jmu sync.Mutex
		for _, i := range order[:nrem] {
			for atomic.LoadInt64(&dispatched) < int64(20+rng.Intn(200)) {
				runtime.Gosched()
			}
			var jw sync.WaitGroup
			if rng.Intn(2) == 0 {
				j := joiner{c: &tcli{id: 2000 + i}, q: regs[i]}
				jw.Add(1)
				go func() {
					defer jw.Done()
					for _, q := range j.q {
						m.AddQuery(cp(q), j.c)
					}
					jmu.Lock()
					joiners = append(joiners, j)
					jmu.Unlock()
				}()
				if rng.Intn(2) == 0 {
					runtime.Gosched()
				}
			}
			for _, rm := range removes[i] {
				rm()
			}
			atomic.StoreInt64(&clients[i].removedAt, ctick())
			jw.Wait()
			time.Sleep(time.Duration(rng.Intn(150)) * time.Microsecond)
		}
		// Let dispatch continue well past the removals, then stop.
		target := atomic.LoadInt64(&dispatched) + 400
		for atomic.LoadInt64(&dispatched) < target {
			runtime.Gosched()
		}
		byBefore := atomic.LoadInt64(&by.calls)
		// The bystander must still be offered a path one of its queries is compatible with.
		probe := cp(regs[0][0])
		for i := range probe {
			if probe[i] == "*" {
				probe[i] = "a"
			}
		}
		m.Update("probe", probe)
		close(stop)
		wg.Wait()
		// Quiescent: every late joiner is registered and must be offered a path
		// one of its queries is compatible with.
		for _, j := range joiners {
			before := atomic.LoadInt64(&j.c.calls)
			pr := cp(j.q[0])
			for i := range pr {
				if pr[i] == "*" {
					pr[i] = "b"
				}
			}
			m.Update("probe-joiner", pr)
			r.Count("concremove_late_joiners_probed", 1)
			if atomic.LoadInt64(&j.c.calls) == before {
				r.Violation("concremove", trial, "offer-missed:registered-while-peer-unsubscribed",
					fmt.Sprintf("a client that registered %s while another client with the same paths was unsubscribing is not offered %s afterwards", pss(j.q), ps(pr)), nil)
			}
		}
		// Tight rounds of the narrowest case: the LAST client of a childless branch
		// unsubscribes at the very moment another client registers the same path.
		// Whatever the order, the newcomer is registered afterwards and must be
		// offered the path; the leaver must not be.
		tightPath := randPath(rng, []string{"a", "b"}, 0, 3)
		if len(tightPath) == 0 {
			tightPath = []string{"a"}
		}
		for round := 0; round < 60; round++ {
			a, b := &tcli{id: 3000}, &tcli{id: 3001}
			rmA := m.AddQuery(cp(tightPath), a)
			var gate int32
			var tw sync.WaitGroup
			var rmB func()
			tw.Add(2)
			go func() {
				defer tw.Done()
				for atomic.LoadInt32(&gate) == 0 {
				}
				rmA()
			}()
			go func() {
				defer tw.Done()
				for atomic.LoadInt32(&gate) == 0 {
				}
				rmB = m.AddQuery(cp(tightPath), b)
			}()
			for i := 0; i < round%40; i++ {
				runtime.Gosched()
			}
			atomic.StoreInt32(&gate, 1)
			tw.Wait()
			m.Update("tight", tightPath)
			r.Count("concremove_tight_rounds", 1)
			if atomic.LoadInt64(&b.calls) == 0 {
				r.Violation("concremove", trial, "offer-missed:registered-while-peer-unsubscribed",
					fmt.Sprintf("a client that registered %s at the moment the last other client of that path unsubscribed is not offered %s afterwards", ps(tightPath), ps(tightPath)), nil)
				rmB()
				break
			}
			if atomic.LoadInt64(&a.calls) != 0 {
				r.Violation("concremove", trial, "offer-after-remove:concurrent", fmt.Sprintf("the client that unsubscribed from %s was offered it afterwards", ps(tightPath)), nil)
			}
			rmB()
		}
		r.Eval(1)
		r.Count("concremove_dispatches", atomic.LoadInt64(&dispatched))
		r.Count("concremove_removals", int64(nrem))
		late := false
		for _, i := range order[:nrem] {
			c := clients[i]
			if le := atomic.LoadInt64(&c.lateEntry); le != 0 {
				late = true
				r.Violation("concremove", trial, "offer-after-remove:concurrent",
					fmt.Sprintf("client %d registered with %s was offered an update whose callback began at tick %d, after its remove function had returned at tick %d (dispatch concurrent with unsubscription)", c.id, pss(regs[i]), le, c.removedAt),
					map[string]interface{}{"queries": regs[i], "clients": nc, "writers": nw})
			}
			if atomic.LoadInt64(&c.calls) > 0 {
				r.Count("concremove_removed_clients_that_had_offers", 1)
			}
		}
		if atomic.LoadInt64(&by.calls) == byBefore && model.Compat(regs[0][0], probe) {
			r.Violation("concremove", trial, "offer-missed:bystander-after-concurrent-remove",
				fmt.Sprintf("bystander registered with %s was not offered %s after other clients with the same paths were removed concurrently", pss(regs[0]), ps(probe)), nil)
		}
		if !late {
			r.Distinct(vlib.Hash("concremove", trial))
		}
	})
}
