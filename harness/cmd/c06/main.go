// C06 — Streaming filter is consistent with queries; one delivery per notification.
//
// Runtime monitor of the real match.Match / subscribe.UpdateNotification /
// subscribe.Server: counting clients are registered with the real trie, real
// updates are pushed through it, and the recorded offers are compared with the
// relation of the property statement (model.Compat) and with a small model
// registry. Modes:
//
//	pairs     exhaustive (q,p) over {a,b,*}^<=4: offered iff Compat, through Update,
//	          UpdateOnce and UpdateNotification; containment of ctree.Query;
//	          removal / idempotence / re-add on the same node with a bystander
//	fulltrie  all 121 queries in one trie (two clients per node), staged removals
//	notif     exhaustive at-most-once: all query sets of size <= 2 against single-
//	          and multi-update/delete notifications and atomic containers through
//	          UpdateNotification
//	notifrand random larger query sets / notifications (keys, both encodings)
//	history   random subscribe / unsubscribe / update histories vs. a model registry
//	server    the server's own path construction: real Server.Subscribe (STREAM,
//	          updates_only) over an in-memory stream, notifications fed through
//	          Server.Update, offered compared with Compat on the index path and
//	          with the snapshot path path.CompletePath builds; trie census at the end
package main

import (
	"context"
	"fmt"
	"math/rand"
	"reflect"
	"sort"
	"strings"
	"time"

	"github.com/openconfig/gnmi/cache"
	"github.com/openconfig/gnmi/ctree"
	"github.com/openconfig/gnmi/match"
	"github.com/openconfig/gnmi/path"
	pb "github.com/openconfig/gnmi/proto/gnmi"
	"github.com/openconfig/gnmi/subscribe"

	"verif/internal/gen"
	"verif/internal/model"
	"verif/internal/vlib"
)

// ---------------------------------------------------------------- observation

// cli is a counting match.Client: the monitor's observation point.
type cli struct {
	id   int
	n    int
	last interface{}
}

func (c *cli) Update(v interface{}) { c.n++; c.last = v }

// guard runs f and returns the panic text, if any.
func guard(f func()) (pan string) {
	defer func() {
		if x := recover(); x != nil {
			pan = fmt.Sprintf("%v", x)
		}
	}()
	f()
	return ""
}

func ps(p []string) string {
	if len(p) == 0 {
		return "<root>"
	}
	return strings.Join(p, "/")
}

func pss(ps_ [][]string) string {
	s := make([]string, len(ps_))
	for i, p := range ps_ {
		s[i] = ps(p)
	}
	return "[" + strings.Join(s, " ") + "]"
}

func cp(p []string) []string { return append([]string{}, p...) }

func universe(alpha []string, maxLen int) [][]string {
	out := [][]string{{}}
	prev := [][]string{{}}
	for l := 1; l <= maxLen; l++ {
		var next [][]string
		for _, p := range prev {
			for _, a := range alpha {
				next = append(next, append(cp(p), a))
			}
		}
		out = append(out, next...)
		prev = next
	}
	return out
}

var abg = []string{"a", "b", "*"}

func anyCompat(qs [][]string, paths [][]string) bool {
	for _, q := range qs {
		for _, p := range paths {
			if model.Compat(q, p) {
				return true
			}
		}
	}
	return false
}

func multiplicity(qs [][]string, paths [][]string) int {
	n := 0
	for _, q := range qs {
		for _, p := range paths {
			if model.Compat(q, p) {
				n++
			}
		}
	}
	return n
}

// ---------------------------------------------------------------- notifications

func mkPath(names []string, enc int) *pb.Path {
	switch {
	case enc%3 == 2 && len(names) == 0:
		return nil
	case enc%3 == 1:
		return &pb.Path{Element: cp(names)}
	default:
		return &pb.Path{Elem: gen.Elems(names...)}
	}
}

// shape is a notification given by the full index paths of its updates and
// deletes, split into a prefix (handed to UpdateNotification as index strings)
// and per-entry paths.
type shape struct {
	Kind   string
	Ups    [][]string
	Dels   [][]string
	all    [][]string
	n      *pb.Notification
	prefix []string
}

func lcp(all [][]string) int {
	l := len(all[0])
	for _, p := range all[1:] {
		i := 0
		for i < l && i < len(p) && p[i] == all[0][i] {
			i++
		}
		l = i
	}
	return l
}

func buildShape(kind string, ups, dels [][]string, idx int) *shape {
	return buildShapeAt(kind, ups, dels, idx, -1)
}

// buildShapeAt is buildShape with the prefix split given (at < 0: derived from
// idx). A kind starting with "A" makes the notification atomic: a container
// whose members are its updates; it is judged like any other notification, by
// the full index paths (prefix + member path) of its members.
func buildShapeAt(kind string, ups, dels [][]string, idx, at int) *shape {
	s := &shape{Kind: kind, Ups: ups, Dels: dels}
	s.all = append(append([][]string{}, ups...), dels...)
	k := idx % (lcp(s.all) + 1)
	if at >= 0 && at <= lcp(s.all) {
		k = at
	}
	if idx%2 == 1 {
		s.prefix = make([]string, k, k+8) // spare capacity, as path.ToStrings returns
	} else {
		s.prefix = make([]string, k)
	}
	copy(s.prefix, s.all[0][:k])
	s.n = &pb.Notification{Timestamp: int64(idx) + 1, Atomic: strings.HasPrefix(kind, "A")}
	for _, u := range ups {
		s.n.Update = append(s.n.Update, &pb.Update{Path: mkPath(u[k:], idx/2)})
	}
	for _, d := range dels {
		s.n.Delete = append(s.n.Delete, mkPath(d[k:], idx/2))
	}
	return s
}

func (s *shape) String() string {
	return fmt.Sprintf("%s{prefix=%s updates=%s deletes=%s}", s.Kind, ps(s.prefix), pss(s.Ups), pss(s.Dels))
}

// ---------------------------------------------------------------- judging

type verdict struct{ sig, what string }

// judge compares the offers one client saw for one pushed item with the
// relation. once: the push went through UpdateOnce / UpdateNotification, so
// more than one offer is a violation of "at most once per notification".
func judge(got int, want bool, once bool, afterRemove bool) *verdict {
	switch {
	case got > 1 && once:
		return &verdict{"notification-offered-twice", fmt.Sprintf("offered %d times", got)}
	case got == 0 && want:
		return &verdict{"offer-missed", "not offered although a registered path agrees with it on every common element"}
	case got > 0 && !want && afterRemove:
		return &verdict{"offer-after-remove", fmt.Sprintf("offered %d time(s) although the only agreeing registration(s) had been removed", got)}
	case got > 0 && !want:
		return &verdict{"offer-spurious", fmt.Sprintf("offered %d time(s) although no registered path agrees with it", got)}
	}
	return nil
}

// ---------------------------------------------------------------- mode pairs

func modePairs(r *vlib.Run) {
	if !(r.OnlyTrial < 0 || r.OnlyMode == "pairs") {
		return
	}
	U := universe(abg, 4)
	var evals, hits, hitsModel, offeredN, notOfferedN, rawMulti int64
	for qi, q := range U {
		if !r.Mine(qi) {
			continue
		}
		bad := func(sig, what string, p []string) {
			r.Violation("pairs", qi, sig, fmt.Sprintf("query %s, path %s: %s", ps(q), ps(p), what), map[string]interface{}{"query": q, "path": p})
		}
		m := match.New()
		c, by := &cli{id: 0}, &cli{id: 1}
		// Register the way the server does: from a slice whose backing array
		// the caller reuses afterwards.
		buf := make([]string, len(q), len(q)+4)
		copy(buf, q)
		var rm, rmBy func()
		if pan := guard(func() { rm = m.AddQuery(buf, c); rmBy = m.AddQuery(cp(q), by) }); pan != "" {
			bad("panic:addquery", pan, nil)
			continue
		}
		for i := range buf {
			buf[i] = "~"
		}
		offered := make([]bool, len(U))
		for pi, p := range U {
			want := model.Compat(q, p)
			if want {
				offeredN++
			} else {
				notOfferedN++
			}
			// (1a) Update.
			c.n = 0
			tok := &pb.Notification{Timestamp: int64(pi)}
			if pan := guard(func() { m.Update(tok, cp(p)) }); pan != "" {
				bad("panic:update", pan, p)
				continue
			}
			evals++
			offered[pi] = c.n > 0
			if c.n > 1 {
				// One registration, one pushed item: a second offer is a second
				// delivery of the same notification whatever entry point is used.
				rawMulti++
				bad("plain-update-offered-twice", fmt.Sprintf("Update: a client with a single registration was offered the same item %d times", c.n), p)
			}
			if v := judge(c.n, want, false, false); v != nil {
				bad(v.sig, "Update: "+v.what, p)
			} else if c.n > 0 && c.last != interface{}(tok) {
				bad("offer-wrong-value", "Update passed a different value than the one pushed", p)
			}
			// (1b) UpdateOnce with a fresh set.
			c.n = 0
			if pan := guard(func() { m.UpdateOnce(tok, cp(p), map[match.Client]struct{}{}) }); pan != "" {
				bad("panic:updateonce", pan, p)
				continue
			}
			evals++
			if v := judge(c.n, want, true, false); v != nil {
				bad(v.sig, "UpdateOnce: "+v.what, p)
			}
			// (1c) through UpdateNotification: single update, single delete.
			for k, kind := range []string{"U", "D", "A"} {
				var s *shape
				if kind == "D" {
					s = buildShape("D", nil, [][]string{p}, qi+pi+k)
				} else {
					s = buildShape(kind, [][]string{p}, nil, qi+pi+k)
				}
				c.n = 0
				if pan := guard(func() { subscribe.UpdateNotification(m, s.n, s.n, s.prefix) }); pan != "" {
					bad("panic:updatenotification", pan, p)
					continue
				}
				evals++
				if v := judge(c.n, want, true, false); v != nil {
					bad(v.sig, "UpdateNotification "+s.String()+": "+v.what, p)
				}
			}
			// (2) containment: a leaf at p reported by Query(q) must be compatible
			// and must have been offered by the real trie.
			var reported int
			if pan := guard(func() {
				t := &ctree.Tree{}
				if err := t.Add(cp(p), 1); err != nil {
					return
				}
				t.Query(cp(q), func(rp []string, _ *ctree.Leaf, _ interface{}) error {
					if model.Key(rp) == model.Key(p) {
						reported++
					}
					return nil
				})
			}); pan != "" {
				bad("panic:query", pan, p)
				continue
			}
			evals++
			if reported > 0 {
				hits++
				if !want {
					bad("query-not-contained", "ctree.Query(q) reports a leaf at p but q and p disagree on a common element", p)
				}
				if !offered[pi] {
					bad("query-leaf-not-streamed", "ctree.Query(q) reports a leaf at p but an update at p is not offered to a client registered with q", p)
				}
			}
			if model.MatchQ(q, p) {
				hitsModel++
			}
			if len(q) > 0 && len(p) > 0 {
				r.Distinct(vlib.Hash("pair", model.Key(q), model.Key(p)))
			}
		}
		// (4, small scope) removal on a shared node: bystander unaffected,
		// remove idempotent, emptied trie accepts the query again.
		probe := func(stage string, wantC, wantBy, pairCtx bool) {
			for _, p := range U {
				c.n, by.n = 0, 0
				if pan := guard(func() { m.Update(1, cp(p)) }); pan != "" {
					bad("panic:update", pan, p)
					return
				}
				evals++
				comp := model.Compat(q, p)
				if v := judge(c.n, wantC && comp, false, !wantC && comp); v != nil {
					if v.sig == "offer-missed" && pairCtx {
						v.sig = "offer-missed-pair-removed-elsewhere"
					}
					bad(v.sig, stage+": "+v.what, p)
				}
				if v := judge(by.n, wantBy && comp, false, !wantBy && comp); v != nil {
					bad(v.sig, stage+" (second client on the same path): "+v.what, p)
				}
			}
		}
		var rm2, rm3 func()
		steps := []struct {
			name       string
			f          func()
			wantC, wBy bool
			pairCtx    bool // a live registration of the pair coexists with removed ones
		}{
			{"after remove of the first client", func() { rm() }, false, true, false},
			{"after a second call of the same remove function", func() { rm() }, false, true, false},
			{"after remove of both clients", func() { rmBy() }, false, false, false},
			{"after repeated removes on the emptied trie", func() { rm(); rmBy() }, false, false, false},
			{"after registering the query again on the emptied trie", func() { rm2 = m.AddQuery(cp(q), c) }, true, false, false},
			{"after the stale remove function of the first registration was called again", func() { rm() }, true, false, true},
			{"after registering the same query a second time while it is registered", func() { rm3 = m.AddQuery(cp(q), c) }, true, false, true},
			{"after removing one of the two live registrations of the query", func() { rm2() }, true, false, true},
			{"after a second call of that remove function (the other registration is still live)", func() { rm2(); rm() }, true, false, true},
			{"after removing the last live registration", func() { rm3() }, false, false, false},
			{"after calling every remove function once more", func() { rm(); rm2(); rm3(); rmBy() }, false, false, false},
		}
		for _, st := range steps {
			if pan := guard(st.f); pan != "" {
				bad("panic:remove", st.name+": "+pan, nil)
				break
			}
			probe(st.name, st.wantC, st.wBy, st.pairCtx)
		}
	}
	r.Eval(int(evals))
	r.Count("pairs_compatible", offeredN)
	r.Count("pairs_incompatible", notOfferedN)
	r.Count("pairs_query_hits", hits)
	r.Count("pairs_query_hits_model_matchq", hitsModel)
	r.Count("pairs_plain_update_offered_twice", rawMulti)
}

// ---------------------------------------------------------------- mode fulltrie

func modeFullTrie(r *vlib.Run) {
	if !(r.OnlyTrial < 0 || r.OnlyMode == "fulltrie") {
		return
	}
	U := universe(abg, 4)
	var evals int64
	for pi, p := range U {
		if !r.Mine(pi) {
			continue
		}
		bad := func(sig, what string) {
			r.Violation("fulltrie", pi, sig, fmt.Sprintf("trie holding all %d queries over {a,b,*}^<=4 (two clients each), path %s: %s", len(U), ps(p), what), map[string]interface{}{"path": p})
		}
		m := match.New()
		A := make([]*cli, len(U))
		B := make([]*cli, len(U))
		rmA := make([]func(), len(U))
		rmB := make([]func(), len(U))
		regA := make([]bool, len(U))
		regB := make([]bool, len(U))
		scratch := make([]string, 0, 8)
		add := func(i int, a bool) {
			qs := append(scratch[:0], U[i]...) // shared backing array, as in the server
			if a {
				if A[i] == nil {
					A[i] = &cli{id: i}
				}
				rmA[i] = m.AddQuery(qs, A[i])
				regA[i] = true
			} else {
				if B[i] == nil {
					B[i] = &cli{id: 1000 + i}
				}
				rmB[i] = m.AddQuery(qs, B[i])
				regB[i] = true
			}
		}
		check := func(stage string) {
			s := buildShape("U", [][]string{p}, nil, pi)
			for via := 0; via < 3; via++ {
				for i := range U {
					A[i].n, B[i].n = 0, 0
				}
				pan := guard(func() {
					switch via {
					case 0:
						m.Update(1, cp(p))
					case 1:
						m.UpdateOnce(1, cp(p), map[match.Client]struct{}{})
					case 2:
						subscribe.UpdateNotification(m, s.n, s.n, s.prefix)
					}
				})
				if pan != "" {
					bad("panic:update", stage+": "+pan)
					return
				}
				evals++
				for i, q := range U {
					comp := model.Compat(q, p)
					if v := judge(A[i].n, regA[i] && comp, via > 0, !regA[i] && comp); v != nil {
						bad(v.sig, fmt.Sprintf("%s, via %d, first client of query %s: %s", stage, via, ps(q), v.what))
					}
					if v := judge(B[i].n, regB[i] && comp, via > 0, !regB[i] && comp); v != nil {
						bad(v.sig, fmt.Sprintf("%s, via %d, second client of query %s: %s", stage, via, ps(q), v.what))
					}
				}
			}
		}
		pan := guard(func() {
			for i := range U {
				j := (i*7 + pi) % len(U) // insertion order varies with the case
				add(j, true)
				add(j, false)
			}
			check("all registered")
			for i := range U {
				j := (i*5 + pi) % len(U)
				if j%2 == 1 {
					rmA[j]()
					regA[j] = false
				}
			}
			check("first client removed from every odd query")
			for i := range U {
				j := (i*3 + pi) % len(U)
				rmB[j]()
				regB[j] = false
				if j%2 == 0 {
					rmA[j]()
					regA[j] = false
				} else {
					rmA[j]() // second call: idempotent
				}
			}
			check("everything removed")
			for i := range U {
				if i%3 == 0 {
					add(i, true)
				}
			}
			check("every third query registered again on the emptied trie")
		})
		if pan != "" {
			bad("panic:history", pan)
		}
		r.Distinct(vlib.Hash("fulltrie", model.Key(p)))
	}
	r.Eval(int(evals))
	r.Count("fulltrie_pushes", evals)
}

// ---------------------------------------------------------------- mode notif

func notifShapes(r *vlib.Run) []*shape {
	U1, U2, U3, U4 := universe(abg, 1), universe(abg, 2), universe(abg, 3), universe(abg, 4)
	single := U3
	if !r.Quick() {
		single = U4
	}
	var out []*shape
	add := func(kind string, ups, dels [][]string) {
		out = append(out, buildShape(kind, ups, dels, len(out)))
	}
	for _, p := range single {
		add("U", [][]string{p}, nil)
		add("D", nil, [][]string{p})
	}
	for _, p1 := range U2 {
		for _, p2 := range U2 {
			add("UU", [][]string{p1, p2}, nil)
			add("UD", [][]string{p1}, [][]string{p2})
			add("DD", nil, [][]string{p1, p2})
		}
	}
	for _, p1 := range U1 {
		for _, p2 := range U1 {
			for _, p3 := range U1 {
				add("UUD", [][]string{p1, p2}, [][]string{p3})
			}
		}
	}
	if !r.Quick() {
		for _, p1 := range U3 {
			for _, p2 := range U3 {
				if len(p1) == 3 || len(p2) == 3 {
					add("UU", [][]string{p1, p2}, nil)
				}
			}
		}
	}
	// Atomic containers: prefix elements + 1-3 member updates. Two out of three
	// are split exactly at the container prefix (the way the cache hands them
	// to the feed), the others at a split derived from the index as above.
	addAtomic := func(kind string, pre []string, members ...[]string) {
		var ups [][]string
		for _, m := range members {
			ups = append(ups, append(cp(pre), m...))
		}
		at := len(pre)
		if len(out)%3 == 2 {
			at = -1
		}
		out = append(out, buildShapeAt(kind, ups, nil, len(out), at))
	}
	for _, pre := range U2[1:] {
		for _, m1 := range U2[1:] {
			addAtomic("A1", pre, m1)
			for _, m2 := range U2[1:] {
				if r.Quick() && len(m1) > 1 {
					continue // quick: the first of two members has one element
				}
				addAtomic("A2", pre, m1, m2)
			}
		}
		for _, m1 := range U1[1:] {
			for _, m2 := range U1[1:] {
				for _, m3 := range U1[1:] {
					addAtomic("A3", pre, m1, m2, m3)
				}
			}
		}
	}
	return out
}

func modeNotif(r *vlib.Run) {
	if !(r.OnlyTrial < 0 || r.OnlyMode == "notif") {
		return
	}
	Q := universe(abg, r.N(3, 4))
	shapes := notifShapes(r)
	probes := universe(abg, 2)
	sample := r.N(4, 64)
	var evals, dedup, offeredN, silentN, atomicOffered, atomicSilent int64
	si := -1
	runSet := func(si int, qs [][]string) {
		bad := func(sig, what string, s *shape) {
			w := map[string]interface{}{"queries": qs}
			if s != nil {
				w["updates"], w["deletes"], w["prefix"] = s.Ups, s.Dels, s.prefix
			}
			r.Violation("notif", si, sig, fmt.Sprintf("client registered with %s: %s", pss(qs), what), w)
		}
		m := match.New()
		A, B := &cli{id: 0}, &cli{id: 1}
		base := make([]string, 0, 8)
		var rmA, rmB []func()
		if pan := guard(func() {
			for _, q := range qs {
				rmA = append(rmA, m.AddQuery(append(base, q...), A)) // shared backing array
			}
			for _, q := range qs {
				rmB = append(rmB, m.AddQuery(cp(q), B))
			}
		}); pan != "" {
			bad("panic:addquery", pan, nil)
			return
		}
		for xi, s := range shapes {
			A.n, B.n = 0, 0
			if pan := guard(func() { subscribe.UpdateNotification(m, s.n, s.n, s.prefix) }); pan != "" {
				bad("panic:updatenotification", s.String()+": "+pan, s)
				continue
			}
			evals++
			mult := multiplicity(qs, s.all)
			want := mult > 0
			for _, c := range []*cli{A, B} {
				if v := judge(c.n, want, true, false); v != nil {
					bad(v.sig, fmt.Sprintf("notification %s (%d agreeing (path, entry) combinations): %s", s.String(), mult, v.what), s)
				} else if c.n == 1 && c.last != interface{}(s.n) {
					bad("offer-wrong-value", "notification "+s.String()+": a different value than the one pushed was passed", s)
				}
			}
			if want {
				offeredN++
			} else {
				silentN++
			}
			if s.n.Atomic {
				if want {
					atomicOffered++
				} else {
					atomicSilent++
				}
			}
			if mult >= 2 {
				dedup++
				if (si+xi)%sample == 0 {
					r.Distinct(vlib.Hash("notif", si, xi))
				}
			}
		}
		// Removal of the registrations made from the shared backing array.
		live := make([]bool, len(qs))
		for i := range live {
			live[i] = true
		}
		pr := append(append([][]string{}, probes...), qs...)
		for i := range qs {
			for rep := 0; rep < 2; rep++ {
				if pan := guard(rmA[i]); pan != "" {
					bad("panic:remove", pan, nil)
					return
				}
				live[i] = false
				for _, p := range pr {
					A.n, B.n = 0, 0
					if pan := guard(func() { m.Update(1, cp(p)) }); pan != "" {
						bad("panic:update", pan, nil)
						return
					}
					evals++
					wantA, removed, pairRemovedElsewhere := false, false, false
					for j, q := range qs {
						if model.Compat(q, p) {
							if live[j] {
								wantA = true
								for k := range qs {
									if !live[k] && model.Key(qs[k]) == model.Key(q) {
										pairRemovedElsewhere = true
									}
								}
							} else {
								removed = true
							}
						}
					}
					if v := judge(A.n, wantA, false, removed); v != nil {
						if v.sig == "offer-missed" && pairRemovedElsewhere {
							v.sig = "offer-missed-pair-removed-elsewhere"
						}
						bad(v.sig, fmt.Sprintf("after removing path %s (call %d of its remove function), update at %s: %s", ps(qs[i]), rep+1, ps(p), v.what), nil)
					}
					if v := judge(B.n, anyCompat(qs, [][]string{p}), false, false); v != nil {
						bad(v.sig, fmt.Sprintf("another client registered with the same paths, after the first client removed path %s, update at %s: %s", ps(qs[i]), ps(p), v.what), nil)
					}
				}
			}
		}
		for _, f := range rmB {
			guard(f)
		}
		A.n, B.n = 0, 0
		for _, p := range pr {
			guard(func() { m.Update(1, cp(p)) })
		}
		if A.n+B.n > 0 {
			bad("offer-after-remove", fmt.Sprintf("after every registration was removed the clients were still offered %d update(s)", A.n+B.n), nil)
		}
	}
	for i := range Q {
		si++
		if r.Mine(si) {
			runSet(si, [][]string{Q[i]})
		}
	}
	for i := range Q {
		// j == i: the same path registered twice by the same client
		for j := i; j < len(Q); j++ {
			si++
			if r.Mine(si) {
				runSet(si, [][]string{Q[i], Q[j]})
			}
		}
	}
	r.Eval(int(evals))
	r.Count("notif_cases_dedup_needed", dedup)
	r.Count("notif_cases_offered", offeredN)
	r.Count("notif_cases_not_offered", silentN)
	r.Count("notif_atomic_cases_offered", atomicOffered)
	r.Count("notif_atomic_cases_not_offered", atomicSilent)
	if r.Shard == 0 {
		r.Count("notif_query_sets", int64(si+1))
		r.Count("notif_shapes", int64(len(shapes)))
	}
}

// ---------------------------------------------------------------- random helpers

func randPath(rng *rand.Rand, alpha []string, globProb float64, maxLen int) []string {
	n := rng.Intn(maxLen + 1)
	p := make([]string, n)
	for i := range p {
		if rng.Float64() < globProb {
			p[i] = "*"
		} else {
			p[i] = alpha[rng.Intn(len(alpha))]
		}
	}
	return p
}

// ---------------------------------------------------------------- mode notifrand

// keyedPath turns an index path into a gNMI path, folding some elements into
// keys of the preceding element (the index of which is name, then the key
// values ordered by key name).
func keyedPath(rng *rand.Rand, idx []string) *pb.Path {
	if len(idx) == 0 {
		if rng.Intn(3) == 0 {
			return nil
		}
		return &pb.Path{}
	}
	if rng.Intn(5) == 0 {
		return &pb.Path{Element: cp(idx)}
	}
	p := &pb.Path{}
	for i := 0; i < len(idx); {
		e := &pb.PathElem{Name: idx[i]}
		i++
		switch x := rng.Intn(8); {
		case x == 0 && i < len(idx):
			e.Key = map[string]string{"k": idx[i]}
			i++
		case x == 1 && i+1 < len(idx):
			e.Key = map[string]string{"k1": idx[i], "k2": idx[i+1]}
			i += 2
		}
		p.Elem = append(p.Elem, e)
	}
	return p
}

func modeNotifRand(r *vlib.Run) {
	alpha := []string{"a", "b", "c"}
	r.ForTrials("notifrand", r.N(30000, 400000), func(trial int, rng *rand.Rand) {
		nc := 1 + rng.Intn(3)
		m := match.New()
		clients := make([]*cli, nc)
		sets := make([][][]string, nc)
		pan := guard(func() {
			base := make([]string, 0, 8)
			for c := range clients {
				clients[c] = &cli{id: c}
				for k := 1 + rng.Intn(6); k > 0; k-- {
					q := randPath(rng, alpha, 0.3, 5)
					sets[c] = append(sets[c], q)
					m.AddQuery(append(base, q...), clients[c])
				}
			}
		})
		if pan != "" {
			r.Violation("notifrand", trial, "panic:addquery", pan, map[string]interface{}{"sets": sets})
			return
		}
		sawDedup, sawSilent := false, false
		for k := 0; k < 8; k++ {
			prefix := randPath(rng, alpha, 0.1, 2)
			var ups, dels, all [][]string
			n := &pb.Notification{Timestamp: int64(k) + 1}
			entries := 1 + rng.Intn(6)
			if rng.Intn(4) == 0 {
				// atomic container: prefix elements + 1-3 member updates
				n.Atomic = true
				prefix = randPath(rng, alpha, 0.1, 3)
				entries = 1 + rng.Intn(3)
			}
			for e := entries; e > 0; e-- {
				rest := randPath(rng, alpha, 0.15, 3)
				full := append(cp(prefix), rest...)
				all = append(all, full)
				gp := keyedPath(rng, rest)
				if got := model.IndexPath(gp); model.Key(got) != model.Key(rest) {
					panic(fmt.Sprintf("harness: keyedPath(%v) indexes as %v", rest, got))
				}
				if rng.Intn(3) == 0 && !n.Atomic {
					dels = append(dels, full)
					n.Delete = append(n.Delete, gp)
				} else {
					ups = append(ups, full)
					n.Update = append(n.Update, &pb.Update{Path: gp})
				}
			}
			pre := make([]string, len(prefix), len(prefix)+rng.Intn(2)*10)
			copy(pre, prefix)
			for _, c := range clients {
				c.n = 0
			}
			w := map[string]interface{}{"sets": sets, "prefix": prefix, "updates": ups, "deletes": dels, "atomic": n.Atomic}
			if pan := guard(func() { subscribe.UpdateNotification(m, n, n, pre) }); pan != "" {
				r.Violation("notifrand", trial, "panic:updatenotification", pan, w)
				return
			}
			r.Eval(1)
			for ci, c := range clients {
				mult := multiplicity(sets[ci], all)
				if mult >= 2 {
					sawDedup = true
					r.Count("notifrand_dedup_needed", 1)
				}
				if mult == 0 {
					sawSilent = true
				}
				if n.Atomic {
					if mult > 0 {
						r.Count("notifrand_atomic_offered", 1)
					} else {
						r.Count("notifrand_atomic_not_offered", 1)
					}
				}
				if v := judge(c.n, mult > 0, true, false); v != nil {
					r.Violation("notifrand", trial, v.sig, fmt.Sprintf("client registered with %s, notification atomic=%v prefix=%s updates=%s deletes=%s (%d agreeing combinations): %s", pss(sets[ci]), n.Atomic, ps(prefix), pss(ups), pss(dels), mult, v.what), w)
					return
				}
			}
		}
		if sawDedup && sawSilent {
			r.Distinct(vlib.Hash("notifrand", trial, fmt.Sprint(sets)))
		}
	})
}

// ---------------------------------------------------------------- mode history

type hop struct {
	Kind   string     `json:"kind"` // sub, unsub, probe
	Client int        `json:"client,omitempty"`
	Query  []string   `json:"query,omitempty"`
	Handle int        `json:"handle,omitempty"` // unsub: index of the sub op whose remove function is called
	Via    string     `json:"via,omitempty"`    // probe: update, once, notif
	Ups    [][]string `json:"updates,omitempty"`
	Dels   [][]string `json:"deletes,omitempty"`
}

func (o hop) String() string {
	switch o.Kind {
	case "sub":
		return fmt.Sprintf("#%d sub(c%d,%s)", o.Handle, o.Client, ps(o.Query))
	case "unsub":
		return fmt.Sprintf("unsub(#%d c%d,%s)", o.Handle, o.Client, ps(o.Query))
	}
	return fmt.Sprintf("%s(u=%s d=%s)", o.Via, pss(o.Ups), pss(o.Dels))
}

// genHistory draws a history. Every sub op is one registration (#handle) with
// its own remove function; an unsub op calls the remove function of a handle.
// Registrations of a (client, path) pair that is still registered, removal of
// one of several registrations of a pair, and remove functions called again
// after the pair was registered anew are drawn on purpose: the statement
// quantifies over all sequences.
func genHistory(rng *rand.Rand, steps int) (ops []hop, nc int) {
	nc = 2 + rng.Intn(4)
	alpha := []string{"a", "b"}
	if rng.Intn(3) == 0 {
		alpha = append(alpha, "c")
	}
	maxLen := 2 + rng.Intn(3)
	// A small pool of queries so that clients share nodes.
	pool := [][]string{}
	for i := 3 + rng.Intn(6); i > 0; i-- {
		pool = append(pool, randPath(rng, alpha, 0.3, maxLen))
	}
	type handle struct {
		client int
		q      []string
		live   bool
	}
	var handles []handle
	vias := []string{"update", "once", "notif"}
	probe := func(p []string) hop {
		via := vias[rng.Intn(3)]
		o := hop{Kind: "probe", Via: via}
		if via != "notif" {
			o.Ups = [][]string{p}
			return o
		}
		entries := [][]string{p}
		for k := rng.Intn(3); k > 0; k-- {
			if rng.Intn(2) == 0 {
				entries = append(entries, pool[rng.Intn(len(pool))])
			} else {
				entries = append(entries, randPath(rng, alpha, 0.15, maxLen))
			}
		}
		rng.Shuffle(len(entries), func(i, j int) { entries[i], entries[j] = entries[j], entries[i] })
		for _, e := range entries {
			if rng.Intn(3) == 0 {
				o.Dels = append(o.Dels, e)
			} else {
				o.Ups = append(o.Ups, e)
			}
		}
		return o
	}
	sub := func(c int, q []string) {
		handles = append(handles, handle{c, q, true})
		ops = append(ops, hop{Kind: "sub", Client: c, Query: q, Handle: len(handles) - 1})
	}
	unsub := func(h int) {
		handles[h].live = false
		ops = append(ops, hop{Kind: "unsub", Client: handles[h].client, Query: handles[h].q, Handle: h})
	}
	for len(ops) < steps {
		switch x := rng.Intn(10); {
		case x < 4:
			c := rng.Intn(nc)
			var q []string
			switch y := rng.Intn(10); {
			case y < 4 && len(handles) > 0:
				// the pair of an earlier registration, still live or removed
				h := handles[rng.Intn(len(handles))]
				c, q = h.client, h.q
			case y < 6:
				q = randPath(rng, alpha, 0.3, maxLen)
			default:
				q = pool[rng.Intn(len(pool))]
			}
			sub(c, q)
			ops = append(ops, probe(q))
		case x < 7:
			if len(handles) == 0 {
				continue
			}
			// any handle: live, already removed, or superseded by a newer
			// registration of its pair; live ones preferred
			h := rng.Intn(len(handles))
			if rng.Intn(10) < 6 {
				var cand []int
				for i, g := range handles {
					if g.live {
						cand = append(cand, i)
					}
				}
				if len(cand) > 0 {
					h = cand[rng.Intn(len(cand))]
				}
			}
			unsub(h)
			ops = append(ops, probe(handles[h].q))
		default:
			if rng.Intn(2) == 0 {
				ops = append(ops, probe(pool[rng.Intn(len(pool))]))
			} else {
				ops = append(ops, probe(randPath(rng, alpha, 0.15, maxLen+1)))
			}
		}
	}
	// Epilogue: every remove function is called (twice), nothing may be
	// offered; then the emptied trie accepts the first query again, and the
	// stale remove functions of that pair must not undo the new registration.
	for rep := 0; rep < 2; rep++ {
		for i := range handles {
			unsub(i)
		}
	}
	for _, q := range pool {
		ops = append(ops, hop{Kind: "probe", Via: "update", Ups: [][]string{q}})
	}
	ops = append(ops, hop{Kind: "probe", Via: "once", Ups: [][]string{{}}}, hop{Kind: "probe", Via: "update", Ups: [][]string{{"*", "*", "*", "*"}}})
	if len(handles) > 0 {
		h := handles[0]
		n := len(handles)
		sub(h.client, h.q)
		ops = append(ops, hop{Kind: "probe", Via: "update", Ups: [][]string{h.q}}, hop{Kind: "probe", Via: "notif", Ups: [][]string{h.q}, Dels: [][]string{h.q}})
		for i := 0; i < n; i++ {
			if handles[i].client == h.client && model.Key(handles[i].q) == model.Key(h.q) {
				unsub(i)
			}
		}
		ops = append(ops, hop{Kind: "probe", Via: "once", Ups: [][]string{h.q}})
	}
	return ops, nc
}

// regn is one registration of the model registry: live from the return of its
// AddQuery until the first call of its own remove function.
type regn struct {
	client int
	q      []string
	key    string
	live   bool
}

func runHistory(ops []hop, nc int) (v *verdict, at int, feat map[string]bool) {
	feat = map[string]bool{}
	m := match.New()
	clients := make([]*cli, nc)
	for i := range clients {
		clients[i] = &cli{id: i}
	}
	removes := map[int]func(){}
	regs := map[int]*regn{}
	var order []int
	scratch := make([]string, 0, 8)
	for i, o := range ops {
		at = i
		switch o.Kind {
		case "sub":
			qs := append(scratch[:0], o.Query...) // the caller's slice is reused by the next registration
			if pan := guard(func() { removes[o.Handle] = m.AddQuery(qs, clients[o.Client]) }); pan != "" {
				return &verdict{"panic:addquery", pan}, i, feat
			}
			k := model.Key(o.Query)
			dupLive, hadDead := false, false
			for _, h := range order {
				if g := regs[h]; g.client == o.Client && g.key == k {
					if g.live {
						dupLive = true
					} else {
						hadDead = true
					}
				}
			}
			if dupLive {
				feat["dup-live"] = true
			} else if hadDead {
				feat["readd"] = true
			}
			regs[o.Handle] = &regn{client: o.Client, q: o.Query, key: k, live: true}
			order = append(order, o.Handle)
		case "unsub":
			if pan := guard(removes[o.Handle]); pan != "" {
				return &verdict{"panic:remove", pan}, i, feat
			}
			rg := regs[o.Handle]
			pairLiveElsewhere, sharedLive := false, false
			for _, h := range order {
				if g := regs[h]; h != o.Handle && g.live && g.key == rg.key {
					if g.client == rg.client {
						pairLiveElsewhere = true
					} else {
						sharedLive = true
					}
				}
			}
			if rg.live {
				if pairLiveElsewhere {
					feat["remove-one-of-several"] = true
				}
				if sharedLive {
					feat["remove-shared"] = true
				}
				rg.live = false
			} else {
				feat["remove-again"] = true
				if pairLiveElsewhere {
					feat["stale-remove-pair-live"] = true
				}
			}
		case "probe":
			all := append(append([][]string{}, o.Ups...), o.Dels...)
			for _, c := range clients {
				c.n = 0
			}
			pan := guard(func() {
				switch o.Via {
				case "update":
					m.Update(i, cp(all[0]))
				case "once":
					m.UpdateOnce(i, cp(all[0]), map[match.Client]struct{}{})
				default:
					kind := "N"
					if len(o.Dels) == 0 && i%2 == 0 {
						kind = "A" // atomic container with the same members
					}
					s := buildShape(kind, o.Ups, o.Dels, i)
					subscribe.UpdateNotification(m, s.n, s.n, s.prefix)
				}
			})
			if pan != "" {
				return &verdict{"panic:" + o.Via, pan}, i, feat
			}
			for ci, c := range clients {
				// Offered iff at least one of the client's LIVE registrations agrees.
				want, wasRemoved, pairRemovedElsewhere := false, false, false
				for _, h := range order {
					g := regs[h]
					if g.client != ci || !anyCompat([][]string{g.q}, all) {
						continue
					}
					if g.live {
						want = true
						for _, h2 := range order {
							if d := regs[h2]; !d.live && d.client == ci && d.key == g.key {
								pairRemovedElsewhere = true
							}
						}
					} else {
						wasRemoved = true
					}
				}
				if v := judge(c.n, want, o.Via != "update", wasRemoved); v != nil {
					if v.sig == "offer-missed" && pairRemovedElsewhere {
						// what fails: a live registration went away with the remove
						// function of another registration of the same client and path
						v.sig = "offer-missed-pair-removed-elsewhere"
					}
					var have []string
					for _, h := range order {
						if g := regs[h]; g.client == ci && g.live {
							have = append(have, fmt.Sprintf("#%d %s", h, ps(g.q)))
						}
					}
					v.what = fmt.Sprintf("client c%d (live registrations: %v) on %s: %s", ci, have, o.String(), v.what)
					return v, i, feat
				}
				if c.n > 0 {
					feat["offered"] = true
				} else if wasRemoved {
					feat["silent-after-remove"] = true
				}
			}
		}
	}
	return nil, -1, feat
}

func modeHistory(r *vlib.Run) {
	steps := r.N(40, 80)
	r.ForTrials("history", r.N(8000, 100000), func(trial int, rng *rand.Rand) {
		ops, nc := genHistory(rng, steps)
		v, at, feat := runHistory(ops, nc)
		r.Eval(1)
		strs := make([]string, len(ops))
		for i, o := range ops {
			strs[i] = o.String()
		}
		if v != nil {
			r.Violation("history", trial, v.sig, fmt.Sprintf("step %d of %v: %s", at, strs, v.what), map[string]interface{}{"clients": nc, "ops": ops, "failed_at_step": at})
			return
		}
		for f := range feat {
			r.Count("history_"+f, 1)
		}
		if feat["offered"] && feat["remove-shared"] && feat["readd"] && feat["silent-after-remove"] && feat["dup-live"] && feat["remove-one-of-several"] && feat["stale-remove-pair-live"] {
			r.Distinct(vlib.Hash("history", strings.Join(strs, ";")))
		}
		if r.WantSample() && trial%211 == 0 {
			n := len(strs)
			if n > 14 {
				n = 14
			}
			r.Sample(map[string]interface{}{"mode": "history", "trial": trial, "clients": nc, "first_ops": strs[:n], "len": len(strs)})
		}
	})
}

// ---------------------------------------------------------------- mode server

type pelem struct {
	N string            `json:"n"`
	K map[string]string `json:"k,omitempty"`
}

type ppath struct {
	Origin string  `json:"origin,omitempty"`
	Elems  []pelem `json:"elems,omitempty"`
	Dep    bool    `json:"deprecated_encoding,omitempty"`
	Nil    bool    `json:"nil,omitempty"`
}

func (p ppath) pb(target string) *pb.Path {
	if p.Nil {
		return nil
	}
	out := &pb.Path{Target: target, Origin: p.Origin}
	for _, e := range p.Elems {
		if p.Dep {
			out.Element = append(out.Element, e.N)
		} else {
			out.Elem = append(out.Elem, &pb.PathElem{Name: e.N, Key: e.K})
		}
	}
	return out
}

func (p ppath) String() string {
	if p.Nil {
		return "<nil>"
	}
	var b strings.Builder
	if p.Origin != "" {
		b.WriteString(p.Origin + ":")
	}
	for _, e := range p.Elems {
		b.WriteString("/" + e.N)
		var ks []string
		for k := range e.K {
			ks = append(ks, k)
		}
		sort.Strings(ks)
		for _, k := range ks {
			b.WriteString("[" + k + "=" + e.K[k] + "]")
		}
	}
	if p.Dep {
		b.WriteString("(element)")
	}
	if b.Len() == 0 {
		return "/"
	}
	return b.String()
}

func plain(names []string) ppath {
	p := ppath{}
	for _, n := range names {
		p.Elems = append(p.Elems, pelem{N: n})
	}
	return p
}

type sreq struct {
	Target string  `json:"target"`
	Prefix ppath   `json:"prefix"`
	Subs   []ppath `json:"subscriptions"`
}

func (q sreq) String() string {
	s := make([]string, len(q.Subs))
	for i, p := range q.Subs {
		s[i] = p.String()
	}
	return fmt.Sprintf("{target=%s prefix=%s paths=[%s]}", q.Target, q.Prefix, strings.Join(s, " "))
}

func (q sreq) pb() *pb.SubscribeRequest {
	sl := &pb.SubscriptionList{Prefix: q.Prefix.pb(q.Target), Mode: pb.SubscriptionList_STREAM, UpdatesOnly: true}
	for _, s := range q.Subs {
		sl.Subscription = append(sl.Subscription, &pb.Subscription{Path: s.pb("")})
	}
	return &pb.SubscribeRequest{Request: &pb.SubscribeRequest_Subscribe{Subscribe: sl}}
}

// specQueries is the specification of the index paths a request subscribes to:
// target, the origin (of the prefix, else of the path), the prefix elements,
// the path elements. valid is false when the request sets the origin in a way
// the gNMI mixed-schema rules forbid (both origins, or a path origin below
// prefix elements); such requests are not judged for the relation.
func (q sreq) specQueries() (qs [][]string, valid bool) {
	qs, _, valid = q.specQueriesPerSub()
	return qs, valid
}

// specQueriesPerSub also returns, per subscription, whether its origins obey
// the mixed-schema rules; qs holds the index paths of those that do.
func (q sreq) specQueriesPerSub() (qs [][]string, ok []bool, valid bool) {
	valid = true
	pre := model.IndexPath(q.Prefix.pb(q.Target))
	for _, s := range q.Subs {
		ok = append(ok, true)
		// A subscription without a path selects the prefix itself — that is what
		// its snapshot is taken of (path.CompletePath), and "every leaf that a
		// query for that path would return is also streamed" (D26).
		if (q.Prefix.Origin != "" && s.Origin != "") || (s.Origin != "" && len(pre) > 0) {
			valid = false
			ok[len(ok)-1] = false
			continue
		}
		x := []string{q.Target}
		if q.Prefix.Origin != "" {
			x = append(x, q.Prefix.Origin)
		} else if s.Origin != "" {
			x = append(x, s.Origin)
		}
		x = append(x, pre...)
		x = append(x, model.IndexPath(s.pb(""))...)
		qs = append(qs, x)
	}
	return qs, ok, valid
}

type snotif struct {
	ID     int64   `json:"id"`
	Atomic bool    `json:"atomic,omitempty"`
	Target string  `json:"target"`
	Prefix ppath   `json:"prefix"`
	Ups    []ppath `json:"updates,omitempty"`
	Dels   []ppath `json:"deletes,omitempty"`
}

func (n snotif) String() string {
	f := func(ps []ppath) string {
		s := make([]string, len(ps))
		for i, p := range ps {
			s[i] = p.String()
		}
		return "[" + strings.Join(s, " ") + "]"
	}
	a := ""
	if n.Atomic {
		a = "atomic "
	}
	return fmt.Sprintf("{%starget=%s prefix=%s updates=%s deletes=%s}", a, n.Target, n.Prefix, f(n.Ups), f(n.Dels))
}

func (n snotif) pb() *pb.Notification {
	out := &pb.Notification{Timestamp: n.ID, Prefix: n.Prefix.pb(n.Target), Atomic: n.Atomic}
	for _, u := range n.Ups {
		out.Update = append(out.Update, &pb.Update{Path: u.pb(""), Val: gen.S("v")})
	}
	for _, d := range n.Dels {
		p := d.pb("")
		if p == nil {
			p = &pb.Path{}
		}
		out.Delete = append(out.Delete, p)
	}
	return out
}

// indexPaths is the specification of the index paths of the notification's
// entries: target, origin, prefix elements, entry elements.
func (n snotif) indexPaths() [][]string {
	m := n.pb()
	pre := model.IndexPrefix(m.Prefix)
	var out [][]string
	for _, u := range m.Update {
		out = append(out, append(cp(pre), model.IndexPath(u.Path)...))
	}
	for _, d := range m.Delete {
		out = append(out, append(cp(pre), model.IndexPath(d)...))
	}
	return out
}

// isTargetDelete: the one shape the server treats as "target removed" (it ends
// a single-target stream); kept out of the workload, it belongs to C14.
func (n snotif) isTargetDelete() bool {
	if len(n.Dels) != 1 || n.Prefix.Origin != "" {
		return false
	}
	m := n.pb()
	p := append(model.IndexPath(m.Prefix), model.IndexPath(m.Delete[0])...)
	return len(p) == 1 && p[0] == "*"
}

var names3 = []string{"a", "b", "c"}
var origins = []string{"oc", "x"}

func randElems(rng *rand.Rand, maxLen int, globProb float64, keys bool) []pelem {
	var out []pelem
	for n := rng.Intn(maxLen + 1); n > 0; n-- {
		e := pelem{N: names3[rng.Intn(3)]}
		if rng.Float64() < globProb {
			e.N = "*"
		}
		if keys {
			val := func() string {
				if rng.Float64() < globProb {
					return "*"
				}
				return names3[rng.Intn(3)]
			}
			switch rng.Intn(12) {
			case 0:
				e.K = map[string]string{"k": val()}
			case 1:
				e.K = map[string]string{"k2": val(), "k1": val()}
			}
		}
		out = append(out, e)
	}
	return out
}

func hasKeys(es []pelem) bool {
	for _, e := range es {
		if len(e.K) > 0 {
			return true
		}
	}
	return false
}

func genRequest(rng *rand.Rand) sreq {
	q := sreq{Target: []string{"t1", "t1", "t2", "*"}[rng.Intn(4)]}
	scheme := rng.Intn(20)
	switch {
	case scheme < 8: // no origin anywhere
		q.Prefix.Elems = randElems(rng, 2, 0.2, true)
	case scheme < 13: // origin in the prefix
		q.Prefix.Origin = origins[rng.Intn(2)]
		q.Prefix.Elems = randElems(rng, 2, 0.2, true)
	case scheme < 18: // origin in (some of) the paths, no prefix elements
	default: // anything, including what the mixed-schema rules forbid
		if rng.Intn(2) == 0 {
			q.Prefix.Origin = origins[rng.Intn(2)]
		}
		q.Prefix.Elems = randElems(rng, 2, 0.2, true)
	}
	q.Prefix.Dep = !hasKeys(q.Prefix.Elems) && rng.Intn(6) == 0
	ns := 1 + rng.Intn(4)
	for i := 0; i < ns; i++ {
		s := ppath{Elems: randElems(rng, 3, 0.25, true)}
		if scheme >= 13 && rng.Intn(3) > 0 {
			s.Origin = origins[rng.Intn(2)]
		}
		s.Dep = !hasKeys(s.Elems) && rng.Intn(6) == 0
		if i > 0 && rng.Intn(15) == 0 {
			s = ppath{Nil: true}
		}
		q.Subs = append(q.Subs, s)
	}
	if rng.Intn(10) == 0 {
		// Two different paths whose index elements, joined by "/", read the same:
		// a[k=b/c] is indexed [a, b/c], a[k=b]/c is indexed [a, b, c]. Both are
		// subscriptions of their own.
		x, y, z := names3[rng.Intn(3)], names3[rng.Intn(3)], names3[rng.Intn(3)]
		pair := []ppath{
			{Elems: []pelem{{N: x, K: map[string]string{"k": y + "/" + z}}}},
			{Elems: []pelem{{N: x, K: map[string]string{"k": y}}, {N: z}}},
		}
		if rng.Intn(2) == 0 {
			pair[0], pair[1] = pair[1], pair[0]
		}
		q.Subs = append(q.Subs, pair...)
		joinCollidingPairs++
	}
	return q
}

// joinCollidingPairs counts requests that carry a pair of subscription paths
// whose "/"-joined index elements coincide.
var joinCollidingPairs int64

// genNotif draws a notification, most of the time derived from the index path
// of one of the subscriptions (globs instantiated, truncated, extended or
// perturbed) so that agreeing and nearly-agreeing paths are frequent.
func genNotif(rng *rand.Rand, id int64, reqs []sreq) snotif {
	n := snotif{ID: id, Target: []string{"t1", "t2"}[rng.Intn(2)]}
	var fp []string // index path below the target
	origin := ""
	req := reqs[rng.Intn(len(reqs))]
	qs, _ := req.specQueries()
	if len(qs) > 0 && rng.Intn(10) < 7 {
		if req.Target != "*" && rng.Intn(8) > 0 {
			n.Target = req.Target
		}
		q := qs[rng.Intn(len(qs))][1:]
		fp = cp(q)
		for i := range fp {
			if fp[i] == "*" && rng.Intn(6) > 0 {
				fp[i] = names3[rng.Intn(3)]
			}
		}
		subOrigin := req.Prefix.Origin
		if subOrigin == "" {
			for _, s := range req.Subs {
				if s.Origin != "" && len(fp) > 0 && fp[0] == s.Origin {
					subOrigin = s.Origin
				}
			}
		}
		if subOrigin != "" && len(fp) > 0 && fp[0] == subOrigin && rng.Intn(8) > 0 {
			origin, fp = fp[0], fp[1:]
		}
		switch x := rng.Intn(10); {
		case x < 3 && len(fp) > 0:
			fp = fp[:rng.Intn(len(fp))]
		case x < 5:
			for k := 1 + rng.Intn(2); k > 0; k-- {
				fp = append(fp, names3[rng.Intn(3)])
			}
		case x < 7 && len(fp) > 0:
			fp[rng.Intn(len(fp))] = names3[rng.Intn(3)]
		case x == 7 && len(fp) > 0:
			fp[rng.Intn(len(fp))] = "*"
		}
	} else {
		fp = randPath(rng, names3, 0.1, 4)
		if rng.Intn(3) == 0 {
			origin = origins[rng.Intn(2)]
		}
	}
	k := rng.Intn(len(fp) + 1)
	n.Prefix = plain(fp[:k])
	n.Prefix.Origin = origin
	n.Prefix.Dep = rng.Intn(6) == 0
	rest := fp[k:]
	entry := func(p []string) {
		pp := plain(p)
		pp.Dep = rng.Intn(6) == 0
		if len(p) >= 2 && !pp.Dep && rng.Intn(5) == 0 {
			// fold the second element into a key of the first: same index path
			pp.Elems = append([]pelem{{N: p[0], K: map[string]string{"k": p[1]}}}, pp.Elems[2:]...)
		}
		if rng.Intn(3) == 0 {
			n.Dels = append(n.Dels, pp)
		} else {
			// The mixed-schema form: the origin rides on the update's own path while
			// the prefix has none. The cache stores such a leaf under the index
			// WITHOUT that origin (known finding D19), so that is where a query finds
			// it and, by the statement, where it must be streamed; indexPaths ignores
			// a path-level origin accordingly. Only updates: the feed never carries a
			// delete in this form (the cache builds its own delete notifications).
			if n.Prefix.Origin == "" && !pp.Dep && rng.Intn(6) == 0 {
				pp.Origin = origins[rng.Intn(2)]
				pathOriginUpdates++
			}
			n.Ups = append(n.Ups, pp)
		}
	}
	entry(rest)
	for e := []int{0, 0, 0, 1, 1, 2}[rng.Intn(6)]; e > 0; e-- {
		p := cp(rest)
		switch x := rng.Intn(4); {
		case x == 0 && len(p) > 0:
			p[len(p)-1] = names3[rng.Intn(3)]
		case x == 1:
			p = append(p, names3[rng.Intn(3)])
		case x == 2:
			p = randPath(rng, names3, 0.1, 3)
		}
		entry(p)
	}
	if n.isTargetDelete() {
		n.Ups, n.Dels = append(n.Ups, n.Dels...), nil
	}
	if rng.Intn(4) == 0 {
		// Atomic container: the members are updates only. The cache stores such
		// a notification as one leaf at its prefix and hands that leaf to the
		// feed, so Server.Update sees the whole notification, as here.
		n.Atomic = true
		n.Ups, n.Dels = append(n.Ups, n.Dels...), nil
		for len(n.Ups) < 2 && rng.Intn(2) == 0 {
			p := append(cp(rest), names3[rng.Intn(3)])
			n.Ups = append(n.Ups, plain(p))
		}
	}
	return n
}

// pathOriginUpdates counts generated update entries that carry their origin in the path.
var pathOriginUpdates int64

var clientIface = reflect.TypeOf((*match.Client)(nil)).Elem()

// census counts, by read-only reflection, the entries of every map keyed by
// match.Client reachable from the server's *match.Match: the number of
// (node, client) registrations in the subscription trie. found reports whether
// such a map type was seen at all; without it the observation is unavailable
// (never a violation).
func census(srv *subscribe.Server) (n int, found bool) {
	defer func() {
		if recover() != nil {
			n, found = 0, false
		}
	}()
	seen := map[uintptr]bool{}
	var walk func(v reflect.Value, depth int)
	walk = func(v reflect.Value, depth int) {
		if depth > 64 {
			return
		}
		switch v.Kind() {
		case reflect.Ptr:
			if v.IsNil() || seen[v.Pointer()] {
				return
			}
			seen[v.Pointer()] = true
			walk(v.Elem(), depth+1)
		case reflect.Interface:
			if !v.IsNil() {
				walk(v.Elem(), depth+1)
			}
		case reflect.Struct:
			for i := 0; i < v.NumField(); i++ {
				walk(v.Field(i), depth+1)
			}
		case reflect.Map:
			if v.Type().Key() == clientIface {
				found = true
				n += v.Len()
				return
			}
			it := v.MapRange()
			for it.Next() {
				walk(it.Value(), depth+1)
			}
		case reflect.Slice, reflect.Array:
			for i := 0; i < v.Len(); i++ {
				walk(v.Index(i), depth+1)
			}
		}
	}
	sv := reflect.ValueOf(srv).Elem()
	mt := reflect.TypeOf((*match.Match)(nil))
	for i := 0; i < sv.NumField(); i++ {
		if sv.Field(i).Type() == mt {
			// The type of the client maps is visible even when they are nil.
			var hasType func(t reflect.Type, depth int) bool
			hasType = func(t reflect.Type, depth int) bool {
				if depth > 6 {
					return false
				}
				switch t.Kind() {
				case reflect.Ptr:
					return hasType(t.Elem(), depth+1)
				case reflect.Map:
					return t.Key() == clientIface || hasType(t.Elem(), depth+1)
				case reflect.Struct:
					for j := 0; j < t.NumField(); j++ {
						if hasType(t.Field(j).Type, depth+1) {
							return true
						}
					}
				}
				return false
			}
			if hasType(mt, 0) {
				found = true
			}
			walk(sv.Field(i), 0)
		}
	}
	return n, found
}

const serverWatchdog = 90 * time.Second

// serverStalled is set when a watchdog expired in this process: the remaining
// server trials are skipped (inconclusive) instead of each waiting again.
var serverStalled bool

func stalled(r *vlib.Run, reason string) {
	serverStalled = true
	r.Inconclusive(reason)
}

type liveStream struct {
	req   sreq
	st    *vlib.Stream
	done  chan error
	ended bool
	nEnd  int
}

func offersByID(st *vlib.Stream) map[int64]int {
	out := map[int64]int{}
	for _, resp := range st.Sent() {
		u := resp.GetUpdate()
		if u == nil {
			continue
		}
		c := 1
		if len(u.Update) > 0 {
			c += int(u.Update[0].Duplicates)
		}
		out[u.Timestamp] += c
	}
	return out
}

func modeServer(r *vlib.Run) {
	r.ForTrials("server", r.N(1200, 30000), func(trial int, rng *rand.Rand) {
		if serverStalled {
			r.Inconclusive("server: trial skipped after a watchdog expiry earlier in this process")
			return
		}
		c := cache.New([]string{"t1", "t2"})
		srv, err := subscribe.NewServer(c)
		if err != nil {
			r.Inconclusive("server: NewServer failed")
			return
		}
		ns := 1 + rng.Intn(2)
		var reqs []sreq
		for i := 0; i < ns; i++ {
			reqs = append(reqs, genRequest(rng))
		}
		if ns == 2 && rng.Intn(3) == 0 {
			reqs[1] = reqs[0] // two subscribers registered with the same paths
		}
		var batches [2][]snotif
		id := int64(1)
		for b := 0; b < 2; b++ {
			for k := 8 + rng.Intn(8); k > 0; k-- {
				batches[b] = append(batches[b], genNotif(rng, id, reqs))
				id++
			}
		}
		witness := map[string]interface{}{"requests": reqs, "batch1": batches[0], "batch2": batches[1]}
		r.SaveCurrent(witness)
		r.Eval(1)

		streams := make([]*liveStream, ns)
		defer func() {
			for _, ls := range streams {
				if ls != nil {
					ls.st.Cancel()
				}
			}
		}()
		wd, wdCancel := context.WithTimeout(context.Background(), serverWatchdog)
		defer wdCancel()
		for i := range streams {
			ls := &liveStream{req: reqs[i], st: vlib.NewStream(context.Background(), "u"), done: make(chan error, 1)}
			streams[i] = ls
			ls.st.Push(ls.req.pb())
			// returned: the handler is gone (no point in waiting out the watchdog for its sync response)
			returned, markReturned := context.WithCancel(wd)
			defer markReturned()
			go func() {
				var err error
				if pan := guard(func() { err = srv.Subscribe(ls.st) }); pan != "" {
					err = fmt.Errorf("panic: %s", pan)
				}
				ls.done <- err
				markReturned()
			}()
			// Registration is complete once the sync response of an
			// updates_only subscription was sent.
			if !ls.st.WaitSent(returned, func(sent []*pb.SubscribeResponse) bool { return len(sent) >= 1 }) {
				select {
				case err := <-ls.done:
					if err != nil && strings.HasPrefix(err.Error(), "panic: ") {
						r.Violation("server", trial, "panic:subscribe", fmt.Sprintf("Subscribe(%s): %v", ls.req, err), witness)
					} else {
						r.Inconclusive("server: Subscribe returned before the sync response")
					}
				default:
					stalled(r, "server: sync response not observed within the watchdog")
				}
				return
			}
		}
		liveCensus, censusOK := census(srv)
		if censusOK && liveCensus == 0 {
			censusOK = false // maps found by type but nothing counted while subscriptions are live
		}
		if censusOK {
			r.Count("server_census_available", 1)
		} else {
			r.Count("server_census_unavailable", 1)
		}

		tree := &ctree.Tree{}
		feed := func(n *pb.Notification) string {
			key := []string{fmt.Sprint(n.Timestamp)}
			tree.Add(key, n)
			l := tree.GetLeaf(key)
			return guard(func() { srv.Update(l) })
		}
		sentinel := func(ts int64, target string) *pb.Notification {
			return &pb.Notification{Timestamp: ts, Prefix: &pb.Path{Target: target}, Update: []*pb.Update{{Path: &pb.Path{}, Val: gen.S("sentinel")}}}
		}
		sawOffered, sawSilent, sawDedup := false, false, false
		runBatch := func(b int) bool {
			for _, n := range batches[b] {
				if pan := feed(n.pb()); pan != "" {
					r.Violation("server", trial, "panic:server-update", fmt.Sprintf("Server.Update(%s): %s", n, pan), witness)
					return false
				}
			}
			// Barrier: one sentinel per target, offered to every subscriber of
			// that target (its index path is the target alone).
			s1, s2 := int64(1000000+2*b), int64(1000001+2*b)
			feed(sentinel(s1, "t1"))
			feed(sentinel(s2, "t2"))
			for _, ls := range streams {
				if ls.ended {
					continue
				}
				wait := s2
				if ls.req.Target == "t1" {
					wait = s1
				}
				ok := ls.st.WaitSent(wd, func(sent []*pb.SubscribeResponse) bool {
					for i := len(sent) - 1; i >= 0; i-- {
						if sent[i].GetUpdate().GetTimestamp() == wait {
							return true
						}
					}
					return false
				})
				if !ok {
					stalled(r, "server: barrier notification not observed within the watchdog (every subscriber of the target must be offered it; the stream stayed silent)")
					return false
				}
			}
			for si, ls := range streams {
				if ls.ended {
					continue
				}
				got := offersByID(ls.st)
				qs, subOK, valid := ls.req.specQueriesPerSub()
				// Snapshot paths of the same request, from the real CompletePath.
				var snap [][]string
				snapOK := true
				for k, s := range ls.req.Subs {
					fp, err := path.CompletePath(ls.req.Prefix.pb(ls.req.Target), s.pb(""))
					// The snapshot side must accept exactly the origin combinations
					// the mixed-schema rules allow.
					if (err == nil) != subOK[k] {
						r.Violation("server", trial, "server-snapshot-validity-differs", fmt.Sprintf("subscriber %d %s, path %d (%s): path.CompletePath returns error %v, the mixed-schema rules (origin in prefix or path, not both; no path origin below prefix elements) make the subscription valid=%v", si, ls.req, k, s, err, subOK[k]), witness)
						return false
					}
					if err != nil {
						snapOK = false
						continue
					}
					snap = append(snap, append([]string{ls.req.Target}, fp...))
				}
				for _, n := range batches[b] {
					ips := n.indexPaths()
					g := got[n.ID]
					where := fmt.Sprintf("subscriber %d %s, notification %s (index paths %s)", si, ls.req, n, pss(ips))
					if g > 1 {
						r.Violation("server", trial, "server-notification-offered-twice", fmt.Sprintf("%s: delivered %d times (responses + duplicate counts) although it was pushed once", where, g), witness)
						return false
					}
					if valid {
						mult := multiplicity(qs, ips)
						if mult >= 2 {
							sawDedup = true
							r.Count("server_dedup_needed", 1)
						}
						v := judge(g, mult > 0, true, false)
						if v != nil {
							r.Violation("server", trial, "server-"+v.sig, fmt.Sprintf("%s; subscribed index paths %s: %s", where, pss(qs), v.what), witness)
							return false
						}
						if g > 0 {
							sawOffered = true
							r.Count("server_offered", 1)
						} else {
							sawSilent = true
							r.Count("server_not_offered", 1)
						}
						if n.Atomic {
							if g > 0 {
								r.Count("server_atomic_offered", 1)
							} else {
								r.Count("server_atomic_not_offered", 1)
							}
						}
					} else {
						// Mixed request: what its invalid paths select is not defined,
						// but the valid ones must still be honoured.
						if multiplicity(qs, ips) > 0 {
							r.Count("server_mixed_request_valid_path_offered", 1)
							if g == 0 {
								r.Violation("server", trial, "server-offer-missed", fmt.Sprintf("%s; valid subscribed index paths of a request that also has invalid-origin paths %s: not offered although a valid subscribed path agrees with it on every common element", where, pss(qs)), witness)
								return false
							}
						}
						r.Count("server_unjudged_invalid_origin_request", 1)
					}
					if snapOK {
						// The streaming filter must behave as the snapshot path of the
						// same request; and every leaf the snapshot query would return
						// must be streamed.
						if valid && (multiplicity(snap, ips) > 0) != (multiplicity(qs, ips) > 0) {
							r.Violation("server", trial, "server-snapshot-path-differs", fmt.Sprintf("%s: snapshot paths %s (path.CompletePath) and subscription index paths %s (specification) select differently", where, pss(snap), pss(qs)), witness)
							return false
						}
						if v := judge(g, multiplicity(snap, ips) > 0, true, false); v != nil {
							r.Violation("server", trial, "server-stream-vs-snapshot-"+v.sig, fmt.Sprintf("%s; snapshot paths of the same request %s: %s", where, pss(snap), v.what), witness)
							return false
						}
						leaves := ips
						if n.Atomic {
							// the cache stores the container as one leaf at its prefix
							leaves = append(append([][]string{}, ips...), model.IndexPrefix(n.pb().Prefix))
						}
						for _, ip := range leaves {
							hit := false
							guard(func() {
								t := &ctree.Tree{}
								if t.Add(cp(ip), 1) != nil {
									return
								}
								for _, sq := range snap {
									t.Query(cp(sq), func([]string, *ctree.Leaf, interface{}) error { hit = true; return nil })
								}
							})
							if hit {
								r.Count("server_snapshot_query_hits", 1)
								if g == 0 {
									r.Violation("server", trial, "server-query-leaf-not-streamed", fmt.Sprintf("%s: a leaf at %s is returned by the snapshot query %s but the update was not streamed", where, ps(ip), pss(snap)), witness)
									return false
								}
							}
						}
					}
				}
			}
			return true
		}
		end := func(ls *liveStream) bool {
			ls.st.Cancel()
			select {
			case err := <-ls.done:
				if err != nil && strings.HasPrefix(err.Error(), "panic: ") {
					r.Violation("server", trial, "panic:subscribe", fmt.Sprintf("Subscribe(%s): %v", ls.req, err), witness)
					return false
				}
			case <-wd.Done():
				stalled(r, "server: Subscribe did not return within the watchdog after cancellation")
				return false
			}
			ls.ended = true
			ls.nEnd = ls.st.NSent()
			return true
		}
		if !runBatch(0) {
			return
		}
		if !end(streams[0]) {
			return
		}
		if ns == 2 {
			// The other subscriber is unaffected by the removal of the first.
			if !runBatch(1) {
				return
			}
			if !end(streams[1]) {
				return
			}
		} else {
			for _, n := range batches[1] {
				feed(n.pb())
			}
		}
		// Every subscription was removed: nothing may stay registered.
		if censusOK {
			if n, ok := census(srv); ok && n != 0 {
				var rs []string
				for _, q := range reqs {
					rs = append(rs, q.String())
				}
				r.Violation("server", trial, "server-registration-survives-end", fmt.Sprintf("after every Subscribe call returned, %d client registration(s) are still in the server's subscription trie (%d while live); requests %v", n, liveCensus, rs), witness)
				return
			}
			r.Count("server_census_empty_after_end", 1)
		}
		for si, ls := range streams {
			if ls.st.NSent() != ls.nEnd {
				r.Violation("server", trial, "server-sent-after-end", fmt.Sprintf("subscriber %d %s: %d response(s) sent after its Subscribe call had returned", si, ls.req, ls.st.NSent()-ls.nEnd), witness)
				return
			}
		}
		multi := false
		for _, q := range reqs {
			if qs, _ := q.specQueries(); len(qs) >= 2 {
				multi = true
			}
		}
		if sawOffered && sawSilent && multi {
			r.Distinct(vlib.Hash("server", fmt.Sprint(reqs), fmt.Sprint(batches)))
		}
		_ = sawDedup
		if r.WantSample() && trial%97 == 0 {
			r.Sample(map[string]interface{}{"mode": "server", "trial": trial, "requests": fmt.Sprint(reqs), "first_notification": batches[0][0].String(), "live_registrations": liveCensus})
		}
	})
}

// ---------------------------------------------------------------- main

func body(r *vlib.Run) {
	modePairs(r)
	modeFullTrie(r)
	modeNotif(r)
	modeNotifRand(r)
	modeHistory(r)
	modeServer(r)
	r.Count("server_update_entries_with_path_level_origin", pathOriginUpdates)
	r.Count("server_requests_with_join_colliding_path_pairs", joinCollidingPairs)
	modeConcRemove(r)
}

func main() {
	vlib.Main(&vlib.Spec{
		ID: "C06",
		Rule: "pairs (exhaustive): every (query, path) over {a,b,*}^<=4 (121 x 121) through the real trie via Update, UpdateOnce and single-update / single-delete UpdateNotification, plus ctree.Query containment on a tree holding the path as a leaf, plus, on a node shared with a second client: remove, repeated remove, re-add, the stale remove function of the first registration called again, a second registration of the same (client, path) pair while it is registered, removal of one of the two, of the last; a pair is distinct non-trivial when both sides are non-empty. " +
			"fulltrie (exhaustive): all 121 queries in one trie with two clients each, staged removals, every path. " +
			"notif (exhaustive): every query set of size <= 2 over {a,b,*}^<=3 (thorough <=4), including the same path registered twice by one client, each registration then removed by its own remove function, against every notification shape (single update/delete over ^<=3 (thorough ^<=4); ordered pairs UU/UD/DD over ^<=2; triples UUD over ^<=1; thorough also UU pairs over ^<=3; atomic containers: every prefix over ^{1,2} with 1 or 2 members over ^{1,2} (quick: the first of two members over ^1) or 3 members over ^1) through UpdateNotification with prefix splits and both path encodings; a case is distinct non-trivial when >= 2 (path, entry) combinations agree, i.e. de-duplication had something to do (quick records a 1/4, thorough a 1/64 systematic sample of them; the full number is counter notif_cases_dedup_needed). " +
			"notifrand / history / server: seeded random; a notifrand trial counts when it had a notification needing de-duplication and one offered to nobody; histories register (client, path) pairs freely (also while the pair is registered) and call any remove function at any time (also again, also after the pair was registered anew); a history counts when it contains an offer, a removal on a node shared with another client, a re-registration after removal, a judged silence after removal, a registration of a pair that is still registered, the removal of one of several live registrations of a pair, and a stale remove function called while a newer registration of its pair is live; a server trial counts when a request has >= 2 paths and at least one notification was streamed and one was not; concremove: 300 (thorough 6000) trials of concurrent dispatch and unsubscription.",
		Assumptions: []string{
			"model.Compat (agreement on every common element, '*' on either side agrees with anything) is the relation of the statement; for a plain match.Update 'offered or not' is judged, and at most one offer when the client has a single registration (a client registered with several agreeing paths gets one callback per path from a plain Update, which no notification path of the repository uses); at most once whatever the number of live registrations where the notification goes through UpdateOnce / UpdateNotification",
			"an atomic notification is judged like any other: offered iff a subscribed path agrees with the full index path (prefix + member path) of at least one member update, at most once (the cache hands the whole container to the feed as one leaf)",
			"registrations are made the way the server makes them: from a slice whose backing array the caller reuses afterwards",
			"per-registration model: every AddQuery is one registration, live from the return of AddQuery until the FIRST call of its own remove function; a client is offered a path iff at least one of ITS live registrations agrees with it (D32)",
			"server mode: requests whose origins violate the gNMI mixed-schema rules (origin in prefix and path, or path origin below prefix elements; path.CompletePath must reject exactly these, judged per subscription) are judged for at-most-once delivery and for missed offers on their valid paths only (what an invalid path selects is undefined); the target-delete shape is kept out of the workload (C14); 'offered' is observed as responses sent on the in-memory stream (1 + duplicates), a sentinel notification per target is the barrier; the 90 s watchdog only yields inconclusive",
			"the end-of-subscription census reads the server's trie by read-only reflection (any map keyed by match.Client reachable from the *match.Match field); counters server_census_available / _unavailable say whether it was available; the same defect class is observed behaviourally at the match level (modes pairs, notif, history: offer-after-remove)",
			"modes pairs/fulltrie/notif/history run on a single goroutine; mode concremove runs 2-4 dispatching goroutines while clients unsubscribe and judges, on ticks of one atomic counter, that no callback of a client BEGINS after its remove function has returned and that a bystander with the same paths is still offered; the race detector is not used",
		},
		QuickShards: 8, ThoroughShards: 16,
		MinDistinctQuick: 20000, MinDistinctThorough: 60000,
		Body: body,
	})
}
