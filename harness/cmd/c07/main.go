// C07 — Subscribers never receive data for targets their ACL denies.
// Safety monitor on Send: a real cache + subscribe.Server with a scripted
// subscribe.ACL (user x target table, the user is taken from the stream's
// context; some users cannot be authenticated at all). Writers (one per
// target) update, delete, Reset and Remove(+re-Add) allowed and denied targets
// while ONCE / POLL / STREAM / STREAM+updates_only subscriptions (single
// target and '*') run. Every response of every stream is judged online
// against the table; rejected calls must be silent and carry the right
// status; authorised data must still arrive (twin comparison with an
// unrestricted subscriber and convergence with the cache restricted to the
// allowed targets at logical quiescence).
package main

import (
	"context"
	"errors"
	"fmt"
	"math/rand"
	"runtime"
	"sort"
	"strings"
	"sync"
	"sync/atomic"
	"time"

	"google.golang.org/grpc/codes"
	"google.golang.org/grpc/status"
	"google.golang.org/protobuf/proto"

	"github.com/openconfig/gnmi/cache"
	"github.com/openconfig/gnmi/ctree"
	pb "github.com/openconfig/gnmi/proto/gnmi"
	"github.com/openconfig/gnmi/subscribe"
	"github.com/openconfig/gnmi/verifhook"

	"verif/internal/gen"
	"verif/internal/model"
	"verif/internal/vlib"
)

var clock int64

func tick() int64 { return atomic.AddInt64(&clock, 1) }

// stuckSeen: once a sentinel was not delivered in this process the following
// trials use a shorter (still >= 1000x normal latency) grace period, so that a
// broken tree does not cost 40 s per trial. Never relevant on a silent run.
var stuckSeen int32

// ---------------------------------------------------------------------------
// Scripted ACL.

type aclTable struct {
	allow     map[string]map[string]bool // user -> target -> allowed
	fail      map[string]bool            // users for which NewRPCACL fails
	failAll   bool
	star      bool // answer to Check("*") (never asked by a correct server)
	newCalls2 int64

	newCalls, newFails, checks, starChecks int64
}

func (a *aclTable) allowed(user, target string) bool { return a.allow[user][target] }

func (a *aclTable) fails(user string) bool { return a.failAll || a.fail[user] }

// NewRPCACL implements subscribe.ACL.
func (a *aclTable) NewRPCACL(ctx context.Context) (subscribe.RPCACL, error) {
	atomic.AddInt64(&a.newCalls, 1)
	u := vlib.User(ctx)
	if a.fails(u) {
		// The constructor may fail with any error value: a plain one, or one that
		// already carries a gRPC status of its own (an auth backend that is down, a
		// lookup that answered NotFound). Whatever it is, authorisation could not be
		// established and the call is to be rejected as unauthenticated.
		switch atomic.AddInt64(&a.newFails, 1) % 4 {
		case 1:
			return nil, status.Error(codes.Unavailable, "auth backend down for "+u)
		case 2:
			return nil, status.Error(codes.NotFound, "no such principal "+u)
		case 3:
			return nil, fmt.Errorf("looking up %s: %w", u, status.Error(codes.PermissionDenied, "directory refused"))
		}
		return nil, errors.New("no credentials for " + u)
	}
	// Two legal shapes of the per-RPC object: a pointer, and (every third call) a
	// struct VALUE that holds a map — an implementation of the interface that is
	// not comparable, so it must never end up inside a map key or an == test.
	if atomic.AddInt64(&a.newCalls2, 1)%3 == 0 {
		return rpcACLValue{t: a, user: u, groups: map[string]bool{u: true}}, nil
	}
	return &rpcACL{t: a, user: u}, nil
}

type rpcACLValue struct {
	t      *aclTable
	user   string
	groups map[string]bool
}

func (r rpcACLValue) Check(target string) bool { return (&rpcACL{t: r.t, user: r.user}).Check(target) }

// Check implements subscribe.ACL.
func (a *aclTable) Check(user, target string) bool { return a.allowed(user, target) }

type rpcACL struct {
	t    *aclTable
	user string
}

func (r *rpcACL) Check(target string) bool {
	atomic.AddInt64(&r.t.checks, 1)
	if target == "*" {
		atomic.AddInt64(&r.t.starChecks, 1)
		return r.t.star
	}
	return r.t.allowed(r.user, target)
}

// ---------------------------------------------------------------------------

type wop struct {
	Kind      string // upd, del, reset, remove, add
	Target    string
	Path      []string
	Val       int64
	Call, Ret int64
}

type leak struct {
	Index  int
	Kind   string
	Target string
	What   string
}

type sub struct {
	idx     int
	user    string
	target  string // target name or "*"
	mode    string // once, poll, stream, stream-uo
	paths   [][]string
	polls   int
	startAt int64
	twinOf  int  // index of the restricted sibling, -1 if none
	static  bool // started after quiescence, on an unchanging cache

	req      *pb.SubscribeRequest
	stream   *vlib.Stream
	callTick int64
	retTick  int64
	syncTick int64 // tick at which the first sync_response was observed (0: none)
	err      error
	panicked string
	done     chan struct{}

	mu     sync.Mutex
	nresp  int
	nsync  int
	leaks  []leak
	nleaks int
}

func (s *sub) isDone() bool {
	select {
	case <-s.done:
		return true
	default:
		return false
	}
}

func (s *sub) streaming() bool { return s.mode == "stream" || s.mode == "stream-uo" }

func (s *sub) describe() map[string]interface{} {
	return map[string]interface{}{"index": s.idx, "user": s.user, "target": s.target, "mode": s.mode, "paths": s.paths, "polls": s.polls, "start_at_op": s.startAt, "twin_of": s.twinOf, "static_phase": s.static}
}

const sentA = "zz"

var dataA = []string{"a", "b"}
var dataB = []string{"x", "y", "z"}

func leafPaths(nl int) [][]string {
	var out [][]string
	for _, a := range dataA {
		for _, b := range dataB {
			for l := 0; l < nl; l++ {
				out = append(out, []string{a, b, fmt.Sprintf("l%d", l)})
			}
		}
	}
	return out
}

// Same pool as C04: for the stored leaf shapes (depth-3 data leaves, depth-2
// meta/ leaves) "compatible" (streaming) and "selected by a query" coincide.
func subPathPool() [][]string {
	return [][]string{{}, {"a"}, {"b"}, {"a", "x"}, {"*", "y"}, {"b", "*"}, {"a", "*", "l1"}, {"b", "z", "l0"}, {"a", "y"}, {"*"}, {"a", "x", "*"}}
}

type trialCfg struct {
	targets []string // targets with a writer; present at the start and at quiescence
	removed string   // in the cache at the start (pre-filled), removed at a seeded moment, never re-added
	ghost   string   // never in the cache
	origin  string
	users   []string
	acl     *aclTable
}

// names: the targets that have a write history (index = history slot).
func (tc *trialCfg) names() []string { return append(append([]string{}, tc.targets...), tc.removed) }

// all: every target name a subscription or an ACL row may mention.
func (tc *trialCfg) all() []string { return append(tc.names(), tc.ghost) }

func (tc *trialCfg) fullKey(target string, p []string) []string {
	k := []string{target}
	if tc.origin != "" {
		k = append(k, tc.origin)
	}
	return append(k, p...)
}

// class of a subscription under the table: what the statement demands of it.
func (tc *trialCfg) class(s *sub) string {
	switch {
	case tc.acl.fails(s.user):
		return "unauthenticated"
	case s.target != "*" && !tc.acl.allowed(s.user, s.target):
		return "denied-single"
	case s.target == "*":
		return "star"
	}
	return "allowed-single"
}

func covers(s *sub, tc *trialCfg, key []string) bool {
	for _, p := range s.paths {
		if model.Compat(tc.fullKey(s.target, p), key) {
			return true
		}
	}
	return false
}

// kindOf classifies a notification the way the statement lists them.
func kindOf(n *pb.Notification, snapshot bool) string {
	if len(n.GetDelete()) > 0 {
		if len(n.Delete) == 1 && len(model.IndexPath(n.GetPrefix())) == 0 {
			if p := model.IndexPath(n.Delete[0]); len(p) == 1 && p[0] == "*" {
				if n.GetPrefix().GetOrigin() == "" {
					return "target-removal-delete"
				}
				return "reset-delete"
			}
		}
		return "delete"
	}
	if snapshot {
		return "snapshot-update"
	}
	return "streamed-update"
}

func compact(m *pb.SubscribeResponse) string {
	if m.GetSyncResponse() {
		return "sync"
	}
	n := m.GetUpdate()
	var b strings.Builder
	fmt.Fprintf(&b, "%s/%s:", n.GetPrefix().GetTarget(), n.GetPrefix().GetOrigin())
	for _, u := range n.GetUpdate() {
		fmt.Fprintf(&b, " upd %s=%d", strings.Join(model.IndexPath(u.Path), "/"), u.GetVal().GetIntVal())
		if u.GetDuplicates() > 0 {
			fmt.Fprintf(&b, "(dup %d)", u.GetDuplicates())
		}
	}
	for _, d := range n.GetDelete() {
		fmt.Fprintf(&b, " del %s", strings.Join(model.IndexPath(d), "/"))
	}
	return b.String()
}

func leafVal(n *pb.Notification, k string) (*pb.TypedValue, int64) {
	pre := model.IndexPrefix(n.GetPrefix())
	for _, u := range n.GetUpdate() {
		if model.Key(append(append([]string{}, pre...), model.IndexPath(u.GetPath())...)) == k {
			return u.GetVal(), n.GetTimestamp()
		}
	}
	return nil, n.GetTimestamp()
}

func isMetaKey(key []string) bool { return len(key) >= 2 && key[1] == "meta" }

type interval struct{ from, to int64 }

type trialState struct {
	r     *vlib.Run
	mode  string
	trial int
	tc    *trialCfg
	c     *cache.Cache
	srv   *subscribe.Server
	subs  []*sub
	hist  [][]wop
	// derived after the workload
	absent    map[string][]interval       // target -> intervals during which it was (possibly) not in the cache
	removes   map[string][]wop            // target -> Remove operations
	lastWrite map[string]int64            // leaf key -> Call tick of the last accepted update
	cacheNow  map[string]*pb.Notification // leaf key -> stored notification at judgement time
	extra     map[string]interface{}
	nontriv   int
}

func (ts *trialState) witness(s *sub) map[string]interface{} {
	w := map[string]interface{}{"targets": ts.tc.targets, "target_removed_for_good": ts.tc.removed, "target_never_existing": ts.tc.ghost, "origin": ts.tc.origin, "acl_table": ts.tc.acl.allow, "users_failing_NewRPCACL": ts.failing(), "subscription": s.describe()}
	for k, v := range ts.extra {
		w[k] = v
	}
	return w
}

func (ts *trialState) failing() []string {
	out := []string{}
	for _, u := range append(append([]string{}, ts.tc.users...), "root", "anon") {
		if ts.tc.acl.fails(u) {
			out = append(out, u)
		}
	}
	return out
}

func (ts *trialState) newSub(s *sub) *sub {
	s.idx = len(ts.subs)
	s.done = make(chan struct{})
	m := pb.SubscriptionList_STREAM
	switch s.mode {
	case "once":
		m = pb.SubscriptionList_ONCE
	case "poll":
		m = pb.SubscriptionList_POLL
	}
	sl := &pb.SubscriptionList{Prefix: &pb.Path{Target: s.target, Origin: ts.tc.origin}, Mode: m, UpdatesOnly: s.mode == "stream-uo"}
	for _, p := range s.paths {
		sl.Subscription = append(sl.Subscription, &pb.Subscription{Path: gen.Path(false, p...)})
	}
	s.req = &pb.SubscribeRequest{Request: &pb.SubscribeRequest_Subscribe{Subscribe: sl}}
	s.stream = vlib.NewStream(context.Background(), s.user)
	s.stream.Push(s.req)
	unauth := ts.tc.acl.fails(s.user)
	acl := ts.tc.acl
	// The online monitor: judges every response at the moment it is sent.
	s.stream.OnSend = func(i int, m *pb.SubscribeResponse) {
		s.mu.Lock()
		defer s.mu.Unlock()
		s.nresp++
		if m.GetSyncResponse() {
			s.nsync++
			if s.nsync == 1 {
				atomic.StoreInt64(&s.syncTick, tick())
			}
			return
		}
		n := m.GetUpdate()
		if n == nil || unauth {
			return // an unauthenticated caller must get nothing at all: judged by its own clause
		}
		t := n.GetPrefix().GetTarget()
		if !acl.allowed(s.user, t) {
			s.nleaks++
			if len(s.leaks) < 4 {
				snapshot := !s.streaming() || (s.nsync == 0)
				s.leaks = append(s.leaks, leak{Index: i, Kind: kindOf(n, snapshot), Target: t, What: compact(m)})
			}
		}
	}
	ts.subs = append(ts.subs, s)
	return s
}

// run calls the real Subscribe and, for POLL, plays the interactive client:
// the next trigger (finally the end of the request stream) is sent only after
// the previous round's sync_response was received.
func (ts *trialState) run(s *sub) {
	if s.mode == "poll" {
		ctx, cancel := context.WithCancel(context.Background())
		go func() { <-s.done; cancel() }()
		go func() {
			for round := 0; ; round++ {
				ok := s.stream.WaitSent(ctx, func(sent []*pb.SubscribeResponse) bool {
					n := 0
					for _, m := range sent {
						if m.GetSyncResponse() {
							n++
						}
					}
					return n >= round+1
				})
				if !ok {
					return
				}
				if round == s.polls {
					s.stream.CloseSend()
					return
				}
				s.stream.Push(&pb.SubscribeRequest{Request: &pb.SubscribeRequest_Poll{Poll: &pb.Poll{}}})
			}
		}()
	}
	func() {
		defer func() {
			if p := recover(); p != nil {
				s.panicked = fmt.Sprint(p)
			}
		}()
		s.callTick = tick()
		s.err = ts.srv.Subscribe(s.stream)
	}()
	s.retTick = tick()
	close(s.done)
}

func runTrial(r *vlib.Run, mode string, trial int, rng *rand.Rand) {
	procs := []int{2, 4, 16}[rng.Intn(3)]
	runtime.GOMAXPROCS(procs)
	defer runtime.GOMAXPROCS(16)
	tc := &trialCfg{acl: &aclTable{allow: map[string]map[string]bool{}, fail: map[string]bool{"anon": true}}}
	nT := 2 + rng.Intn(3)
	for i := 0; i < nT; i++ {
		tc.targets = append(tc.targets, fmt.Sprintf("T%d", i))
	}
	tc.removed, tc.ghost = "R0", "G0"
	names, all := tc.names(), tc.all()
	if rng.Intn(2) == 0 {
		tc.origin = "oc"
	}
	nU := 2 + rng.Intn(2)
	for u := 0; u < nU; u++ {
		name := fmt.Sprintf("u%d", u)
		tc.users = append(tc.users, name)
		row := map[string]bool{}
		kind := rng.Intn(6)
		for _, t := range all {
			switch kind {
			case 0:
				row[t] = false // all-deny
			case 1:
				row[t] = true // all-allow
			default:
				row[t] = rng.Intn(2) == 0
			}
		}
		tc.acl.allow[name] = row
	}
	rootRow, anonRow := map[string]bool{}, map[string]bool{}
	for _, t := range all {
		rootRow[t], anonRow[t] = true, true
	}
	tc.acl.allow["root"], tc.acl.allow["anon"] = rootRow, anonRow
	tc.acl.star = rng.Intn(2) == 0
	tc.acl.failAll = rng.Intn(16) == 0

	c := cache.New(names)
	srv, _ := subscribe.NewServer(c, subscribe.WithACL(tc.acl))
	c.SetClient(srv.Update)
	leaves := leafPaths(2 + rng.Intn(3))
	nops := 30 + rng.Intn(150)
	totalOps := int64(nops * nT)

	ts := &trialState{r: r, mode: mode, trial: trial, tc: tc, c: c, srv: srv, hist: make([][]wop, len(names)), extra: map[string]interface{}{"gomaxprocs": procs, "ops_per_writer": nops}}

	// Subscriptions of the churn phase.
	pool := subPathPool()
	pickPaths := func() [][]string {
		var ps [][]string
		np := 1 + rng.Intn(2)
		seen := map[string]bool{}
		for len(ps) < np {
			p := pool[rng.Intn(len(pool))]
			if !seen[model.Key(p)] {
				seen[model.Key(p)] = true
				ps = append(ps, p)
			}
		}
		return append(ps, []string{sentA})
	}
	pickStart := func() int64 {
		switch rng.Intn(5) {
		case 0:
			return 0
		case 1:
			return totalOps
		}
		return rng.Int63n(totalOps)
	}
	M := 3 + rng.Intn(5)
	for i := 0; i < M; i++ {
		s := &sub{twinOf: -1}
		switch x := rng.Intn(20); {
		case x < 2:
			s.user = "anon"
		case x < 4:
			s.user = "root"
		default:
			s.user = tc.users[rng.Intn(nU)]
		}
		if rng.Intn(2) == 0 {
			s.target = "*"
		} else {
			switch z := rng.Intn(8); z {
			case 0:
				s.target = tc.ghost
			case 1:
				s.target = tc.removed
			default:
				s.target = tc.targets[rng.Intn(nT)]
			}
		}
		switch y := rng.Intn(20); {
		case y < 4:
			s.mode = "once"
		case y < 7:
			s.mode = "poll"
		case y < 16:
			s.mode = "stream"
		default:
			s.mode = "stream-uo"
		}
		if i == 0 {
			// One all-targets subscription of a table user in every trial.
			s.user, s.target = tc.users[0], "*"
			s.mode = []string{"stream", "stream-uo", "once", "poll"}[trial%4]
		}
		s.paths = pickPaths()
		s.polls = rng.Intn(3)
		s.startAt = pickStart()
		ts.newSub(s)
		if s.target == "*" && s.mode == "stream" && s.user != "root" && s.user != "anon" {
			// Unrestricted twin: same request, user root, same start moment.
			ts.newSub(&sub{user: "root", target: "*", mode: "stream", paths: s.paths, startAt: s.startAt, twinOf: s.idx})
		}
	}
	churn := len(ts.subs)
	// Subscriptions of the static phase (started after quiescence).
	for _, u := range tc.users {
		s := &sub{user: u, target: "*", twinOf: -1, static: true, paths: pickPaths(), polls: 1 + rng.Intn(2)}
		s.mode = []string{"once", "poll"}[rng.Intn(2)]
		ts.newSub(s)
		ts.newSub(&sub{user: "root", target: "*", mode: s.mode, paths: s.paths, polls: s.polls, twinOf: s.idx, static: true})
	}
	for _, t := range []string{tc.targets[rng.Intn(nT)], tc.removed, tc.ghost} {
		s := &sub{user: tc.users[rng.Intn(nU)], target: t, twinOf: -1, static: true, paths: pickPaths(), polls: 1}
		// On the absent targets every mode must end on its own (PermissionDenied /
		// NotFound); on a present one only ONCE and POLL do.
		s.mode = []string{"once", "poll", "stream", "stream-uo"}[rng.Intn(4)]
		if t != tc.removed && t != tc.ghost {
			s.mode = []string{"once", "poll"}[rng.Intn(2)]
		}
		ts.newSub(s)
	}

	// Schedule perturbation at C04's points (never deciding).
	pert := vlib.NewPerturb(vlib.Mix(r.Seed, int64(trial), 7))
	pert.MaxSleep = time.Duration(rng.Intn(300)) * time.Microsecond
	points := []string{"subscribe.registering", "subscribe.registered", "subscribe.walk.begin", "subscribe.walk.end", "subscribe.dequeue", "cache.update.written", "cache.remove.walked"}
	holdPoint := ""
	if trial%4 == 0 {
		holdPoint = points[(trial/4)%len(points)]
		if holdPoint != "subscribe.dequeue" && holdPoint != "cache.update.written" {
			pert.Hold = map[string]time.Duration{holdPoint: time.Duration(1000+rng.Intn(2000)) * time.Microsecond}
		} else {
			pert.Hold = map[string]time.Duration{holdPoint: time.Duration(50+rng.Intn(200)) * time.Microsecond}
		}
	}
	ts.extra["hold_point"] = holdPoint
	verifhook.Set(pert.Handle)
	defer verifhook.Set(nil)

	// Writers.
	var progress int64
	var wg sync.WaitGroup
	wseeds := make([]int64, nT)
	for i := range wseeds {
		wseeds[i] = rng.Int63()
	}
	tsOf := make([]int64, len(names))
	var writerPanic atomic.Value
	write := func(ti int, kind string, p []string, val int64) {
		tsOf[ti]++
		o := wop{Kind: kind, Target: names[ti], Path: p, Val: val}
		var n *pb.Notification
		switch kind {
		case "upd":
			n = gen.Update(o.Target, tc.origin, tsOf[ti], nil, gen.Path(false, p...), gen.I(val))
		case "del":
			n = gen.Delete(o.Target, tc.origin, tsOf[ti], nil, gen.Path(false, p...))
		}
		func() {
			defer func() {
				if pv := recover(); pv != nil {
					writerPanic.Store(fmt.Sprintf("%s %s %v: %v", kind, o.Target, p, pv))
					o.Kind = "panicked:" + kind
				}
			}()
			o.Call = tick()
			switch kind {
			case "reset":
				c.Reset(o.Target)
			case "remove":
				c.Remove(o.Target)
			case "add":
				c.Add(o.Target)
			default:
				if err := c.GnmiUpdate(n); err != nil {
					o.Kind = "rejected:" + err.Error()
				}
			}
		}()
		o.Ret = tick()
		ts.hist[ti] = append(ts.hist[ti], o)
	}
	var ctr int64
	newVal := func(ti int) int64 { return int64(ti+1)<<40 | atomic.AddInt64(&ctr, 1) }
	for ti := range names {
		for _, p := range leaves {
			if rng.Intn(2) == 0 {
				write(ti, "upd", p, newVal(ti))
			}
		}
	}
	for ti := 0; ti < nT; ti++ {
		ti := ti
		wg.Add(1)
		go func() {
			defer wg.Done()
			wr := rand.New(rand.NewSource(wseeds[ti]))
			absentFor := -1 // >= 0: the target is removed; re-Add after that many op slots
			for i := 0; i < nops; i++ {
				if absentFor >= 0 {
					if absentFor == 0 {
						write(ti, "add", nil, 0)
					} else {
						runtime.Gosched()
						if wr.Intn(2) == 0 {
							time.Sleep(time.Duration(wr.Intn(100)) * time.Microsecond)
						}
					}
					absentFor--
					atomic.AddInt64(&progress, 1)
					continue
				}
				x := wr.Intn(100)
				p := leaves[wr.Intn(len(leaves))]
				switch {
				case x < 53:
					write(ti, "upd", p, newVal(ti))
				case x < 65:
					for k := 0; k < 2+wr.Intn(4); k++ {
						write(ti, "upd", p, newVal(ti))
					}
				case x < 80:
					write(ti, "del", p, 0)
				case x < 89:
					write(ti, "del", p[:2], 0)
				case x < 93:
					write(ti, "del", p[:1], 0)
				case x < 97:
					write(ti, "reset", nil, 0)
				default:
					write(ti, "remove", nil, 0)
					absentFor = wr.Intn(5)
					if wr.Intn(3) == 0 {
						absentFor = 8 + wr.Intn(30) // left removed for a while
					}
				}
				atomic.AddInt64(&progress, 1)
				if wr.Intn(8) == 0 {
					runtime.Gosched()
				}
			}
			if absentFor >= 0 {
				write(ti, "add", nil, 0)
			}
		}()
	}
	// The target that is removed for good: at a seeded moment, by its own goroutine.
	removeAt := int64(0)
	if rng.Intn(4) != 0 {
		removeAt = rng.Int63n(totalOps + 1)
	}
	wg.Add(1)
	go func() {
		defer wg.Done()
		for atomic.LoadInt64(&progress) < removeAt {
			runtime.Gosched()
			time.Sleep(20 * time.Microsecond)
		}
		write(nT, "remove", nil, 0)
	}()
	ts.extra["removed_for_good_at_op"] = removeAt
	for _, s := range ts.subs[:churn] {
		s := s
		go func() {
			for atomic.LoadInt64(&progress) < s.startAt {
				runtime.Gosched()
				time.Sleep(20 * time.Microsecond)
			}
			ts.run(s)
		}()
	}
	wg.Wait()

	// Logical quiescence (C04's protocol): each target's writer rewrites its
	// sentinel leaf until every live STREAM subscriber that covers the target
	// and is authorised for it has received that very value; then every live
	// STREAM subscriber must have its sync.
	sentPath := []string{sentA, "end", "end"}
	grace := 40 * time.Second
	if atomic.LoadInt32(&stuckSeen) != 0 {
		grace = 10 * time.Second
	}
	deadline := time.Now().Add(grace)
	finalSent := make([]int64, nT)
	expectLive := func(s *sub) bool {
		cl := tc.class(s)
		return s.streaming() && (cl == "star" || cl == "allowed-single")
	}
	var stuckSub *sub
	stuck := ""
	for ti := range tc.targets {
		T := tc.targets[ti]
		for {
			v := newVal(ti)
			write(ti, "upd", sentPath, v)
			finalSent[ti] = v
			all := true
			waitUntil := time.Now().Add(150 * time.Millisecond)
			for _, s := range ts.subs[:churn] {
				if !expectLive(s) || (s.target != "*" && s.target != T) || !tc.acl.allowed(s.user, T) || s.isDone() {
					continue // a subscription that ended on its own is judged for that below
				}
				ctx, cancel := context.WithDeadline(context.Background(), waitUntil)
				ok := s.stream.WaitSent(ctx, func(sent []*pb.SubscribeResponse) bool {
					for i := len(sent) - 1; i >= 0; i-- {
						if u := sent[i].GetUpdate(); u != nil && len(u.Update) == 1 && u.Update[0].GetVal().GetIntVal() == v {
							return true
						}
					}
					return false
				})
				cancel()
				if !ok && !s.isDone() {
					all = false
					stuckSub = s
				}
			}
			if all {
				break
			}
			if time.Now().After(deadline) {
				stuck = fmt.Sprintf("the sentinel update of target %s, for which user %s is authorised, was not delivered to subscriber %d within %v although the system was otherwise idle", T, stuckSub.user, stuckSub.idx, grace)
				break
			}
		}
		if stuck != "" {
			break
		}
	}
	noSync := map[int]bool{}
	if stuck == "" {
		for _, s := range ts.subs[:churn] {
			if !expectLive(s) || s.isDone() {
				continue
			}
			ctx, cancel := context.WithDeadline(context.Background(), deadline)
			go func() {
				select {
				case <-s.done: // e.g. NotFound for a target that is not there
					cancel()
				case <-ctx.Done():
				}
			}()
			ok := s.stream.WaitSent(ctx, func(sent []*pb.SubscribeResponse) bool {
				for _, m := range sent {
					if m.GetSyncResponse() {
						return true
					}
				}
				return false
			})
			cancel()
			if !ok && !s.isDone() {
				noSync[s.idx] = true
				r.Inconclusive("a live STREAM subscriber never sent a sync_response (C04's clause); its convergence was not judged")
			}
		}
	}
	// ONCE and POLL calls of the churn phase end on their own.
	unfinished := map[int]bool{}
	waitDone := func(list []*sub) {
		limit, cancelLimit := context.WithTimeout(context.Background(), 30*time.Second)
		defer cancelLimit()
		for _, s := range list {
			if s.streaming() && expectLive(s) && !s.static {
				continue
			}
			// Everything else must end without the harness' help: ONCE, POLL after
			// the request stream ended, and every rejected call. A call that has to
			// be rejected silently is decided as soon as it has sent anything.
			mustBeSilent := !expectLive(s) && (tc.class(s) == "unauthenticated" || tc.class(s) == "denied-single")
			ctx, cancel := context.WithCancel(limit)
			go func() {
				select {
				case <-s.done:
					cancel()
				case <-ctx.Done():
				}
			}()
			s.stream.WaitSent(ctx, func(sent []*pb.SubscribeResponse) bool { return mustBeSilent && len(sent) > 0 })
			cancel()
			if !s.isDone() {
				unfinished[s.idx] = true
			}
		}
	}
	if stuck == "" {
		waitDone(ts.subs[:churn])
		// Static phase: nothing writes any more.
		for _, s := range ts.subs[churn:] {
			go ts.run(s)
		}
		waitDone(ts.subs[churn:])
	}
	r.Eval(1)
	if wp := writerPanic.Load(); wp != nil {
		r.Violation(mode, trial, "panic:cache-write", "a cache call of a writer panicked: "+wp.(string), ts.witness(ts.subs[0]))
	}

	if stuck != "" {
		atomic.StoreInt32(&stuckSeen, 1)
		w := ts.witness(stuckSub)
		w["responses"] = stuckSub.stream.NSent()
		r.Violation(mode, trial, "authorised-data-not-delivered:stuck", stuck, w)
		// Safety is still judged on what was sent.
		for _, s := range ts.subs[:churn] {
			ts.judgeLeaks(s)
		}
	} else {
		ts.derive()
		for _, s := range ts.subs {
			if unfinished[s.idx] {
				if cl := tc.class(s); cl == "unauthenticated" || cl == "denied-single" {
					ts.judge(s, false) // a call that must be rejected is still running: judged as such
					continue
				}
				r.Inconclusive("a ONCE/POLL call did not end within 30 s (C05's clause); only its responses so far were judged for leaks")
				ts.judgeLeaks(s)
				continue
			}
			ts.judge(s, noSync[s.idx])
		}
	}

	// Tear down.
	for _, s := range ts.subs {
		s.stream.Cancel()
	}
	for _, s := range ts.subs {
		if stuck != "" && s.static {
			continue // never started
		}
		select {
		case <-s.done:
		case <-time.After(30 * time.Second):
			r.Inconclusive("Subscribe did not return within 30 s after its context was cancelled")
		}
	}
	r.Count("acl_NewRPCACL_calls", atomic.LoadInt64(&tc.acl.newCalls))
	r.Count("acl_NewRPCACL_failures_scripted", atomic.LoadInt64(&tc.acl.newFails))
	r.Count("acl_Check_calls", atomic.LoadInt64(&tc.acl.checks))
	r.Count("acl_Check_calls_with_target_star", atomic.LoadInt64(&tc.acl.starChecks))
	for k, v := range pert.Hits() {
		r.Count("point_"+k, v)
	}
	for ti := range ts.hist {
		for _, o := range ts.hist[ti] {
			if i := strings.IndexByte(o.Kind, ':'); i > 0 {
				r.Count("writer_ops_"+o.Kind[:i], 1)
			} else {
				r.Count("writer_ops_"+o.Kind, 1)
			}
		}
	}
	r.SetAdd("interleavings", pert.Signature())
	if stuck == "" && ts.nontriv > 0 {
		r.Distinct(vlib.Hash(mode, trial, pert.Signature()))
	}
	if r.WantSample() && trial%41 == 0 && stuck == "" {
		s := ts.subs[0]
		var first []string
		for i, m := range s.stream.Sent() {
			if i < 6 {
				first = append(first, compact(m))
			}
		}
		r.Sample(map[string]interface{}{"trial": trial, "targets": tc.targets, "origin": tc.origin, "acl_table": tc.acl.allow, "failing_users": ts.failing(), "ops_per_writer": nops, "subscriptions": len(ts.subs), "sub0": s.describe(), "sub0_class": tc.class(s), "sub0_responses": s.stream.NSent(), "sub0_first": first, "sub0_status": fmt.Sprint(s.err)})
	}
}

// derive computes, from the write histories, what the oracle needs.
func (ts *trialState) derive() {
	ts.absent = map[string][]interval{}
	ts.removes = map[string][]wop{}
	ts.lastWrite = map[string]int64{}
	ts.absent[ts.tc.ghost] = []interval{{0, 1 << 62}}
	for ti := range ts.hist {
		T := ts.tc.names()[ti]
		open := int64(-1)
		for _, o := range ts.hist[ti] {
			switch o.Kind {
			case "remove":
				open = o.Call
				ts.removes[T] = append(ts.removes[T], o)
			case "add":
				ts.absent[T] = append(ts.absent[T], interval{open, o.Ret})
				open = -1
			case "upd":
				ts.lastWrite[model.Key(ts.tc.fullKey(o.Target, o.Path))] = o.Call
			}
		}
		if open >= 0 {
			ts.absent[T] = append(ts.absent[T], interval{open, 1 << 62})
		}
	}
	ts.cacheNow = map[string]*pb.Notification{}
	for _, t := range ts.tc.names() {
		t := t
		ts.c.Query(t, []string{"*"}, func(p []string, _ *ctree.Leaf, v interface{}) error {
			ts.cacheNow[model.Key(append([]string{t}, p...))] = v.(*pb.Notification)
			return nil
		})
	}
}

// maybeAbsent: was the target (possibly) missing from the cache at some moment of [from, to]?
func (ts *trialState) maybeAbsent(target string, from, to int64) bool {
	for _, iv := range ts.absent[target] {
		if iv.from <= to && iv.to >= from {
			return true
		}
	}
	return false
}

func (ts *trialState) tail(log []*pb.SubscribeResponse) []string {
	var out []string
	for i := len(log) - 8; i < len(log); i++ {
		if i >= 0 {
			out = append(out, compact(log[i]))
		}
	}
	return out
}

func (ts *trialState) viol(s *sub, sig, what string, more map[string]interface{}) {
	w := ts.witness(s)
	log := s.stream.Sent()
	w["responses"] = len(log)
	w["last_responses"] = ts.tail(log)
	w["status"] = fmt.Sprint(s.err)
	for k, v := range more {
		w[k] = v
	}
	ts.r.Violation(ts.mode, ts.trial, sig, fmt.Sprintf("subscriber %d (user %s, target %s, mode %s, paths %v): %s", s.idx, s.user, s.target, s.mode, s.paths, what), w)
}

// judgeLeaks: the safety clause proper. The decisions were taken online, per
// response, in OnSend; here they are reported, and the complete log is
// re-checked so that nothing depends on the callback alone.
func (ts *trialState) judgeLeaks(s *sub) bool {
	r := ts.r
	tc := ts.tc
	if tc.class(s) == "unauthenticated" {
		return true
	}
	log := s.stream.Sent()
	restricted := false
	for _, t := range tc.all() {
		if !tc.acl.allowed(s.user, t) {
			restricted = true
		}
	}
	offline := 0
	synced := false
	for _, m := range log {
		if m.GetSyncResponse() {
			synced = true
			continue
		}
		n := m.GetUpdate()
		if n == nil {
			continue
		}
		r.Count("responses_with_notification_checked", 1)
		if restricted {
			r.Count("responses_checked_for_restricted_users", 1)
			r.Count("delivered_to_restricted_user_"+kindOf(n, !s.streaming() || !synced), 1)
		}
		if !tc.acl.allowed(s.user, n.GetPrefix().GetTarget()) {
			offline++
		}
	}
	s.mu.Lock()
	leaks, nleaks := s.leaks, s.nleaks
	s.mu.Unlock()
	if nleaks == 0 && offline == 0 {
		return true
	}
	if len(leaks) == 0 {
		ts.viol(s, "leak:unclassified", fmt.Sprintf("%d responses for denied targets in the log", offline), nil)
		return false
	}
	l := leaks[0]
	ts.viol(s, "leak:"+l.Kind, fmt.Sprintf("response #%d [%s] carries a %s for target %s, which the ACL denies to user %s (%d such responses in this stream)", l.Index, l.What, l.Kind, l.Target, s.user, nleaks), map[string]interface{}{"leaks": leaks})
	return false
}

func (ts *trialState) judge(s *sub, noSync bool) {
	r := ts.r
	tc := ts.tc
	cl := tc.class(s)
	log := s.stream.Sent()
	ended := s.isDone()
	code := codes.OK
	if ended {
		code = status.Code(s.err)
	}
	r.Count("subscriber_logs_judged", 1)
	r.Count("subscriber_logs_judged_"+cl, 1)
	r.Count("responses_observed", int64(len(log)))
	if s.panicked != "" {
		ts.viol(s, "panic:subscribe", "Subscribe panicked: "+s.panicked, nil)
		return
	}
	if !ts.judgeLeaks(s) {
		return
	}
	switch cl {
	case "unauthenticated":
		ts.nontriv++
		switch {
		case len(log) > 0:
			ts.viol(s, "unauthenticated-got-responses", fmt.Sprintf("NewRPCACL failed for this call, yet %d responses were sent (status %v)", len(log), s.err), nil)
		case !ended:
			ts.viol(s, "unauthenticated-not-rejected", "NewRPCACL failed for this call, yet the call was not rejected (still running at the end of the trial)", nil)
		case code != codes.Unauthenticated:
			ts.viol(s, "unauthenticated-wrong-status", fmt.Sprintf("NewRPCACL failed for this call; it ended with %v (code %v) instead of Unauthenticated", s.err, code), nil)
		default:
			r.Count("unauthenticated_rejected_silently", 1)
		}
		return
	case "denied-single":
		ts.nontriv++
		// Whether or not the cache holds the target (D29): the answer to a caller
		// who is denied a target must not depend on the target's existence.
		gone := ts.maybeAbsent(s.target, s.callTick, s.retTick)
		where := "target_present_throughout"
		switch {
		case s.target == tc.ghost:
			where = "target_never_existed"
		case gone:
			where = "target_removed_or_being_removed"
		}
		switch {
		case len(log) > 0:
			ts.viol(s, "denied-single-target-got-responses", fmt.Sprintf("the ACL denies target %s to user %s, yet %d responses were sent before the call ended (status %v)", s.target, s.user, len(log), s.err), nil)
		case !ended:
			ts.viol(s, "denied-single-target-not-rejected", fmt.Sprintf("the ACL denies target %s to user %s, yet the call was not rejected (still running at the end of the trial)", s.target, s.user), nil)
		case code == codes.PermissionDenied:
			r.Count("denied_single_target_PermissionDenied", 1)
			r.Count("denied_single_target_PermissionDenied_"+where, 1)
		case code == codes.NotFound:
			ts.viol(s, "denied-single-target-existence-disclosed", fmt.Sprintf("the ACL denies target %s to user %s; the call ended with %v (code NotFound) instead of a permission error (%s): a caller who is denied a target learns whether the cache holds it", s.target, s.user, s.err, strings.ReplaceAll(where, "_", " ")), map[string]interface{}{"target_state_during_call": where})
		default:
			ts.viol(s, "denied-single-target-wrong-status", fmt.Sprintf("the ACL denies target %s to user %s; the call ended with %v (code %v) instead of PermissionDenied (%s)", s.target, s.user, s.err, code, strings.ReplaceAll(where, "_", " ")), map[string]interface{}{"target_state_during_call": where})
		}
		return
	}

	// Authorised calls ("star", "allowed-single"): completeness.
	if ended {
		switch {
		case s.target != "*" && code == codes.NotFound && len(log) == 0 && ts.maybeAbsent(s.target, s.callTick, s.retTick):
			r.Count("authorised_single_target_NotFound_target_absent_per_harness_record", 1)
			if s.target == tc.ghost {
				r.Count("authorised_single_target_NotFound_target_never_existed", 1)
			}
			return
		case !s.streaming() && s.err == nil:
			// ONCE / POLL ended normally.
		case s.streaming() && s.target != "*" && s.err == nil && ts.removedSince(s):
			// A single-target stream ends with OK when its target is removed.
			r.Count("authorised_single_target_stream_ended_by_Remove", 1)
			return
		default:
			ts.viol(s, "authorised-subscription-ended", fmt.Sprintf("the caller is authorised (%s), yet the call ended on its own with %v (code %v) after %d responses", cl, s.err, code, len(log)), nil)
			return
		}
	}
	if noSync {
		return
	}
	syncAt := -1
	nsync := 0
	for i, m := range log {
		if m.GetSyncResponse() {
			nsync++
			if syncAt < 0 {
				syncAt = i
			}
		}
	}
	if syncAt < 0 {
		if ended {
			ts.viol(s, "authorised-subscription-ended", fmt.Sprintf("the caller is authorised (%s); the call ended with %v without a sync_response (%d responses)", cl, s.err, len(log)), nil)
		}
		return
	}
	allowedT := map[string]bool{}
	for _, t := range tc.all() {
		if (s.target == "*" || s.target == t) && tc.acl.allowed(s.user, t) {
			allowedT[t] = true
		}
	}
	shadow := model.NewShadow()
	preSync := map[string]bool{}
	for i, m := range log {
		n := m.GetUpdate()
		if n == nil {
			continue
		}
		if i < syncAt {
			pre := model.IndexPrefix(n.GetPrefix())
			for _, u := range n.GetUpdate() {
				preSync[model.Key(append(append([]string{}, pre...), model.IndexPath(u.GetPath())...))] = true
			}
		}
		shadow.Apply(n)
	}

	// (1) Snapshot completeness under churn: a leaf of an authorised target that
	// existed before the call and was never deleted is sent before the sync.
	if s.mode != "stream-uo" {
		for ti := range ts.hist {
			T := tc.names()[ti]
			if !allowedT[T] {
				continue
			}
			lastW := map[string]wop{}
			for _, o := range ts.hist[ti] {
				if o.Kind == "upd" && o.Ret < s.callTick {
					lastW[model.Key(tc.fullKey(o.Target, o.Path))] = o
				}
			}
			for k, w := range lastW {
				key := model.Unkey(k)
				if !covers(s, tc, key) {
					continue
				}
				deleted := false
				for _, o := range ts.hist[ti] {
					if o.Call <= w.Call {
						continue
					}
					if o.Kind == "reset" || o.Kind == "remove" || strings.HasPrefix(o.Kind, "panicked") || (o.Kind == "del" && model.MatchQ(tc.fullKey(o.Target, o.Path), key)) {
						deleted = true
						break
					}
				}
				if deleted {
					continue
				}
				r.Count("presync_leaves_of_authorised_targets_required", 1)
				if !preSync[k] {
					ts.viol(s, "authorised-snapshot-leaf-missing", fmt.Sprintf("leaf %v of authorised target %s existed before the call (written at tick %d < call tick %d) and was never deleted, but no update for it precedes the sync_response", key, T, w.Ret, s.callTick), nil)
					return
				}
			}
		}
	}

	// (2) Content: live STREAM subscribers at logical quiescence, and every
	// call of the static phase, hold exactly the cache restricted to the
	// authorised targets (and to their paths).
	judgeContent := (s.streaming() && !ended) || s.static
	if judgeContent {
		want := map[string]*pb.Notification{}
		for k, n := range ts.cacheNow {
			key := model.Unkey(k)
			if allowedT[key[0]] && covers(s, tc, key) {
				want[k] = n
			}
		}
		syncTick := atomic.LoadInt64(&s.syncTick)
		var diffs []string
		for k, wn := range want {
			key := model.Unkey(k)
			gn, ok := shadow.M[k]
			if !ok {
				if s.mode == "stream-uo" {
					// updates_only: owed only what was written after its sync was sent.
					lw, known := ts.lastWrite[k]
					if !known || isMetaKey(key) || lw <= syncTick {
						continue
					}
					r.Count("updates_only_leaves_written_after_sync_required", 1)
				}
				diffs = append(diffs, fmt.Sprintf("missing %v (cache holds %d)", key, wn.Update[0].GetVal().GetIntVal()))
				continue
			}
			gv, gts := leafVal(gn, k)
			if !proto.Equal(gv, wn.Update[0].GetVal()) || (!isMetaKey(key) && gts != wn.Timestamp) {
				diffs = append(diffs, fmt.Sprintf("stale %v: subscriber holds %v@%d, cache holds %v@%d", key, gv, gts, wn.Update[0].GetVal(), wn.Timestamp))
			}
		}
		for k := range shadow.M {
			if _, ok := want[k]; !ok {
				diffs = append(diffs, fmt.Sprintf("extra %v (not in the cache restricted to authorised targets, still held by the subscriber)", model.Unkey(k)))
			}
		}
		r.Count("convergence_leaves_compared", int64(len(want)))
		if len(diffs) > 0 {
			sort.Strings(diffs)
			if len(diffs) > 6 {
				diffs = diffs[:6]
			}
			ts.viol(s, "authorised-data-not-delivered", "the replayed responses differ from the cache restricted to the authorised targets: "+strings.Join(diffs, "; "), nil)
			return
		}
		r.Count("subscriber_logs_converged_to_restricted_cache", 1)
		if s.mode == "poll" && ended && nsync != s.polls+1 {
			// Not this property's clause (C05); recorded only.
			r.Count("poll_round_count_differs_diagnostic", 1)
		}
	}

	// (3) Twin: this is the unrestricted sibling of subscriber A. Restricted to
	// A's authorised targets both logs must replay to the same content; the twin's
	// log also shows what the filter had to withhold from A.
	if s.twinOf >= 0 {
		a := ts.subs[s.twinOf]
		if tc.class(a) != "star" {
			return
		}
		alog := a.stream.Sent()
		aAllowed := map[string]bool{}
		for _, t := range tc.all() {
			aAllowed[t] = tc.acl.allowed(a.user, t)
		}
		synced := false
		withheld := 0
		for _, m := range log {
			if m.GetSyncResponse() {
				synced = true
				continue
			}
			if n := m.GetUpdate(); n != nil && !aAllowed[n.GetPrefix().GetTarget()] {
				withheld++
				r.Count("withheld_from_restricted_sibling_"+kindOf(n, !s.streaming() || !synced), 1)
			}
		}
		if withheld > 0 {
			ts.nontriv++
			r.Count("twin_pairs_where_the_filter_had_work", 1)
		}
		aLive := (a.streaming() && !a.isDone()) || a.static
		if !judgeContent || !aLive {
			return
		}
		sa, sb := model.NewShadow(), model.NewShadow()
		for _, m := range alog {
			if n := m.GetUpdate(); n != nil && aAllowed[n.GetPrefix().GetTarget()] {
				sa.Apply(n)
			}
		}
		for _, m := range log {
			if n := m.GetUpdate(); n != nil && aAllowed[n.GetPrefix().GetTarget()] {
				sb.Apply(n)
			}
		}
		var diffs []string
		for k, bn := range sb.M {
			an, ok := sa.M[k]
			if !ok {
				diffs = append(diffs, fmt.Sprintf("restricted subscriber lacks %v", model.Unkey(k)))
				continue
			}
			av, ats := leafVal(an, k)
			bv, bts := leafVal(bn, k)
			if !proto.Equal(av, bv) || (!isMetaKey(model.Unkey(k)) && ats != bts) {
				diffs = append(diffs, fmt.Sprintf("%v: restricted subscriber holds %v@%d, unrestricted twin %v@%d", model.Unkey(k), av, ats, bv, bts))
			}
		}
		for k := range sa.M {
			if _, ok := sb.M[k]; !ok {
				diffs = append(diffs, fmt.Sprintf("restricted subscriber still holds %v, which its twin saw deleted", model.Unkey(k)))
			}
		}
		r.Count("twin_pairs_compared", 1)
		r.Count("twin_leaves_compared", int64(len(sb.M)))
		if len(diffs) > 0 {
			sort.Strings(diffs)
			if len(diffs) > 6 {
				diffs = diffs[:6]
			}
			ts.viol(a, "authorised-data-not-delivered:twin", fmt.Sprintf("restricted to the targets user %s is authorised for, its log and the log of the unrestricted twin (subscriber %d) replay to different contents: %s", a.user, s.idx, strings.Join(diffs, "; ")), map[string]interface{}{"twin_responses": len(log)})
			return
		}
		r.Count("twin_pairs_equal", 1)
	}
}

// removedSince: was the subscription's target removed at or after the call began?
func (ts *trialState) removedSince(s *sub) bool {
	for _, o := range ts.removes[s.target] {
		if o.Ret >= s.callTick {
			return true
		}
	}
	return false
}

// ---------------------------------------------------------------------------
// Mode "idle": the last thing a restricted '*' STREAM subscriber's sender
// processes is a notification of a DENIED target, then nothing happens for
// several send timeouts, then an authorised update is written. The statement
// demands that it is still delivered ("everything for authorised targets is
// still delivered"): withholding a notification must leave nothing behind that
// later ends the RPC. The server's send timeout is the only timer involved;
// with nothing being sent a correct server has no armed timer, so waiting
// longer can only make a wrongly armed one more certain to fire (one-sided).

type idleCfg struct {
	Timeout     time.Duration
	Targets     []string
	Origin      string
	Allow       map[string]bool // row of user u0
	Denied      string          // target of the last, withheld, item
	Allowed     string          // target of the sentinels
	Kind        string          // update, delete, reset, remove
	UpdatesOnly bool
}

type idleOutcome struct {
	skip      string // non-empty: the probe could not be set up / judged
	ended     bool   // the restricted subscriber's RPC ended on its own
	err       error
	twinEnded bool // so did the unrestricted twin's (then the cause is not the withheld item)
	delivered bool
	leak      string
	tail      []string
	responses int
}

type idleSub struct {
	stream *vlib.Stream
	done   chan struct{}
	err    error
}

func (s *idleSub) isDone() bool {
	select {
	case <-s.done:
		return true
	default:
		return false
	}
}

func idleScenario(cfg *idleCfg, idleFactor float64) (out idleOutcome) {
	acl := &aclTable{allow: map[string]map[string]bool{"u0": cfg.Allow, "root": {}}, fail: map[string]bool{}}
	for _, t := range cfg.Targets {
		acl.allow["root"][t] = true
	}
	c := cache.New(cfg.Targets)
	srv, _ := subscribe.NewServer(c, subscribe.WithACL(acl), subscribe.WithTimeout(cfg.Timeout))
	c.SetClient(srv.Update)
	var ts, val int64
	upd := func(t string, p []string) int64 {
		ts++
		val++
		c.GnmiUpdate(gen.Update(t, cfg.Origin, ts, nil, gen.Path(false, p...), gen.I(val)))
		return val
	}
	for _, t := range cfg.Targets {
		for _, p := range [][]string{{"a", "x", "l0"}, {"a", "y", "l0"}, {"b", "z", "l0"}} {
			upd(t, p)
		}
	}
	start := func(user string) *idleSub {
		sl := &pb.SubscriptionList{Prefix: &pb.Path{Target: "*", Origin: cfg.Origin}, Mode: pb.SubscriptionList_STREAM, UpdatesOnly: cfg.UpdatesOnly,
			Subscription: []*pb.Subscription{{Path: gen.Path(false)}}}
		s := &idleSub{stream: vlib.NewStream(context.Background(), user), done: make(chan struct{})}
		s.stream.Push(&pb.SubscribeRequest{Request: &pb.SubscribeRequest_Subscribe{Subscribe: sl}})
		go func() {
			defer close(s.done)
			defer func() {
				if p := recover(); p != nil {
					s.err = fmt.Errorf("panic: %v", p)
				}
			}()
			s.err = srv.Subscribe(s.stream)
		}()
		return s
	}
	a, twin := start("u0"), start("root")
	defer func() {
		log := a.stream.Sent()
		out.responses = len(log)
		for i := len(log) - 6; i < len(log); i++ {
			if i >= 0 {
				out.tail = append(out.tail, compact(log[i]))
			}
		}
		for _, m := range log {
			if n := m.GetUpdate(); n != nil && !cfg.Allow[n.GetPrefix().GetTarget()] && out.leak == "" {
				out.leak = compact(m)
			}
		}
		a.stream.Cancel()
		twin.stream.Cancel()
		for _, s := range []*idleSub{a, twin} {
			select {
			case <-s.done:
			case <-time.After(30 * time.Second):
			}
		}
	}()
	// waitFor: pred on the log of s; false when the RPC ended or 40 s passed.
	waitFor := func(s *idleSub, pred func(sent []*pb.SubscribeResponse) bool) bool {
		ctx, cancel := context.WithTimeout(context.Background(), 40*time.Second)
		defer cancel()
		go func() {
			select {
			case <-s.done:
				cancel()
			case <-ctx.Done():
			}
		}()
		return s.stream.WaitSent(ctx, pred)
	}
	hasSync := func(sent []*pb.SubscribeResponse) bool {
		for _, m := range sent {
			if m.GetSyncResponse() {
				return true
			}
		}
		return false
	}
	hasVal := func(v int64) func(sent []*pb.SubscribeResponse) bool {
		return func(sent []*pb.SubscribeResponse) bool {
			for i := len(sent) - 1; i >= 0; i-- {
				if u := sent[i].GetUpdate(); u != nil && len(u.Update) == 1 && u.Update[0].GetVal().GetIntVal() == v {
					return true
				}
			}
			return false
		}
	}
	// 1. Both registered (sync seen) and drained (first sentinel of an allowed target seen).
	if !waitFor(a, hasSync) || !waitFor(twin, hasSync) {
		out.skip = "no sync_response before the probe"
		return
	}
	v1 := upd(cfg.Allowed, []string{sentA, "end", "end"})
	if !waitFor(a, hasVal(v1)) || !waitFor(twin, hasVal(v1)) {
		out.skip = "first sentinel not delivered before the probe (the 'acl' mode's clause)"
		return
	}
	// 2. Let every timer a legitimate send may have armed run out; whoever ends
	// here ended because of a slow send under load, not because of the probe.
	time.Sleep(2 * cfg.Timeout)
	if a.isDone() || twin.isDone() {
		out.skip = "an RPC ended before the probe (send timeout hit by a slow send under load)"
		return
	}
	// 3. The last item: something of the denied target.
	mark := twin.stream.NSent()
	switch cfg.Kind {
	case "update":
		upd(cfg.Denied, []string{"a", "x", "l0"})
	case "delete":
		ts++
		c.GnmiUpdate(gen.Delete(cfg.Denied, cfg.Origin, ts, nil, gen.Path(false, "a")))
	case "reset":
		c.Reset(cfg.Denied)
	case "remove":
		c.Remove(cfg.Denied)
	}
	if !waitFor(twin, func(sent []*pb.SubscribeResponse) bool {
		for i := mark; i < len(sent); i++ {
			if n := sent[i].GetUpdate(); n != nil && n.GetPrefix().GetTarget() == cfg.Denied {
				return true
			}
		}
		return false
	}) {
		out.skip = "the unrestricted twin did not receive the probe notification"
		return
	}
	// 4. Idle.
	time.Sleep(5*time.Millisecond + time.Duration(idleFactor*float64(cfg.Timeout)))
	// 5. A fresh authorised update must still arrive, on a live RPC.
	out.twinEnded = twin.isDone()
	if !a.isDone() {
		v2 := upd(cfg.Allowed, []string{sentA, "end", "end"})
		out.delivered = waitFor(a, hasVal(v2))
	}
	if a.isDone() {
		out.ended, out.err = true, a.err
		out.delivered = false
	}
	return
}

func runIdleTrial(r *vlib.Run, mode string, trial int, rng *rand.Rand) {
	runtime.GOMAXPROCS(16)
	cfg := &idleCfg{Timeout: time.Duration(50+rng.Intn(101)) * time.Millisecond, Allow: map[string]bool{}}
	nT := 2 + rng.Intn(2)
	for i := 0; i < nT; i++ {
		t := fmt.Sprintf("T%d", i)
		cfg.Targets = append(cfg.Targets, t)
		cfg.Allow[t] = rng.Intn(2) == 0
	}
	// At least one denied and one allowed target.
	d := rng.Intn(nT)
	al := (d + 1 + rng.Intn(nT-1)) % nT
	cfg.Allow[cfg.Targets[d]], cfg.Allow[cfg.Targets[al]] = false, true
	cfg.Denied, cfg.Allowed = cfg.Targets[d], cfg.Targets[al]
	if rng.Intn(2) == 0 {
		cfg.Origin = "oc"
	}
	cfg.Kind = []string{"update", "delete", "reset", "remove"}[trial%4]
	cfg.UpdatesOnly = (trial/4)%3 == 2
	wit := func(o idleOutcome) map[string]interface{} {
		return map[string]interface{}{"send_timeout_ms": cfg.Timeout.Milliseconds(), "targets": cfg.Targets, "origin": cfg.Origin, "acl_row_of_subscriber": cfg.Allow, "last_item": cfg.Kind + " of denied target " + cfg.Denied, "sentinel_target": cfg.Allowed, "updates_only": cfg.UpdatesOnly, "status": fmt.Sprint(o.err), "responses": o.responses, "last_responses": o.tail}
	}
	o := idleScenario(cfg, 3.5)
	r.Eval(1)
	if o.leak != "" {
		r.Violation(mode, trial, "leak:idle-probe", fmt.Sprintf("the restricted '*' STREAM subscriber received [%s], a notification of a target its ACL row denies", o.leak), wit(o))
		return
	}
	if o.skip != "" {
		r.Count("idle_probe_not_judged", 1)
		r.Inconclusive("idle-after-denied probe not judged: " + o.skip)
		return
	}
	r.Count("idle_probes_judged_last_item_"+cfg.Kind, 1)
	r.Distinct(vlib.Hash(mode, trial))
	switch {
	case o.ended && o.twinEnded:
		r.Count("idle_probe_both_RPCs_ended_not_attributable", 1)
		r.Inconclusive("idle-after-denied probe: the unrestricted twin's RPC ended as well, so the end is not attributable to the withheld notification")
	case o.ended:
		// Confirm on fresh instances with a longer idle period: a send timeout
		// hit by a slow send under load does not repeat, a wrongly armed timer does.
		again := 0
		for k := 0; k < 2; k++ {
			if o2 := idleScenario(cfg, 6); o2.skip == "" && o2.ended && !o2.twinEnded {
				again++
			}
		}
		if again < 2 {
			r.Count("idle_probe_RPC_end_not_reproduced", 1)
			r.Inconclusive("idle-after-denied probe: the RPC ended once but not on both repetitions (send timeout hit under load)")
			return
		}
		r.Violation(mode, trial, "authorised-subscription-ended:idle-after-denied", fmt.Sprintf("a '*' STREAM subscriber (user denied %s, send timeout %v) whose sender last processed a withheld %s of %s and then had nothing to send for 3.5 send timeouts: its RPC ended on its own with %q, so the next update of authorised target %s was never delivered; the unrestricted twin stayed up; reproduced on 2 of 2 fresh repetitions", cfg.Denied, cfg.Timeout, cfg.Kind, cfg.Denied, fmt.Sprint(o.err), cfg.Allowed), wit(o))
	case !o.delivered:
		r.Violation(mode, trial, "authorised-data-not-delivered:stuck", fmt.Sprintf("after a withheld %s of denied target %s and an idle period, an update of authorised target %s was not delivered within 40 s although the RPC is still up and the system idle", cfg.Kind, cfg.Denied, cfg.Allowed), wit(o))
	default:
		r.Count("idle_probes_held_RPC_alive_and_authorised_update_delivered", 1)
	}
	if r.WantSample() && trial%16 == 5 {
		r.Sample(map[string]interface{}{"mode": "idle", "trial": trial, "config": wit(o), "rpc_ended": o.ended, "authorised_update_delivered_after_idle": o.delivered})
	}
}

func body(r *vlib.Run) {
	r.ForTrials("idle", r.N(40, 640), func(trial int, rng *rand.Rand) {
		runIdleTrial(r, "idle", trial, rng)
	})
	r.ForTrials("acl", r.N(640, 12000), func(trial int, rng *rand.Rand) {
		if r.NViolations() >= 12 {
			return // the tree is broken; more witnesses of the same kind add nothing
		}
		runTrial(r, "acl", trial, rng)
	})
}

func postMerge(tier string, c map[string]int64) []string {
	var out []string
	for _, k := range []string{"snapshot-update", "streamed-update", "delete", "target-removal-delete", "reset-delete"} {
		if c["withheld_from_restricted_sibling_"+k] == 0 {
			out = append(out, "no unrestricted twin received a "+k+" for a target denied to its restricted sibling: that part of the filter was not exercised")
		}
	}
	if c["idle_probes_held_RPC_alive_and_authorised_update_delivered"] == 0 {
		out = append(out, "no idle-after-denied probe ran to a 'held' verdict")
	}
	for _, k := range []string{"denied_single_target_PermissionDenied_target_present_throughout", "denied_single_target_PermissionDenied_target_never_existed", "denied_single_target_PermissionDenied_target_removed_or_being_removed", "authorised_single_target_NotFound_target_absent_per_harness_record", "unauthenticated_rejected_silently", "twin_pairs_equal", "subscriber_logs_converged_to_restricted_cache"} {
		if c[k] == 0 {
			out = append(out, "oracle branch never taken: "+k)
		}
	}
	return out
}

func main() {
	vlib.Main(&vlib.Spec{
		ID:   "C07",
		Rule: "Each trial: real cache + subscribe.Server with a scripted ACL (2-3 table users x 2-4 written targets plus a target R0 that is pre-filled, removed at a seeded moment and never re-added and a target G0 that never exists; random rows over all of them incl. all-deny and all-allow, an all-allow user 'root' for twins, a user whose NewRPCACL fails; every 16th trial on average NewRPCACL fails for everybody), cache pre-filled, one writer per target issuing 30-180 operations: updates (unique values) / leaf and subtree deletes / Reset / Remove + re-Add (after 0-4 or, one time in three, 8-37 operation slots of absence), 3-7 subscriptions (ONCE, POLL with 0-2 interactive triggers, STREAM, STREAM+updates_only; single target - one in four of them R0 or G0 - or '*'; 1-2 wildcard paths) started at seeded moments, an unrestricted twin for every restricted '*' STREAM subscription, and after logical quiescence (C04's sentinel protocol) ONCE/POLL '*' twin pairs per user plus single-target calls (a written target: ONCE/POLL; R0 and G0: any mode) on the unchanging cache; GOMAXPROCS in {2,4,16}; seeded delays and long holds at 7 schedule points. Every response of every stream is judged online against the table; a single-target call by a caller denied that target must end PermissionDenied with zero responses whether the target is present, being removed, removed or never existed. A trial is distinct non-trivial when at least one non-vacuous clause was decided in it (an unrestricted twin received data the restricted sibling had to be denied, or a denied single-target call or an unauthenticated call was judged) and its sequence of schedule points is new. Mode 'idle' (40 / 640 trials): server with a 50-150 ms send timeout, a restricted '*' STREAM subscriber (every third block updates_only) and an unrestricted twin; after both are drained the last item the restricted sender processes is an update / delete / Reset / Remove of a DENIED target (receipt confirmed on the twin), then 3.5 send timeouts of silence, then an update of an authorised target must be delivered on a still-live RPC; an idle trial is distinct non-trivial when the probe ran to a verdict.",
		Assumptions: []string{
			"the ACL is a pure function of (user, target) for the duration of a trial; the user is whatever NewRPCACL reads from the stream context",
			"one writer goroutine per target (the collector's discipline); a writer removes and re-adds only its own target",
			"a single-target call of a caller denied that target must be PermissionDenied with zero responses irrespective of the cache's content (never NotFound: that would disclose which targets exist); for an authorised caller NotFound with zero responses is accepted only when the harness's own record (logical clock at the harness boundary: Remove call .. Add return, never added) says the target was absent or being removed at some moment of the call",
			"completeness is judged (a) under churn: leaves of authorised targets that existed before the call and were never deleted precede the sync; (b) at logical quiescence (sentinel per target rewritten until received; a sentinel of an authorised target not delivered within 40 s on an otherwise idle system is an attributable violation): replay == cache restricted to authorised targets, and == the unrestricted twin's log restricted likewise; (c) on the unchanging cache for ONCE/POLL. updates_only subscribers are owed only leaves whose last write began after their sync_response was sent",
			"leaf and subscription path shapes are C04's, for which 'compatible' (streaming) and 'selected by a query' coincide; per-leaf value order, sync placement and POLL round counts are C04's / C05's clauses and are not asserted here",
			"schedules are explored by perturbation, not enumerated",
			"mode 'idle' uses the wall clock only because the server's send timeout is itself a timer: with nothing being sent a correct server has no armed timer, so a longer idle period (load) can only make a wrongly armed one more certain to fire; an RPC end is reported only if the unrestricted twin stayed up and the end recurs on two fresh repetitions with a longer idle period (a send timeout hit by a slow send under load does neither), otherwise the probe is inconclusive",
		},
		QuickShards: 8, ThoroughShards: 16,
		MinDistinctQuick: 100, MinDistinctThorough: 1000,
		PostMerge: postMerge,
		Body:      body,
	})
}
