// C08 — A stalled subscriber cannot stall the collector or other subscribers.
//
// Fault injection on Send + conservation monitor. Every trial builds a real
// cache and a real subscribe.Server (one server per trial), starts 2-5 STREAM
// subscriptions over in-memory streams whose Send the harness can block
// (vlib.Stream.SendGate), and lets one writer goroutine push K updates over D
// leaves plus deletes into the cache while some subscribers are held inside
// Send. A small model written from the property statement (which leaf exists,
// in which incarnation, how many accepted updates / delete notifications were
// offered to whom) decides:
//
//	(1) the writer completes all its operations while subscribers are blocked,
//	(2) unblocked subscribers receive the final state and the writer's sentinel
//	    while the stalled ones are still blocked,
//	(3) the backlog of a stalled subscriber never exceeds one entry per offered
//	    leaf incarnation plus one per delete notification plus the sync marker,
//	(4) per subscriber and leaf sum(1+duplicates) equals the number of offers,
//	    and what is delivered after release is the newest value,
//	(5) a send blocked for longer than the configured timeout ends the RPC with
//	    the "timed out while sending" error, a merely slow or idle subscriber is
//	    never terminated.
//
// Wall clock is used only for watchdogs and for clause (5), whose assertions are
// one-sided (waits of >= 1000x the configured timeout; an unexpected
// termination is only reported after it was reproduced with the timeout scaled
// x6 and x30).
package main

import (
	"context"
	"fmt"
	"math"
	"math/rand"
	"runtime"
	"sort"
	"strings"
	"sync"
	"sync/atomic"
	"time"

	"github.com/openconfig/gnmi/cache"
	pb "github.com/openconfig/gnmi/proto/gnmi"
	"github.com/openconfig/gnmi/subscribe"
	"github.com/openconfig/gnmi/verifhook"

	"verif/internal/gen"
	"verif/internal/model"
	"verif/internal/vlib"
)

const target = "T"

const (
	pNever = iota
	pOne
	pUntilDone
	pPermanent
)

var patName = []string{"never", "one-message", "until-writer-done", "permanent"}

const (
	// Grace before an execution that shows no progress at all is looked at as
	// stuck (normal latencies are microseconds).
	stuckGrace = 20 * time.Second
	// Below this a default (one minute) send timeout cannot legitimately fire.
	defaultTimeoutGuard = 30 * time.Second
	timeoutText         = "timed out while sending"
)

// ---- model -----------------------------------------------------------------

type leaf struct {
	atomic       bool // an atomic container: ONE leaf stored at its prefix, updated by Atomic notifications
	path         []string
	key          string
	exists       bool
	inc          int           // current / last incarnation, 0 = never existed
	lastVal      map[int]int64 // incarnation -> last value written to it
	written      map[int64]int // value -> incarnation it was written to
	prefInc      int           // incarnation alive when the initial subscribers registered (0: none)
	streamOffers int           // accepted updates after the initial subscribers registered
	streamIncs   map[int]bool  // incarnations updated after registration
	delNotis     int           // delete notifications (one per removed leaf) after registration
	updTicks     [][2]int64    // mode joinrace: logical (call, return) ticks of every writer-phase update
}

func newLeaf(p []string) *leaf {
	return &leaf{path: p, key: model.Key(p), lastVal: map[int]int64{}, written: map[int64]int{}, streamIncs: map[int]bool{}}
}

const (
	kUpd = iota
	kMulti
	kDel
	kAtomic // Atomic notification for a container prefix (leaves[0]), nmem member updates
)

type wop struct {
	kind   int
	leaves []int    // kUpd: one leaf, kMulti: several distinct leaves
	del    []string // kDel: path (a leaf or a branch)
	nmem   int      // kAtomic: number of member updates
	split  bool     // kUpd: first element carried in the prefix
	yield  bool
}

// ---- subscribers -----------------------------------------------------------

type sub struct {
	slow        bool // timeout mode: a peer that takes a quarter of the send timeout to accept each of its first responses (never one timeout)
	idx         int
	paths       [][]string
	updatesOnly bool
	late        bool
	joiner      bool // mode joinrace: subscribes while the writer is running
	startAtOp   int  // joiner: writer step at which Subscribe is called
	launched    int32
	cancelled   bool  // the harness cancelled its context while it was stalled
	joinState   int32 // perturbation only: 1 registered, 2 walk reached its first insert
	callTick    int64 // joiner: logical tick just before Subscribe was called
	enteredTick int64 // joiner: logical tick when its sender reached the gate (registration is over by then)
	pattern     int
	gateAt      int // response index held inside Send
	releaseAt   int // pOne: writer progress at which the gate opens
	req         *pb.SubscribeRequest
	stream      *vlib.Stream
	statKey     string

	open        chan struct{}
	openOnce    sync.Once
	released    int32
	entered     chan struct{}
	gatedOnSync bool
	walkEnd     int32
	walkUnsure  bool

	syncSeen int32
	sentSeen [2][2]int64 // value of sentinel leaf [generation][branch] last delivered

	mu sync.Mutex
	qs []int64 // queue size reported for this subscriber when response i was dequeued (-1: not attributable)

	callAt time.Time
	err    error
	done   chan struct{}
}

func (s *sub) release() {
	s.openOnce.Do(func() {
		atomic.StoreInt32(&s.released, 1)
		close(s.open)
	})
}

func (s *sub) hasEntered() bool {
	select {
	case <-s.entered:
		return true
	default:
		return false
	}
}

func (s *sub) isDone() bool {
	select {
	case <-s.done:
		return true
	default:
		return false
	}
}

// blocked: the sender of this subscription is parked in the harness's gate.
func (s *sub) blocked() bool { return s.hasEntered() && atomic.LoadInt32(&s.released) == 0 }

func (s *sub) covers(p []string) bool {
	for _, q := range s.paths {
		if model.Compat(q, p) {
			return true
		}
	}
	return false
}

func (s *sub) walkHits(p []string) int {
	if s.updatesOnly {
		return 0
	}
	n := 0
	for _, q := range s.paths {
		if model.MatchQ(q, p) {
			n++
		}
	}
	return n
}

func (s *sub) describe() map[string]interface{} {
	m := map[string]interface{}{"idx": s.idx, "paths": s.paths, "updates_only": s.updatesOnly, "late": s.late, "stall": patName[s.pattern], "gate_at_response": s.gateAt, "release_at_writer_op": s.releaseAt}
	if s.joiner {
		m["subscribes_at_writer_op"] = s.startAtOp
	}
	return m
}

// ---- trial -----------------------------------------------------------------

type trial struct {
	r        *vlib.Run
	mode     string
	num      int
	scale    int
	peerDups bool

	procs   int
	D, K    int
	timeout time.Duration // 0: server default (one minute)
	leaves  []*leaf
	byKey   map[string]*leaf
	sent    [2][2]*leaf // [generation][branch]
	ops     []wop
	subs    []*sub
	byReqMu sync.RWMutex
	byReq   map[*pb.SubscribeRequest]*sub
	maxSlp  time.Duration
	prefill []bool
	// stall mode: cancel the context of the permanently stalled subscribers at
	// the end (their peer goes away) and look at the survivors.
	cancelStalled bool

	c   *cache.Cache
	srv *subscribe.Server

	streamPhase bool
	ts, ctr     int64
	progress    int64
	writerDone  chan struct{}
	writeErr    string
	panicked    string

	lastGen int // generation of the last sentinels written

	atomicWritten int64

	tick        int64    // logical clock (mode joinrace)
	activeWalks int32    // joiners between subscribe.walk.begin and subscribe.walk.end
	pendingRegs int32    // joiners registered whose walk has not reached its first insert
	walkers     sync.Map // goroutine id -> joiner whose walk runs on it
	spin        uint32
	rdvMu       sync.Mutex
	rdvWaiting  map[interface{}]*int32
	rdvMet      int64

	cbCalls, cbMaxQ, cbDupSum int64
	start                     time.Time
}

type suspicion struct {
	sig, what string
	witness   interface{}
	sub       int // the subscriber the suspicion is about (-1: none in particular)
}

var branches = []string{"a", "b"}

var pathPool = [][]string{{}, {"*"}, {"a"}, {"b"}, {"a", "*"}, {"b", "*"}, {"*", "*"}}

var twoPathPool = [][][]string{{{"a"}, {"*"}}, {{}, {"a", "*"}}, {{"*"}, {"*", "*"}}, {{"b"}, {}}, {{"a"}, {"b"}, {"*"}}}

// Once a process has paid for one attributable stuck execution (tens of
// seconds or minutes of waiting) the remaining trials of that mode are skipped:
// the run has failed already and a mutant run must stay bounded.
var skipMode = map[string]bool{}

func logUniform(rng *rand.Rand, lo, hi int) int {
	n := int(float64(lo) * math.Pow(float64(hi)/float64(lo), rng.Float64()))
	if n > hi {
		n = hi
	}
	if n < lo {
		n = lo
	}
	return n
}

func newTrial(r *vlib.Run, mode string, num int, rng *rand.Rand, scale int) *trial {
	t := &trial{r: r, mode: mode, num: num, scale: scale, byKey: map[string]*leaf{}, byReq: map[*pb.SubscribeRequest]*sub{}, writerDone: make(chan struct{})}
	t.procs = []int{2, 4, 16}[rng.Intn(3)]
	t.D = []int{1, 1, 2, 2, 3, 4, 5, 6, 8, 10, 13, 16, 20, 25, 32, 40, 50}[rng.Intn(17)]
	switch mode {
	case "stall":
		t.K = logUniform(rng, 10, 2000)
	case "joinrace":
		// Updates hammer a few EXISTING leaves while subscriptions start.
		t.K = logUniform(rng, 200, 2000)
		t.D = []int{1, 1, 2, 2, 3}[rng.Intn(5)]
		t.procs = []int{4, 16}[rng.Intn(2)]
	case "idlesync":
		t.K = logUniform(rng, 10, 100)
	default:
		t.K = logUniform(rng, 10, 400)
	}
	switch mode {
	case "timeout", "idlesync":
		t.timeout = time.Duration([]int{50, 100, 200}[rng.Intn(3)]*scale) * time.Millisecond
	case "syncstall":
		t.timeout = time.Duration(20*scale) * time.Millisecond
	}
	t.maxSlp = time.Duration([]int{0, 0, 20, 100}[rng.Intn(4)]) * time.Microsecond
	t.peerDups = rng.Intn(4) == 0

	// Leaves: fixed depth 2, leaf 0 under "a".
	for i := 0; i < t.D; i++ {
		b := branches[rng.Intn(2)]
		if i == 0 {
			b = "a"
		}
		l := newLeaf([]string{b, fmt.Sprintf("l%d", i)})
		t.leaves = append(t.leaves, l)
		t.byKey[l.key] = l
	}
	// Atomic containers: each is one leaf at depth 2 (prefix <branch>/c<i>), its
	// members live below it. They follow the D scalar leaves in t.leaves.
	nC := rng.Intn(3)
	if mode == "stall" {
		nC = 1 + rng.Intn(3)
	}
	altScalar := rng.Intn(3) == 0 // sometimes a scalar is written at a container's own path
	for i := 0; i < nC; i++ {
		l := newLeaf([]string{branches[rng.Intn(2)], fmt.Sprintf("c%d", i)})
		l.atomic = true
		t.leaves = append(t.leaves, l)
		t.byKey[l.key] = l
	}
	for g := 0; g < 2; g++ {
		for bi, b := range branches {
			l := newLeaf([]string{b, []string{"zz", "zz2"}[g]})
			t.sent[g][bi] = l
			t.byKey[l.key] = l
		}
	}

	// Writer operations: K single updates (some grouped into multi-update
	// notifications) and nDel deletes at random positions.
	hot := (t.D + 3) / 4
	pick := func() int {
		if rng.Intn(2) == 0 {
			return rng.Intn(hot)
		}
		return rng.Intn(t.D)
	}
	nDel := 0
	if rng.Intn(4) != 0 && mode != "joinrace" {
		nDel = 1 + rng.Intn(1+min(t.D, 6))
		if nDel > t.K/4 {
			nDel = t.K / 4
		}
	}
	for done := 0; done < t.K; {
		op := wop{kind: kUpd, yield: rng.Intn(16) == 0}
		if nC > 0 && rng.Intn(3) == 0 {
			// Repeated updates of a container (the first one is the hot one).
			ci := 0
			if rng.Intn(2) == 0 {
				ci = rng.Intn(nC)
			}
			op.leaves = []int{t.D + ci}
			if altScalar && rng.Intn(4) == 0 {
				op.split = rng.Intn(4) == 0 // a scalar replacing the group in place
			} else {
				op.kind, op.nmem = kAtomic, 2+rng.Intn(3)
			}
			done++
			t.ops = append(t.ops, op)
			continue
		}
		if t.D >= 3 && t.K-done >= 3 && rng.Intn(12) == 0 {
			op.kind = kMulti
			seen := map[int]bool{}
			for len(op.leaves) < 2+rng.Intn(2) {
				if li := pick(); !seen[li] {
					seen[li] = true
					op.leaves = append(op.leaves, li)
				}
			}
		} else {
			op.leaves = []int{pick()}
			op.split = rng.Intn(4) == 0
		}
		done += len(op.leaves)
		t.ops = append(t.ops, op)
	}
	for i := 0; i < nDel; i++ {
		op := wop{kind: kDel}
		if rng.Intn(6) == 0 {
			op.del = []string{branches[rng.Intn(2)]}
		} else if nC > 0 && rng.Intn(3) == 0 {
			op.del = t.leaves[t.D+rng.Intn(nC)].path
		} else {
			op.del = t.leaves[pick()].path
		}
		at := rng.Intn(len(t.ops) + 1)
		t.ops = append(t.ops, wop{})
		copy(t.ops[at+1:], t.ops[at:])
		t.ops[at] = op
	}

	// Subscribers.
	nSubs := 2 + rng.Intn(4)
	if mode == "joinrace" {
		nSubs = 2
	}
	var covering [][]string
	for _, p := range pathPool {
		if model.Compat(p, t.leaves[0].path) {
			covering = append(covering, p)
		}
	}
	prefilled := make([]bool, len(t.leaves))
	for i := range prefilled {
		prefilled[i] = rng.Intn(10) < 6 || mode == "joinrace"
	}
	for i := 0; i < nSubs; i++ {
		s := &sub{idx: i, open: make(chan struct{}), entered: make(chan struct{}), done: make(chan struct{}), pattern: pNever}
		switch {
		case i == 0:
			s.paths = [][]string{covering[rng.Intn(len(covering))]}
		case i == 1:
			s.paths = t.subs[0].paths // "S2 (same paths)"
		case rng.Intn(5) == 0:
			s.paths = twoPathPool[rng.Intn(len(twoPathPool))]
			s.updatesOnly = true // several overlapping paths: no walk, so that offers stay exact
		default:
			s.paths = [][]string{pathPool[rng.Intn(len(pathPool))]}
		}
		if len(s.paths) == 1 && rng.Intn(5) == 0 {
			s.updatesOnly = true
		}
		// Stall pattern.
		switch mode {
		case "stall":
			switch {
			case i == 0:
				s.pattern = []int{pUntilDone, pUntilDone, pUntilDone, pPermanent, pOne}[rng.Intn(5)]
			case i == 1:
				s.pattern = pNever
			default:
				s.pattern = []int{pNever, pNever, pOne, pUntilDone, pUntilDone, pPermanent}[rng.Intn(6)]
			}
		case "timeout", "syncstall":
			switch {
			case i == 0:
				s.pattern = pPermanent
			case i == 1:
				s.pattern = pNever
			default:
				s.pattern = []int{pNever, pNever, pPermanent}[rng.Intn(3)]
			}
			// A merely slow peer: each of its first 48 sends takes a sixteenth of the
			// send timeout, three timeouts in all. No single send stays blocked for
			// anything near the timeout (a sleep would have to overshoot sixteenfold),
			// so the subscription must not be ended (a termination is confirmed at x6
			// and x30, for the same subscriber, like any other suspicion).
			if mode == "timeout" && s.pattern == pNever && rng.Intn(2) == 0 {
				s.slow = true
			}
		}
		// Which response is held: relative to the predicted position of the
		// sync_response (after the walk hits; first for updates_only).
		w := 0
		for li, l := range t.leaves {
			if prefilled[li] {
				w += s.walkHits(l.path)
			}
		}
		syncIdx := w
		if s.updatesOnly {
			syncIdx = 0
		}
		switch rng.Intn(6) {
		case 0:
			s.gateAt = 0
		case 1:
			s.gateAt = 1
		case 2:
			s.gateAt = syncIdx
		case 3:
			s.gateAt = syncIdx + 1
		case 4:
			s.gateAt = syncIdx + 1 + rng.Intn(3)
		default:
			s.gateAt = rng.Intn(syncIdx + 2)
		}
		if mode == "timeout" && s.gateAt == syncIdx {
			s.gateAt++ // the sync_response itself is the subject of mode syncstall
		}
		if mode == "syncstall" && s.pattern == pPermanent {
			s.gateAt = syncIdx
		}
		s.releaseAt = 1 + rng.Intn(len(t.ops))
		t.subs = append(t.subs, s)
	}
	if mode == "joinrace" {
		// Joiners: plain subscriptions started while the writer runs, held from
		// their very first response until the writer is done.
		for i, nj := 0, 3+rng.Intn(4); i < nj; i++ {
			s := &sub{idx: len(t.subs), open: make(chan struct{}), entered: make(chan struct{}), done: make(chan struct{}), pattern: pUntilDone, joiner: true}
			s.paths = [][]string{covering[rng.Intn(len(covering))]}
			s.startAtOp = rng.Intn(len(t.ops)*9/10 + 1)
			t.subs = append(t.subs, s)
		}
	}
	// Prefill decided above (so that gate positions could be predicted); carried out in run().
	t.prefill = prefilled
	t.cancelStalled = rng.Intn(2) == 0
	return t
}

func (t *trial) config() map[string]interface{} {
	var subs []interface{}
	for _, s := range t.subs {
		subs = append(subs, s.describe())
	}
	nd := 0
	for _, o := range t.ops {
		if o.kind == kDel {
			nd++
		}
	}
	to := "default (1m)"
	if t.timeout > 0 {
		to = t.timeout.String()
	}
	return map[string]interface{}{"mode": t.mode, "trial": t.num, "gomaxprocs": t.procs, "leaves_D": t.D, "atomic_containers": len(t.leaves) - t.D, "updates_K": t.K, "writer_notifications": len(t.ops), "delete_ops": nd, "send_timeout": to, "timeout_scale": t.scale, "dequeue_max_sleep": t.maxSlp.String(), "subscribers": subs}
}

// ---- writes ----------------------------------------------------------------

func (t *trial) now() int64 { return atomic.AddInt64(&t.tick, 1) }

func (t *trial) noteTicks(l *leaf, call, ret int64) {
	if t.mode == "joinrace" && t.streamPhase {
		l.updTicks = append(l.updTicks, [2]int64{call, ret})
	}
}

func (t *trial) noteUpdate(l *leaf, v int64) {
	if !l.exists {
		l.exists = true
		l.inc++
	}
	l.lastVal[l.inc] = v
	l.written[v] = l.inc
	if t.streamPhase {
		l.streamOffers++
		l.streamIncs[l.inc] = true
	}
}

func (t *trial) noteDelete(q []string) {
	for _, l := range t.byKey {
		if l.exists && model.MatchQ(q, l.path) {
			l.exists = false
			if t.streamPhase {
				l.delNotis++
			}
		}
	}
}

func (t *trial) gnmi(n *pb.Notification) {
	defer func() {
		if p := recover(); p != nil {
			t.panicked = fmt.Sprintf("%v", p)
		}
	}()
	if err := t.c.GnmiUpdate(n); err != nil && t.writeErr == "" {
		t.writeErr = err.Error()
	}
}

func (t *trial) updateLeaf(l *leaf, split bool) {
	t.ts++
	t.ctr++
	var n *pb.Notification
	if split {
		n = gen.Update(target, "", t.ts, gen.Path(false, l.path[:1]...), gen.Path(false, l.path[1:]...), gen.I(t.ctr))
	} else {
		n = gen.Update(target, "", t.ts, nil, gen.Path(false, l.path...), gen.I(t.ctr))
	}
	if t.peerDups {
		n.Update[0].Duplicates = peerDup
		t.r.Count("updates_written_with_a_peer_set_duplicates_value", 1)
	}
	call := t.now()
	t.gnmi(n)
	t.noteTicks(l, call, t.now())
	t.noteUpdate(l, t.ctr)
}

// atomicUpdate replaces the whole group of container l: one Atomic notification
// with m member updates carrying consecutive unique values; the first one
// identifies the version.
func (t *trial) atomicUpdate(l *leaf, m int) {
	t.ts++
	n := &pb.Notification{Timestamp: t.ts, Atomic: true, Prefix: &pb.Path{Target: target, Elem: gen.Elems(l.path...)}}
	first := t.ctr + 1
	for j := 0; j < m; j++ {
		t.ctr++
		n.Update = append(n.Update, &pb.Update{Path: gen.Path(false, fmt.Sprintf("m%d", j)), Val: gen.I(t.ctr)})
	}
	call := t.now()
	t.gnmi(n)
	t.noteTicks(l, call, t.now())
	t.noteUpdate(l, first)
	if t.streamPhase {
		t.atomicWritten++
	}
}

func (t *trial) write(op wop) {
	switch op.kind {
	case kAtomic:
		t.atomicUpdate(t.leaves[op.leaves[0]], op.nmem)
	case kUpd:
		t.updateLeaf(t.leaves[op.leaves[0]], op.split)
	case kMulti:
		t.ts++
		n := &pb.Notification{Timestamp: t.ts, Prefix: &pb.Path{Target: target}}
		var vals []int64
		for _, li := range op.leaves {
			t.ctr++
			vals = append(vals, t.ctr)
			n.Update = append(n.Update, &pb.Update{Path: gen.Path(false, t.leaves[li].path...), Val: gen.I(t.ctr)})
		}
		call := t.now()
		t.gnmi(n)
		ret := t.now()
		for i, li := range op.leaves {
			t.noteTicks(t.leaves[li], call, ret)
			t.noteUpdate(t.leaves[li], vals[i])
		}
	case kDel:
		t.ts++
		t.gnmi(gen.Delete(target, "", t.ts, nil, gen.Path(false, op.del...)))
		t.noteDelete(op.del)
	}
}

// writerLoop is the collector side: its name is looked for in goroutine dumps.
func (t *trial) writerLoop() {
	defer close(t.writerDone)
	for i, op := range t.ops {
		for _, s := range t.subs {
			if s.joiner && s.startAtOp == i {
				t.launch(s)
			}
		}
		t.write(op)
		atomic.AddInt64(&t.progress, 1)
		for _, s := range t.subs {
			if s.pattern == pOne && s.releaseAt == i+1 {
				s.release()
			}
		}
		if op.yield {
			runtime.Gosched()
		}
	}
	for _, s := range t.subs {
		if s.pattern == pOne {
			s.release()
		}
		if s.joiner && atomic.LoadInt32(&s.launched) == 0 {
			t.launch(s)
		}
	}
	t.writeSentinels(0)
}

func (t *trial) writeSentinels(g int) {
	for bi := range branches {
		t.updateLeaf(t.sent[g][bi], false)
		atomic.AddInt64(&t.progress, 1)
	}
}

// ---- observation helpers ---------------------------------------------------

// peerDup: in a quarter of the trials every scalar update the writer sends
// already carries this value in its (peer-settable) duplicates field. A
// response into which nothing was coalesced hands it on as it is (tolerated:
// the statement speaks about subscribers that resume after a stall); a response
// into which c updates were coalesced must say c, not c plus the peer's value.
const peerDup = 1 << 20

type rmsg struct {
	peerAdded bool // duplicates = the peer's value plus something
	sync      bool
	key       string
	del       bool
	val       int64
	dup       uint32
	ok        bool

	atomic bool
}

func parse(m *pb.SubscribeResponse) rmsg {
	if m.GetSyncResponse() {
		return rmsg{sync: true, ok: true}
	}
	n := m.GetUpdate()
	if n != nil && n.Atomic && len(n.Update) >= 1 && len(n.Delete) == 0 {
		// An atomic group is one leaf at its prefix; the first member identifies
		// the version and carries the duplicate count.
		u := n.Update[0]
		return rmsg{key: model.Key(model.IndexPath(n.GetPrefix())), val: u.GetVal().GetIntVal(), dup: u.GetDuplicates(), atomic: true, ok: true}
	}
	if n == nil || len(n.Update)+len(n.Delete) != 1 {
		return rmsg{}
	}
	pre := model.IndexPath(n.GetPrefix())
	if len(n.Update) == 1 {
		u := n.Update[0]
		dup, added := u.GetDuplicates(), false
		switch {
		case dup == peerDup:
			dup = 0 // handed on uncoalesced
		case dup > peerDup:
			dup, added = dup-peerDup, true
		}
		return rmsg{key: model.Key(append(append([]string{}, pre...), model.IndexPath(u.GetPath())...)), val: u.GetVal().GetIntVal(), dup: dup, peerAdded: added, ok: true}
	}
	return rmsg{key: model.Key(append(append([]string{}, pre...), model.IndexPath(n.Delete[0])...)), del: true, ok: true}
}

func (t *trial) hasSentinel(s *sub, g int) bool {
	// The last-written sentinel the subscriber covers, with the value written.
	for bi := len(branches) - 1; bi >= 0; bi-- {
		if l := t.sent[g][bi]; s.covers(l.path) {
			return atomic.LoadInt64(&s.sentSeen[g][bi]) == l.lastVal[l.inc]
		}
	}
	return true
}

func hasSync(s *sub) bool { return atomic.LoadInt32(&s.syncSeen) == 1 }

// observable: a number that changes whenever anything observable happens.
func (t *trial) observable() int64 {
	n := atomic.LoadInt64(&t.progress) + atomic.LoadInt64(&t.cbCalls)
	for _, s := range t.subs {
		n += int64(s.stream.NSent())
		if s.isDone() {
			n += 1 << 20
		}
	}
	return n
}

// waitCond waits until cond holds; it gives up only after nothing observable
// changed for the whole grace period.
func (t *trial) waitCond(grace time.Duration, cond func() bool) bool {
	last, lastAt := t.observable(), time.Now()
	for i := 0; ; i++ {
		if cond() {
			return true
		}
		if o := t.observable(); o != last {
			last, lastAt = o, time.Now()
		} else if time.Since(lastAt) > grace {
			return cond()
		}
		if i < 20 {
			runtime.Gosched()
		} else {
			time.Sleep(200 * time.Microsecond)
		}
	}
}

func goroutineDump() string {
	buf := make([]byte, 1<<20)
	for {
		n := runtime.Stack(buf, true)
		if n < len(buf) {
			return string(buf[:n])
		}
		buf = make([]byte, 2*len(buf))
	}
}

func findBlocks(dump, marker string) []string {
	var out []string
	for _, b := range strings.Split(dump, "\n\n") {
		if strings.Contains(b, marker) {
			out = append(out, b)
		}
	}
	return out
}

func clip(s string, n int) string {
	if len(s) > n {
		return s[:n] + "…"
	}
	return s
}

// parkedIn reports whether the goroutine block is blocked (not runnable) and,
// if so, in which package of the code under test its innermost repo frame lies.
func parkedIn(block string) (pkg string, parked bool) {
	head := block
	if i := strings.Index(block, "\n"); i > 0 {
		head = block[:i]
	}
	if strings.Contains(head, "[running") || strings.Contains(head, "[runnable") {
		return "", false
	}
	for _, line := range strings.Split(block, "\n") {
		if strings.HasPrefix(line, "github.com/openconfig/gnmi/") {
			rest := strings.TrimPrefix(line, "github.com/openconfig/gnmi/")
			if i := strings.IndexAny(rest, ".("); i > 0 {
				return rest[:i], true
			}
		}
	}
	return "", true
}

// gid returns the id of the calling goroutine (used only to tell a joiner's
// walk goroutine from the other producers when perturbing the schedule).
func gid() uint64 {
	var b [64]byte
	n := runtime.Stack(b[:], false)
	var id uint64
	for _, c := range b[len("goroutine "):n] {
		if c < '0' || c > '9' {
			break
		}
		id = id*10 + uint64(c-'0')
	}
	return id
}

func (t *trial) walkerArrived(s *sub) {
	if atomic.CompareAndSwapInt32(&s.joinState, 1, 2) {
		atomic.AddInt32(&t.pendingRegs, -1)
	}
}

// lineUp is the perturbation of mode joinrace at coalesce.insert.checked: the
// walk goroutine of a joiner waits (spinning, at most ~300 us) at each of its
// inserts until another producer is about to insert into the same queue; the
// two then go on at the same instant. Other producers never wait.
func (t *trial) lineUp(q interface{}) {
	if v, ok := t.walkers.Load(gid()); ok {
		t.walkerArrived(v.(*sub))
		var flag int32
		t.rdvMu.Lock()
		if t.rdvWaiting == nil {
			t.rdvWaiting = map[interface{}]*int32{}
		}
		t.rdvWaiting[q] = &flag
		t.rdvMu.Unlock()
		deadline := time.Now().Add(300 * time.Microsecond)
		for n := 0; atomic.LoadInt32(&flag) == 0; n++ {
			if n%64 == 63 && time.Now().After(deadline) {
				t.rdvMu.Lock()
				if t.rdvWaiting[q] == &flag {
					delete(t.rdvWaiting, q)
				}
				t.rdvMu.Unlock()
				return
			}
		}
		return
	}
	t.rdvMu.Lock()
	f := t.rdvWaiting[q]
	if f != nil {
		delete(t.rdvWaiting, q)
	}
	t.rdvMu.Unlock()
	if f == nil {
		return
	}
	atomic.StoreInt32(f, 1)
	atomic.AddInt64(&t.rdvMet, 1)
	// The waiter needs a few dozen nanoseconds to notice: vary the head start.
	for n := atomic.AddUint32(&t.spin, 0x9E3779B9) >> 23; n > 0; n-- {
		atomic.LoadInt32(f)
	}
}

// ---- the run ---------------------------------------------------------------

func (t *trial) startSub(s *sub) {
	t.prep(s)
	t.launch(s)
}

// prep builds the request and the stream of a subscription; launch calls Subscribe.
func (t *trial) prep(s *sub) {
	sl := &pb.SubscriptionList{Prefix: &pb.Path{Target: target}, Mode: pb.SubscriptionList_STREAM, UpdatesOnly: s.updatesOnly}
	for _, p := range s.paths {
		sl.Subscription = append(sl.Subscription, &pb.Subscription{Path: gen.Path(false, p...)})
	}
	s.req = &pb.SubscribeRequest{Request: &pb.SubscribeRequest_Subscribe{Subscribe: sl}}
	s.statKey = fmt.Sprintf(":%p", s.req)
	s.stream = vlib.NewStream(context.Background(), "u")
	s.stream.SendGate = func(i int, m *pb.SubscribeResponse) error {
		// Runs on the subscription's sender goroutine right after its dequeue:
		// the queue size stored under this subscription's own statistics key is
		// the one of the dequeue that produced response i.
		q := int64(-1)
		for k, st := range t.srv.ClientStats() {
			if strings.HasSuffix(k, s.statKey) {
				q = st.QueueSize
			}
		}
		s.mu.Lock()
		for len(s.qs) <= i {
			s.qs = append(s.qs, -1)
		}
		s.qs[i] = q
		s.mu.Unlock()
		if s.slow && i < 48 {
			t.r.Count("slow_peer_sends_delayed_by_a_sixteenth_timeout", 1)
			time.Sleep(t.timeout / 16)
		}
		if s.pattern != pNever && i == s.gateAt && atomic.LoadInt32(&s.released) == 0 {
			s.gatedOnSync = m.GetSyncResponse()
			s.enteredTick = t.now()
			close(s.entered)
			<-s.open
		}
		return nil
	}
	s.stream.OnSend = func(_ int, m *pb.SubscribeResponse) {
		if m.GetSyncResponse() {
			atomic.StoreInt32(&s.syncSeen, 1)
			return
		}
		if pm := parse(m); pm.ok && !pm.del {
			for g := 0; g < 2; g++ {
				for bi := range branches {
					if t.sent[g][bi].key == pm.key {
						atomic.StoreInt64(&s.sentSeen[g][bi], pm.val)
					}
				}
			}
		}
	}
	s.stream.Push(s.req)
	t.byReqMu.Lock()
	t.byReq[s.req] = s
	t.byReqMu.Unlock()
}

func (t *trial) launch(s *sub) {
	s.callAt = time.Now()
	s.callTick = t.now()
	atomic.StoreInt32(&s.launched, 1)
	go func() {
		defer close(s.done)
		defer func() {
			if p := recover(); p != nil {
				s.err = fmt.Errorf("panic in Subscribe: %v", p)
				t.panicked = fmt.Sprintf("Subscribe: %v", p)
			}
		}()
		s.err = t.srv.Subscribe(s.stream)
	}()
}

func (t *trial) teardown() {
	for _, s := range t.subs {
		if s.stream == nil {
			continue
		}
		s.stream.Cancel()
		s.release()
	}
	for _, s := range t.subs {
		if s.stream == nil {
			continue
		}
		if atomic.LoadInt32(&s.launched) == 0 {
			continue
		}
		select {
		case <-s.done:
		case <-time.After(30 * time.Second):
			t.r.Inconclusive("Subscribe did not return within 30 s after its context was cancelled")
		}
	}
}

func (t *trial) stalledNow() []int {
	var out []int
	for _, s := range t.subs {
		if s.blocked() && !s.isDone() {
			out = append(out, s.idx)
		}
	}
	return out
}

func (t *trial) viol(sig, what string, extra map[string]interface{}) {
	w := t.config()
	for k, v := range extra {
		w[k] = v
	}
	t.r.Violation(t.mode, t.num, sig, fmt.Sprintf("[%s trial %d: D=%d K=%d, %d subscribers] %s", t.mode, t.num, t.D, t.K, len(t.subs), what), w)
}

// run drives one trial. It returns a suspicion when a subscriber was terminated
// by the send timeout without the harness having blocked it for that long (to
// be confirmed by the caller at larger timeouts), and whether the trial was
// judged completely.
func (t *trial) run() (sus *suspicion, judged bool) {
	r := t.r
	defer runtime.GOMAXPROCS(runtime.GOMAXPROCS(t.procs))
	r.SaveCurrent(t.config())
	t.start = time.Now()
	r.Eval(1)
	r.Count("trials_"+t.mode, 1)

	t.c = cache.New([]string{target})
	opts := []subscribe.Option{subscribe.WithStats(), subscribe.WithClientStatsTest(func(dup, q int64) {
		atomic.AddInt64(&t.cbCalls, 1)
		atomic.AddInt64(&t.cbDupSum, dup)
		for {
			m := atomic.LoadInt64(&t.cbMaxQ)
			if q <= m || atomic.CompareAndSwapInt64(&t.cbMaxQ, m, q) {
				break
			}
		}
	})}
	if t.timeout > 0 {
		opts = append(opts, subscribe.WithTimeout(t.timeout))
	}
	t.srv, _ = subscribe.NewServer(t.c, opts...)
	t.c.SetClient(t.srv.Update)

	// Prefill (nobody is subscribed yet).
	for li, p := range t.prefill {
		switch {
		case !p:
		case t.leaves[li].atomic:
			t.atomicUpdate(t.leaves[li], 2)
		default:
			t.updateLeaf(t.leaves[li], false)
		}
	}

	// Hooks: walk.end is observed (to know the snapshot walk is over), the
	// dequeue point gets seeded delays. Nothing below depends on a hook.
	pert := vlib.NewPerturb(vlib.Mix(r.Seed, int64(t.num), 8))
	pert.MaxSleep = t.maxSlp
	pert.Only = func(name string, _ interface{}) bool { return name == "subscribe.dequeue" }
	pert.OnPoint = func(name string, key interface{}) {
		switch name {
		case "subscribe.registered", "subscribe.walk.begin", "subscribe.walk.end":
			sr, ok := key.(*pb.SubscribeRequest)
			if !ok {
				return
			}
			t.byReqMu.RLock()
			s := t.byReq[sr]
			t.byReqMu.RUnlock()
			if s == nil {
				return
			}
			if name == "subscribe.walk.end" {
				atomic.StoreInt32(&s.walkEnd, 1)
			}
			if !s.joiner {
				return
			}
			// Perturbation for mode joinrace only (see lineUp).
			switch name {
			case "subscribe.registered":
				atomic.StoreInt32(&s.joinState, 1)
				atomic.AddInt32(&t.pendingRegs, 1)
			case "subscribe.walk.begin":
				t.walkers.Store(gid(), s)
				atomic.AddInt32(&t.activeWalks, 1)
			case "subscribe.walk.end":
				t.walkers.Delete(gid())
				atomic.AddInt32(&t.activeWalks, -1)
				t.walkerArrived(s)
			}
		case "cache.update.written":
			// A joiner has just registered: hold the feed of this update for a
			// moment so that the joiner's walk reaches its first insert.
			if t.mode == "joinrace" && atomic.LoadInt32(&t.pendingRegs) > 0 {
				deadline := time.Now().Add(300 * time.Microsecond)
				for n := 0; atomic.LoadInt32(&t.pendingRegs) > 0; n++ {
					if n%64 == 63 && time.Now().After(deadline) {
						break
					}
				}
			}
		case "coalesce.insert.checked":
			if t.mode == "joinrace" && atomic.LoadInt32(&t.activeWalks) > 0 {
				t.lineUp(key)
			}
		}
	}
	verifhook.Set(pert.Handle)
	defer verifhook.Set(nil)
	defer t.teardown()

	for _, s := range t.subs {
		t.prep(s)
		if s.joiner {
			r.Count("subscribers_joining_while_the_writer_runs", 1)
			continue // launched by the writer
		}
		t.launch(s)
		r.Count("subscribers_stall_"+patName[s.pattern], 1)
	}

	// Settle: every subscription is registered and its snapshot walk is over:
	// it either delivered its sync_response or is parked in its gate.
	for _, s := range t.subs {
		s := s
		if s.joiner {
			continue
		}
		enteredAt := time.Time{}
		ok := t.waitCond(stuckGrace, func() bool {
			if s.isDone() || hasSync(s) {
				return true
			}
			if !s.hasEntered() {
				return false
			}
			if s.updatesOnly || atomic.LoadInt32(&s.walkEnd) == 1 {
				return true
			}
			if enteredAt.IsZero() {
				enteredAt = time.Now()
			}
			if time.Since(enteredAt) > 5*time.Second {
				s.walkUnsure = true // hook not reached: tolerate +-1 walk offer on leaves whose existence changes
				return true
			}
			return false
		})
		if !ok {
			if st := t.stalledNow(); len(st) > 0 && !s.blocked() {
				blocks := findBlocks(goroutineDump(), "subscribe.(*Server).")
				t.viol("other-subscriber-starved", fmt.Sprintf("subscriber %d is not held by the harness but did not receive its snapshot and sync_response for %v with nothing else happening, while subscriber(s) %v are blocked in Send", s.idx, stuckGrace, st),
					map[string]interface{}{"subscribe_goroutines": clip(strings.Join(blocks, "\n\n"), 4000), "responses_received": s.stream.NSent()})
				skipMode[t.mode] = true
			} else {
				r.Inconclusive("a subscription neither delivered its sync_response nor reached its gate within the grace period")
			}
			return nil, false
		}
		if s.walkUnsure {
			r.Count("walk_end_not_observed", 1)
		}
	}
	for _, l := range t.byKey {
		if l.exists {
			l.prefInc = l.inc
		}
	}
	if t.mode == "idlesync" {
		// Clause (5c'), idle period starting right after the sync_response: nothing
		// at all has been sent since, nothing is written for 4x the timeout; the
		// timer must not be armed.
		time.Sleep(4 * t.timeout)
		if s2 := t.checkEnds(false); s2 != nil {
			return s2, false
		}
	}
	t.streamPhase = true
	blockedAtStart := len(t.stalledNow())

	// Writer phase; clause (1).
	go t.writerLoop()
	stuckWriter := false
	{
		last, lastAt := int64(-1), time.Now()
		tick := time.NewTicker(2 * time.Millisecond)
	loop:
		for {
			select {
			case <-t.writerDone:
				break loop
			case <-tick.C:
			}
			if p := atomic.LoadInt64(&t.progress); p != last {
				last, lastAt = p, time.Now()
			} else if time.Since(lastAt) > stuckGrace {
				stuckWriter = true
				break loop
			}
		}
		tick.Stop()
	}
	if stuckWriter {
		dump := goroutineDump()
		blocks := findBlocks(dump, "main.(*trial).writerLoop")
		stalled := t.stalledNow()
		pkg, parked := "", false
		blk := ""
		if len(blocks) > 0 {
			blk = blocks[0]
			pkg, parked = parkedIn(blk)
		}
		if parked && pkg != "" && len(stalled) > 0 {
			t.viol("writer-stalled", fmt.Sprintf("the writer completed %d of %d notifications and then made no progress for %v while the Send of subscriber(s) %v was blocked; its goroutine is parked inside package %s of the code under test", atomic.LoadInt64(&t.progress), len(t.ops)+2, stuckGrace, stalled, pkg),
				map[string]interface{}{"writer_goroutine": clip(blk, 2500), "blocked_subscribers": stalled})
			skipMode[t.mode] = true
		} else {
			r.Inconclusive("writer made no progress for the grace period but the stuck state is not attributable (not parked in the code under test, or no subscriber blocked)")
		}
		for _, s := range t.subs {
			s.release()
		}
		select {
		case <-t.writerDone:
		case <-time.After(30 * time.Second):
		}
		return nil, false
	}
	if t.panicked != "" {
		t.viol("panic:"+clip(t.panicked, 60), "panic in the code under test: "+t.panicked, nil)
		return nil, false
	}
	if t.writeErr != "" {
		r.Inconclusive("cache rejected a write the model expected to be accepted: " + clip(t.writeErr, 80))
		return nil, false
	}
	if len(t.stalledNow()) > 0 {
		r.Count("clause1_writer_finished_with_blocked_subscribers", 1)
		r.Count("clause1_notifications_written_past_blocked_subscribers", int64(len(t.ops)+2))
	}

	// Clause (2): everybody whose Send the harness does not hold receives the
	// sentinel (hence, FIFO, everything before it) while the stalled ones stay
	// blocked.
	starved, gotWhileBlocked := -1, 0
	for _, s := range t.subs {
		s := s
		ok := t.waitCond(stuckGrace, func() bool {
			return s.isDone() || s.blocked() || t.hasSentinel(s, 0)
		})
		if !ok {
			starved = s.idx
			break
		}
		if !s.isDone() && !s.blocked() {
			gotWhileBlocked++
		}
	}
	stalled := t.stalledNow()
	if starved >= 0 {
		if len(stalled) > 0 {
			blocks := findBlocks(goroutineDump(), "sendStreamingResults")
			t.viol("other-subscriber-starved", fmt.Sprintf("subscriber %d is not held by the harness, the writer has finished, yet it did not receive the writer's sentinel for %v with nothing else happening, while subscriber(s) %v are blocked in Send", starved, stuckGrace, stalled),
				map[string]interface{}{"sender_goroutines": clip(strings.Join(blocks, "\n\n"), 4000), "responses_received": t.subs[starved].stream.NSent()})
			skipMode[t.mode] = true
		} else {
			r.Inconclusive("a subscriber did not receive the sentinel although nobody was stalled (not this property's subject)")
		}
		return nil, false
	}
	if len(stalled) > 0 {
		r.Count("clause2_subscribers_got_sentinel_while_others_blocked", int64(gotWhileBlocked))
	}
	if blockedAtStart > 0 {
		r.Count("trials_with_subscriber_blocked_before_first_write", 1)
	}

	// Unexpected ends so far?
	if s2 := t.checkEnds(false); s2 != nil {
		return s2, false
	}

	fullyJudged := true
	switch t.mode {
	case "stall", "joinrace":
		// Release the until-writer-done subscribers one after the other; each
		// must then drain its backlog (clauses 3, 4, 5b).
		for _, s := range t.subs {
			s := s
			if s.pattern != pUntilDone || !s.blocked() {
				continue
			}
			if s.joiner {
				// Its snapshot walk must be over before the release, so that nothing
				// is inserted into its queue any more.
				since := time.Now()
				t.waitCond(stuckGrace, func() bool {
					return atomic.LoadInt32(&s.walkEnd) == 1 || time.Since(since) > 5*time.Second
				})
				if atomic.LoadInt32(&s.walkEnd) != 1 {
					s.walkUnsure = true
					r.Count("walk_end_not_observed", 1)
				}
			}
			r.Count("stalls_until_writer_done_released", 1)
			s.release()
			ok := t.waitCond(stuckGrace, func() bool {
				return s.isDone() || (t.hasSentinel(s, 0) && (!s.joiner || hasSync(s)))
			})
			if !ok {
				t.viol("released-subscriber-starved", fmt.Sprintf("subscriber %d was released after the writer had finished but did not receive the rest of its backlog (sentinel missing) for %v", s.idx, stuckGrace), map[string]interface{}{"responses_received": s.stream.NSent()})
				skipMode[t.mode] = true
				return nil, false
			}
		}
		// In half of the trials the peers of the permanently stalled subscribers
		// now go away (context cancelled while stalled): whoever remains, with the
		// same or with other paths, must still get what is written afterwards.
		if t.cancelStalled {
			var gone []*sub
			for _, s := range t.subs {
				if s.pattern == pPermanent && s.blocked() && !s.isDone() {
					s.cancelled = true
					s.stream.Cancel()
					s.release()
					select {
					case <-s.done:
						gone = append(gone, s)
					case <-time.After(stuckGrace):
						r.Inconclusive("Subscribe did not return after its stalled peer's context was cancelled")
						return nil, false
					}
				}
			}
			if len(gone) > 0 {
				r.Count("stalled_subscribers_cancelled_while_stalled", int64(len(gone)))
				t.writeSentinels(1) // new leaves: a fresh update for every survivor
				t.lastGen = 1
				for _, s := range t.subs {
					s := s
					if s.isDone() || s.blocked() {
						continue
					}
					if !t.waitCond(stuckGrace, func() bool { return s.isDone() || t.hasSentinel(s, 1) }) {
						t.survivorLost(s, gone)
						return nil, false
					}
					if !s.isDone() {
						t.countSurvivor(s, gone)
					}
				}
			}
		}
	case "timeout", "syncstall":
		// Clause (5a): permanently blocked sends end their RPC with the timeout error.
		maxWait := 1000 * t.timeout
		if maxWait < stuckGrace {
			maxWait = stuckGrace
		}
		if t.scale > 1 {
			maxWait = 3*t.timeout + stuckGrace // confirmation runs are about the other subscribers
		}
		deadline := time.NewTimer(maxWait) // one common deadline: the blocked sends time out in parallel
		defer deadline.Stop()
		expired := false
		for _, s := range t.subs {
			if s.pattern != pPermanent || !s.hasEntered() || skipMode[t.mode] {
				continue
			}
			if !expired {
				select {
				case <-s.done:
				case <-deadline.C:
					expired = true
				}
			}
			el := time.Since(s.callAt)
			if !s.isDone() {
				if t.scale > 1 {
					r.Count("confirmation_runs_abandoned", 1)
					return nil, false
				}
				sig := "timeout:not-terminated"
				what := "an update"
				if s.gatedOnSync {
					sig, what = "timeout:sync-send-not-timed", "the sync_response"
				}
				blocks := findBlocks(goroutineDump(), "subscribe.(*Server).")
				t.viol(sig, fmt.Sprintf("subscriber %d: the Send of %s (response #%d) has been blocked for %v = %dx the configured send timeout of %v and Subscribe has not returned", s.idx, what, s.gateAt, maxWait.Round(time.Millisecond), int64(maxWait/t.timeout), t.timeout),
					map[string]interface{}{"subscribe_goroutines": clip(strings.Join(blocks, "\n\n"), 4000), "blocked_response_is_sync": s.gatedOnSync})
				skipMode[t.mode] = true
				fullyJudged = false
				continue
			}
			switch {
			case s.err == nil || !strings.Contains(s.err.Error(), timeoutText):
				t.viol("timeout:wrong-status", fmt.Sprintf("subscriber %d: Send blocked for good with a %v send timeout; Subscribe returned %v instead of the %q error", s.idx, t.timeout, s.err, timeoutText), nil)
				fullyJudged = false
			case el < t.timeout:
				t.viol("timeout:fired-early", fmt.Sprintf("subscriber %d: Subscribe returned the timeout error %v after it was CALLED, less than the configured send timeout of %v", s.idx, el, t.timeout), nil)
				fullyJudged = false
			default:
				r.Count("clause5_blocked_send_ended_with_timeout_error", 1)
				if s.gatedOnSync {
					r.Count("clause5_blocked_sync_send_ended_with_timeout_error", 1)
				}
			}
		}
		if s2 := t.checkEnds(false); s2 != nil {
			return s2, false
		}
		// Clause (5c): with nothing to send for 3x the timeout nobody is terminated,
		// and the idle subscribers then still receive a new update.
		time.Sleep(3 * t.timeout)
		if s2 := t.checkEnds(false); s2 != nil {
			return s2, false
		}
		gone := t.ended()
		t.updateLeaf(t.leaves[0], false) // a fresh update of an old leaf, then new sentinels
		atomic.AddInt64(&t.progress, 1)
		t.writeSentinels(1)
		t.lastGen = 1
		for _, s := range t.subs {
			s := s
			if s.isDone() || s.blocked() {
				continue
			}
			ok := t.waitCond(stuckGrace, func() bool { return s.isDone() || t.hasSentinel(s, 1) })
			if ok && !s.isDone() && len(gone) > 0 {
				t.countSurvivor(s, gone)
			}
			if !ok {
				if len(gone) > 0 {
					t.survivorLost(s, gone)
				} else if len(t.stalledNow()) > 0 {
					t.viol("other-subscriber-starved", fmt.Sprintf("subscriber %d, idle for 3x the send timeout, did not receive a fresh update for %v", s.idx, stuckGrace), nil)
				} else {
					r.Inconclusive("an idle subscriber did not receive a fresh update although nobody was stalled")
				}
				return nil, false
			}
			if !s.isDone() {
				r.Count("clause5_idle_subscriber_survived_3x_timeout_and_got_next_update", 1)
			}
		}
		if s2 := t.checkEnds(false); s2 != nil {
			return s2, false
		}
	}

	// Late subscriber: subscribes when everything is quiet. Its snapshot must
	// show every leaf once with no duplicates (a duplicate count written into the
	// shared cached notification by another subscriber would show up here).
	late := &sub{idx: len(t.subs), paths: [][]string{{}}, late: true, pattern: pNever, open: make(chan struct{}), entered: make(chan struct{}), done: make(chan struct{})}
	t.subs = append(t.subs, late)
	t.startSub(late)
	if !t.waitCond(stuckGrace, func() bool { return late.isDone() || hasSync(late) }) {
		r.Inconclusive("late subscriber did not receive its snapshot")
		return nil, false
	}
	if t.mode == "idlesync" {
		// Same for the late subscriber: idle from its sync_response on, then a
		// fresh update must still reach everybody.
		time.Sleep(4 * t.timeout)
		if s2 := t.checkEnds(false); s2 != nil {
			return s2, false
		}
		t.writeSentinels(1)
		t.lastGen = 1
		for _, s := range t.subs {
			s := s
			if !t.waitCond(stuckGrace, func() bool { return s.isDone() || t.hasSentinel(s, 1) }) {
				r.Inconclusive("an idle subscriber did not receive a fresh update although nobody was stalled")
				return nil, false
			}
			if !s.isDone() {
				r.Count("clause5_subscriber_idle_right_after_sync_survived_4x_timeout_and_got_next_update", 1)
			}
		}
	}

	// Judge.
	if s2 := t.checkEnds(true); s2 != nil {
		return s2, false
	}
	for _, s := range t.subs {
		if !t.judge(s) {
			fullyJudged = false
		}
	}
	// Unattributed form of clause (3): no callback of this server ever reported
	// a queue longer than the largest bound of any of its subscribers.
	maxBound := 0
	for _, s := range t.subs {
		if b := t.bound(s); b > maxBound {
			maxBound = b
		}
	}
	r.Count("stats_callbacks_observed", atomic.LoadInt64(&t.cbCalls))
	r.Count("atomic_group_updates_written_in_writer_phase", t.atomicWritten)
	if t.mode == "joinrace" {
		r.Count("joinrace_producer_pairs_lined_up_at_insert", atomic.LoadInt64(&t.rdvMet))
	}
	if mq := atomic.LoadInt64(&t.cbMaxQ); mq > int64(maxBound) {
		t.viol("backlog-bound", fmt.Sprintf("the statistics callback reported a queue of %d entries but no subscriber of this server can have more than %d pending (one per offered leaf incarnation + one per delete notification + sync marker)", mq, maxBound), nil)
		fullyJudged = false
	}
	if el := time.Since(t.start); t.timeout == 0 && el < defaultTimeoutGuard {
		r.Count("clause5_trials_nobody_terminated_under_default_timeout", 1)
	}
	for k, v := range pert.Hits() {
		r.Count("point_"+k, v)
	}
	return nil, fullyJudged
}

// ended lists the subscriptions whose RPC is over (send timeout or cancelled peer).
func (t *trial) ended() []*sub {
	var out []*sub
	for _, s := range t.subs {
		if s.stream != nil && s.isDone() {
			out = append(out, s)
		}
	}
	return out
}

func (t *trial) countSurvivor(s *sub, gone []*sub) {
	for _, g := range gone {
		if samePaths(g, s) {
			t.r.Count("survivors_with_identical_paths_got_fresh_update_after_peer_ended", 1)
			return
		}
	}
	t.r.Count("survivors_with_other_paths_got_fresh_update_after_peer_ended", 1)
}

func samePaths(a, b *sub) bool {
	return fmt.Sprint(a.paths) == fmt.Sprint(b.paths)
}

// survivorLost reports a subscriber that is up, not held by the harness, and
// yet did not receive what was written after a peer's subscription had ended.
func (t *trial) survivorLost(s *sub, gone []*sub) {
	var who []string
	same := false
	for _, g := range gone {
		why := "its peer's context was cancelled while it was stalled"
		if g.err != nil && strings.Contains(g.err.Error(), timeoutText) {
			why = "terminated by the send timeout"
		}
		who = append(who, fmt.Sprintf("subscriber %d paths %v (%s)", g.idx, g.paths, why))
		same = same || samePaths(g, s)
	}
	blocks := findBlocks(goroutineDump(), "sendStreamingResults")
	t.viol("survivor-lost-after-peer-ended", fmt.Sprintf("subscriber %d (paths %v) is still subscribed and not held by the harness; after %s had ended, a fresh update and a new sentinel were written, but it received neither for %v with nothing else happening (shares the exact path set of an ended subscriber: %v)", s.idx, s.paths, strings.Join(who, ", "), stuckGrace, same),
		map[string]interface{}{"survivor": s.describe(), "responses_received": s.stream.NSent(), "sender_goroutines": clip(strings.Join(blocks, "\n\n"), 3000)})
	skipMode[t.mode] = true
}

// checkEnds looks at subscriptions whose RPC has ended although the harness
// did not end them.
func (t *trial) checkEnds(final bool) *suspicion {
	for _, s := range t.subs {
		if s.stream == nil || !s.isDone() || s.cancelled {
			continue
		}
		timedOut := s.err != nil && strings.Contains(s.err.Error(), timeoutText)
		if t.timeout > 0 && s.pattern == pPermanent && s.hasEntered() {
			continue // judged by clause (5a)
		}
		if !timedOut {
			t.viol("subscriber-terminated", fmt.Sprintf("subscriber %d (stall pattern %s): Subscribe returned %v although the harness neither cancelled it nor blocked it beyond a timeout", s.idx, patName[s.pattern], s.err), nil)
			return &suspicion{} // stop the trial; already reported
		}
		if t.timeout == 0 {
			if el := time.Since(t.start); el < defaultTimeoutGuard {
				t.viol("timeout:terminated-while-merely-slow", fmt.Sprintf("subscriber %d (stall pattern %s) was terminated with the send-timeout error %v after the trial began although the server uses the default one-minute timeout", s.idx, patName[s.pattern], el), nil)
				return &suspicion{}
			}
			t.r.Inconclusive("trial ran longer than 30 s under the default timeout; a timeout may be legitimate")
			return &suspicion{}
		}
		// Short timeout, subscriber never held by the harness for that long: the
		// machine may have been slow; to be confirmed at larger timeouts.
		return &suspicion{sub: s.idx, sig: "timeout:terminated-without-blocked-send", what: fmt.Sprintf("[%s trial %d] subscriber %d (stall pattern %s, %d responses received) was terminated with the send-timeout error although none of its sends was blocked by the harness (send timeout %v)", t.mode, t.num, s.idx, patName[s.pattern], s.stream.NSent(), t.timeout), witness: t.config()}
	}
	return nil
}

// bound: the most entries the subscriber's queue can hold according to the
// statement: one per offered leaf incarnation, one per delete notification,
// and the sync marker.
func (t *trial) bound(s *sub) int {
	b := 1
	for _, l := range t.byKey {
		if s.late {
			if l.exists {
				b++
			}
			continue
		}
		if !s.covers(l.path) {
			continue
		}
		incs := len(l.streamIncs)
		if l.prefInc > 0 && s.walkHits(l.path) > 0 && !l.streamIncs[l.prefInc] {
			incs++
		}
		if s.walkUnsure {
			incs++
		}
		b += incs + l.delNotis
	}
	return b
}

func (t *trial) judge(s *sub) bool {
	r := t.r
	msgs := s.stream.Sent()
	// Everything offered was delivered: the last sentinel written (the late
	// subscriber: its sync_response) has arrived.
	// (A joiner's walk may end after the sentinel was offered: its sync_response too.)
	full := !s.isDone() && ((s.late && hasSync(s)) || (!s.late && t.hasSentinel(s, t.lastGen) && (!s.joiner || hasSync(s))))
	type acc struct {
		sum, dels int
		lastDel   bool
		lastVal   int64
		seen      bool
	}
	per := map[string]*acc{}
	nsync := 0
	var dupMsgs, dupTotal int64
	postIncs := map[string]map[int]bool{}
	ok := true
	fail := func(sig, what string, extra map[string]interface{}) {
		if !ok {
			return
		}
		ok = false
		if extra == nil {
			extra = map[string]interface{}{}
		}
		extra["subscriber"] = s.describe()
		extra["responses_received"] = len(msgs)
		var tail []string
		for i := len(msgs) - 8; i < len(msgs); i++ {
			if i >= 0 {
				tail = append(tail, compact(msgs[i]))
			}
		}
		extra["last_responses"] = tail
		who := fmt.Sprintf("subscriber %d (paths %v, stall pattern %s", s.idx, s.paths, patName[s.pattern])
		switch {
		case s.late:
			who = fmt.Sprintf("late subscriber %d (joined when all was quiet, path root", s.idx)
		case s.pattern != pNever && s.hasEntered():
			who += fmt.Sprintf(", held at response #%d", s.gateAt)
		case s.pattern != pNever:
			who += ", gate never reached"
		}
		t.viol(sig, who+"): "+what, extra)
	}
	postRelease := func(i int) bool {
		return s.pattern == pUntilDone && s.hasEntered() && i > s.gateAt
	}
	for i, m := range msgs {
		pm := parse(m)
		if !pm.ok {
			r.Inconclusive("response of unexpected shape (not exactly one update or delete)")
			return false
		}
		if pm.sync {
			nsync++
			continue
		}
		l := t.byKey[pm.key]
		if l == nil || (!s.late && !s.covers(l.path)) {
			continue // not this property's subject
		}
		a := per[pm.key]
		if a == nil {
			a = &acc{}
			per[pm.key] = a
		}
		if pm.del {
			a.dels++
			a.lastDel, a.seen = true, true
			continue
		}
		inc, written := l.written[pm.val]
		if !written {
			fail("invented-value", fmt.Sprintf("response #%d carries %v=%d, a value never written to that leaf", i, l.path, pm.val), nil)
			return false
		}
		if a.seen && !a.lastDel && pm.val < a.lastVal {
			fail("older-value-after-newer", fmt.Sprintf("response #%d carries %v=%d after %d had been delivered", i, l.path, pm.val, a.lastVal), nil)
			return false
		}
		if pm.peerAdded {
			fail("dup-count-includes-peer-value", fmt.Sprintf("response #%d carries %v=%d with duplicates = %d + %d: the count a peer had put into the stored update was added to the number of updates coalesced into the response", i, l.path, pm.val, peerDup, pm.dup), nil)
			return false
		}
		a.sum += 1 + int(pm.dup)
		a.lastDel, a.lastVal, a.seen = false, pm.val, true
		if pm.dup > 0 {
			dupMsgs++
			dupTotal += int64(pm.dup)
		}
		if pm.atomic {
			r.Count("atomic_group_responses_observed", 1)
			if pm.dup > 0 {
				r.Count("atomic_group_responses_with_duplicates", 1)
			}
			if postRelease(i) {
				r.Count("atomic_group_responses_checked_newest_and_once_after_release", 1)
			}
		}
		if postRelease(i) {
			// Dequeued after the writer had finished: must be the newest value
			// of the leaf (of the incarnation the queue entry stands for).
			r.Count("clause4_post_release_values_checked", 1)
			if l.lastVal[inc] != pm.val {
				fail("stale-after-release", fmt.Sprintf("response #%d was dequeued after release, when the writer had already finished, but carries %v=%d while the newest value of that leaf (incarnation %d) is %d", i, l.path, pm.val, inc, l.lastVal[inc]), nil)
				return false
			}
			if postIncs[pm.key] == nil {
				postIncs[pm.key] = map[int]bool{}
			}
			if postIncs[pm.key][inc] && !(s.joiner && s.walkUnsure) {
				fail("not-coalesced-after-release", fmt.Sprintf("response #%d: after release leaf %v (incarnation %d) was delivered more than once although nothing was written in between", i, l.path, inc), nil)
				return false
			}
			postIncs[pm.key][inc] = true
		}
	}
	r.Count("subscriber_logs_judged", 1)
	r.Count("responses_observed", int64(len(msgs)))
	r.Count("clause4_responses_with_duplicates", dupMsgs)
	r.Count("clause4_duplicates_total", dupTotal)
	if nsync > 1 {
		fail("sync-count", fmt.Sprintf("%d sync_responses", nsync), nil)
		return false
	}

	// Clause (4): conservation of offers.
	keys := make([]string, 0, len(t.byKey))
	for k := range t.byKey {
		keys = append(keys, k)
	}
	sort.Strings(keys)
	for _, k := range keys {
		l := t.byKey[k]
		var lo, hi, dels, walk int
		switch {
		case s.late:
			if l.exists {
				lo, hi, walk = 1, 1, 1
			}
		case !s.covers(l.path):
			continue
		case s.joiner:
			// Subscribed while the writer was running: the leaf is visited once by
			// the walk if it existed throughout; updates invoked after its sender
			// was seen running were certainly offered, updates that had returned
			// before Subscribe was called certainly not.
			nlo, nhi := 0, 0
			for _, tk := range l.updTicks {
				if tk[0] > s.enteredTick {
					nlo++
				}
				if tk[1] > s.callTick {
					nhi++
				}
			}
			if l.prefInc > 0 {
				walk = 1
				lo, hi = 1+nlo, 1+nhi
			} else if len(l.updTicks) > 0 {
				lo, hi = max(1, nlo), nhi+1 // created meanwhile: by the walk, the feed, or both
			}
		default:
			if l.prefInc > 0 {
				walk = s.walkHits(l.path)
			}
			lo, hi = walk+l.streamOffers, walk+l.streamOffers
			dels = l.delNotis
			if s.walkUnsure && (l.delNotis > 0 || l.prefInc == 0) {
				lo, hi = l.streamOffers, l.streamOffers+len(s.paths)
			}
		}
		a := per[k]
		if a == nil {
			a = &acc{}
		}
		detail := map[string]interface{}{"leaf": l.path, "offers_model": hi, "delete_notifications_model": dels, "sum_1_plus_duplicates": a.sum, "delete_responses": a.dels}
		if a.sum > hi || a.dels > dels {
			fail("dup-count-mismatch", fmt.Sprintf("leaf %v: its update responses add up to sum(1+duplicates)=%d and %d delete responses, but only %d updates (%d of them by the snapshot walk) and %d delete notifications were ever offered to it", l.path, a.sum, a.dels, hi, walk, dels), detail)
			return false
		}
		if !full {
			continue
		}
		r.Count("clause4_leaf_sums_compared", 1)
		if a.sum < lo || a.dels < dels {
			fail("dup-count-mismatch", fmt.Sprintf("leaf %v: everything offered has been delivered (sentinel received), its update responses add up to sum(1+duplicates)=%d and %d delete responses, but %d updates and %d delete notifications were offered to it", l.path, a.sum, a.dels, lo, dels), detail)
			return false
		}
		// Final state delivered (clause 2 for the unblocked, "receives everything" for the released).
		switch {
		case l.exists && hi > 0:
			if !a.seen || a.lastDel || a.lastVal != l.lastVal[l.inc] {
				fail("final-value-missing", fmt.Sprintf("leaf %v: final value is %d but the last response about it is %s", l.path, l.lastVal[l.inc], lastOf(a.seen, a.lastDel, a.lastVal)), detail)
				return false
			}
		case !l.exists && a.seen && !a.lastDel:
			fail("final-value-missing", fmt.Sprintf("leaf %v was deleted last but the last response about it is %s", l.path, lastOf(a.seen, a.lastDel, a.lastVal)), detail)
			return false
		}
	}
	if full && s.joiner {
		r.Count("joiner_logs_fully_delivered", 1)
	}
	if full {
		r.Count("subscriber_logs_fully_delivered", 1)
		if s.late {
			r.Count("late_subscriber_snapshots_checked", 1)
		}
		if nsync != 1 {
			fail("sync-count", fmt.Sprintf("%d sync_responses after everything was delivered", nsync), nil)
			return false
		}
	}

	// Clause (3): backlog bound, attributed through the subscription's own statistics entry.
	b := t.bound(s)
	s.mu.Lock()
	qs := append([]int64(nil), s.qs...)
	s.mu.Unlock()
	att, unatt := 0, 0
	for i, q := range qs {
		if q < 0 {
			unatt++
			continue
		}
		att++
		// The size is read after the dequeue, not atomically with it: while the
		// writer runs the dequeued leaf may already have been offered again, so
		// only the size itself is bounded. Once nothing is inserted any more
		// (after release) the entry just dequeued counts as well.
		before := q
		if postRelease(i) && !(s.joiner && s.walkUnsure) {
			before = q + 1
		}
		if before > int64(b) {
			fail("backlog-bound", fmt.Sprintf("when response #%d was dequeued its queue held %d entries (counted as %d: the entry just dequeued counts too once nothing is inserted any more), more than the %d the statement allows (one per offered leaf incarnation + one per delete notification + sync marker; K=%d updates were written)", i, q, before, b, t.K), map[string]interface{}{"bound": b, "queue_size_reported": q, "counted": before})
			return false
		}
	}
	r.Count("clause3_queue_sizes_attributed", int64(att))
	r.Count("clause3_queue_sizes_not_attributable", int64(unatt))
	if s.pattern == pUntilDone && s.hasEntered() && len(qs) > s.gateAt+1 && qs[s.gateAt+1] >= 0 {
		r.Count("clause3_first_backlog_after_release_checked", 1)
		r.Count("clause3_first_backlog_after_release_total", qs[s.gateAt+1]+1)
		r.Count("clause3_bound_total", int64(b))
		r.Count("clause3_updates_offered_while_blockable_total", int64(t.K))
	}
	return ok
}

// hasSyncBefore: was the sync_response delivered before the held response?
func hasSyncBefore(s *sub) bool {
	for i, m := range s.stream.Sent() {
		if i < s.gateAt && m.GetSyncResponse() {
			return true
		}
	}
	return false
}

func lastOf(seen, del bool, v int64) string {
	switch {
	case !seen:
		return "nothing"
	case del:
		return "a delete"
	}
	return fmt.Sprintf("an update with value %d", v)
}

func compact(m *pb.SubscribeResponse) string {
	pm := parse(m)
	switch {
	case !pm.ok:
		return "?"
	case pm.sync:
		return "sync"
	case pm.del:
		return "del " + strings.Join(model.Unkey(pm.key), "/")
	}
	return fmt.Sprintf("upd %s=%d dup=%d", strings.Join(model.Unkey(pm.key), "/"), pm.val, pm.dup)
}

// ---- driver ----------------------------------------------------------------

func runEscalating(r *vlib.Run, mode string, num int) {
	if skipMode[mode] {
		r.Count("trials_skipped_after_stuck_execution", 1)
		return
	}
	var first *suspicion
	for i, sc := range []int{1, 6, 30} {
		t := newTrial(r, mode, num, r.Rand(mode, num), sc)
		sus, judged := t.run()
		if sus == nil || sus.sig == "" {
			if i > 0 {
				r.Count("suspected_terminations_not_reproduced_at_larger_timeout", 1)
				r.Inconclusive("a subscriber not blocked by the harness was ended by a short send timeout once, but not at a larger timeout (slow machine)")
				return
			}
			if judged && sus == nil {
				record(r, t)
			}
			return
		}
		if first == nil {
			first = sus
		} else if sus.sub != first.sub {
			// The trial is the same at every scale (same seed): a defect ends the same
			// subscriber each time; a starved machine picks its victims at random.
			r.Count("suspected_terminations_of_another_subscriber_at_larger_timeout", 1)
			r.Inconclusive("a subscriber not blocked by the harness was ended by a short send timeout, and at a larger timeout another one was (slow machine)")
			return
		}
		r.Count(fmt.Sprintf("suspected_terminations_at_timeout_scale_x%d", sc), 1)
		if i == 0 {
			r.Count(fmt.Sprintf("suspected_terminations_first_seen_in_mode_%s_timeout_%v_gomaxprocs_%d", mode, t.timeout, t.procs), 1)
		}
	}
	r.Violation(mode, num, first.sig, first.what+"; reproduced with the send timeout scaled x6 and x30", first.witness)
	skipMode[mode] = true
}

func record(r *vlib.Run, t *trial) {
	// Non-trivial: at least one subscriber was really parked in Send.
	entered := 0
	var sig []string
	for _, s := range t.subs {
		if s.hasEntered() {
			entered++
			r.Count("stalls_entered_"+patName[s.pattern], 1)
			if s.gatedOnSync {
				r.Count("stalls_entered_on_the_sync_response", 1)
			} else if !hasSyncBefore(s) {
				r.Count("stalls_entered_with_sync_marker_still_pending", 1)
			}
		}
		sig = append(sig, fmt.Sprintf("%v/%v/%d/%d/%v", s.paths, s.updatesOnly, s.pattern, s.gateAt, s.hasEntered()))
	}
	if entered == 0 {
		r.Count("trials_where_no_gate_was_reached", 1)
		return
	}
	r.Count("trials_fully_judged_with_a_blocked_subscriber", 1)
	r.Distinct(vlib.Hash(t.mode, t.D, t.K, len(t.ops), strings.Join(sig, ";")))
	r.SetAdd("stall_configurations", fmt.Sprintf("%d:%s", len(t.subs), strings.Join(sig, ";")))
	if r.WantSample() && t.num%5 == 0 {
		s0 := t.subs[0]
		var first []string
		for i, m := range s0.stream.Sent() {
			if i < 8 {
				first = append(first, compact(m))
			}
		}
		cfg := t.config()
		cfg["sub0_responses"] = s0.stream.NSent()
		cfg["sub0_first_responses"] = first
		cfg["sub0_bound"] = t.bound(s0)
		r.Sample(cfg)
	}
}

func body(r *vlib.Run) {
	r.ForTrials("stall", r.N(240, 12000), func(trial int, _ *rand.Rand) { runEscalating(r, "stall", trial) })
	r.ForTrials("timeout", r.N(64, 2400), func(trial int, _ *rand.Rand) { runEscalating(r, "timeout", trial) })
	r.ForTrials("syncstall", r.N(16, 320), func(trial int, _ *rand.Rand) { runEscalating(r, "syncstall", trial) })
	r.ForTrials("idlesync", r.N(16, 320), func(trial int, _ *rand.Rand) { runEscalating(r, "idlesync", trial) })
	r.ForTrials("joinrace", r.N(160, 4800), func(trial int, _ *rand.Rand) { runEscalating(r, "joinrace", trial) })
}

func postMerge(tier string, c map[string]int64) []string {
	var out []string
	for _, k := range []string{
		"clause1_writer_finished_with_blocked_subscribers",
		"clause2_subscribers_got_sentinel_while_others_blocked",
		"clause3_first_backlog_after_release_checked",
		"clause4_leaf_sums_compared",
		"clause4_responses_with_duplicates",
		"clause5_blocked_send_ended_with_timeout_error",
		"clause5_idle_subscriber_survived_3x_timeout_and_got_next_update",
		"clause5_trials_nobody_terminated_under_default_timeout",
		"clause5_subscriber_idle_right_after_sync_survived_4x_timeout_and_got_next_update",
		"joiner_logs_fully_delivered",
		"late_subscriber_snapshots_checked",
	} {
		if c[k] == 0 {
			out = append(out, "oracle clause never exercised: "+k)
		}
	}
	return out
}

func main() {
	vlib.Main(&vlib.Spec{
		ID:   "C08",
		Rule: "Each trial: real cache + one subscribe.Server (WithStats, WithClientStatsTest), 2-5 STREAM subscriptions over in-memory streams (one path each from {root,*,a,b,a/*,b/*,*/*}, some updates_only, some updates_only with 2-3 overlapping paths), stall pattern per subscriber in {never, one message (released at a seeded writer step), until-writer-done, permanent} with the held response at a seeded position around the snapshot/sync; one writer goroutine issues K in 10..2000 unique-valued updates over D in 1..50 leaves (single and multi-update notifications, leaf and branch deletes with re-adds) plus 0-3 atomic containers (1-3 in mode stall) updated repeatedly by Atomic notifications of 2-4 members, in a third of the trials alternating with a scalar written at the container's own path, containers deleted and re-added as well; a container is ONE leaf at its prefix for the offer model, the backlog bound and the duplicate count, then sentinels; GOMAXPROCS in {2,4,16}; seeded delays at subscribe.dequeue. Modes: stall (default one-minute timeout: clauses 1-4, nobody terminated), timeout (WithTimeout 50-200 ms: permanent stalls must end with the timeout error, idle subscribers survive 3x the timeout), syncstall (the blocked response is the sync_response, timeout 20 ms), idlesync (WithTimeout 50-200 ms, nobody stalled: nothing is written for 4x the timeout right after the sync_responses of the initial and of the late subscriber, then a fresh update must reach everybody), joinrace (K in 200..2000 updates hammer D in 1..3 existing leaves while 3-6 plain subscriptions START at seeded writer steps, each held from its very first response until the writer is done; producers reaching coalesce.insert.checked while a joiner walks are lined up pairwise; offers are bounded by logical call/return ticks; after release each leaf must come at most once and the backlog bound must hold). A late subscriber joins at the end of every trial. A trial is distinct non-trivial when at least one subscriber was really parked inside Send and all subscriber logs were judged; distinct by (mode, D, K, notifications, per-subscriber paths/pattern/gate).",
		Assumptions: []string{
			"one writer goroutine, strictly increasing timestamps and unique values: every update is accepted and never suppressed, so offers are known exactly",
			"all initial subscriptions are registered and their snapshot walk is over before the first write of the writer phase (sync_response delivered, or sender parked in the gate and walk end observed; if the walk-end point is not observed the oracle tolerates one walk offer more or less on leaves created/deleted later)",
			"backlog bound is counted per leaf incarnation: a leaf deleted and re-added while the subscriber is blocked is two pending leaves (old detached leaf, delete, new leaf), i.e. bound = incarnations offered + delete notifications + sync marker; this is never larger than D + 2*deletes + 1 and independent of K",
			"queue sizes are attributed to a subscriber by reading Server.ClientStats under the key ending in the %p of its request from inside that subscriber's own Send; additionally the maximum over all WithClientStatsTest callbacks of the server is bounded by the largest per-subscriber bound",
			"stuck executions are violations only when attributable (harness state says progress is due, nothing observable changed for 20 s, writer goroutine parked inside the code under test); timeouts are waited for 1000x the configured value; an unexpected timeout termination counts only after reproduction at x6 and x30 the timeout",
			"in-memory streams: gRPC flow control itself is not exercised; ending the RPC is observed as Subscribe returning",
		},
		QuickShards: 8, ThoroughShards: 16,
		MinDistinctQuick: 100, MinDistinctThorough: 5000,
		PostMerge: postMerge,
		Body:      body,
	})
}
