// C09 — Path tree is a prefix-free map with consistent wildcard query/delete.
// Reference-model differential: every operation on the real ctree.Tree is
// mirrored on model.Tree and the whole content plus the operation's own
// result is compared after every step.
package main

import (
	"fmt"
	"math/rand"
	"reflect"
	"sort"
	"strings"

	"github.com/openconfig/gnmi/ctree"

	"verif/internal/model"
	"verif/internal/vlib"
)

type op struct {
	Kind string   `json:"kind"` // add, del, delc, walkdel
	Path []string `json:"path"`
	Val  int      `json:"val,omitempty"`
}

func (o op) String() string { return fmt.Sprintf("%s(%s)=%d", o.Kind, strings.Join(o.Path, "/"), o.Val) }

type mismatch struct {
	sig, what string
}

func even(v interface{}) bool { i, ok := v.(int); return ok && i%2 == 0 }

func pathsKey(ps [][]string) []string {
	out := make([]string, 0, len(ps))
	for _, p := range ps {
		out = append(out, model.Key(p))
	}
	sort.Strings(out)
	return out
}

// apply runs one op on both and compares the op's own result.
func apply(t *ctree.Tree, m *model.Tree, o op) (mm *mismatch, effect string) {
	defer func() {
		if r := recover(); r != nil {
			mm = &mismatch{"panic:" + o.Kind, fmt.Sprintf("%v panicked: %v", o, r)}
		}
	}()
	switch o.Kind {
	case "add":
		before := m.Clone()
		want := m.Add(o.Path, o.Val)
		err := t.Add(o.Path, o.Val)
		if (err == nil) != want {
			return &mismatch{"add-result", fmt.Sprintf("%v: real err=%v, model accepts=%v", o, err, want)}, ""
		}
		if !want {
			_ = before
			return nil, "add-rejected"
		}
		return nil, "add-ok"
	case "del", "delc", "walkdel":
		var cond func(interface{}) bool
		if o.Kind != "del" {
			cond = even
		}
		wantRemoved := m.Clone().Delete(o.Path, cond)
		wantVals := []int{}
		for _, p := range wantRemoved {
			v, _ := m.Get(p)
			wantVals = append(wantVals, v.(int))
		}
		sort.Ints(wantVals)
		m.Delete(o.Path, cond)
		switch o.Kind {
		case "del":
			got := t.Delete(o.Path)
			if !reflect.DeepEqual(pathsKey(got), pathsKey(wantRemoved)) {
				return &mismatch{"delete-returned", fmt.Sprintf("%v returned %v, model removes %v", o, got, wantRemoved)}, ""
			}
		case "delc":
			got := t.DeleteConditional(o.Path, even)
			if !reflect.DeepEqual(pathsKey(got), pathsKey(wantRemoved)) {
				return &mismatch{"deletecond-returned", fmt.Sprintf("%v returned %v, model removes %v", o, got, wantRemoved)}, ""
			}
		case "walkdel":
			gotVals := []int{}
			nonInt := false
			t.WalkDeleted(o.Path, even, func(v interface{}) {
				if i, ok := v.(int); ok {
					gotVals = append(gotVals, i)
				} else {
					nonInt = true
				}
			})
			sort.Ints(gotVals)
			if nonInt || !reflect.DeepEqual(gotVals, wantVals) {
				return &mismatch{"walkdeleted-values", fmt.Sprintf("%v passed values %v (non-leaf value: %v), model removes values %v", o, gotVals, nonInt, wantVals)}, ""
			}
		}
		if len(wantRemoved) > 0 {
			return nil, "del-some"
		}
		return nil, "del-none"
	}
	return nil, ""
}

// compare checks the whole observable state of t against m.
func compare(t *ctree.Tree, m *model.Tree, queries [][]string, probes [][]string) (mm *mismatch) {
	defer func() {
		if r := recover(); r != nil {
			mm = &mismatch{"panic:observe", fmt.Sprintf("observer panicked: %v", r)}
		}
	}()
	// Walk: every key once with its value.
	got := map[string]int{}
	dup := false
	// The path slices handed to the visitor are also RETAINED (as
	// client.CacheClient.Leaves and the package's own tests do) and re-read after
	// the walk: each must still name the leaf it was reported for.
	var kept [][]string
	var keptKeys []string
	t.Walk(func(p []string, l *ctree.Leaf, v interface{}) error {
		k := model.Key(p)
		if _, ok := got[k]; ok {
			dup = true
		}
		i, _ := v.(int)
		got[k] = i
		kept = append(kept, p)
		keptKeys = append(keptKeys, k)
		return nil
	})
	for i, p := range kept {
		if model.Key(p) != keptKeys[i] {
			return &mismatch{"walk-retained-path-changed", fmt.Sprintf("the path slice Walk passed for leaf %v reads %v after the walk finished", model.Unkey(keptKeys[i]), p)}
		}
	}
	want := map[string]int{}
	for k, v := range m.M {
		want[k] = v.(int)
	}
	if dup || !reflect.DeepEqual(got, want) {
		return &mismatch{"content", fmt.Sprintf("Walk reports %v (dup=%v), model holds %v", render(got), dup, render(want))}
	}
	// WalkSorted: lexicographic order of element lists.
	var order [][]string
	kept, keptKeys = nil, nil
	t.WalkSorted(func(p []string, l *ctree.Leaf, v interface{}) error {
		order = append(order, append([]string{}, p...))
		kept = append(kept, p)
		keptKeys = append(keptKeys, model.Key(p))
		return nil
	})
	for i, p := range kept {
		if model.Key(p) != keptKeys[i] {
			return &mismatch{"walk-retained-path-changed", fmt.Sprintf("the path slice WalkSorted passed for leaf %v reads %v after the walk finished", model.Unkey(keptKeys[i]), p)}
		}
	}
	wk := m.Keys()
	if len(order) != len(wk) {
		return &mismatch{"sorted", fmt.Sprintf("WalkSorted reports %v, model %v", order, wk)}
	}
	for i := range wk {
		if !reflect.DeepEqual(order[i], wk[i]) && !(len(order[i]) == 0 && len(wk[i]) == 0) {
			return &mismatch{"sorted", fmt.Sprintf("WalkSorted reports %v, model order %v", order, wk)}
		}
	}
	// Queries.
	for _, q := range queries {
		gotq := map[string]int{}
		cnt := 0
		bad := ""
		t.Query(q, func(p []string, l *ctree.Leaf, v interface{}) error {
			cnt++
			i, _ := v.(int)
			gotq[model.Key(p)] = i
			if l == nil {
				bad = "nil leaf handle"
			}
			return nil
		})
		wantq := map[string]int{}
		for _, p := range m.Query(q) {
			v, _ := m.Get(p)
			wantq[model.Key(p)] = v.(int)
		}
		if cnt != len(gotq) || bad != "" || !reflect.DeepEqual(gotq, wantq) {
			return &mismatch{"query", fmt.Sprintf("Query(%v) reports %v (%d callbacks %s), model %v", q, render(gotq), cnt, bad, render(wantq))}
		}
	}
	// Point lookups.
	for _, p := range probes {
		wild := false
		for _, e := range p {
			if e == "*" {
				wild = true
			}
		}
		if wild {
			continue // lookups require fully specified paths
		}
		v, isKey := m.Get(p)
		isBr := m.IsBranch(p)
		n := t.Get(p)
		if (n != nil) != (isKey || isBr || len(p) == 0) {
			return &mismatch{"get", fmt.Sprintf("Get(%v) non-nil=%v, model key=%v branch=%v", p, n != nil, isKey, isBr)}
		}
		glv := t.GetLeafValue(p)
		if isKey && glv != v || !isKey && glv != nil {
			return &mismatch{"getleafvalue", fmt.Sprintf("GetLeafValue(%v)=%v, model key=%v value=%v", p, glv, isKey, v)}
		}
		l := t.GetLeaf(p)
		if isKey && (l == nil || l.Value() != v) {
			return &mismatch{"getleaf", fmt.Sprintf("GetLeaf(%v) = %v, model value %v", p, l, v)}
		}
		if !isKey && !isBr && len(p) > 0 && l != nil {
			return &mismatch{"getleaf", fmt.Sprintf("GetLeaf(%v) non-nil for a path that does not exist", p)}
		}
		if n.IsBranch() != isBr {
			return &mismatch{"isbranch", fmt.Sprintf("IsBranch(%v)=%v, model %v", p, n.IsBranch(), isBr)}
		}
		ch := n.Children()
		var names []string
		for k := range ch {
			names = append(names, k)
		}
		sort.Strings(names)
		wantCh := m.Children(p)
		if !isBr {
			wantCh = nil
		}
		if !reflect.DeepEqual(names, wantCh) {
			return &mismatch{"children", fmt.Sprintf("Children(%v)=%v, model %v", p, names, wantCh)}
		}
		if isKey {
			if tv := n.Value(); tv != v {
				return &mismatch{"value", fmt.Sprintf("Value(%v)=%v, model %v", p, tv, v)}
			}
		}
	}
	return nil
}

func render(m map[string]int) string {
	var ks []string
	for k := range m {
		ks = append(ks, k)
	}
	sort.Strings(ks)
	var b strings.Builder
	b.WriteString("{")
	for i, k := range ks {
		if i > 0 {
			b.WriteString(", ")
		}
		fmt.Fprintf(&b, "%s=%d", strings.Join(model.Unkey(k), "/"), m[k])
	}
	b.WriteString("}")
	return b.String()
}

// runHistory executes ops, comparing after every step. It returns the first
// mismatch and the set of effects seen.
func runHistory(ops []op, queries, probes [][]string, handleUpdates bool) (*mismatch, int, map[string]bool) {
	t := &ctree.Tree{}
	m := model.NewTree()
	effects := map[string]bool{}
	for i, o := range ops {
		mm, eff := apply(t, m, o)
		if mm != nil {
			return mm, i, effects
		}
		effects[eff] = true
		if handleUpdates && o.Kind == "add" && eff == "add-ok" && i%3 == 0 {
			// Update through a live handle: the map must show the new value.
			if l := t.GetLeaf(o.Path); l != nil {
				nv := o.Val + 1000000
				l.Update(nv)
				m.M[model.Key(o.Path)] = nv
				effects["handle-update"] = true
			}
		}
		if mm := compare(t, m, queries, probes); mm != nil {
			return mm, i, effects
		}
	}
	return nil, -1, effects
}

func report(r *vlib.Run, mode string, trial int, ops []op, at int, mm *mismatch) {
	strs := make([]string, len(ops))
	for i, o := range ops {
		strs[i] = o.String()
	}
	r.Violation(mode, trial, mm.sig, fmt.Sprintf("after step %d of %v: %s", at, strs, mm.what), map[string]interface{}{"ops": ops, "failed_at_step": at})
}

var exhPaths = [][]string{{}, {"a"}, {"a", "b"}, {"a", "b", "a"}, {"b"}, {"a", "*"}}
var exhQueries = [][]string{{}, {"*"}, {"a"}, {"a", "*"}, {"a", "*", "*"}, {"*", "b"}, {"a", "b"}, {"a", "*", "a"}, {"b", "*"}}
var exhProbes = [][]string{{}, {"a"}, {"a", "b"}, {"a", "b", "a"}, {"b"}, {"a", "a"}, {"b", "a"}}

func exhAlphabet() []op {
	var al []op
	for _, p := range exhPaths {
		al = append(al, op{Kind: "add", Path: p})
	}
	for _, q := range exhQueries[:7] {
		al = append(al, op{Kind: "del", Path: q})
	}
	for _, q := range exhQueries[:7] {
		al = append(al, op{Kind: "delc", Path: q})
	}
	for _, q := range [][]string{{}, {"*"}, {"a"}, {"a", "*"}} {
		al = append(al, op{Kind: "walkdel", Path: q})
	}
	return al
}

func body(r *vlib.Run) {
	// Mode 1: exhaustive small scope.
	al := exhAlphabet()
	maxLen := r.N(4, 5)
	idx := 0
	var rec func(seq []op)
	var nExh int64
	rec = func(seq []op) {
		if len(seq) > 0 {
			mine := r.Mine(idx)
			idx++
			if mine {
				ops := make([]op, len(seq))
				for i, o := range seq {
					o.Val = i + 1
					ops[i] = o
				}
				mm, at, eff := runHistory(ops, exhQueries, exhProbes, false)
				r.Eval(1)
				nExh++
				if mm != nil {
					report(r, "exhaustive", idx-1, ops, at, mm)
				} else if eff["add-ok"] && (eff["del-some"] || eff["add-rejected"]) {
					r.Distinct(vlib.Hash("exh", fmt.Sprint(ops)))
				}
				for e := range eff {
					if e != "" {
						r.Count("effect_"+e, 1)
					}
				}
			}
		}
		if len(seq) == maxLen {
			return
		}
		for _, o := range al {
			rec(append(seq, o))
		}
	}
	if r.OnlyTrial < 0 || r.OnlyMode == "exhaustive" {
		rec(nil)
		r.Count("exhaustive_histories", nExh)
		if r.Shard == 0 {
			r.Count("exhaustive_alphabet", int64(len(al)))
			r.Count("exhaustive_max_len", int64(maxLen))
		}
	}

	// Mode 2: random long histories over {a,b,c,*}, depth <= 4.
	names := []string{"a", "b", "c"}
	// Element names of which one is a prefix of another and continues with a
	// byte on either side of '/', '\x00' and ':' (eth0 / eth0.100 / eth0-1 ...):
	// lexicographic order is by ELEMENT lists, not by any joined string.
	relNames := []string{"a", "a.", "a-b", "a+", "a0", "a/b", "a\x00", "a:b", "", "b"}
	randPath := func(rng *rand.Rand, glob bool, maxDepth int) []string {
		n := rng.Intn(maxDepth + 1)
		p := make([]string, n)
		// Stored paths may contain an element literally named "*" (rarely); in
		// queries and deletes "*" is the glob.
		literalStar := !glob && rng.Intn(6) == 0
		for i := range p {
			if (glob && rng.Intn(4) == 0) || (literalStar && rng.Intn(3) == 0) {
				p[i] = "*"
			} else {
				p[i] = names[rng.Intn(len(names))]
			}
		}
		return p
	}
	r.ForTrials("random", r.N(6000, 250000), func(trial int, rng *rand.Rand) {
		names = []string{"a", "b", "c"}
		if trial%4 == 3 {
			names = relNames
			r.Count("random_histories_with_prefix_related_names", 1)
		}
		n := 10 + rng.Intn(71)
		depth := 2 + rng.Intn(3)
		if trial%5 == 0 {
			depth = 5 + rng.Intn(4) // deep trees: long parent paths with several sibling leaves
		}
		ops := make([]op, n)
		for i := range ops {
			switch x := rng.Intn(10); {
			case x < 5:
				ops[i] = op{Kind: "add", Path: randPath(rng, false, depth), Val: i + 1}
			case x < 7:
				ops[i] = op{Kind: "del", Path: randPath(rng, true, depth)}
			case x < 9:
				ops[i] = op{Kind: "delc", Path: randPath(rng, true, depth)}
			default:
				ops[i] = op{Kind: "walkdel", Path: randPath(rng, true, depth)}
			}
		}
		var queries, probes [][]string
		for i := 0; i < 6; i++ {
			queries = append(queries, randPath(rng, true, depth+1))
			probes = append(probes, randPath(rng, false, depth))
		}
		queries = append(queries, []string{}, []string{"*"})
		probes = append(probes, []string{})
		mm, at, eff := runHistory(ops, queries, probes, true)
		r.Eval(1)
		if mm != nil {
			report(r, "random", trial, ops, at, mm)
			return
		}
		if eff["add-ok"] && eff["del-some"] && eff["add-rejected"] {
			r.Distinct(vlib.Hash("rand", fmt.Sprint(ops)))
		}
		for e := range eff {
			if e != "" {
				r.Count("effect_"+e, 1)
			}
		}
		if r.WantSample() && trial%97 == 0 {
			strs := make([]string, 0, 12)
			for i, o := range ops {
				if i < 12 {
					strs = append(strs, o.String())
				}
			}
			r.Sample(map[string]interface{}{"mode": "random", "trial": trial, "first_ops": strs, "len": n})
		}
	})
	modeValues(r)
}

// modeValues: the tree is a map to arbitrary values. Values of a dynamic type
// that Go cannot compare with == (slices, maps, structs holding them) are
// stored, overwritten through Add and through a leaf handle, looked up, walked
// and deleted; every step must return without panicking and read back exactly
// what was stored.
func modeValues(r *vlib.Run) {
	type rec struct {
		Tags []string
		N    int
	}
	mk := func(rng *rand.Rand, id int) interface{} {
		switch rng.Intn(5) {
		case 0:
			return []int{id, id + 1}
		case 1:
			return map[string]int{"id": id}
		case 2:
			return rec{Tags: []string{fmt.Sprint(id)}, N: id}
		case 3:
			return []interface{}{id, []string{"x"}}
		default:
			return id
		}
	}
	r.ForTrials("values", r.N(2000, 40000), func(trial int, rng *rand.Rand) {
		t := &ctree.Tree{}
		want := map[string]interface{}{}
		names := []string{"a", "b", "c"}
		var log []string
		defer func() {
			if x := recover(); x != nil {
				r.Violation("values", trial, "panic:uncomparable-value", fmt.Sprintf("panic %v after %v", x, log), map[string]interface{}{"ops": log})
			}
		}()
		for i := 0; i < 30; i++ {
			p := []string{names[rng.Intn(3)], names[rng.Intn(3)]}
			k := model.Key(p)
			v := mk(rng, trial*100+i)
			switch rng.Intn(5) {
			case 0, 1:
				log = append(log, fmt.Sprintf("Add(%v, %T)", p, v))
				if err := t.Add(p, v); err != nil {
					r.Violation("values", trial, "values:add-rejected", fmt.Sprintf("Add(%v) of a %T rejected: %v", p, v, err), nil)
					return
				}
				want[k] = v
			case 2:
				if l := t.GetLeaf(p); l != nil {
					log = append(log, fmt.Sprintf("Leaf(%v).Update(%T)", p, v))
					l.Update(v)
					want[k] = v
					// the same value once more (an "unchanged" update)
					l.Update(v)
				}
			case 3:
				log = append(log, fmt.Sprintf("Delete(%v)", p))
				t.Delete(p)
				delete(want, k)
			default:
				log = append(log, fmt.Sprintf("Get(%v)", p))
				got := t.GetLeafValue(p)
				if w, ok := want[k]; ok != (got != nil) || (ok && !reflect.DeepEqual(got, w)) {
					r.Violation("values", trial, "values:readback", fmt.Sprintf("GetLeafValue(%v) = %v, stored %v (present %v) after %v", p, got, w, ok, log), nil)
					return
				}
			}
			r.Count("values_steps", 1)
		}
		got := map[string]interface{}{}
		t.WalkSorted(func(p []string, _ *ctree.Leaf, v interface{}) error { got[model.Key(p)] = v; return nil })
		r.Eval(1)
		if !reflect.DeepEqual(got, want) {
			r.Violation("values", trial, "values:content", fmt.Sprintf("the tree holds %v, stored were %v after %v", got, want, log), nil)
			return
		}
		r.Distinct(vlib.Hash("values", fmt.Sprint(log)))
	})
}

func main() {
	vlib.Main(&vlib.Spec{
		ID: "C09",
		Rule: "exhaustive: every sequence of <= 4 (thorough 5) operations over an alphabet of 24 operations (Add at 6 paths incl. the root and one with an element literally named '*', Delete/DeleteConditional at 7 wildcard paths, WalkDeleted at 4) with the whole tree, 9 wildcard queries and 7 point lookups compared with the model after every step; " +
			"random: seeded histories of 10-80 operations over {a,b,c,*} to depth 4 incl. updates through live leaf handles, a quarter of them over element names of which one is a prefix of another and continues with a byte below or above '/' (a, a., a-b, a+, a0, a/b, a\\x00, a:b, the empty name), which separates element-wise lexicographic order from any joined-string order; mode values: 30-step histories storing values of uncomparable dynamic types (slices, maps, structs holding slices) through Add and Leaf.Update (also twice with the same value), read back with DeepEqual, any panic is a violation. A history is counted as distinct non-trivial when it contains a successful add and (a delete that removed something or a rejected add) [random: all three], hashed by its operation list.",
		Assumptions: []string{
			"model.Tree (prefix-free map; MatchQ with one trailing glob past a leaf) is the specification",
			"GetLeaf on a branch path returns the branch node (the cache's collision check and its unit test rely on it); the oracle only requires nil for paths that do not exist at all",
			"values are non-nil ints; single goroutine",
		},
		QuickShards: 8, ThoroughShards: 16,
		MinDistinctQuick: 1000, MinDistinctThorough: 10000,
		Body: body,
	})
}
