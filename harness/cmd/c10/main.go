// C10 — Path tree is safe and per-path atomic under concurrent use.
// Monitors over real concurrent executions of ctree.Tree:
//
//	(1) Go race detector on a hostile workload (race workers; deciding);
//	(2) per-path linearizability of Add/Get/Delete/handle-update histories
//	    recorded at the harness boundary (porcupine, partitioned by path);
//	(3) whole-tree linearizability of small histories with prefix conflicts and
//	    subtree / wildcard / conditional deletes (porcupine, no partition) and an
//	    interval checker for Query/Walk ("present for the whole duration");
//	(4) quiescent equivalence (final sequential reads are part of the history)
//	    and deadlock detection (attributable-stuck rule).
package main

import (
	"fmt"
	"math/rand"
	"runtime"
	"sort"
	"strings"
	"sync"
	"sync/atomic"
	"time"

	"github.com/anishathalye/porcupine"
	"github.com/openconfig/gnmi/ctree"
	"github.com/openconfig/gnmi/verifhook"

	"verif/internal/model"
	"verif/internal/vlib"
)

type in struct {
	Kind string // add, read, del, delc, hupd
	Path string // joined with "/"
	Arg  int
}

type rec struct {
	Client    int
	In        in
	Out       interface{}
	Call, Ret int64
}

func (o rec) String() string {
	return fmt.Sprintf("[c%d %d-%d] %s(%s,%d)->%v", o.Client, o.Call, o.Ret, o.In.Kind, o.In.Path, o.In.Arg, o.Out)
}

var clock int64

func tick() int64 { return atomic.AddInt64(&clock, 1) }

func split(p string) []string {
	if p == "" {
		return []string{}
	}
	return strings.Split(p, "/")
}

// ---------- (2) partitioned register model ----------

var regModel = porcupine.Model{
	Partition: func(h []porcupine.Operation) [][]porcupine.Operation {
		m := map[string][]porcupine.Operation{}
		var keys []string
		for _, o := range h {
			k := o.Input.(in).Path
			if _, ok := m[k]; !ok {
				keys = append(keys, k)
			}
			m[k] = append(m[k], o)
		}
		sort.Strings(keys)
		out := make([][]porcupine.Operation, 0, len(keys))
		for _, k := range keys {
			out = append(out, m[k])
		}
		return out
	},
	Init: func() interface{} { return -1 },
	Step: func(st, input, output interface{}) (bool, interface{}) {
		s := st.(int)
		i := input.(in)
		switch i.Kind {
		case "add":
			return output.(bool), i.Arg // an add on a conflict-free path set must succeed
		case "read":
			return output.(int) == s, s
		case "del":
			return output.(bool) == (s != -1), -1
		case "hupd":
			if output.(bool) {
				return s != -1, i.Arg
			}
			return s == -1, s
		}
		return false, s
	},
}

// ---------- (3) whole-tree model ----------

func encState(m map[string]int) string {
	ks := make([]string, 0, len(m))
	for k := range m {
		ks = append(ks, k)
	}
	sort.Strings(ks)
	var b strings.Builder
	for _, k := range ks {
		fmt.Fprintf(&b, "%s=%d;", k, m[k])
	}
	return b.String()
}

func decState(s string) map[string]int {
	m := map[string]int{}
	for _, kv := range strings.Split(s, ";") {
		if kv == "" {
			continue
		}
		i := strings.LastIndexByte(kv, '=')
		var v int
		fmt.Sscanf(kv[i+1:], "%d", &v)
		m[kv[:i]] = v
	}
	return m
}

func conflict(m map[string]int, p string) bool {
	pp := split(p)
	for k := range m {
		kp := split(k)
		if model.IsProperPrefix(kp, pp) || model.IsProperPrefix(pp, kp) {
			return true
		}
	}
	return false
}

func covered(m map[string]int, q string, cond bool) []string {
	var out []string
	for k, v := range m {
		if model.MatchQ(split(q), split(k)) && (!cond || v%2 == 0) {
			out = append(out, k)
		}
	}
	sort.Strings(out)
	return out
}

var wholeModel = porcupine.Model{
	Init: func() interface{} { return "" },
	Step: func(st, input, output interface{}) (bool, interface{}) {
		m := decState(st.(string))
		i := input.(in)
		switch i.Kind {
		case "add":
			c := conflict(m, i.Path)
			if output.(bool) == c { // output = succeeded
				return false, st
			}
			if !c {
				m[i.Path] = i.Arg
			}
			return true, encState(m)
		case "read":
			v, ok := m[i.Path]
			if !ok {
				v = -1
			}
			return output.(int) == v, st
		case "del", "delc":
			rm := covered(m, i.Path, i.Kind == "delc")
			if strings.Join(rm, ";") != output.(string) {
				return false, st
			}
			for _, k := range rm {
				delete(m, k)
			}
			return true, encState(m)
		}
		return false, st
	},
}

type qrec struct {
	Client    int
	Kind      string // query, walk, walksorted
	Query     string
	Call, Ret int64
	Got       map[string]int
	Dup       bool
	Unsorted  bool
}

// intervalCheck judges a Query/Walk observation against the write history.
func intervalCheck(q qrec, writes []rec) (sig, what string) {
	if q.Dup {
		return "query-duplicate", fmt.Sprintf("%s(%s) reported a leaf twice", q.Kind, q.Query)
	}
	if q.Unsorted {
		return "walksorted-order", fmt.Sprintf("WalkSorted reported leaves out of order")
	}
	keys := map[string]bool{}
	for _, w := range writes {
		if w.In.Kind == "add" {
			keys[w.In.Path] = true
		}
	}
	for k := range q.Got {
		keys[k] = true
	}
	qp := split(q.Query)
	for k := range keys {
		kp := split(k)
		matches := q.Kind != "query" || model.MatchQ(qp, kp)
		var adds, dels []rec
		written := map[int]bool{}
		for _, w := range writes {
			switch w.In.Kind {
			case "add":
				if w.In.Path == k && w.Out.(bool) {
					adds = append(adds, w)
					written[w.In.Arg] = true
				}
			case "del", "delc":
				if model.MatchQ(split(w.In.Path), kp) {
					dels = append(dels, w)
				}
			}
		}
		got, reported := q.Got[k]
		if reported {
			if !matches {
				return "query-nonmatching", fmt.Sprintf("%s(%s) reported %s which it does not select", q.Kind, q.Query, k)
			}
			if !written[got] {
				return "query-invented-value", fmt.Sprintf("%s(%s) reported %s=%d, a value never written to it", q.Kind, q.Query, k, got)
			}
		}
		if !matches {
			continue
		}
		// Surely present for the whole window?
		present := false
		for _, a := range adds {
			if a.Ret >= q.Call {
				continue
			}
			ok := true
			for _, d := range dels {
				if !(d.Ret < a.Call || d.Call > q.Ret) {
					ok = false
					break
				}
			}
			if ok {
				present = true
				break
			}
		}
		if present && !reported {
			return "query-missed-present-leaf", fmt.Sprintf("%s(%s) over [%d,%d] did not report %s although it was present for the whole duration", q.Kind, q.Query, q.Call, q.Ret, k)
		}
		// Surely absent for the whole window?
		absent := true
		for _, a := range adds {
			if a.Call > q.Ret {
				continue
			}
			neutralised := false
			for _, d := range dels {
				if d.In.Kind == "del" && d.Call > a.Ret && d.Ret < q.Call {
					neutralised = true
					break
				}
			}
			if !neutralised {
				absent = false
				break
			}
		}
		if absent && reported {
			return "query-reported-absent-leaf", fmt.Sprintf("%s(%s) over [%d,%d] reported %s=%d although it was absent for the whole duration", q.Kind, q.Query, q.Call, q.Ret, k, got)
		}
	}
	return "", ""
}

// ---------- trial drivers ----------

// runWorkers runs fs concurrently behind a barrier; it returns false when they
// did not all finish within the grace period (stuck), with a goroutine dump.
func runWorkers(fs []func()) (ok bool, dump string) {
	var wg sync.WaitGroup
	start := make(chan struct{})
	for _, f := range fs {
		wg.Add(1)
		f := f
		go func() {
			defer wg.Done()
			<-start
			f()
		}()
	}
	done := make(chan struct{})
	go func() { wg.Wait(); close(done) }()
	close(start)
	select {
	case <-done:
		return true, ""
	case <-time.After(40 * time.Second):
		buf := make([]byte, 1<<20)
		n := runtime.Stack(buf, true)
		return false, string(buf[:n])
	}
}

func stuckVerdict(r *vlib.Run, mode string, trial int, dump string) {
	// Attributable: workers parked on a ctree mutex.
	blocks := strings.Split(dump, "\n\n")
	parked, workers := 0, 0
	for _, b := range blocks {
		if !strings.Contains(b, "verif/cmd/c10") && !strings.Contains(b, "main.") {
			continue
		}
		if strings.Contains(b, "runWorkers") && !strings.Contains(b, "func1") {
			continue
		}
		if strings.Contains(b, "ctree.(*") {
			workers++
			if strings.Contains(b, "sync.(*RWMutex)") || strings.Contains(b, "sync.runtime_Sem") {
				parked++
			}
		}
	}
	if workers > 0 && parked == workers {
		r.Violation(mode, trial, "deadlock", fmt.Sprintf("no operation completed for 40 s; all %d workers inside ctree are parked on a ctree mutex", workers), map[string]interface{}{"goroutines": dump})
	} else {
		r.Inconclusive("trial did not finish within the watchdog and the stuck state is not attributable to ctree locks")
	}
}

func partTrial(r *vlib.Run, trial int, rng *rand.Rand) bool {
	t := &ctree.Tree{}
	nb, nm, nl := 2+rng.Intn(2), 1+rng.Intn(2), 2+rng.Intn(3)
	var paths []string
	for b := 0; b < nb; b++ {
		for m := 0; m < nm; m++ {
			for l := 0; l < nl; l++ {
				paths = append(paths, fmt.Sprintf("b%d/m%d/l%d", b, m, l))
			}
		}
	}
	rng.Shuffle(len(paths), func(i, j int) { paths[i], paths[j] = paths[j], paths[i] })
	if len(paths) > 24 {
		paths = paths[:24]
	}
	// Paths on which handle updates are issued are never deleted in this trial.
	nh := len(paths) / 3
	hpaths, dpaths := paths[:nh], paths[nh:]
	G := 2 + rng.Intn(15)
	if trial%5 == 0 {
		G = 2 + rng.Intn(3)
	}
	nops := 40 + rng.Intn(200)
	forced := trial%3 == 0
	recs := make([][]rec, G)
	var valCtr int64
	newVal := func() int { return int(atomic.AddInt64(&valCtr, 1)) }
	// Hook: perturb or gate the upgrade window.
	var arrived int64
	gate := make(chan struct{})
	var once sync.Once
	var hits int64
	pert := vlib.NewPerturb(vlib.Mix(r.Seed, int64(trial), 77))
	pert.MaxSleep = time.Duration(rng.Intn(60)) * time.Microsecond
	verifhook.Set(func(name string, key interface{}) {
		if name != "ctree.add.upgrade" {
			return
		}
		atomic.AddInt64(&hits, 1)
		if forced {
			if n := atomic.AddInt64(&arrived, 1); int(n) >= G {
				once.Do(func() { close(gate) })
			}
			select {
			case <-gate:
			case <-time.After(2 * time.Millisecond):
				once.Do(func() { close(gate) })
			}
			return
		}
		pert.Handle(name, key)
	})
	defer verifhook.Set(nil)
	seeds := make([]int64, G)
	for g := range seeds {
		seeds[g] = rng.Int63()
	}
	fs := make([]func(), G)
	for g := 0; g < G; g++ {
		g := g
		fs[g] = func() {
			grng := rand.New(rand.NewSource(seeds[g]))
			my := make([]rec, 0, nops)
			for i := 0; i < nops; i++ {
				var o rec
				o.Client = g
				x := grng.Intn(100)
				if forced && i == 0 {
					x = 0 // everybody starts with an add beneath the not-yet-existing branches
				}
				switch {
				case x < 35:
					p := paths[grng.Intn(len(paths))]
					o.In = in{"add", p, newVal()}
					o.Call = tick()
					err := t.Add(split(p), o.In.Arg)
					o.Ret = tick()
					o.Out = err == nil
				case x < 65:
					p := paths[grng.Intn(len(paths))]
					o.In = in{"read", p, grng.Intn(3)}
					o.Call = tick()
					var v interface{}
					switch o.In.Arg {
					case 0:
						v = t.GetLeafValue(split(p))
					case 1:
						v = t.Get(split(p)).Value()
					default:
						n := 0
						t.Query(split(p), func(_ []string, _ *ctree.Leaf, val interface{}) error { n++; v = val; return nil })
						if n > 1 {
							v = -2
						}
					}
					o.Ret = tick()
					o.Out = -1
					if i, ok := v.(int); ok {
						o.Out = i
					}
				case x < 85 && len(dpaths) > 0:
					p := dpaths[grng.Intn(len(dpaths))]
					o.In = in{"del", p, 0}
					o.Call = tick()
					got := t.Delete(split(p))
					o.Ret = tick()
					o.Out = len(got) > 0
				default:
					if len(hpaths) == 0 {
						continue
					}
					p := hpaths[grng.Intn(len(hpaths))]
					o.In = in{"hupd", p, newVal()}
					o.Call = tick()
					l := t.GetLeaf(split(p))
					if l != nil {
						l.Update(o.In.Arg)
					}
					o.Ret = tick()
					o.Out = l != nil
				}
				my = append(my, o)
			}
			recs[g] = my
		}
	}
	ok, dump := runWorkers(fs)
	if !ok {
		stuckVerdict(r, "part", trial, dump)
		return false
	}
	// Quiescent reads: the final content must be the linearization's final state.
	var hist []porcupine.Operation
	var sigb strings.Builder
	all := []rec{}
	for _, rs := range recs {
		all = append(all, rs...)
	}
	sort.Slice(all, func(i, j int) bool { return all[i].Call < all[j].Call })
	for _, o := range all {
		fmt.Fprintf(&sigb, "%d%s,", o.Client, o.In.Kind[:1])
	}
	for _, p := range paths {
		o := rec{Client: G, In: in{"read", p, 0}}
		o.Call = tick()
		v := t.GetLeafValue(split(p))
		o.Ret = tick()
		o.Out = -1
		if i, ok := v.(int); ok {
			o.Out = i
		}
		all = append(all, o)
	}
	// Walk must agree with the final reads.
	walk := map[string]int{}
	t.Walk(func(p []string, _ *ctree.Leaf, v interface{}) error { walk[strings.Join(p, "/")], _ = v.(int); return nil })
	for _, o := range all[len(all)-len(paths):] {
		wv, ok := walk[o.In.Path]
		if !ok {
			wv = -1
		}
		if wv != o.Out.(int) {
			r.Violation("part", trial, "quiescent-walk-mismatch", fmt.Sprintf("after all operations finished Walk shows %s=%d but Get shows %v", o.In.Path, wv, o.Out), nil)
		}
	}
	kinds := map[string]int64{}
	for _, o := range all {
		hist = append(hist, porcupine.Operation{ClientId: o.Client, Input: o.In, Output: o.Out, Call: o.Call, Return: o.Ret})
		kinds[o.In.Kind]++
	}
	res, _ := porcupine.CheckOperationsVerbose(regModel, hist, 60*time.Second)
	r.Eval(1)
	for k, v := range kinds {
		r.Count("part_ops_"+k, v)
	}
	r.Count("upgrade_window_hits", atomic.LoadInt64(&hits))
	if forced {
		r.Count("forced_window_trials", 1)
		if atomic.LoadInt64(&arrived) >= 2 {
			r.Count("forced_window_trials_with_2plus_adders_in_window", 1)
		}
	}
	switch res {
	case porcupine.Ok:
		r.Count("porcupine_part_ok", 1)
		if atomic.LoadInt64(&hits) > 0 && kinds["del"]+kinds["hupd"] > 0 {
			r.Distinct(vlib.Hash("part", sigb.String()))
		}
		r.SetAdd("interleavings", fmt.Sprintf("%x", vlib.Hash(sigb.String())))
	case porcupine.Illegal:
		r.Count("porcupine_part_illegal", 1)
		bad := firstIllegalPartition(all)
		r.Violation("part", trial, "not-linearizable-per-path", "operations on one path are not linearizable against a register-with-absence model (lost add, stale read, or non-atomic delete): "+bad, map[string]interface{}{"goroutines": G, "ops_per_goroutine": nops, "forced_window": forced, "partition": bad})
	default:
		r.Count("porcupine_part_unknown", 1)
		r.Inconclusive("porcupine timed out on a partitioned history")
	}
	if r.WantSample() && trial%41 == 0 {
		var s []string
		for i, o := range all {
			if i < 10 {
				s = append(s, o.String())
			}
		}
		r.Sample(map[string]interface{}{"mode": "part", "trial": trial, "goroutines": G, "paths": len(paths), "ops": len(all), "forced_window": forced, "first_ops": s, "porcupine": "ok"})
	}
	return true
}

// firstIllegalPartition re-checks partitions one at a time to name the path.
func firstIllegalPartition(all []rec) string {
	by := map[string][]rec{}
	for _, o := range all {
		by[o.In.Path] = append(by[o.In.Path], o)
	}
	var keys []string
	for k := range by {
		keys = append(keys, k)
	}
	sort.Strings(keys)
	for _, k := range keys {
		var h []porcupine.Operation
		for _, o := range by[k] {
			h = append(h, porcupine.Operation{ClientId: o.Client, Input: o.In, Output: o.Out, Call: o.Call, Return: o.Ret})
		}
		m := regModel
		m.Partition = nil
		if porcupine.CheckOperations(m, h) {
			continue
		}
		rs := by[k]
		sort.Slice(rs, func(i, j int) bool { return rs[i].Call < rs[j].Call })
		var s []string
		for i, o := range rs {
			if i < 60 {
				s = append(s, o.String())
			}
		}
		return fmt.Sprintf("path %s: %s", k, strings.Join(s, " "))
	}
	return "?"
}

var wholePaths = []string{"a", "a/b", "a/c", "a/b/d", "e", "e/f", "e/g", "h"}
var wholeQueries = []string{"", "*", "a", "a/*", "*/b", "e", "a/b", "*/*/*", "e/*", "a/b/*"}

// rootPaths: the whole-tree alphabet with the root itself (the empty path) as a
// frequent member. A leaf at the root conflicts with every other path, so a
// history of a few operations keeps returning to the empty tree, where an Add at
// the root races Adds that turn the root into a branch.
var rootPaths = []string{"", "", "", "a", "a/b", "e/f", "h", "a/c"}

func wholeTrial(r *vlib.Run, trial int, rng *rand.Rand) bool {
	return wholeTrialP(r, "whole", trial, rng, wholePaths, 4+rng.Intn(8))
}

func rootTrial(r *vlib.Run, mode string, trial int, rng *rand.Rand) bool {
	return wholeTrialP(r, mode, trial, rng, rootPaths, 1+rng.Intn(4))
}

func wholeTrialP(r *vlib.Run, mode string, trial int, rng *rand.Rand, wholePaths []string, nops int) bool {
	t := &ctree.Tree{}
	G := 2 + rng.Intn(3)
	recs := make([][]rec, G)
	qrecs := make([][]qrec, G)
	var valCtr int64
	pert := vlib.NewPerturb(vlib.Mix(r.Seed, int64(trial), 78))
	pert.MaxSleep = time.Duration(rng.Intn(80)) * time.Microsecond
	var hits int64
	verifhook.Set(func(name string, key interface{}) {
		if name == "ctree.add.upgrade" {
			atomic.AddInt64(&hits, 1)
			pert.Handle(name, key)
		}
	})
	defer verifhook.Set(nil)
	seeds := make([]int64, G)
	for g := range seeds {
		seeds[g] = rng.Int63()
	}
	fs := make([]func(), G)
	for g := 0; g < G; g++ {
		g := g
		fs[g] = func() {
			grng := rand.New(rand.NewSource(seeds[g]))
			for i := 0; i < nops; i++ {
				x := grng.Intn(100)
				switch {
				case x < 40:
					p := wholePaths[grng.Intn(len(wholePaths))]
					o := rec{Client: g, In: in{"add", p, int(atomic.AddInt64(&valCtr, 1))}}
					o.Call = tick()
					err := t.Add(split(p), o.In.Arg)
					o.Ret = tick()
					o.Out = err == nil
					recs[g] = append(recs[g], o)
				case x < 55:
					p := wholePaths[grng.Intn(len(wholePaths))]
					o := rec{Client: g, In: in{"read", p, 0}}
					o.Call = tick()
					v := t.GetLeafValue(split(p))
					o.Ret = tick()
					o.Out = -1
					if i, ok := v.(int); ok {
						o.Out = i
					}
					recs[g] = append(recs[g], o)
				case x < 75:
					q := wholeQueries[grng.Intn(len(wholeQueries))]
					kind := "del"
					if grng.Intn(3) == 0 {
						kind = "delc"
					}
					o := rec{Client: g, In: in{kind, q, 0}}
					o.Call = tick()
					var got [][]string
					if kind == "del" {
						got = t.Delete(split(q))
					} else {
						got = t.DeleteConditional(split(q), func(v interface{}) bool { i, _ := v.(int); return i%2 == 0 })
					}
					o.Ret = tick()
					var s []string
					for _, p := range got {
						s = append(s, strings.Join(p, "/"))
					}
					sort.Strings(s)
					o.Out = strings.Join(s, ";")
					recs[g] = append(recs[g], o)
				default:
					qr := qrec{Client: g, Got: map[string]int{}}
					f := func(p []string, _ *ctree.Leaf, v interface{}) error {
						k := strings.Join(p, "/")
						if _, ok := qr.Got[k]; ok {
							qr.Dup = true
						}
						qr.Got[k], _ = v.(int)
						return nil
					}
					switch grng.Intn(3) {
					case 0:
						qr.Kind, qr.Query = "query", wholeQueries[grng.Intn(len(wholeQueries))]
						qr.Call = tick()
						t.Query(split(qr.Query), f)
						qr.Ret = tick()
					case 1:
						qr.Kind = "walk"
						qr.Call = tick()
						t.Walk(f)
						qr.Ret = tick()
					default:
						qr.Kind = "walksorted"
						var last []string
						qr.Call = tick()
						t.WalkSorted(func(p []string, l *ctree.Leaf, v interface{}) error {
							if last != nil && !model.Less(last, p) {
								qr.Unsorted = true
							}
							last = append([]string{}, p...)
							return f(p, l, v)
						})
						qr.Ret = tick()
					}
					qrecs[g] = append(qrecs[g], qr)
				}
			}
		}
	}
	ok, dump := runWorkers(fs)
	if !ok {
		stuckVerdict(r, mode, trial, dump)
		return false
	}
	var all []rec
	for _, rs := range recs {
		all = append(all, rs...)
	}
	sort.Slice(all, func(i, j int) bool { return all[i].Call < all[j].Call })
	writes := append([]rec{}, all...)
	// Quiescent reads.
	seenPath := map[string]bool{}
	for _, p := range wholePaths {
		if seenPath[p] {
			continue
		}
		seenPath[p] = true
		o := rec{Client: G, In: in{"read", p, 0}}
		o.Call = tick()
		v := t.GetLeafValue(split(p))
		o.Ret = tick()
		o.Out = -1
		if i, ok := v.(int); ok {
			o.Out = i
		}
		all = append(all, o)
	}
	var hist []porcupine.Operation
	var sigb strings.Builder
	for _, o := range all {
		hist = append(hist, porcupine.Operation{ClientId: o.Client, Input: o.In, Output: o.Out, Call: o.Call, Return: o.Ret})
		fmt.Fprintf(&sigb, "%d%s%s,", o.Client, o.In.Kind, o.In.Path)
		r.Count(strings.TrimRight(mode, "0123456789")+"_ops_"+o.In.Kind, 1)
	}
	res, _ := porcupine.CheckOperationsVerbose(wholeModel, hist, 60*time.Second)
	r.Eval(1)
	switch res {
	case porcupine.Ok:
		r.Count("porcupine_whole_ok", 1)
		r.Distinct(vlib.Hash(mode, sigb.String()))
	case porcupine.Illegal:
		r.Count("porcupine_whole_illegal", 1)
		var s []string
		for _, o := range all {
			s = append(s, o.String())
		}
		r.Violation(mode, trial, "not-linearizable-whole-tree", "history with prefix conflicts / subtree deletes is not linearizable against the prefix-free map model: "+strings.Join(s, " "), map[string]interface{}{"history": s})
	default:
		r.Count("porcupine_whole_unknown", 1)
		r.Inconclusive("porcupine timed out on a whole-tree history")
	}
	for _, qs := range qrecs {
		for _, q := range qs {
			r.Count("interval_checked_"+q.Kind, 1)
			if sig, what := intervalCheck(q, writes); sig != "" {
				var s []string
				for _, o := range writes {
					s = append(s, o.String())
				}
				r.Violation(mode, trial, sig, what+"; writes: "+strings.Join(s, " "), map[string]interface{}{"query": q, "writes": s})
			}
		}
	}
	if r.WantSample() && trial%53 == 0 {
		var s []string
		for _, o := range all {
			s = append(s, o.String())
		}
		r.Sample(map[string]interface{}{"mode": mode, "trial": trial, "history": s})
	}
	return true
}

// raceWorkload hammers every operation kind, including handle updates on
// leaves that other goroutines delete (the D7 interaction).
func raceWorkload(r *vlib.Run, rep int, rng *rand.Rand) bool {
	t := &ctree.Tree{}
	paths := []string{"a/b/c", "a/b/d", "a/e", "f/g/h", "f/g/i", "f/j", "k", "a/b/c2", "f/g/h2"}
	queries := []string{"", "*", "a", "a/*", "*/b", "f/g", "a/b/*", "*/*/*", "f/*/h", "k"}
	G := 8
	nops := r.N(3000, 5000)
	seeds := make([]int64, G)
	for g := range seeds {
		seeds[g] = rng.Int63()
	}
	var total int64
	fs := make([]func(), G)
	for g := 0; g < G; g++ {
		g := g
		fs[g] = func() {
			grng := rand.New(rand.NewSource(seeds[g]))
			var handles []*ctree.Leaf
			n := 0
			for i := 0; i < nops; i++ {
				p := split(paths[grng.Intn(len(paths))])
				q := split(queries[grng.Intn(len(queries))])
				switch grng.Intn(14) {
				case 0, 1, 2:
					t.Add(p, i)
				case 3:
					t.GetLeafValue(p)
				case 4:
					if l := t.GetLeaf(p); l != nil {
						handles = append(handles, l)
						l.Update(i)
					}
				case 5:
					if len(handles) > 0 {
						l := handles[grng.Intn(len(handles))]
						l.Update(i)
						l.Value()
					}
				case 6:
					t.Query(q, func(_ []string, l *ctree.Leaf, _ interface{}) error { n++; return nil })
				case 7:
					t.Walk(func(_ []string, l *ctree.Leaf, _ interface{}) error { n++; return nil })
				case 8:
					t.WalkSorted(func(_ []string, l *ctree.Leaf, _ interface{}) error { n++; return nil })
				case 9:
					t.Delete(q)
				case 10:
					t.DeleteConditional(q, func(v interface{}) bool { i, _ := v.(int); return i%3 == 0 })
				case 11:
					t.WalkDeleted(q, func(v interface{}) bool { i, _ := v.(int); return i%2 == 0 }, func(interface{}) { n++ })
				case 12:
					// Structure accessors on leaves AND on branch nodes (a prefix of a
					// stored path, or the root), while others link and unlink children.
					nd := t.Get(p[:grng.Intn(len(p)+1)])
					nd.IsBranch()
					for k := range nd.Children() {
						n += len(k)
					}
					nd.Value()
				default:
					_ = t.String()
				}
			}
			atomic.AddInt64(&total, int64(nops))
		}
	}
	ok, dump := runWorkers(fs)
	if !ok {
		stuckVerdict(r, "race", rep, dump)
		return false
	}
	r.Eval(1)
	r.Count("race_workload_ops", atomic.LoadInt64(&total))
	r.Distinct(vlib.Hash("race", rep, r.Shard))
	return true
}

func body(r *vlib.Run) {
	if r.Race {
		alive := true
		r.ForTrials("race", r.N(24, 240), func(rep int, rng *rand.Rand) {
			if alive {
				alive = raceWorkload(r, rep, rng)
			}
		})
		// Linearizability trials under the race runtime as well (different scheduling).
		r.ForTrials("part", r.N(150, 3000), func(trial int, rng *rand.Rand) {
			if alive {
				alive = partTrial(r, trial, rng)
			}
		})
		return
	}
	alive := true
	// Replay of a violation found by a race worker's part trial.
	r.ForTrials("part", 0, func(trial int, rng *rand.Rand) { partTrial(r, trial, rng) })
	for _, procs := range []int{16, 4, 2} {
		runtime.GOMAXPROCS(procs)
		mode := fmt.Sprintf("part%d", procs)
		n := r.N(3000, 120000)
		if procs != 16 {
			n = r.N(600, 24000)
		}
		r.ForTrials(mode, n, func(trial int, rng *rand.Rand) {
			if alive {
				alive = partTrial(r, trial, rng)
			}
		})
	}
	runtime.GOMAXPROCS(16)
	r.ForTrials("whole", r.N(10000, 400000), func(trial int, rng *rand.Rand) {
		if alive {
			alive = wholeTrial(r, trial, rng)
		}
	})
	runtime.GOMAXPROCS(3)
	r.ForTrials("whole3", r.N(3000, 100000), func(trial int, rng *rand.Rand) {
		if alive {
			alive = wholeTrial(r, trial, rng)
		}
	})
	for _, procs := range []int{16, 4, 2} {
		runtime.GOMAXPROCS(procs)
		mode := fmt.Sprintf("wholeroot%d", procs)
		r.ForTrials(mode, r.N(12000, 300000), func(trial int, rng *rand.Rand) {
			if alive {
				alive = rootTrial(r, mode, trial, rng)
			}
		})
	}
	runtime.GOMAXPROCS(16)
}

func main() {
	vlib.Main(&vlib.Spec{
		ID: "C10",
		Rule: "Concurrent trials on the real ctree.Tree with histories recorded at the harness boundary (one atomic tick counter, unique written values). part: 2-16 goroutines x 40-240 random Add/Get/GetLeafValue/Query/Delete/handle-update operations on 6-24 fixed-depth paths under shared branches, every third trial starting from an empty tree with all goroutines gated inside the reader->writer upgrade window of Add; judged by porcupine partitioned by path (register with absence) including quiescent final reads. whole: 2-4 goroutines x 4-11 operations on 8 paths WITH prefix conflicts, subtree/wildcard/conditional deletes with returned paths, judged by porcupine without partition (state = whole map), Query/Walk/WalkSorted judged by the interval checker. race: 8 goroutines x every operation kind incl. handle updates on deleted leaves under the race detector. A trial counts as distinct non-trivial when porcupine reached a verdict, the upgrade window was hit (part) and its invocation interleaving (client, op kind by call order) is new.",
		Assumptions: []string{
			"linearizability is judged on the executions produced: schedules are explored by perturbation (seeded delays / gating at the ctree.add.upgrade point, GOMAXPROCS 2/3/4/16), not enumerated",
			"handle updates are only issued on paths no goroutine deletes in that trial (updates through a detached handle are unspecified); the delete-vs-handle interaction is covered by the race detector",
			"Query/Walk are not required to be snapshots across nodes: only 'present for the whole duration => reported', 'absent for the whole duration => not reported', values must have been written to that key, no duplicates, WalkSorted ordered",
			"race reports are attributed when the access site of either stack lies in ctree/tree.go",
		},
		QuickShards: 8, ThoroughShards: 14,
		RaceShardsQuick: 3, RaceShardsThorough: 6,
		RaceAnchors: []string{"/ctree/tree.go"}, RaceDeciding: true,
		MinDistinctQuick: 500, MinDistinctThorough: 5000,
		Body: body,
	})
}
