package main

import (
	"context"
	"fmt"
	"math/rand"
	"runtime"
	"strings"
	"sync"
	"sync/atomic"
	"time"

	"github.com/openconfig/gnmi/coalesce"
	"github.com/openconfig/gnmi/verifhook"

	"verif/internal/vlib"
)

// ---- watchdog: the attributable-stuck rule of DESIGN 2.5 ----

const (
	grace         = 10 * time.Second
	graceWakeups  = 80 // watchdog wake-ups of the harness itself within the grace period
	watchInterval = 100 * time.Millisecond
)

var stuckSeen, stuckSeenForced, stuckSeenSeq atomic.Int64 // stuck violations in this process per mode; further trials of the mode are skipped after 2

// awaitDone waits for done. It returns false only when, since the last change
// of progress(), at least the grace period has passed AND the harness itself
// was scheduled at least graceWakeups times (so a stalled machine or a stopped
// process does not count).
func awaitDone(done <-chan struct{}, progress func() int64) bool {
	select {
	case <-done:
		return true
	default:
	}
	last := progress()
	since := time.Now()
	wake := 0
	t := time.NewTicker(watchInterval)
	defer t.Stop()
	for {
		select {
		case <-done:
			return true
		case <-t.C:
			if p := progress(); p != last {
				last, since, wake = p, time.Now(), 0
				continue
			}
			wake++
			if wake >= graceWakeups && time.Since(since) >= grace {
				return false
			}
		}
	}
}

// awaitCond polls cond (cheap, side-effect free) with the same rule.
func awaitCond(cond func() bool, progress func() int64) bool {
	for i := 0; i < 200; i++ {
		if cond() {
			return true
		}
		runtime.Gosched()
	}
	last := progress()
	since := time.Now()
	wake := 0
	sleep := 20 * time.Microsecond
	var slept time.Duration
	for {
		if cond() {
			return true
		}
		time.Sleep(sleep)
		slept += sleep
		if sleep < 2*time.Millisecond {
			sleep *= 2
		}
		if slept < watchInterval {
			continue
		}
		slept = 0
		if p := progress(); p != last {
			last, since, wake = p, time.Now(), 0
			continue
		}
		wake++
		if wake >= graceWakeups && time.Since(since) >= grace {
			return false
		}
	}
}

// parkedInNext takes a goroutine dump and returns the block of a goroutine
// that is inside coalesce.(*Queue).Next, if any.
func parkedInNext() string {
	buf := make([]byte, 1<<20)
	buf = buf[:runtime.Stack(buf, true)]
	for _, blk := range strings.Split(string(buf), "\n\n") {
		if strings.Contains(blk, "coalesce.(*Queue).Next") {
			if len(blk) > 1500 {
				blk = blk[:1500]
			}
			return blk
		}
	}
	return ""
}

// ---- recording wrappers ----

type trialRec struct {
	q      *coalesce.Queue
	tick   atomic.Int64
	nItems int

	mu         sync.Mutex
	panics     []finding
	closeCall  int64
	closeRet   int64
	cancelCall int64

	completed atomic.Int64 // Inserts returned
	accUnits  atomic.Int64 // Inserts that returned a nil error
	delUnits  atomic.Int64 // sum(1+dups) over the deliveries observed by the harness
	nextOps   atomic.Int64 // Next calls returned
	inNext    atomic.Bool
}

func newTrialRec(nItems int) *trialRec {
	return &trialRec{q: coalesce.NewQueue(), nItems: nItems, closeCall: never, closeRet: never, cancelCall: never}
}

func (t *trialRec) panicked(op string, v interface{}) {
	t.mu.Lock()
	t.panics = append(t.panics, finding{"panic:" + op, fmt.Sprintf("%s panicked: %v", op, v)})
	t.mu.Unlock()
}

func (t *trialRec) insert(item interface{}, id, prod int) (rec insRec, ok bool) {
	defer func() {
		if r := recover(); r != nil {
			t.panicked("Insert", r)
			ok = false
		}
	}()
	c := t.tick.Add(1)
	isNew, err := t.q.Insert(item)
	rt := t.tick.Add(1)
	if err == nil {
		t.accUnits.Add(1)
	}
	t.completed.Add(1)
	return insRec{Item: id, Call: c, Ret: rt, New: isNew, Err: err != nil, ErrClosed: coalesce.IsClosedQueue(err), Prod: prod}, true
}

func (t *trialRec) closeQ() {
	defer func() {
		if r := recover(); r != nil {
			t.panicked("Close", r)
		}
	}()
	c := t.tick.Add(1)
	t.q.Close()
	rt := t.tick.Add(1)
	t.mu.Lock()
	if c < t.closeCall {
		t.closeCall = c
	}
	if rt < t.closeRet {
		t.closeRet = rt
	}
	t.mu.Unlock()
}

func (t *trialRec) cancel(f context.CancelFunc) {
	c := t.tick.Add(1)
	t.mu.Lock()
	if c < t.cancelCall {
		t.cancelCall = c
	}
	t.mu.Unlock()
	f()
}

// next performs one recorded Next. decode maps a delivered value to the
// trial's item index (-1 if it is not one).
func (t *trialRec) next(ctx context.Context, decode func(interface{}) int, drain bool) (rec nextRec, ok bool) {
	defer func() {
		if r := recover(); r != nil {
			t.inNext.Store(false)
			t.panicked("Next", r)
			ok = false
		}
	}()
	c := t.tick.Add(1)
	t.inNext.Store(true)
	item, dups, err := t.q.Next(ctx)
	rt := t.tick.Add(1)
	t.inNext.Store(false)
	rec = nextRec{Item: -1, Dups: dups, Call: c, Ret: rt, Drain: drain}
	switch {
	case err == nil:
		t.delUnits.Add(1 + int64(dups))
		rec.Item = decode(item)
		if rec.Item < 0 {
			rec.Raw = fmt.Sprintf("%#v", item)
		}
	case coalesce.IsClosedQueue(err):
		rec.Err = errClosed
	case ctx.Err() != nil:
		rec.Err = errCtx
		rec.Raw = err.Error()
	default:
		rec.Err = errOther
		rec.Raw = err.Error()
	}
	t.nextOps.Add(1)
	return rec, true
}

// consumer runs Next until it returns an error (as sendStreamingResults
// does), optionally reading Len after each delivery (as the server's
// statistics do).
type consumer struct {
	recs    []nextRec
	lenBad  string
	done    chan struct{}
	aborted bool
}

func (t *trialRec) startConsumer(ctx context.Context, decode func(interface{}) int, drain bool, lenEvery int) *consumer {
	c := &consumer{done: make(chan struct{})}
	go func() {
		defer close(c.done)
		for k := 0; ; k++ {
			rec, ok := t.next(ctx, decode, drain)
			if !ok {
				c.aborted = true
				return
			}
			c.recs = append(c.recs, rec)
			if rec.Err != errNone {
				return
			}
			if lenEvery > 0 && k%lenEvery == 0 {
				if l := t.q.Len(); (l < 0 || l > t.nItems) && c.lenBad == "" {
					c.lenBad = fmt.Sprintf("Len()=%d after delivery %d with only %d distinct items in the trial", l, k, t.nItems)
				}
			}
		}
	}()
	return c
}

// ---- concurrent trials ----

type concParams struct {
	P        int    `json:"producers"`
	Items    int    `json:"items"`
	Inserts  int    `json:"inserts"`
	Phases   int    `json:"phases"`
	End      string `json:"end"`
	Procs    int    `json:"gomaxprocs"`
	Perturb  bool   `json:"perturb"`
	MaxSleep int    `json:"max_sleep_us"`
	DblClose bool   `json:"double_close"`
	LenEvery int    `json:"len_every"`
	Skew     bool   `json:"skew"`
	At       int    `json:"at"`
}

var endModes = []string{"drain-close", "close-after", "close-mid", "cancel-mid", "cancel-idle"}

func drawConc(r *vlib.Run, rng *rand.Rand) concParams {
	p := concParams{P: 1 + rng.Intn(8), Items: 2 + rng.Intn(19)}
	maxIns := r.N(600, 2000)
	p.Inserts = 50 + rng.Intn(maxIns-49)
	p.Phases = []int{1, 1, 2, 3, 5, 10, 20, 50, 200}[rng.Intn(9)]
	p.End = endModes[rng.Intn(len(endModes))]
	p.Procs = []int{1, 2, 3, 4, 8, 16}[rng.Intn(6)]
	p.Perturb = rng.Intn(4) > 0
	p.MaxSleep = []int{0, 5, 20, 100}[rng.Intn(4)]
	p.DblClose = rng.Intn(4) == 0
	p.LenEvery = []int{0, 1, 3}[rng.Intn(3)]
	p.Skew = rng.Intn(2) == 0
	p.At = rng.Intn(p.Inserts)
	return p
}

func concurrent(r *vlib.Run) {
	n := r.N(5000, 40000)
	if r.Race {
		n /= 10
	}
	r.ForTrials("concurrent", n, func(trial int, rng *rand.Rand) {
		if stuckSeen.Load() >= 2 {
			r.Inconclusive("trials skipped after repeated stuck-consumer violations in this process")
			return
		}
		concTrial(r, trial, rng)
		// Replay of a concurrent trial: same workload, repeated until the
		// violation recurs (schedules are not reproducible).
		for k := 0; r.OnlyTrial >= 0 && k < 300 && r.NViolations() == 0; k++ {
			concTrial(r, trial, r.Rand("concurrent", trial))
		}
	})
}

func concTrial(r *vlib.Run, trial int, rng *rand.Rand) {
	p := drawConc(r, rng)
	// Plans: plan[phase][producer] = item ids.
	plans := make([][][]int, p.Phases)
	perPhase := p.Inserts / p.Phases
	if perPhase < 1 {
		perPhase = 1
	}
	total := 0
	for ph := range plans {
		plans[ph] = make([][]int, p.P)
		for k := 0; k < perPhase; k++ {
			it := rng.Intn(p.Items)
			if p.Skew && rng.Intn(2) == 0 {
				it = rng.Intn(1 + p.Items/4)
			}
			w := rng.Intn(p.P)
			plans[ph][w] = append(plans[ph][w], it)
			total++
		}
	}
	yieldSeed := rng.Int63()
	pseed := rng.Int63()

	old := runtime.GOMAXPROCS(p.Procs)
	defer runtime.GOMAXPROCS(old)

	t := newTrialRec(p.Items)
	boxed := make([]interface{}, p.Items)
	for i := range boxed {
		boxed[i] = i
	}
	decode := func(v interface{}) int {
		if i, ok := v.(int); ok && i >= 0 && i < p.Items {
			return i
		}
		return -1
	}
	var pert *vlib.Perturb
	if p.Perturb {
		pert = vlib.NewPerturb(pseed)
		pert.MaxSleep = time.Duration(p.MaxSleep) * time.Microsecond
		pert.SleepProb = 0.05
		pert.LogLimit = 512
		pert.Only = func(_ string, key interface{}) bool { return key == interface{}(t.q) }
		verifhook.Set(pert.Handle)
		defer verifhook.Set(nil)
	}

	ctx, cancelF := context.WithCancel(context.Background())
	defer cancelF()
	cons := t.startConsumer(ctx, decode, false, p.LenEvery)
	insRecs := make([][]insRec, p.P)
	var stuck *finding
	setStuck := func(sig, what string) {
		if stuck != nil {
			return
		}
		dump := parkedInNext()
		if dump == "" || !t.inNext.Load() {
			r.Inconclusive("watchdog: no progress for the grace period but the consumer is not parked in Next (" + sig + ")")
			return
		}
		stuckSeen.Add(1)
		stuck = &finding{sig, what + fmt.Sprintf(" — no return for >= %v although no other goroutine of the trial is running; Len()=%d; goroutine: %s", grace, t.q.Len(), dump)}
	}
	runPhase := func(ph int, extra func(wg *sync.WaitGroup, prodDone *atomic.Bool)) {
		var wg, xg sync.WaitGroup
		var prodDone atomic.Bool
		for w := 0; w < p.P; w++ {
			w := w
			plan := plans[ph][w]
			wg.Add(1)
			go func() {
				defer wg.Done()
				yr := rand.New(rand.NewSource(vlib.Mix(yieldSeed, int64(ph), int64(w))))
				for _, it := range plan {
					rec, ok := t.insert(boxed[it], it, w)
					if !ok {
						return
					}
					insRecs[w] = append(insRecs[w], rec)
					if yr.Intn(8) == 0 {
						runtime.Gosched()
					}
				}
			}()
		}
		if extra != nil {
			extra(&xg, &prodDone)
		}
		wg.Wait()
		prodDone.Store(true)
		xg.Wait()
	}
	drained := func(cause string) bool {
		// Harness bookkeeping only (not the queue's own Len): everything
		// accepted so far must be accounted for by deliveries.
		ok := awaitCond(func() bool { return t.delUnits.Load() >= t.accUnits.Load() || !isOpen(cons.done) }, t.nextOps.Load)
		if !ok {
			setStuck("stuck-after-insert", fmt.Sprintf("%s: all producers have returned, %d Inserts were accepted but the deliveries account for only %d, the consumer is in Next", cause, t.accUnits.Load(), t.delUnits.Load()))
		}
		return ok
	}
	awaitConsumer := func(c *consumer, sig, what string) bool {
		ok := awaitDone(c.done, t.nextOps.Load)
		if !ok {
			setStuck(sig, what)
		}
		return ok
	}
	wakeChecks := map[string]int64{}

	finished := true
	for ph := 0; ph < p.Phases-1 && finished; ph++ {
		runPhase(ph, nil)
		finished = drained(fmt.Sprintf("after phase %d", ph))
		wakeChecks["insert"]++
		for k := rng.Intn(4); k > 0; k-- {
			runtime.Gosched()
		}
	}
	last := p.Phases - 1
	closeIt := func() {
		if p.DblClose {
			var g sync.WaitGroup
			g.Add(1)
			go func() { defer g.Done(); t.closeQ() }()
			t.closeQ()
			g.Wait()
			return
		}
		t.closeQ()
	}
	drainCons := (*consumer)(nil)
	if finished {
		switch p.End {
		case "drain-close":
			runPhase(last, nil)
			if finished = drained("final phase"); finished {
				wakeChecks["insert"]++
				closeIt()
				finished = awaitConsumer(cons, "stuck-after-close", "Close returned on an empty queue with the consumer in Next")
				wakeChecks["close"]++
			}
		case "close-after":
			runPhase(last, nil)
			closeIt()
			finished = awaitConsumer(cons, "stuck-after-close", "Close returned after all producers; the consumer must drain and be told closed")
			wakeChecks["close"]++
		case "close-mid":
			at := int64(p.At % (perPhase + 1))
			base := t.completed.Load()
			runPhase(last, func(xg *sync.WaitGroup, prodDone *atomic.Bool) {
				xg.Add(1)
				go func() {
					defer xg.Done()
					for t.completed.Load()-base < at && !prodDone.Load() {
						runtime.Gosched()
					}
					closeIt()
				}()
			})
			finished = awaitConsumer(cons, "stuck-after-close", "Close returned mid-stream and all producers have returned")
			wakeChecks["close"]++
		case "cancel-mid":
			at := int64(p.At % (perPhase + 1))
			base := t.nextOps.Load()
			runPhase(last, func(xg *sync.WaitGroup, prodDone *atomic.Bool) {
				xg.Add(1)
				go func() {
					defer xg.Done()
					for t.nextOps.Load()-base < at && !prodDone.Load() {
						runtime.Gosched()
					}
					t.cancel(cancelF)
				}()
			})
			finished = awaitConsumer(cons, "stuck-after-cancel", "the consumer's context was cancelled mid-stream and all producers have returned")
			wakeChecks["cancel"]++
		case "cancel-idle":
			runPhase(last, nil)
			if finished = drained("final phase"); finished {
				wakeChecks["insert"]++
				t.cancel(cancelF)
				finished = awaitConsumer(cons, "stuck-after-cancel", "the context of a consumer waiting on an empty queue was cancelled")
				wakeChecks["cancel"]++
			}
		}
	}
	// A second consumer drains what is left: after a cancel everything still
	// pending; after a closed report it must be told closed at once (any item
	// it still receives is a violation: accepted but not delivered before the
	// closed report).
	if finished {
		if t.closeRet == never {
			closeIt()
		}
		drainCons = t.startConsumer(context.Background(), decode, true, 0)
		finished = awaitConsumer(drainCons, "stuck-after-close", "Next on a closed queue (final drain)")
	}
	if !finished {
		// Try to release a parked consumer so that it does not outlive the trial.
		t.q.Close()
		cancelF()
	}
	r.Eval(1)
	r.Count("conc_trials_"+p.End, 1)
	for k, v := range wakeChecks {
		r.Count("conc_wakeup_checks_"+k, v)
	}

	witness := func(h *history) map[string]interface{} {
		w := map[string]interface{}{"params": p}
		if h != nil {
			w["history"] = h.trim(400)
		}
		return w
	}
	if stuck != nil {
		r.Violation("concurrent", trial, stuck.sig, stuck.what, witness(nil))
		return
	}
	if !finished {
		return // inconclusive, already recorded
	}
	t.mu.Lock()
	panics := t.panics
	t.mu.Unlock()
	for _, f := range panics {
		r.Violation("concurrent", trial, f.sig, f.what, witness(nil))
	}
	if len(panics) > 0 || cons.aborted || drainCons.aborted {
		return
	}
	h := &history{NItems: p.Items, CloseCall: t.closeCall, CloseRet: t.closeRet, CancelCall: t.cancelCall}
	for _, rs := range insRecs {
		h.Ins = append(h.Ins, rs...)
	}
	h.Nexts = append(append([]nextRec(nil), cons.recs...), drainCons.recs...)
	fs, st := judge(h)
	if cons.lenBad != "" {
		fs = append(fs, finding{"len-range", cons.lenBad})
	}
	// At quiescence nothing may be pending unless an accepted insertion is
	// still undelivered.
	if l := t.q.Len(); l != 0 {
		fs = append(fs, finding{"len-final", fmt.Sprintf("Len()=%d after the final drain reported the queue closed and empty", l)})
	}
	if !t.q.IsClosed() {
		fs = append(fs, finding{"isclosed-final", "IsClosed()=false after Close returned"})
	}
	for _, f := range fs {
		r.Violation("concurrent", trial, f.sig, fmt.Sprintf("%s [P=%d items=%d inserts=%d phases=%d end=%s]", f.what, p.P, p.Items, total, p.Phases, p.End), witness(h))
	}
	r.Count("conc_inserts_accepted", st.accepted)
	r.Count("conc_inserts_refused", st.refused)
	r.Count("conc_inserts_new", st.newIns)
	r.Count("conc_inserts_overlapping_or_after_close_accepted", st.inflight)
	r.Count("conc_deliveries", st.deliveries)
	r.Count("conc_coalesced_deliveries", st.coalesced)
	r.Count("conc_units_delivered", st.units)
	r.Count("conc_units_returned_after_closed_report", st.recoveredByDrain)
	r.Count("conc_order_pairs_judged", st.orderJudged)
	r.Count("conc_order_ambiguous_episodes", st.orderAmbiguous)
	r.Count("conc_prefix_bounds_judged", st.prefixJudged)
	if st.allBeforeClosed {
		r.Count("conc_trials_all_accepted_delivered_before_closed", 1)
	}
	if pert != nil {
		r.SetAdd("interleavings", pert.Signature())
		for k, v := range pert.Hits() {
			r.Count("conc_hits_"+k, v)
		}
	}
	if len(fs) == 0 && st.lowerJudged && st.coalesced > 0 && st.orderJudged > 0 {
		hh := []interface{}{"conc", trial}
		for _, nx := range h.Nexts {
			hh = append(hh, nx.Item, nx.Dups)
		}
		r.Distinct(vlib.Hash(hh...))
	}
	if r.WantSample() && trial%41 == 0 {
		r.Sample(map[string]interface{}{"mode": "concurrent", "trial": trial, "params": p, "accepted": st.accepted, "refused": st.refused, "deliveries": st.deliveries, "units": st.units, "order_pairs": st.orderJudged})
	}
}

func isOpen(c <-chan struct{}) bool {
	select {
	case <-c:
		return false
	default:
		return true
	}
}
