package main

import (
	"context"
	"fmt"
	"math/rand"
	"runtime"
	"strings"
	"sync/atomic"
	"time"

	"github.com/openconfig/gnmi/verifhook"

	"verif/internal/vlib"
)

// Forced-window trials: a controller goroutine executes a script; gates at
// the two schedule points hold the consumer between a failed next() and the
// select, and a producer on its way into the insertion (before the closed
// test that Insert makes under the queue lock) while Close runs. The verdict
// comes from the same history oracle and stuck rule as the concurrent trials;
// a gate that is never reached only makes the trial count as "not forced".

type fstep struct {
	Op  string `json:"op"`
	Arg int    `json:"arg,omitempty"`
}

func (s fstep) String() string {
	switch s.Op {
	case "ins", "hold-ins", "hold-next":
		return fmt.Sprintf("%s(%d)", s.Op, s.Arg)
	}
	return s.Op
}

type gate struct {
	hold    atomic.Bool
	skip    atomic.Int32
	hits    atomic.Int64
	reached chan struct{}
	release chan struct{}
	expired atomic.Bool
}

func newGate() *gate { return &gate{reached: make(chan struct{}, 4), release: make(chan struct{})} }

func (g *gate) arm(skip int) {
	g.release = make(chan struct{})
	g.skip.Store(int32(skip))
	g.hold.Store(true)
}

func (g *gate) point() {
	g.hits.Add(1)
	if !g.hold.Load() {
		return
	}
	if g.skip.Add(-1) >= 0 {
		return
	}
	if !g.hold.CompareAndSwap(true, false) {
		return
	}
	rel := g.release
	g.reached <- struct{}{}
	select {
	case <-rel:
	case <-time.After(2 * time.Minute):
		g.expired.Store(true)
	}
}

var notReached atomic.Int64

// reachWait: how long the controller waits for a goroutine to arrive at a
// gate; shortened once gates keep being missed (hook points moved or removed).
func reachWait() time.Duration {
	if notReached.Load() >= 3 {
		return 100 * time.Millisecond
	}
	return 3 * time.Second
}

// waitReached: harness-side wait for the held goroutine (never a verdict).
func (g *gate) waitReached() bool {
	select {
	case <-g.reached:
		return true
	case <-time.After(reachWait()):
		notReached.Add(1)
		g.hold.Store(false)
		// it may have slipped in just now
		select {
		case <-g.reached:
			return true
		default:
		}
		return false
	}
}

// ---- script generation (a small generator-side model decides which steps
// are legal: Next is only requested synchronously when something is owed) ----

type gen struct {
	rng     *rand.Rand
	steps   []fstep
	pending map[int]bool
	order   []int
	stale   bool // last two prelude steps were "ins, next": a wake-up token is probably left over
	closed  bool
}

func (g *gen) add(op string, arg int) { g.steps = append(g.steps, fstep{op, arg}) }

func (g *gen) ins(it int) {
	g.add("ins", it)
	if g.closed {
		return
	}
	if !g.pending[it] {
		g.pending[it] = true
		g.order = append(g.order, it)
	}
	g.stale = false
}

func (g *gen) next() {
	g.add("next", 0)
	if len(g.order) > 0 {
		delete(g.pending, g.order[0])
		g.order = g.order[1:]
		g.stale = len(g.order) == 0
	}
}

func (g *gen) prelude(leave int) {
	k := g.rng.Intn(5)
	for i := 0; i < k; i++ {
		if len(g.order) > 0 && g.rng.Intn(2) == 0 {
			g.next()
		} else {
			g.ins(g.rng.Intn(3))
		}
	}
	for len(g.order) > leave {
		g.next()
	}
}

var windows = [][]fstep{
	{{"ins", 0}},
	{{"ins", 0}, {"ins", 0}},
	{{"ins", 0}, {"ins", 1}},
	{{"ins", 1}, {"ins", 0}, {"ins", 1}},
	{{"close", 0}},
	{{"ins", 0}, {"close", 0}},
	{{"ins", 0}, {"ins", 1}, {"close", 0}},
	{{"ins", 2}, {"ins", 2}, {"close", 0}},
	{{"cancel", 0}},
	{{"ins", 0}, {"cancel", 0}},
	{{"close", 0}, {"ins", 0}},
	{{"close", 0}, {"cancel", 0}},
}

func (g *gen) window() {
	w := windows[g.rng.Intn(len(windows))]
	rot := g.rng.Intn(3)
	for _, s := range w {
		switch s.Op {
		case "ins":
			g.ins((s.Arg + rot) % 3)
		case "close":
			g.add("close", 0)
			g.closed = true
		default:
			g.add(s.Op, 0)
		}
	}
}

func genScript(rng *rand.Rand) (string, []fstep) {
	g := &gen{rng: rng, pending: map[int]bool{}}
	tmpl := []string{"held-consumer", "held-consumer", "insert-vs-close", "both-held", "parked-consumer", "ping-pong"}[rng.Intn(6)]
	switch tmpl {
	case "held-consumer":
		g.prelude(0)
		skip := 0
		if g.stale && rng.Intn(2) == 0 {
			skip = 1
		}
		g.add("hold-next", skip)
		g.window()
		g.add("rel-next", 0)
		g.add("await-next", 0)
	case "parked-consumer":
		g.prelude(0)
		g.add("park-next", 0)
		g.window()
		g.add("await-next", 0)
	case "insert-vs-close":
		leave := rng.Intn(3)
		g.prelude(leave)
		parked := len(g.order) == 0 && rng.Intn(2) == 0
		if parked {
			g.add("park-next", 0)
		}
		g.add("hold-ins", rng.Intn(3))
		g.add("close", 0)
		g.closed = true
		if !parked && rng.Intn(2) == 0 {
			for range g.order {
				g.add("next", 0)
			}
			g.order = nil
			g.add("next", 0) // closed and empty: must be told closed
		}
		g.add("rel-ins", 0)
		g.add("await-ins", 0)
		g.add("ins", rng.Intn(3)) // called after Close returned: must be refused
		if parked {
			g.add("await-next", 0)
		}
	case "both-held":
		g.prelude(0)
		g.add("hold-next", 0)
		g.add("hold-ins", rng.Intn(3))
		if rng.Intn(2) == 0 {
			g.ins(rng.Intn(3))
		}
		g.add("close", 0)
		g.closed = true
		if rng.Intn(2) == 0 {
			g.add("rel-ins", 0)
			g.add("await-ins", 0)
			g.add("rel-next", 0)
			g.add("await-next", 0)
		} else {
			g.add("rel-next", 0)
			g.add("await-next", 0)
			g.add("rel-ins", 0)
			g.add("await-ins", 0)
		}
	case "ping-pong":
		g.prelude(0)
		for rounds := 2 + rng.Intn(3); rounds > 0; rounds-- {
			held := rng.Intn(3) != 0
			if held {
				g.add("hold-next", 0)
			} else {
				g.add("park-next", 0)
			}
			for k := 1 + rng.Intn(3); k > 0; k-- {
				g.ins(rng.Intn(3))
			}
			if held {
				g.add("rel-next", 0)
			}
			g.add("await-next", 0)
			g.next0()
			for len(g.order) > 0 {
				g.next()
			}
		}
	}
	return tmpl, g.steps
}

// next0 accounts for the delivery made by an awaited asynchronous Next.
func (g *gen) next0() {
	if len(g.order) > 0 {
		delete(g.pending, g.order[0])
		g.order = g.order[1:]
	}
}

func forced(r *vlib.Run) {
	n := r.N(8000, 48000)
	if r.Race {
		n /= 10
	}
	r.ForTrials("forced", n, func(trial int, rng *rand.Rand) {
		if stuckSeenForced.Load() >= 2 {
			r.Inconclusive("trials skipped after repeated stuck-consumer violations in this process")
			return
		}
		forcedTrial(r, trial, rng)
		// Replay of a concurrent trial: same workload, repeated until the
		// violation recurs (schedules are not reproducible).
		for k := 0; r.OnlyTrial >= 0 && k < 300 && r.NViolations() == 0; k++ {
			forcedTrial(r, trial, r.Rand("forced", trial))
		}
	})
}

type nextCmd struct {
	ctx context.Context
}

func forcedTrial(r *vlib.Run, trial int, rng *rand.Rand) {
	tmpl, steps := genScript(rng)
	procs := []int{1, 2, 4, 16}[rng.Intn(4)]
	old := runtime.GOMAXPROCS(procs)
	defer runtime.GOMAXPROCS(old)

	const nItems = 3
	t := newTrialRec(nItems)
	items := make([]interface{}, nItems)
	for i := range items {
		items[i] = &tagged{i}
	}
	decode := func(v interface{}) int {
		if p, ok := v.(*tagged); ok && p != nil && p.id >= 0 && p.id < nItems && items[p.id] == v {
			return p.id
		}
		return -1
	}
	gNext, gIns := newGate(), newGate()
	pert := vlib.NewPerturb(rng.Int63())
	pert.SleepProb = 0
	pert.Only = func(_ string, key interface{}) bool { return key == interface{}(t.q) }
	pert.OnPoint = func(name string, key interface{}) {
		if key != interface{}(t.q) {
			return
		}
		switch name {
		case "coalesce.next.empty":
			gNext.point()
		case "coalesce.insert.checked":
			gIns.point()
		}
	}
	verifhook.Set(pert.Handle)
	defer verifhook.Set(nil)

	ctx, cancelF := context.WithCancel(context.Background())
	defer func() { cancelF() }()

	// Commanded consumer.
	cmds := make(chan nextCmd)
	results := make(chan nextRec, 1)
	consAborted := make(chan struct{})
	go func() {
		for c := range cmds {
			rec, ok := t.next(c.ctx, decode, false)
			if !ok {
				close(consAborted)
				return
			}
			results <- rec
		}
	}()
	var nexts []nextRec
	var ins []insRec
	var heldIns chan insRec
	outstanding := false
	var evIns, evClose, evCancel bool // events since the outstanding Next was issued
	owed := 0                         // accepted inserts not yet accounted for by deliveries (harness knowledge)
	closedReturned := false
	wantGates, gotGates := 0, 0
	var stuck *finding
	inconcl := ""
	abort := false
	wake := map[string]int64{}

	issueNext := func() {
		evIns, evClose, evCancel = false, false, false
		select {
		case cmds <- nextCmd{ctx}:
			outstanding = true
		case <-consAborted:
			abort = true
		}
	}
	awaitNext := func(why string) {
		if !outstanding {
			return
		}
		sig := ""
		switch {
		case owed > 0 || evIns:
			sig = "stuck-after-insert"
		case closedReturned || evClose:
			sig = "stuck-after-close"
		case evCancel:
			sig = "stuck-after-cancel"
		}
		done := make(chan struct{})
		var rec nextRec
		aborted := false
		go func() {
			select {
			case rec = <-results:
			case <-consAborted:
				aborted = true
			}
			close(done)
		}()
		if !awaitDone(done, t.nextOps.Load) {
			abort = true
			if sig == "" {
				inconcl = "forced: Next outstanding without an event that obliges it to return (script error)"
				return
			}
			dump := parkedInNext()
			if dump == "" || !t.inNext.Load() {
				inconcl = "watchdog: no progress for the grace period but the consumer is not parked in Next (" + sig + ")"
				return
			}
			stuckSeenForced.Add(1)
			stuck = &finding{sig, fmt.Sprintf("%s: Next has not returned for >= %v although every other call of the script has returned and every gate is released; accepted insertions not yet delivered: %d, Close returned: %v, context cancelled: %v, Len()=%d; goroutine: %s", why, grace, owed, closedReturned, evCancel, t.q.Len(), dump)}
			return
		}
		outstanding = false
		if aborted {
			abort = true
			return
		}
		wake[strings.TrimPrefix(sig, "stuck-after-")]++
		nexts = append(nexts, rec)
		if rec.Err == errNone {
			owed -= 1 + int(rec.Dups)
		}
		if rec.Err == errCtx {
			// a fresh context for the rest of the script
			ctx, cancelF = context.WithCancel(context.Background())
		}
	}
	doIns := func(it, prod int) {
		rec, ok := t.insert(items[it], it, prod)
		if !ok {
			abort = true
			return
		}
		ins = append(ins, rec)
		if !rec.Err {
			owed++
			evIns = true
		}
	}
	nextHeld, insHeld := false, false
	// The windows want an empty queue: deliver whatever the harness knows is
	// still owed (earlier asynchronous rounds are not deterministic).
	drainOwed := func() {
		for owed > 0 && !abort && !outstanding {
			issueNext()
			awaitNext("synchronous Next with something owed")
		}
	}

	for _, s := range steps {
		if abort || owed < 0 {
			break // owed < 0: more delivered than accepted; the oracle will say so
		}
		switch s.Op {
		case "ins":
			doIns(s.Arg, 0)
		case "next":
			if outstanding {
				awaitNext("scripted await")
			}
			if owed <= 0 && !closedReturned {
				continue // would block: not requested
			}
			issueNext()
			awaitNext("synchronous Next with something owed")
		case "hold-next":
			if outstanding {
				continue
			}
			drainOwed()
			if abort {
				continue
			}
			wantGates++
			gNext.arm(s.Arg)
			issueNext()
			if gNext.waitReached() {
				gotGates++
				nextHeld = true
				r.Count("forced_gate_next_empty_reached", 1)
			} else {
				r.Count("forced_gate_next_empty_not_reached", 1)
			}
		case "park-next":
			if outstanding {
				continue
			}
			drainOwed()
			if abort {
				continue
			}
			before := gNext.hits.Load()
			issueNext()
			for i := 0; i < 2000 && gNext.hits.Load() == before; i++ {
				if i < 200 {
					runtime.Gosched()
				} else {
					time.Sleep(50 * time.Microsecond)
				}
			}
			for i := rng.Intn(4); i > 0; i-- {
				runtime.Gosched()
			}
			if rng.Intn(2) == 0 {
				time.Sleep(time.Duration(rng.Intn(200)) * time.Microsecond)
			}
		case "hold-ins":
			if heldIns != nil {
				continue
			}
			wantGates++
			gIns.arm(0)
			ch := make(chan insRec, 1)
			heldIns = ch
			it := s.Arg
			go func() {
				rec, ok := t.insert(items[it], it, 1)
				if !ok {
					rec = insRec{Item: -1}
				}
				ch <- rec
			}()
			if gIns.waitReached() {
				gotGates++
				insHeld = true
				r.Count("forced_gate_insert_checked_reached", 1)
			} else {
				r.Count("forced_gate_insert_checked_not_reached", 1)
			}
		case "close":
			t.closeQ()
			closedReturned = true
			evClose = true
		case "cancel":
			t.cancel(cancelF)
			evCancel = true
		case "rel-next":
			if nextHeld {
				close(gNext.release)
				nextHeld = false
			}
		case "rel-ins":
			if insHeld {
				close(gIns.release)
				insHeld = false
			}
		case "await-next":
			awaitNext("after the window")
		case "await-ins":
			if heldIns == nil {
				continue
			}
			done := make(chan struct{})
			var rec insRec
			go func() { rec = <-heldIns; close(done) }()
			if !awaitDone(done, t.completed.Load) {
				abort = true
				inconcl = "forced: a released Insert did not return within the grace period"
				continue
			}
			heldIns = nil
			if rec.Item < 0 {
				abort = true
				continue
			}
			ins = append(ins, rec)
			if !rec.Err {
				owed++
				evIns = true
			}
		}
	}
	// Finish: release everything, collect what is outstanding, drain.
	if nextHeld {
		close(gNext.release)
	}
	if insHeld {
		close(gIns.release)
	}
	gNext.hold.Store(false)
	gIns.hold.Store(false)
	if !abort && heldIns != nil {
		select {
		case rec := <-heldIns:
			if rec.Item >= 0 {
				ins = append(ins, rec)
				if !rec.Err {
					owed++
					evIns = true
				}
			}
		case <-time.After(grace):
			abort = true
			inconcl = "forced: a released Insert did not return within the grace period"
		}
	}
	if !abort && outstanding {
		if !(owed > 0 || evIns || evClose || evCancel || closedReturned) {
			t.closeQ()
			closedReturned, evClose = true, true
		}
		awaitNext("at the end of the script")
	}
	var drainRecs []nextRec
	if !abort {
		if !closedReturned {
			t.closeQ()
			closedReturned = true
		}
		dc := t.startConsumer(context.Background(), decode, true, 0)
		if !awaitDone(dc.done, t.nextOps.Load) {
			abort = true
			dump := parkedInNext()
			if dump != "" && t.inNext.Load() {
				stuckSeenForced.Add(1)
				stuck = &finding{"stuck-after-close", fmt.Sprintf("final drain: Next on a closed queue has not returned for >= %v; Len()=%d; goroutine: %s", grace, t.q.Len(), dump)}
			} else {
				inconcl = "watchdog: final drain made no progress but the consumer is not parked in Next"
			}
		} else if dc.aborted {
			abort = true
		} else {
			drainRecs = dc.recs
		}
	}
	if abort {
		t.q.Close()
		cancelF()
	}
	close(cmds)
	r.Eval(1)
	r.Count("forced_trials_"+tmpl, 1)
	for k, v := range wake {
		if k != "" {
			r.Count("forced_wakeup_checks_"+k, v)
		}
	}
	strs := make([]string, len(steps))
	for i, s := range steps {
		strs[i] = s.String()
	}
	script := strings.Join(strs, " ")
	h := &history{NItems: nItems, Ins: ins, Nexts: append(nexts, drainRecs...), CloseCall: t.closeCall, CloseRet: t.closeRet, CancelCall: t.cancelCall}
	witness := map[string]interface{}{"template": tmpl, "script": strs, "gomaxprocs": procs, "gates_requested": wantGates, "gates_reached": gotGates, "history": h.trim(200)}
	if gNext.expired.Load() || gIns.expired.Load() {
		r.Inconclusive("forced: a gate expired before the controller released it")
	}
	if stuck != nil {
		r.Violation("forced", trial, stuck.sig, fmt.Sprintf("script [%s]: %s", script, stuck.what), witness)
		return
	}
	t.mu.Lock()
	panics := t.panics
	t.mu.Unlock()
	for _, f := range panics {
		r.Violation("forced", trial, f.sig, fmt.Sprintf("script [%s]: %s", script, f.what), witness)
	}
	if inconcl != "" {
		r.Inconclusive(inconcl)
	}
	if abort || len(panics) > 0 {
		return
	}
	fs, st := judge(h)
	if l := t.q.Len(); l != 0 {
		fs = append(fs, finding{"len-final", fmt.Sprintf("Len()=%d after the final drain reported the queue closed and empty", l)})
	}
	for _, f := range fs {
		r.Violation("forced", trial, f.sig, fmt.Sprintf("script [%s] (gates reached %d/%d): %s", script, gotGates, wantGates, f.what), witness)
	}
	for _, in := range ins {
		if in.Prod == 1 { // the Insert that was held at the gate
			if in.Err {
				r.Count("forced_held_insert_refused", 1)
			} else {
				r.Count("forced_held_insert_accepted", 1)
			}
		}
	}
	r.Count("forced_inserts_accepted", st.accepted)
	r.Count("forced_inserts_refused", st.refused)
	r.Count("forced_inserts_overlapping_or_after_close_accepted", st.inflight)
	r.Count("forced_deliveries", st.deliveries)
	r.Count("forced_coalesced_deliveries", st.coalesced)
	r.Count("forced_units_returned_after_closed_report", st.recoveredByDrain)
	if st.allBeforeClosed {
		r.Count("forced_trials_all_accepted_delivered_before_closed", 1)
	}
	r.Count("forced_order_pairs_judged", st.orderJudged)
	if gotGates < wantGates {
		r.Inconclusive("forced: a requested window was not reached (hook point not hit); judged as an ordinary trial")
		return
	}
	if len(fs) == 0 && st.lowerJudged {
		hh := []interface{}{"forced", script}
		for _, nx := range h.Nexts {
			hh = append(hh, nx.Item, nx.Dups, nx.Err)
		}
		for _, in := range h.Ins {
			hh = append(hh, in.New, in.Err)
		}
		r.Distinct(vlib.Hash(hh...))
		r.SetAdd("forced_scripts", script)
	}
	if r.WantSample() && trial%101 == 0 {
		r.Sample(map[string]interface{}{"mode": "forced", "trial": trial, "template": tmpl, "script": script, "gates_reached": gotGates, "deliveries": st.deliveries, "accepted": st.accepted, "refused": st.refused})
	}
}
