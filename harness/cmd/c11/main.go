// C11 — Coalescing queue: first-insertion order, exact dup counts, no loss at
// close. Runtime monitoring of the real coalesce.Queue:
//
//	(A) exhaustive sequential model differential (all sequences of <= 7/8
//	    operations) plus seeded longer sequential histories;
//	(B) concurrent trials, P producers and one consumer, judged by the
//	    history oracle of oracle.go (linearizable reading: every Insert that
//	    returned a nil error is accounted for by deliveries before the first
//	    closed report, which is final; real-time order of completed first
//	    insertions; refusal only for Inserts overlapping or following Close)
//	    and by the attributable-stuck rule for bounded wake-up;
//	(C) forced-window trials: gates at the two schedule points hold the
//	    consumer after a failed next() / a producer about to insert while
//	    Close runs (refusal OR delivery before the closed report).
package main

import (
	"context"
	"fmt"
	"math/rand"
	"strings"

	"github.com/openconfig/gnmi/coalesce"

	"verif/internal/vlib"
)

// ---- sequential reference model (written from the property statement) ----

type qmodel struct {
	order  []interface{}
	cnt    map[interface{}]uint32
	closed bool
}

func newModel() *qmodel { return &qmodel{cnt: map[interface{}]uint32{}} }

func (m *qmodel) insert(i interface{}) (isNew bool, refused bool) {
	if m.closed {
		return false, true
	}
	if _, ok := m.cnt[i]; ok {
		m.cnt[i]++
		return false, false
	}
	m.order = append(m.order, i)
	m.cnt[i] = 0
	return true, false
}

// next: kind "item", "closed" or "block".
func (m *qmodel) next() (kind string, item interface{}, dups uint32) {
	if len(m.order) > 0 {
		item = m.order[0]
		dups = m.cnt[item]
		m.order = m.order[1:]
		delete(m.cnt, item)
		return "item", item, dups
	}
	if m.closed {
		return "closed", nil, 0
	}
	return "block", nil, 0
}

type sop struct {
	Kind string      `json:"kind"` // ins, next, nextc, close, len, isclosed
	Item interface{} `json:"item,omitempty"`
}

func (o sop) String() string {
	if o.Kind == "ins" {
		return fmt.Sprintf("Insert(%v)", itemName(o.Item))
	}
	return o.Kind
}

type tagged struct{ id int }

func itemName(i interface{}) string {
	if p, ok := i.(*tagged); ok {
		return fmt.Sprintf("&%d", p.id)
	}
	return fmt.Sprintf("%v", i)
}

var cancelledCtx = func() context.Context {
	c, f := context.WithCancel(context.Background())
	f()
	return c
}()

type seqStats struct {
	delivered, coalesced, refused, closedTold, ctxTold, dupIns int
}

// stepSeq applies one operation to the real queue and to the model and
// compares the results.
func stepSeq(q *coalesce.Queue, m *qmodel, o sop, st *seqStats) (mm *finding) {
	defer func() {
		if r := recover(); r != nil {
			mm = &finding{"panic:" + o.Kind, fmt.Sprintf("%v panicked: %v", o, r)}
		}
	}()
	switch o.Kind {
	case "ins":
		wantNew, wantRef := m.insert(o.Item)
		gotNew, err := q.Insert(o.Item)
		if (err != nil) != wantRef {
			return &finding{"insert-refusal", fmt.Sprintf("%v returned err=%v, model refuses=%v (closed=%v)", o, err, wantRef, m.closed)}
		}
		if gotNew != wantNew {
			return &finding{"insert-new-flag", fmt.Sprintf("%v returned new=%v, model says %v", o, gotNew, wantNew)}
		}
		if wantRef {
			st.refused++
		} else if !wantNew {
			st.dupIns++
		}
	case "next", "nextc":
		ctx := context.Background()
		pending := len(m.order) > 0
		if o.Kind == "nextc" {
			ctx = cancelledCtx
		}
		if !pending && !m.closed {
			ctx = cancelledCtx // the model says Next would block
		}
		why := "stuck-after-insert"
		switch {
		case !pending && m.closed:
			why = "stuck-after-close"
		case !pending:
			why = "stuck-after-cancel"
		}
		if why == "stuck-after-cancel" && stuckSeenSeq.Load() >= 2 {
			return &finding{sig: "skip"}
		}
		item, dups, err, returned := guardedNext(q, ctx)
		if !returned {
			dump := parkedInNext()
			q.Close()
			q.Insert("unblock")
			if dump == "" {
				return &finding{sig: "inconclusive", what: "watchdog: sequential Next did not return but no goroutine is parked in Next"}
			}
			stuckSeenSeq.Add(1)
			return &finding{why, fmt.Sprintf("Next (single goroutine, pending items per model: %d, closed: %v, context cancelled before the call: %v) has not returned for >= %v; goroutine: %s", len(m.order), m.closed, ctx.Err() != nil, grace, dump)}
		}
		if o.Kind == "nextc" && pending && err != nil && !coalesce.IsClosedQueue(err) && ctx.Err() != nil {
			// An already-cancelled context with items pending: the statement
			// allows both the item and the cancellation. Nothing was consumed.
			st.ctxTold++
			return nil
		}
		if o.Kind == "nextc" && !pending && m.closed && err != nil && !coalesce.IsClosedQueue(err) {
			// cancelled context on an empty closed queue: either report is allowed
			st.ctxTold++
			return nil
		}
		kind, wItem, wDups := m.next()
		switch kind {
		case "item":
			if err != nil || item != wItem || dups != wDups {
				return &finding{"next-result", fmt.Sprintf("Next returned (%v, %d, err=%v), model delivers (%v, %d)", itemName(item), dups, err, itemName(wItem), wDups)}
			}
			st.delivered++
			if dups > 0 {
				st.coalesced++
			}
		case "closed":
			if !coalesce.IsClosedQueue(err) {
				return &finding{"next-closed", fmt.Sprintf("Next on an empty closed queue returned (%v, %d, err=%v), expected the closed-queue error", itemName(item), dups, err)}
			}
			st.closedTold++
		case "block":
			if err == nil || coalesce.IsClosedQueue(err) {
				return &finding{"next-cancelled", fmt.Sprintf("Next with a cancelled context on an empty open queue returned (%v, %d, err=%v), expected the context's error", itemName(item), dups, err)}
			}
			st.ctxTold++
		}
	case "close":
		m.closed = true
		q.Close()
	case "len":
		if got := q.Len(); got != len(m.order) {
			return &finding{"len", fmt.Sprintf("Len()=%d, model holds %d distinct pending items", got, len(m.order))}
		}
	case "isclosed":
		if got := q.IsClosed(); got != m.closed {
			return &finding{"isclosed", fmt.Sprintf("IsClosed()=%v, model closed=%v", got, m.closed)}
		}
	}
	return nil
}

// guardedNext calls Next on its own goroutine so that an implementation that
// blocks where the model says it must not is reported instead of hanging the
// harness. A panic is re-raised on the caller's goroutine.
func guardedNext(q *coalesce.Queue, ctx context.Context) (item interface{}, dups uint32, err error, returned bool) {
	done := make(chan struct{})
	var pan interface{}
	go func() {
		defer close(done)
		defer func() { pan = recover() }()
		item, dups, err = q.Next(ctx)
	}()
	if !awaitDone(done, func() int64 { return 0 }) {
		return nil, 0, nil, false
	}
	if pan != nil {
		panic(pan)
	}
	return item, dups, err, true
}

// runSeq executes ops, then checks the final state and drains the queue
// (Close, Next until the closed error) against the model.
func runSeq(ops []sop) (*finding, int, seqStats) {
	q := coalesce.NewQueue()
	m := newModel()
	var st seqStats
	for i, o := range ops {
		if mm := stepSeq(q, m, o, &st); mm != nil {
			return mm, i, st
		}
	}
	tail := []sop{{Kind: "len"}, {Kind: "isclosed"}, {Kind: "close"}, {Kind: "isclosed"}}
	for k := len(m.order); k >= 0; k-- {
		tail = append(tail, sop{Kind: "next"}, sop{Kind: "len"})
	}
	tail = append(tail, sop{Kind: "ins", Item: "z"}, sop{Kind: "len"})
	for i, o := range tail {
		if mm := stepSeq(q, m, o, &st); mm != nil {
			mm.what = fmt.Sprintf("in the final drain (step %d: %v): %s", i, o, mm.what)
			mm.sig = "drain-" + mm.sig
			return mm, len(ops), st
		}
	}
	return nil, -1, st
}

func opsString(ops []sop) string {
	s := make([]string, len(ops))
	for i, o := range ops {
		s[i] = o.String()
	}
	return strings.Join(s, " ")
}

func reportSeq(r *vlib.Run, mode string, trial int, ops []sop, at int, mm *finding) {
	switch {
	case strings.HasSuffix(mm.sig, "skip"):
		r.Inconclusive("sequential histories with a blocking Next skipped after repeated stuck-consumer violations in this process")
		return
	case strings.HasSuffix(mm.sig, "inconclusive"):
		r.Inconclusive(mm.what)
		return
	case strings.Contains(mm.sig, "stuck-after-"):
		mm = &finding{strings.TrimPrefix(mm.sig, "drain-"), mm.what}
		r.Violation(mode, trial, mm.sig, fmt.Sprintf("sequential history [%s], at step %d: %s", opsString(ops), at, mm.what), map[string]interface{}{"ops": opsString(ops), "failed_at_step": at})
		return
	}
	strs := make([]string, len(ops))
	for i, o := range ops {
		strs[i] = o.String()
	}
	r.Violation(mode, trial, "seq-"+mm.sig, fmt.Sprintf("sequential history [%s], at step %d: %s", opsString(ops), at, mm.what), map[string]interface{}{"ops": strs, "failed_at_step": at})
}

var exhAlphabet = []sop{{Kind: "ins", Item: "a"}, {Kind: "ins", Item: "b"}, {Kind: "next"}, {Kind: "close"}, {Kind: "len"}, {Kind: "isclosed"}}

func exhaustive(r *vlib.Run) {
	maxLen := r.N(7, 8)
	if r.Race {
		maxLen = 5
	}
	idx := 0
	var n int64
	var agg seqStats
	var rec func(seq []sop)
	rec = func(seq []sop) {
		if len(seq) > 0 {
			mine := r.Mine(idx)
			idx++
			if mine {
				ops := append([]sop(nil), seq...)
				mm, at, st := runSeq(ops)
				r.Eval(1)
				n++
				if mm != nil {
					reportSeq(r, "exhaustive", idx-1, ops, at, mm)
				} else if st.delivered-0 > 0 && (st.dupIns > 0 || st.refused > 1 || st.delivered > 1) {
					// (the final drain always adds one refused insert)
					r.Distinct(vlib.Hash("exh", opsString(ops)))
				}
				agg.delivered += st.delivered
				agg.coalesced += st.coalesced
				agg.refused += st.refused
				agg.closedTold += st.closedTold
				agg.ctxTold += st.ctxTold
				agg.dupIns += st.dupIns
			}
		}
		if len(seq) == maxLen {
			return
		}
		for _, o := range exhAlphabet {
			rec(append(seq, o))
		}
	}
	rec(nil)
	r.Count("exh_histories", n)
	r.Count("exh_deliveries_compared", int64(agg.delivered))
	r.Count("exh_coalesced_deliveries", int64(agg.coalesced))
	r.Count("exh_duplicate_inserts", int64(agg.dupIns))
	r.Count("exh_refused_inserts", int64(agg.refused))
	r.Count("exh_closed_reports", int64(agg.closedTold))
	r.Count("exh_cancelled_next_on_empty", int64(agg.ctxTold))
	if r.Shard == 0 && !r.Race {
		r.Count("exh_max_len", int64(maxLen))
		r.Count("exh_alphabet", int64(len(exhAlphabet)))
	}
}

func seqRandom(r *vlib.Run) {
	n := r.N(20000, 200000)
	if r.Race {
		n /= 20
	}
	r.ForTrials("seqrandom", n, func(trial int, rng *rand.Rand) {
		k := 2 + rng.Intn(5)
		items := make([]interface{}, k)
		for i := range items {
			switch rng.Intn(3) {
			case 0:
				items[i] = i
			case 1:
				items[i] = fmt.Sprintf("s%d", i)
			default:
				items[i] = &tagged{i}
			}
		}
		l := 10 + rng.Intn(71)
		closeAt := -1
		if rng.Intn(3) > 0 {
			closeAt = rng.Intn(l)
		}
		pIns := 3 + rng.Intn(5)
		ops := make([]sop, l)
		for i := range ops {
			switch x := rng.Intn(12); {
			case i == closeAt:
				ops[i] = sop{Kind: "close"}
			case x < pIns:
				ops[i] = sop{Kind: "ins", Item: items[rng.Intn(k)]}
			case x < 9:
				ops[i] = sop{Kind: "next"}
			case x == 9:
				ops[i] = sop{Kind: "nextc"}
			case x == 10:
				ops[i] = sop{Kind: "len"}
			default:
				ops[i] = sop{Kind: "isclosed"}
			}
		}
		mm, at, st := runSeq(ops)
		r.Eval(1)
		if mm != nil {
			reportSeq(r, "seqrandom", trial, ops, at, mm)
			return
		}
		r.Count("seqrandom_deliveries_compared", int64(st.delivered))
		r.Count("seqrandom_coalesced_deliveries", int64(st.coalesced))
		if st.delivered > 1 && st.coalesced > 0 {
			r.Distinct(vlib.Hash("seqr", opsString(ops)))
		}
		if r.WantSample() && trial%997 == 0 {
			r.Sample(map[string]interface{}{"mode": "seqrandom", "trial": trial, "ops": opsString(ops), "deliveries": st.delivered, "coalesced": st.coalesced})
		}
	})
}

func body(r *vlib.Run) {
	if r.OnlyTrial < 0 || r.OnlyMode == "exhaustive" {
		exhaustive(r)
	}
	seqRandom(r)
	concurrent(r)
	forced(r)
}

func main() {
	vlib.Main(&vlib.Spec{
		ID: "C11",
		Rule: "exhaustive: every sequence of <= 7 (thorough 8) operations over {Insert a, Insert b, Next, Close, Len, IsClosed} on a fresh queue (Next with an already-cancelled context when the model says it would block), each result compared with the model, followed by a final Len/IsClosed/Close/drain/refused-Insert comparison; counted when >= 1 delivery and (a coalesced insert, a refused insert or a second delivery) occurred. " +
			"seqrandom: seeded sequential histories of 10-80 operations over 2-6 items of mixed dynamic type incl. Next with a cancelled context; counted when >= 2 deliveries and >= 1 coalesced delivery. " +
			"concurrent: P in 1..8 producers, one consumer, 2-20 items, 50-2000 inserts in 1-200 drained phases, ending by drain+Close, Close right after the producers, Close mid-stream, cancel mid-stream or cancel when idle; counted when the consumer was told closed (so 'everything accepted was delivered before the closed report' was judged), >= 1 coalesced delivery and >= 1 order pair were judged; hashed by the observed delivery sequence. " +
			"forced: scripted windows with gates at coalesce.next.empty (consumer between a failed next() and the select) / coalesce.insert.checked (producer about to insert while Close runs: the Insert must be refused or delivered before the closed report); counted when every requested gate was reached and the oracle judged the history; hashed by script and observed results.",
		Assumptions: []string{
			"the model (ordered list of distinct pending items, count per item, closed flag) written from the property statement is the specification of single-goroutine behaviour",
			"one consumer at a time (as subscribe.Server uses the queue); several producers; items are comparable values",
			"concurrent oracle uses only real-time precedence between completed calls (ticks of one atomic counter drawn at the harness boundary) and the linearizable reading of the statement: sum(1+dups) over the deliveries that precede the first closed report equals, per item, the number of Inserts that returned a nil error (whatever their overlap with Close); after a closed report no Next returns an item and Len is 0; an Insert may be refused only if Close was called before it returned, and must be refused if it was called after Close returned",
			"phase barriers and the stuck rule use the harness's own bookkeeping (accepted minus delivered units), not the queue's Len",
			"bounded wake-up is judged as bounded progress: a consumer in Next that has not returned for >= 10 s (and >= 80 watchdog wake-ups of the harness) after an Insert / Close / cancel completed while no other goroutine of the trial is running, with the goroutine dump showing it parked in coalesce.(*Queue).Next, is a violation; anything less is inconclusive",
			"schedules are explored by perturbation at the two schedule points and GOMAXPROCS variation, not enumerated",
		},
		QuickShards: 8, ThoroughShards: 16,
		RaceShardsThorough: 2, RaceAnchors: []string{"/coalesce/"}, RaceDeciding: false,
		MinDistinctQuick: 20000, MinDistinctThorough: 100000,
		Body: body,
	})
}
