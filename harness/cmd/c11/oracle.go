package main

import (
	"fmt"
	"math"
	"sort"
)

// History of one concurrent / forced trial, recorded at the harness boundary.
// Ticks come from one atomic counter: Call is drawn immediately before the
// call into the queue, Ret immediately after it returned.

type insRec struct {
	Item      int   `json:"item"`
	Call      int64 `json:"call"`
	Ret       int64 `json:"ret"`
	New       bool  `json:"new"`
	Err       bool  `json:"err"`
	ErrClosed bool  `json:"err_closed,omitempty"`
	Prod      int   `json:"prod"`
}

const (
	errNone   = ""
	errClosed = "closed"
	errCtx    = "ctx"
	errOther  = "other"
)

type nextRec struct {
	Item  int    `json:"item"` // -1: not an item of the trial
	Dups  uint32 `json:"dups"`
	Call  int64  `json:"call"`
	Ret   int64  `json:"ret"`
	Err   string `json:"err,omitempty"`
	Raw   string `json:"raw,omitempty"` // rendering of unexpected values
	Drain bool   `json:"drain,omitempty"`
}

const never = int64(math.MaxInt64)

type history struct {
	NItems     int
	Ins        []insRec
	Nexts      []nextRec // consumer order (single consumer at any time)
	CloseCall  int64     // earliest call tick of a Close, never if none
	CloseRet   int64     // earliest return tick of a Close, never if none
	CancelCall int64     // tick drawn immediately before cancel(), never if none
}

type finding struct{ sig, what string }

type judgeStats struct {
	accepted, refused, newIns, inflight   int64
	deliveries, units, coalesced          int64
	orderJudged, orderAmbiguous           int64
	prefixJudged                          int64
	closedTold, ctxTold                   bool
	lowerJudged                           bool
	undeliveredInflight, recoveredByDrain int64
	allBeforeClosed                       bool
}

type deliv struct {
	pos       int
	call, ret int64
	units     int64
}

// judge applies the concurrent oracle to a complete history (every call has
// returned). It is sound for any schedule: each clause only uses real-time
// precedence between completed calls.
func judge(h *history) ([]finding, judgeStats) {
	var fs []finding
	var st judgeStats
	seen := map[string]bool{}
	add := func(sig, format string, a ...interface{}) {
		if seen[sig] {
			return
		}
		seen[sig] = true
		fs = append(fs, finding{sig, fmt.Sprintf(format, a...)})
	}
	n := h.NItems
	// Inserts.
	accCall := make([][]int64, n) // call ticks of accepted inserts per item (sorted later)
	accRet := make([][]int64, n)
	A := make([]int64, n)
	B := make([]int64, n)
	trueA := make([]int64, n)
	trueB := make([]int64, n)
	var trues []insRec
	for _, in := range h.Ins {
		if in.Err {
			st.refused++
			if in.Ret < h.CloseCall {
				add("spurious-refusal", "Insert(%d) [call %d, ret %d] returned an error although Close had not been called yet (first Close call tick %s)", in.Item, in.Call, in.Ret, tk(h.CloseCall))
			}
			continue
		}
		st.accepted++
		if in.Call > h.CloseRet {
			add("accepted-after-close", "Insert(%d) called at tick %d after Close had returned at tick %d was accepted (new=%v, nil error)", in.Item, in.Call, h.CloseRet, in.New)
		}
		accCall[in.Item] = append(accCall[in.Item], in.Call)
		accRet[in.Item] = append(accRet[in.Item], in.Ret)
		A[in.Item]++
		before := in.Ret < h.CloseCall
		if before {
			B[in.Item]++
		} else {
			st.inflight++
		}
		if in.New {
			st.newIns++
			trueA[in.Item]++
			if before {
				trueB[in.Item]++
			}
			trues = append(trues, in)
		}
	}
	for i := 0; i < n; i++ {
		sort.Slice(accCall[i], func(a, b int) bool { return accCall[i][a] < accCall[i][b] })
		sort.Slice(accRet[i], func(a, b int) bool { return accRet[i][a] < accRet[i][b] })
	}
	// Deliveries.
	dl := make([][]deliv, n)
	Dbefore := make([]int64, n) // units delivered before the consumer was told "closed"
	Dtotal := make([]int64, n)
	nBefore := make([]int64, n)
	pos := 0
	for k, nx := range h.Nexts {
		switch nx.Err {
		case errNone:
			if nx.Item < 0 || nx.Item >= n {
				add("phantom-item", "Next #%d returned %s which was never inserted in this trial", k, nx.Raw)
				continue
			}
			u := int64(1) + int64(nx.Dups)
			dl[nx.Item] = append(dl[nx.Item], deliv{pos: pos, call: nx.Call, ret: nx.Ret, units: u})
			pos++
			st.deliveries++
			st.units += u
			if nx.Dups > 0 {
				st.coalesced++
			}
			Dtotal[nx.Item] += u
			if !st.closedTold {
				Dbefore[nx.Item] += u
				nBefore[nx.Item]++
			} else {
				st.recoveredByDrain += u
				add("item-after-closed", "Next #%d [call %d, ret %d] returned item %d (dups %d) after an earlier Next had already reported the queue closed: a closed report must be final and everything accepted must have been delivered before it", k, nx.Call, nx.Ret, nx.Item, nx.Dups)
			}
		case errClosed:
			if nx.Ret < h.CloseCall {
				add("closed-without-close", "Next #%d [call %d, ret %d] reported the queue closed although Close had not been called (first Close call tick %s)", k, nx.Call, nx.Ret, tk(h.CloseCall))
			}
			st.closedTold = true
		case errCtx:
			if nx.Ret < h.CancelCall {
				add("next-spurious-error", "Next #%d [call %d, ret %d] returned a context error although its context was not cancelled yet (cancel tick %s)", k, nx.Call, nx.Ret, tk(h.CancelCall))
			}
			st.ctxTold = true
		default:
			add("next-spurious-error", "Next #%d returned unexpected error %s", k, nx.Raw)
		}
	}
	// Conservation and per-delivery counts.
	var sumA, sumB, sumDb, sumDt int64
	for i := 0; i < n; i++ {
		sumA += A[i]
		sumB += B[i]
		sumDb += Dbefore[i]
		sumDt += Dtotal[i]
		if Dtotal[i] > A[i] {
			add("conservation-excess", "item %d: sum(1+dups) over its %d deliveries = %d exceeds the %d Inserts of it that were accepted", i, len(dl[i]), Dtotal[i], A[i])
		}
		if int64(len(dl[i])) > trueA[i] {
			add("new-flag", "item %d was delivered %d times but only %d Inserts of it reported it as new", i, len(dl[i]), trueA[i])
		}
		if st.closedTold {
			if Dbefore[i] < B[i] {
				add("conservation-lost", "item %d: %d Inserts of it completed (nil error) before Close was called at tick %s, but sum(1+dups) over its deliveries before the consumer was told 'closed' is only %d", i, B[i], tk(h.CloseCall), Dbefore[i])
			} else if Dbefore[i] < A[i] {
				// Linearizable reading (D30): an Insert that returned a nil error took
				// effect before the queue was closed, whatever its overlap with Close.
				add("accepted-but-not-delivered-before-closed", "item %d: %d Inserts of it returned a nil error (%d of them overlapping or following the Close call at tick %s), but sum(1+dups) over its deliveries before the consumer was told 'closed' is only %d: an accepted insertion was dropped or left behind", i, A[i], A[i]-B[i], tk(h.CloseCall), Dbefore[i])
			}
			if nBefore[i] < trueB[i] {
				add("new-flag", "item %d: %d Inserts that completed before Close reported it as new (each starts a separate pending episode) but it was delivered only %d times before 'closed'", i, trueB[i], nBefore[i])
			}
		}
		var cum int64
		for j, d := range dl[i] {
			cum += d.units
			st.prefixJudged++
			lo := int64(sort.Search(len(accRet[i]), func(k int) bool { return accRet[i][k] >= d.call }))
			hi := int64(sort.Search(len(accCall[i]), func(k int) bool { return accCall[i][k] >= d.ret }))
			if cum < lo {
				add("delivery-undercount", "item %d, delivery %d (Next [call %d, ret %d], dups %d): %d accepted Inserts of it had returned before this Next was called, but the deliveries so far account for only %d", i, j+1, d.call, d.ret, d.units-1, lo, cum)
			}
			if cum > hi {
				add("delivery-overcount", "item %d, delivery %d (Next [call %d, ret %d], dups %d): the deliveries so far account for %d insertions but only %d accepted Inserts of it had been called before this Next returned", i, j+1, d.call, d.ret, d.units-1, cum, hi)
			}
		}
	}
	st.lowerJudged = st.closedTold
	if st.closedTold && sumDb < sumB {
		add("conservation-lost", "in total %d insertions completed before Close, only %d accounted for by deliveries before 'closed'", sumB, sumDb)
	} else if st.closedTold && sumDb < sumA {
		add("accepted-but-not-delivered-before-closed", "in total %d Inserts returned a nil error, only %d accounted for by deliveries before 'closed'", sumA, sumDb)
	}
	st.allBeforeClosed = st.closedTold && sumDb == sumA
	st.undeliveredInflight = sumA - sumDt
	if st.undeliveredInflight < 0 {
		st.undeliveredInflight = 0
	}

	// Order: if Insert(x) returned new=true before Insert(y) (new=true) was
	// called, x's pending episode started first, so x is delivered before y.
	// The delivery that ends the episode of a given Insert is only known up to
	// a range when calls overlap; a violation is reported only when the
	// earliest feasible delivery of x is after the latest feasible one of y.
	type tinfo struct {
		in       insRec
		earliest int // position of the earliest feasible delivery, MaxInt if none
		latest   int // position of the latest feasible delivery, MaxInt if possibly undelivered
	}
	// Per item: call and return ticks of the Inserts that reported "new".
	tCall := make([][]int64, n)
	tRet := make([][]int64, n)
	for _, in := range trues {
		tCall[in.Item] = append(tCall[in.Item], in.Call)
		tRet[in.Item] = append(tRet[in.Item], in.Ret)
	}
	for i := 0; i < n; i++ {
		sort.Slice(tCall[i], func(a, b int) bool { return tCall[i][a] < tCall[i][b] })
		sort.Slice(tRet[i], func(a, b int) bool { return tRet[i][a] < tRet[i][b] })
	}
	ti := make([]tinfo, len(trues))
	for k, in := range trues {
		d := dl[in.Item]
		// The Insert is the e-th "new" Insert of its item in linearization
		// order, and its episode ends with the e-th delivery of the item
		// (0-based e). Necessary conditions from real-time precedence:
		//   deliveries that returned before it was called   <= e <= deliveries called before it returned
		//   "new" Inserts that returned before it was called <= e <= "new" Inserts called before it returned, minus itself
		dLo := sort.Search(len(d), func(j int) bool { return d[j].ret > in.Call })
		dHi := sort.Search(len(d), func(j int) bool { return d[j].call >= in.Ret })
		rLo := sort.Search(len(tRet[in.Item]), func(j int) bool { return tRet[in.Item][j] >= in.Call })
		rHi := sort.Search(len(tCall[in.Item]), func(j int) bool { return tCall[in.Item][j] >= in.Ret }) - 1
		if rHi < dLo {
			add("new-flag", "item %d: %d deliveries of it had returned before Insert [call %d, ret %d, new=true] was called, but at most %d other Inserts of it that reported 'new' can precede this one: a delivery without a first insertion", in.Item, dLo, in.Call, in.Ret, rHi)
		}
		if rLo > dHi {
			add("new-flag", "item %d: Insert [call %d, ret %d] reported 'new' although %d earlier Inserts of it had already returned 'new' and at most %d deliveries of it can have happened before this Insert returned: the item was still pending", in.Item, in.Call, in.Ret, rLo, dHi)
		}
		kmin, kmax := dLo, dHi
		if rLo > kmin {
			kmin = rLo
		}
		if rHi < kmax {
			kmax = rHi
		}
		t := tinfo{in: in, earliest: math.MaxInt, latest: math.MaxInt}
		if kmin > kmax {
			ti[k] = t // inconsistent (reported above): not used for ordering
			ti[k].earliest = -1
			continue
		}
		if kmin < len(d) {
			t.earliest = d[kmin].pos
		}
		if kmax < len(d) {
			t.latest = d[kmax].pos
		}
		if kmax != kmin {
			st.orderAmbiguous++
		}
		ti[k] = t
	}
	byRet := make([]int, len(ti))
	byCall := make([]int, len(ti))
	for k := range ti {
		byRet[k], byCall[k] = k, k
	}
	sort.Slice(byRet, func(a, b int) bool { return ti[byRet[a]].in.Ret < ti[byRet[b]].in.Ret })
	sort.Slice(byCall, func(a, b int) bool { return ti[byCall[a]].in.Call < ti[byCall[b]].in.Call })
	b1, b2 := -1, -1 // indices into ti: largest earliest, and largest earliest among other items
	p := 0
	for _, yk := range byCall {
		y := ti[yk]
		for p < len(byRet) && ti[byRet[p]].in.Ret < y.in.Call {
			xk := byRet[p]
			p++
			x := ti[xk]
			switch {
			case b1 < 0:
				b1 = xk
			case ti[b1].in.Item == x.in.Item:
				if x.earliest > ti[b1].earliest {
					b1 = xk
				}
			case x.earliest > ti[b1].earliest:
				b2 = b1
				b1 = xk
			case b2 < 0 || x.earliest > ti[b2].earliest:
				b2 = xk
			}
		}
		c := b1
		if c >= 0 && ti[c].in.Item == y.in.Item {
			c = b2
		}
		if c < 0 || y.latest == math.MaxInt {
			continue
		}
		st.orderJudged++
		if x := ti[c]; x.earliest > y.latest {
			when := fmt.Sprintf("not before delivery position %d", x.earliest)
			if x.earliest == math.MaxInt {
				when = "never"
			}
			add("order", "Insert(%d) returned new=true at tick %d (producer %d) before Insert(%d) was called at tick %d (new=true, producer %d), yet %d was delivered at position <= %d and %d %s", x.in.Item, x.in.Ret, x.in.Prod, y.in.Item, y.in.Call, y.in.Prod, y.in.Item, y.latest, x.in.Item, when)
		}
	}
	return fs, st
}

func tk(t int64) string {
	if t == never {
		return "never"
	}
	return fmt.Sprint(t)
}

// trim returns a bounded copy of a history for a witness.
func (h *history) trim(max int) map[string]interface{} {
	ins, nx := h.Ins, h.Nexts
	cut := false
	if len(ins) > max {
		ins, cut = ins[:max], true
	}
	if len(nx) > max {
		nx, cut = nx[:max], true
	}
	return map[string]interface{}{"items": h.NItems, "inserts": ins, "nexts": nx, "close_call": tk(h.CloseCall), "close_ret": tk(h.CloseRet), "cancel": tk(h.CancelCall), "truncated": cut, "n_inserts": len(h.Ins), "n_nexts": len(h.Nexts)}
}
