package main

import (
	"context"
	"fmt"
	"math/rand"
	"os"
	"sort"
	"strings"
	"sync/atomic"
	"time"

	"google.golang.org/protobuf/proto"

	"github.com/openconfig/gnmi/cache"
	"github.com/openconfig/gnmi/ctree"
	"github.com/openconfig/gnmi/errlist"
	"github.com/openconfig/gnmi/latency"
	pb "github.com/openconfig/gnmi/proto/gnmi"
	"github.com/openconfig/gnmi/subscribe"

	"verif/internal/model"
	"verif/internal/vlib"
)

// Entry point 1: Cache.GnmiUpdate followed by UpdateMetadata / UpdateSize /
// Reset / Query, directly and behind the collector's stamping logic.

// Virtual clock for cache.Now and latency.Now (package variables meant for tests).
var vclock int64 = 1_000_000_000_000

func vnow() time.Time { return time.Unix(0, atomic.LoadInt64(&vclock)) }

var latencyWindows = []string{"2s", "4s"}

const latencyPeriod = 2 * time.Second

// installGlobals makes the process-wide state identical for every trial, so a
// trial is reproducible from (seed, mode, trial) alone: the latency and server
// name metadata are registered once (they live in package-level maps of
// /repo/metadata) and the clocks are virtual.
func installGlobals() {
	cache.Now = vnow
	latency.Now = vnow
	opt, err := cache.WithLatencyWindows(latencyWindows, latencyPeriod)
	if err != nil {
		panic(err)
	}
	cache.New(nil, opt, cache.WithServerName("c12"))
}

var stateKinds = []string{"empty", "populated", "after-reset", "meta-confused", "latency", "collector"}

type cacheEnv struct {
	kind    string
	c       *cache.Cache
	targets []string
	stamp   bool // messages pass through the collector's Update callback
	srv     *subscribe.Server
	streams []*vlib.Stream
	dones   []chan struct{}
	snap    map[string]map[string]string // target -> key -> deterministic encoding of the stored notification
	leaves  map[string]map[string]*pb.Notification
	memo    map[*pb.Notification]string  // encoding of a stored notification, taken when it is first seen
	content map[string]map[string]string // as snap, without the object identity (comparable across caches)
	dead    bool                         // a panic was recovered: locks may still be held, the cache must not be touched again
}

var detMarshal = proto.MarshalOptions{Deterministic: true}

// snapshot reads the whole content of every target through Cache.Query.
func (e *cacheEnv) snapshot() (pi *panicInfo) {
	snap := map[string]map[string]string{}
	content := map[string]map[string]string{}
	leaves := map[string]map[string]*pb.Notification{}
	if e.memo == nil {
		e.memo = map[*pb.Notification]string{}
	}
	pi = guard(func() {
		for _, t := range e.targets {
			m := map[string]string{}
			cm := map[string]string{}
			l := map[string]*pb.Notification{}
			e.c.Query(t, []string{"*"}, func(p []string, _ *ctree.Leaf, v interface{}) error {
				k := model.Key(p)
				if n, ok := v.(*pb.Notification); ok {
					enc, seen := e.memo[n]
					if !seen {
						b, _ := detMarshal.Marshal(n)
						enc = fmt.Sprintf("%p:", n) + string(b)
						e.memo[n] = enc
					}
					m[k] = enc
					cm[k] = enc[strings.IndexByte(enc, ':')+1:]
					l[k] = n
				} else {
					m[k] = fmt.Sprintf("non-notification %T", v)
				}
				return nil
			})
			snap[t] = m
			content[t] = cm
			leaves[t] = l
		}
	})
	e.snap, e.leaves, e.content = snap, leaves, content
	return pi
}

func (e *cacheEnv) close() {
	for _, s := range e.streams {
		s.Cancel()
	}
	for _, d := range e.dones {
		select {
		case <-d:
		case <-time.After(30 * time.Second): // watchdog only
		}
	}
}

// stampLikeCollector is what gnmi_collector's manager Update callback does
// before handing a notification to the cache (cmd/gnmi_collector, runCollector).
func stampLikeCollector(target string, v *pb.Notification) {
	if prefix := v.GetPrefix(); prefix == nil {
		v.Prefix = &pb.Path{Origin: "openconfig", Target: target}
	} else {
		if prefix.Origin == "" {
			prefix.Origin = "openconfig"
		}
		prefix.Target = target
	}
}

type allowACL struct{}

func (allowACL) Check(string) bool { return true }

type serverACL struct{}

func (serverACL) NewRPCACL(context.Context) (subscribe.RPCACL, error) { return allowACL{}, nil }
func (serverACL) Check(string, string) bool                           { return true }

func up(target, origin string, ts int64, atomicN bool, pre []string, parts ...*pb.Update) *pb.Notification {
	n := &pb.Notification{Timestamp: ts, Prefix: &pb.Path{Target: target, Origin: origin}, Atomic: atomicN, Update: parts}
	for _, e := range pre {
		n.Prefix.Elem = append(n.Prefix.Elem, &pb.PathElem{Name: e})
	}
	return n
}

func leaf(v *pb.TypedValue, names ...string) *pb.Update {
	p := &pb.Path{}
	for _, e := range names {
		p.Elem = append(p.Elem, &pb.PathElem{Name: e})
	}
	return &pb.Update{Path: p, Val: v}
}

func tvS(s string) *pb.TypedValue {
	return &pb.TypedValue{Value: &pb.TypedValue_StringVal{StringVal: s}}
}
func tvI(i int64) *pb.TypedValue { return &pb.TypedValue{Value: &pb.TypedValue_IntVal{IntVal: i}} }
func tvB(b bool) *pb.TypedValue  { return &pb.TypedValue{Value: &pb.TypedValue_BoolVal{BoolVal: b}} }
func tvD(d float64) *pb.TypedValue {
	return &pb.TypedValue{Value: &pb.TypedValue_DoubleVal{DoubleVal: d}}
}

// populate stores the "hot" leaves the grammar aims at, through the real ingest path.
func populate(c *cache.Cache, t string, ts int64) {
	msgs := []*pb.Notification{
		up(t, "", ts, false, nil, leaf(tvD(1.5), "a", "b")),
		up(t, "", ts, false, []string{"a"}, leaf(tvS("x"), "c")),
		up(t, "", ts, false, nil, leaf(tvI(1), "b")),
		up(t, "", ts, true, []string{"c", "d"}, leaf(tvI(1), "x"), leaf(tvS("y"), "y")),
		up(t, "", ts, false, nil, &pb.Update{Path: &pb.Path{Elem: []*pb.PathElem{{Name: "d", Key: map[string]string{"k": "v"}}, {Name: "e"}}}, Val: tvB(true)}),
		up(t, "", ts, false, nil, &pb.Update{Path: &pb.Path{Element: []string{"e", "f"}}, Val: tvD(2)}),
		up(t, "oc", ts, false, nil, leaf(tvS("o"), "x")),
	}
	for _, m := range msgs {
		c.GnmiUpdate(m)
	}
	c.Sync(t)
	c.Connect(t)
	c.UpdateMetadata()
	c.UpdateSize()
}

// buildState creates a cache in one of the states a message is tried against.
func buildState(kind string, rng *rand.Rand, ts int64) *cacheEnv {
	e := &cacheEnv{kind: kind, targets: append([]string{}, knownTargets...)}
	switch kind {
	case "empty":
		e.c = cache.New(e.targets)
	case "populated":
		e.c = cache.New(e.targets)
		populate(e.c, "dev1", ts)
	case "after-reset":
		e.c = cache.New(e.targets)
		populate(e.c, "dev1", ts)
		populate(e.c, "dev2", ts)
		e.c.Reset("dev1")
	case "meta-confused":
		e.c = cache.New(e.targets)
		populate(e.c, "dev1", ts)
		// Leaves under meta/ holding another type than the registered entry (a
		// peer can store them: only sync/connected/connectedAddress/connectError
		// are type-checked on ingest).
		pool := []*pb.TypedValue{tvS("str"), tvB(true), tvD(1.5), nil, {}, tvI(3)}
		for _, l := range []string{"targetLeaves", "targetSize", "latestTimestamp", "serverName", "targetLeavesAdded", "targetLeavesUpdated"} {
			if rng.Intn(3) > 0 {
				e.c.GnmiUpdate(up("dev1", "", ts+1, false, nil, leaf(pool[rng.Intn(len(pool))], "meta", l)))
			}
		}
		if rng.Intn(2) == 0 {
			e.c.GnmiUpdate(up("dev1", "", ts+1, false, nil, leaf(tvS("lat"), "meta", "latency", "window", "2s", "avg")))
		}
		if rng.Intn(2) == 0 { // meta/sync made a branch
			e.c.GnmiUpdate(up("dev2", "", ts+1, false, nil, leaf(tvS("deep"), "meta", "sync", "x")))
		}
	case "latency":
		opt, _ := cache.WithLatencyWindows(latencyWindows, latencyPeriod)
		opts := []cache.Option{opt, cache.WithServerName("c12"), cache.WithFutureThreshold(time.Hour)}
		if rng.Intn(2) == 0 {
			opts = append(opts, cache.WithAvgLatencyPrecision(time.Millisecond))
		}
		if rng.Intn(3) == 0 {
			opts = append(opts, cache.DisableEventDrivenEmulation())
		}
		e.c = cache.New(e.targets, opts...)
		populate(e.c, "dev1", ts)
	case "collector":
		// As gnmi_collector wires it: empty cache, configured targets added, the
		// subscribe server is the cache's client and has live subscribers.
		opts := []cache.Option{}
		if rng.Intn(2) == 0 {
			opts = append(opts, cache.WithExcludedMeta([]string{"targetSize", "sync"}))
		}
		e.c = cache.New(nil, opts...)
		for _, t := range e.targets {
			e.c.Add(t)
		}
		sopts := []subscribe.Option{}
		if rng.Intn(2) == 0 {
			sopts = append(sopts, subscribe.WithStats())
		}
		if rng.Intn(3) == 0 {
			sopts = append(sopts, subscribe.WithACL(serverACL{}))
		}
		e.srv, _ = subscribe.NewServer(e.c, sopts...)
		e.c.SetClient(e.srv.Update)
		e.stamp = true
		if rng.Intn(4) > 0 {
			populate(e.c, "dev1", ts)
		}
		subs := []*pb.SubscribeRequest{
			{Request: &pb.SubscribeRequest_Subscribe{Subscribe: &pb.SubscriptionList{Prefix: &pb.Path{Target: "*"}, Mode: pb.SubscriptionList_STREAM,
				Subscription: []*pb.Subscription{{Path: &pb.Path{Elem: []*pb.PathElem{{Name: "*"}}}}}}}},
			{Request: &pb.SubscribeRequest_Subscribe{Subscribe: &pb.SubscriptionList{Prefix: &pb.Path{Target: "dev1", Origin: "openconfig"}, Mode: pb.SubscriptionList_STREAM, UpdatesOnly: true,
				Subscription: []*pb.Subscription{{Path: &pb.Path{Elem: []*pb.PathElem{{Name: "a"}}}}, {Path: &pb.Path{Elem: []*pb.PathElem{{Name: "a"}, {Name: "b"}}}}}}}},
			{Request: &pb.SubscribeRequest_Subscribe{Subscribe: &pb.SubscriptionList{Prefix: &pb.Path{Target: "dev1"}, Mode: pb.SubscriptionList_STREAM,
				Subscription: []*pb.Subscription{{Path: &pb.Path{Elem: []*pb.PathElem{{Name: "meta"}}}}}}}},
		}
		for _, sr := range subs {
			st := vlib.NewStream(context.Background(), "c12")
			st.Push(sr)
			done := make(chan struct{})
			srv := e.srv
			go func() {
				defer close(done)
				srv.Subscribe(st) // a panic here is on this goroutine's own stack: it ends the child, the parent classifies it
			}()
			e.streams = append(e.streams, st)
			e.dones = append(e.dones, done)
		}
	}
	return e
}

func shapeOf(n *pb.Notification) string {
	switch {
	case n.GetAtomic():
		return "atomic"
	case len(n.GetUpdate())+len(n.GetDelete()) > 1:
		return "multi"
	case len(n.GetUpdate()) == 1:
		return "single-update"
	case len(n.GetDelete()) == 1:
		return "single-delete"
	}
	return "empty"
}

// partVerdicts says, for a multi-part notification, which of its update parts
// the cache accepts when each part is sent on its own ("each individual
// Update/Delete is sent to cache as a separate gnmi.Notification"), in order,
// starting from the state the cache was in before the message. nil: unknown.
type partVerdicts func() []bool

// holdsPart reports whether the stored notification s is exactly what the
// update part u of notification n carries: same prefix, path and value, the
// notification's timestamp, nothing else.
func holdsPart(s, n *pb.Notification, u *pb.Update) bool {
	return s != nil && s.GetTimestamp() == n.GetTimestamp() && !s.GetAtomic() && len(s.GetUpdate()) == 1 && len(s.GetDelete()) == 0 &&
		proto.Equal(s.GetUpdate()[0], u) && proto.Equal(s.GetPrefix(), n.GetPrefix())
}

func describeStored(s *pb.Notification) string {
	if s == nil {
		return "<not a notification>"
	}
	return truncate(ptext(s), 300)
}

// checkRejected is oracle (2): a rejected message leaves stored data intact.
// Single-update, single-delete and atomic notifications, and multi-part ones
// of which every part was rejected: the content is identical before and after.
// Other multi-part notifications: every leaf is either identical to what it
// was, or holds exactly what an ACCEPTED update part addressed to that leaf's
// own index path carries, or was removed by a delete part that covers it --
// never content of a rejected part or of another path.
func checkRejected(r *vlib.Run, n *pb.Notification, err error, before, after map[string]map[string]string, afterLeaves map[string]map[string]*pb.Notification, verdicts partVerdicts) (sig, what string) {
	shape := shapeOf(n)
	whole := shape != "multi"
	if !whole {
		// Every part was rejected: nothing may change at all.
		if el, ok := err.(errlist.Errors); ok && len(n.GetDelete()) == 0 && len(el.Errors()) == len(n.GetUpdate()) {
			whole = true
			r.Count("oracle2_multi_all_parts_rejected", 1)
		}
	}
	target := n.GetPrefix().GetTarget()
	pre := n.GetPrefix()
	var (
		accepted []bool
		asked    bool
		upKeys   []string
		delQ     [][]string
	)
	if !whole {
		for _, u := range n.GetUpdate() {
			upKeys = append(upKeys, model.Key(model.CacheIndex(pre, u.GetPath())))
		}
		for _, d := range n.GetDelete() {
			delQ = append(delQ, model.CacheIndex(pre, d))
		}
	}
	compared := 0
	for t, bm := range before {
		am := after[t]
		keys := map[string]struct{}{}
		for k := range bm {
			keys[k] = struct{}{}
		}
		for k := range am {
			keys[k] = struct{}{}
		}
		for k := range keys {
			compared++
			bv, bok := bm[k]
			av, aok := am[k]
			if bok == aok && bv == av {
				continue
			}
			leafName := t + "/" + strings.Join(model.Unkey(k), "/")
			state := "changed"
			if !aok {
				state = "removed"
			} else if !bok {
				state = "created"
			}
			if whole || t != target {
				return "rejected-message-changed-cache:" + shape,
					fmt.Sprintf("GnmiUpdate returned %q for a %s notification, yet leaf %s was %s", err, shape, leafName, state)
			}
			if !aok {
				covered := false
				for _, q := range delQ {
					if model.MatchQ(q, model.Unkey(k)) {
						covered = true
					}
				}
				if !covered {
					return "rejected-message-changed-cache:multi",
						fmt.Sprintf("GnmiUpdate returned %q for a multi-part notification, yet leaf %s was removed although no delete of the notification covers it", err, leafName)
				}
				r.Count("oracle2_multi_removed_leaves_justified", 1)
				continue
			}
			// The leaf holds something new: it must be what an accepted part
			// addressed to this very leaf carries.
			if !asked {
				asked = true
				accepted = verdicts()
				if accepted == nil {
					r.Count("oracle2_multi_part_verdicts_unavailable", 1)
				} else {
					r.Count("oracle2_multi_part_verdicts_by_replay", 1)
				}
			}
			stored := afterLeaves[t][k]
			justified, addressedHere, rejectedHere := false, false, false
			for i, u := range n.GetUpdate() {
				if upKeys[i] != k {
					continue
				}
				addressedHere = true
				if accepted != nil && !accepted[i] {
					rejectedHere = true
					continue
				}
				if holdsPart(stored, n, u) {
					justified = true
				}
			}
			if !justified {
				why := "no update of the notification is addressed to that leaf"
				switch {
				case addressedHere && rejectedHere:
					why = "the parts addressed to that leaf are rejected when sent on their own, or carry something else"
				case addressedHere:
					why = "it is not what the part addressed to that leaf carries (same prefix, path and value, the notification's timestamp)"
				}
				return "rejected-message-changed-cache:multi",
					fmt.Sprintf("GnmiUpdate returned %q for a multi-part notification, yet leaf %s now holds %s: %s", err, leafName, describeStored(stored), why)
			}
			r.Count("oracle2_multi_changed_leaves_justified", 1)
		}
	}
	r.Count("oracle2_rejected_"+shape+"_checked", 1)
	r.Count("oracle2_leaves_compared", int64(compared))
	return "", ""
}

// verdictsByReplay decides accepted / rejected per update part by sending the
// parts one at a time, as single-part notifications, to a cache that is in
// the state the real one was in before the message (trusted only if its
// content equals the content the real cache had). afterContent() is the real
// content after the message: if the twin ends up with the same content it
// stays in use, otherwise it is dropped and re-created when next needed.
func (ct *cacheTrial) verdictsByReplay(n *pb.Notification, beforeContent map[string]map[string]string, afterContent func() map[string]map[string]string) partVerdicts {
	return func() []bool {
		env := ct.twinBefore(beforeContent)
		if env == nil {
			return nil
		}
		part := func() *pb.Notification {
			// The same notification restricted to one part (unknown fields and
			// all: they take part in the cache's equal-timestamp comparison).
			sp := proto.Clone(n).(*pb.Notification)
			sp.Update, sp.Delete = nil, nil
			return sp
		}
		out := make([]bool, len(n.GetUpdate()))
		for i, u := range n.GetUpdate() {
			sp := part()
			sp.Update = []*pb.Update{proto.Clone(u).(*pb.Update)}
			var err error
			if guard(func() { err = env.c.GnmiUpdate(sp) }) != nil {
				ct.dropTwin()
				return nil
			}
			out[i] = err == nil
		}
		for _, d := range n.GetDelete() {
			sp := part()
			sp.Delete = []*pb.Path{proto.Clone(d).(*pb.Path)}
			if guard(func() { env.c.GnmiUpdate(sp) }) != nil {
				ct.dropTwin()
				return out
			}
		}
		switch {
		case ct.env.kind == "latency":
			// A future threshold is configured: acceptance then also depends on
			// the target's latest timestamp, hidden state that the part-by-part
			// replay advances differently from the real call. The twin is not
			// kept; the next verdict starts from an exact re-creation.
			ct.dropTwin()
		case env.snapshot() == nil && sameContent(env.content, afterContent()):
			ct.twinPos = len(ct.applied)
		default:
			ct.r.Count("oracle2_twin_diverged_after_parts", 1)
			ct.dropTwin()
		}
		return out
	}
}

// staleCounterKey is the one leaf whose value is not a function of the history:
// the metadata refresh walks a Go map of entries, and a refresh update that is
// itself rejected as stale (a peer stored a newer leaf under meta/) bumps the
// stale counter before or after that counter's own leaf is written.
var staleCounterKey = model.Key([]string{"meta", "targetLeavesStale"})

func sameContent(a, b map[string]map[string]string) bool {
	if len(a) != len(b) {
		return false
	}
	for t, am := range a {
		bm, ok := b[t]
		if !ok || len(am) != len(bm) {
			return false
		}
		for k, v := range am {
			if bv, ok := bm[k]; !ok || (bv != v && k != staleCounterKey) {
				return false
			}
		}
	}
	return true
}

type histEntry struct {
	Op  string `json:"op"`
	Msg string `json:"message,omitempty"`
	Out string `json:"outcome,omitempty"`
}

// cacheTrial drives one cache through a sequence of peer messages and
// maintenance calls. source yields the next wire-valid notification (nil = none).
type cacheTrial struct {
	r      *vlib.Run
	mode   string
	trial  int
	rng    *rand.Rand
	env    *cacheEnv
	hist   []histEntry
	hash   []interface{}
	judged int
	// For re-creating the exact state when a crash is isolated: the seed the
	// state was built from, the clock at the start and everything applied since.
	stateSeed  int64
	startClock int64
	applied    []appliedOp
	// twin is a second cache that trails the real one: it is brought to the
	// state before the current message only when the oracle needs per-part
	// verdicts, by replaying what was applied since it was last used.
	twin    *cacheEnv
	twinPos int // twin has consumed applied[:twinPos]
}

type appliedOp struct {
	op    string           // maintenance call, or "" for a message
	n     *pb.Notification // the message as handed to GnmiUpdate (copy taken before the call)
	clock int64            // the virtual clock when it was applied
}

func (ct *cacheTrial) violation(entry, class string, pi *panicInfo, op string, msg proto.Message) {
	sig := entry + ":" + class
	w := map[string]interface{}{"entry_point": entry, "state": ct.env.kind, "input_class": class, "panic": pi, "op": op, "history": ct.hist}
	if msg != nil {
		w["message"] = ptext(msg)
		w["fingerprint"] = fingerprint(msg)
	}
	ct.r.Violation(ct.mode, ct.trial, sig, fmt.Sprintf("%s: %s on cache state %q, input class %s: %s; message: %s", entry, op, ct.env.kind, class, pi, truncate(ptext(msg), 400)), w)
	ct.env.dead = true
}

func (ct *cacheTrial) stateFor(n *pb.Notification) *cacheState { return ct.env.stateFor(n) }

func (e *cacheEnv) stateFor(n *pb.Notification) *cacheState {
	t := n.GetPrefix().GetTarget()
	leaves := e.leaves[t]
	st := &cacheState{targetEmpty: len(leaves) == 0}
	st.stored = func(idx []string) *pb.Notification { return leaves[model.Key(idx)] }
	return st
}

// replayOps applies recorded calls to env, each at the virtual time it was
// originally applied at; the clock is restored afterwards.
func replayOps(env *cacheEnv, ops []appliedOp) bool {
	cur := atomic.LoadInt64(&vclock)
	defer atomic.StoreInt64(&vclock, cur)
	for _, a := range ops {
		atomic.StoreInt64(&vclock, a.clock)
		var pi *panicInfo
		if a.n != nil {
			c := proto.Clone(a.n).(*pb.Notification)
			pi = guard(func() { env.c.GnmiUpdate(c) })
		} else {
			pi = runMaintenance(env, a.op)
		}
		if pi != nil {
			return false
		}
	}
	return true
}

// rebuild re-creates the trial's cache as it was just before the last applied
// message: same state seed, same clock, same sequence of calls.
func (ct *cacheTrial) rebuild() *cacheEnv {
	var env *cacheEnv
	cur := atomic.LoadInt64(&vclock)
	atomic.StoreInt64(&vclock, ct.startClock)
	pi := guard(func() {
		env = buildState(ct.env.kind, rand.New(rand.NewSource(ct.stateSeed)), ct.startClock-2*int64(time.Second))
	})
	atomic.StoreInt64(&vclock, cur)
	if pi != nil {
		return nil
	}
	if !replayOps(env, ct.applied[:len(ct.applied)-1]) {
		env.close()
		return nil
	}
	return env
}

// twinBefore returns a cache whose content equals beforeContent, the content
// the real cache had before the last applied message: the trailing twin
// brought up to date, or failing that a re-creation from scratch. nil if
// neither reproduces that content.
func (ct *cacheTrial) twinBefore(beforeContent map[string]map[string]string) *cacheEnv {
	p := len(ct.applied) - 1
	if ct.twin != nil {
		if replayOps(ct.twin, ct.applied[ct.twinPos:p]) && ct.twin.snapshot() == nil && sameContent(ct.twin.content, beforeContent) {
			ct.twinPos = p
			return ct.twin
		}
		ct.dropTwin()
		ct.r.Count("oracle2_twin_resynchronised_from_scratch", 1)
	}
	env := ct.rebuild()
	if env == nil {
		return nil
	}
	if env.snapshot() != nil || !sameContent(env.content, beforeContent) {
		ct.debugStateDiff(env, beforeContent)
		env.close()
		ct.r.Count("oracle2_recreated_state_differs", 1)
		return nil
	}
	ct.twin, ct.twinPos = env, p
	return env
}

func (ct *cacheTrial) dropTwin() {
	if ct.twin != nil {
		ct.twin.close()
		ct.twin = nil
	}
}

func (ct *cacheTrial) debugStateDiff(env *cacheEnv, beforeContent map[string]map[string]string) {
	dbg := os.Getenv("C12_DEBUG_LOG") // development aid
	if dbg == "" {
		return
	}
	f, err := os.OpenFile(dbg, os.O_APPEND|os.O_CREATE|os.O_WRONLY, 0o644)
	if err != nil {
		return
	}
	defer f.Close()
	fmt.Fprintf(f, "recreated state differs: mode=%s trial=%d kind=%s applied=%d\n", ct.mode, ct.trial, ct.env.kind, len(ct.applied))
	for t, bm := range beforeContent {
		for k, v := range bm {
			if env.content[t][k] != v {
				tw := &pb.Notification{}
				proto.Unmarshal([]byte(env.content[t][k]), tw)
				re := &pb.Notification{}
				proto.Unmarshal([]byte(v), re)
				fmt.Fprintf(f, "  %s/%v real=%s twin=%s\n", t, model.Unkey(k), truncate(ptext(re), 300), truncate(ptext(tw), 300))
			}
		}
		for k := range env.content[t] {
			if _, ok := bm[k]; !ok {
				fmt.Fprintf(f, "  %s/%v only in twin\n", t, model.Unkey(k))
			}
		}
	}
}

// stateBuilder re-creates a cache state for the isolation of a crash.
type stateBuilder struct {
	name  string
	build func() *cacheEnv // nil result: could not be built
}

// culpritOf finds, for a multi-part notification that panicked, the part at
// which the same kind of failure recurs when the parts are replayed one by
// one, in processing order, as single-part notifications (through the same
// guarded call) against each of the given cache states in turn. It returns
// that part and the state it failed in (which includes the effect of the
// earlier parts); if the failure does not recur that way, the whole message
// and its state.
func culpritOf(n *pb.Notification, st *cacheState, pi *panicInfo, builders []stateBuilder) (*pb.Notification, *cacheState, string) {
	parts := singleParts(n)
	if len(parts) == 0 {
		return n, st, ""
	}
	for _, b := range builders {
		env := b.build()
		if env == nil {
			continue
		}
		for i, sp := range parts {
			if env.snapshot() != nil {
				break
			}
			sst := env.stateFor(sp)
			c := proto.Clone(sp).(*pb.Notification)
			if p2 := guard(func() { env.c.GnmiUpdate(c) }); p2 != nil {
				if p2.Kind == pi.Kind {
					env.close()
					return sp, sst, fmt.Sprintf("replaying the parts one by one on %s cache, part %d fails the same way: %s", b.name, i, ptext(sp))
				}
				break
			}
		}
		env.close()
	}
	return n, st, ""
}

// classifyIngestCrash names the input class of a crash in GnmiUpdate: a named
// corner of the culprit part if one explains the failure, else the
// fingerprint of the smallest message that still fails the same way on the
// first (exact) state. notes are for the witness.
func classifyIngestCrash(n *pb.Notification, st *cacheState, pi *panicInfo, builders []stateBuilder) (class string, notes []string) {
	part, pst, note := culpritOf(n, st, pi, builders)
	if note != "" {
		notes = append(notes, note)
	}
	class, named := cacheClass(pi, part, pst)
	if named {
		return class, notes
	}
	small := shrink(part, 250, func(m proto.Message) bool {
		env := builders[0].build()
		if env == nil {
			return false
		}
		defer env.close()
		c := proto.Clone(m).(*pb.Notification)
		p2 := guard(func() { env.c.GnmiUpdate(c) })
		return p2 != nil && p2.Kind == pi.Kind
	})
	return shrunkClass(pi.Kind, small), append(notes, "shrunk to: "+ptext(small))
}

func freshBuilder(kind string) stateBuilder {
	return stateBuilder{"a fresh " + kind, func() *cacheEnv {
		var env *cacheEnv
		guard(func() { env = buildState(kind, rand.New(rand.NewSource(1)), baseTS-2*int64(time.Second)) })
		return env
	}}
}

func (ct *cacheTrial) builders() []stateBuilder {
	return []stateBuilder{{"the re-created", ct.rebuild}, freshBuilder(ct.env.kind), freshBuilder("empty")}
}

// confused reports whether some leaf under meta/ holds a value of another
// type than the registered metadata entry.
func (ct *cacheTrial) confused() bool { return ct.env.confused() }

func (e *cacheEnv) confused() bool {
	ints := map[string]bool{"targetLeaves": true, "targetLeavesAdded": true, "targetLeavesDeleted": true, "targetLeavesEmpty": true, "targetLeavesUpdated": true,
		"targetLeavesStale": true, "targetLeavesFuture": true, "targetLeavesSuppressed": true, "targetSize": true, "latestTimestamp": true}
	for _, m := range e.leaves {
		for k, n := range m {
			p := model.Unkey(k)
			if len(p) < 2 || p[0] != "meta" || len(n.GetUpdate()) == 0 {
				continue
			}
			v := n.GetUpdate()[0].GetVal().GetValue()
			_, isInt := v.(*pb.TypedValue_IntVal)
			_, isBool := v.(*pb.TypedValue_BoolVal)
			_, isStr := v.(*pb.TypedValue_StringVal)
			switch {
			case p[1] == "latency" && !isInt, ints[p[1]] && !isInt:
				return true
			case (p[1] == "sync" || p[1] == "connected") && !isBool:
				return true
			case (p[1] == "connectedAddress" || p[1] == "connectError" || p[1] == "serverName") && !isStr:
				return true
			}
		}
	}
	return false
}

// message feeds one notification; it returns the outcome class.
func (ct *cacheTrial) message(n *pb.Notification, wire []byte) string {
	e := ct.env
	if e.stamp {
		// The collector knows which target the stream belongs to.
		stampLikeCollector(knownTargets[ct.rng.Intn(len(knownTargets))], n)
	}
	st := ct.stateFor(n)
	corners := cornersOf(n, st)
	for _, c := range corners {
		ct.r.Count("corner_"+c, 1)
	}
	shape := shapeOf(n)
	// The witness keeps the message as it was before the call.
	text := ptext(n)
	ct.hist = append(ct.hist, histEntry{Op: "GnmiUpdate", Msg: text})
	if len(ct.hist) > 12 {
		ct.hist = ct.hist[len(ct.hist)-12:]
	}
	before, beforeContent := e.snap, e.content
	var err error
	ct.applied = append(ct.applied, appliedOp{n: proto.Clone(n).(*pb.Notification), clock: atomic.LoadInt64(&vclock)})
	pi := guard(func() { err = e.c.GnmiUpdate(n) })
	ct.r.Eval(1)
	ct.judged++
	ct.hash = append(ct.hash, wire)
	if pi != nil {
		ct.r.Count("cache_ingest_panics", 1)
		class, notes := classifyIngestCrash(n, st, pi, ct.builders())
		for _, note := range notes {
			ct.hist = append(ct.hist, histEntry{Op: "isolation", Out: note})
		}
		ct.violation("cache-ingest", class, pi, "GnmiUpdate", n)
		return "panic"
	}
	out := errClass(err)
	ct.hist[len(ct.hist)-1].Out = out
	if err == nil {
		ct.r.Count("cache_ingest_accepted_"+shape, 1)
	} else {
		ct.r.Count("cache_ingest_rejected_"+shape, 1)
		ct.r.SetAdd("cache_error_classes", out)
	}
	if pi := e.snapshot(); pi != nil {
		ct.r.Count("cache_query_panics", 1)
		ct.violation("cache-query", fallbackClass(pi.Kind, n), pi, "Query after GnmiUpdate", n)
		return "panic"
	}
	if err != nil {
		if sig, what := checkRejected(ct.r, n, err, before, e.snap, e.leaves, ct.verdictsByReplay(n, beforeContent, func() map[string]map[string]string { return e.content })); sig != "" {
			ct.r.Violation(ct.mode, ct.trial, sig, what+"; message: "+truncate(text, 400),
				map[string]interface{}{"entry_point": "cache-ingest", "state": e.kind, "message": text, "error": err.Error(), "history": ct.hist})
		}
	}
	return out
}

// maintain runs one of the calls that re-read what was stored.
func (ct *cacheTrial) maintain(op string) {
	e := ct.env
	if e.dead {
		return
	}
	ct.hist = append(ct.hist, histEntry{Op: op})
	if len(ct.hist) > 12 {
		ct.hist = ct.hist[len(ct.hist)-12:]
	}
	confused := ct.confused()
	ct.applied = append(ct.applied, appliedOp{op: op, clock: atomic.LoadInt64(&vclock)})
	pi := runMaintenance(e, op)
	ct.r.Eval(1)
	ct.r.Count("cache_maintenance_"+strings.SplitN(op, ":", 2)[0], 1)
	if pi != nil {
		class := fallbackClass(pi.Kind, nil)
		if confused {
			class = "meta-leaf-type-confusion"
		}
		ct.r.Count("cache_refresh_panics", 1)
		ct.violation("cache-refresh", class, pi, op, nil)
		return
	}
	if pi := e.snapshot(); pi != nil {
		ct.violation("cache-query", fallbackClass(pi.Kind, nil), pi, "Query after "+op, nil)
	}
}

// runMaintenance performs one of the calls that re-read what was stored.
func runMaintenance(e *cacheEnv, op string) (pi *panicInfo) {
	switch {
	case op == "UpdateMetadata":
		atomic.AddInt64(&vclock, int64(latencyPeriod))
		pi = guard(e.c.UpdateMetadata)
	case op == "UpdateSize":
		pi = guard(e.c.UpdateSize)
	case strings.HasPrefix(op, "Reset:"):
		pi = guard(func() { e.c.Reset(strings.TrimPrefix(op, "Reset:")) })
	case strings.HasPrefix(op, "Sync:"):
		pi = guard(func() { e.c.Sync(strings.TrimPrefix(op, "Sync:")) })
	case strings.HasPrefix(op, "Connect:"):
		pi = guard(func() { e.c.Connect(strings.TrimPrefix(op, "Connect:")) })
	case strings.HasPrefix(op, "ConnectError:"):
		pi = guard(func() { e.c.ConnectError(strings.TrimPrefix(op, "ConnectError:"), fmt.Errorf("peer went away")) })
	case op == "Query":
		qs := [][]string{{"*"}, {}, {"meta"}, {"meta", "*"}, {"a", "*"}, {"*", "*", "*"}, {"a", "b", "c", "d"}}
		pi = guard(func() {
			for _, q := range qs {
				for _, t := range []string{"*", "dev1", "dev2"} {
					e.c.Query(t, q, func([]string, *ctree.Leaf, interface{}) error { return nil })
				}
			}
		})
	}
	return pi
}

func (ct *cacheTrial) finish() {
	// What the periodic goroutines of the collector do sooner or later.
	for _, op := range []string{"UpdateMetadata", "UpdateSize", "Query", "Reset:dev1", "UpdateMetadata", "Reset:dev2", "UpdateMetadata", "UpdateSize"} {
		ct.maintain(op)
	}
	ct.env.close()
	ct.dropTwin()
	if ct.judged > 0 {
		ct.r.Distinct(vlib.Hash(append([]interface{}{ct.mode, ct.env.kind}, ct.hash...)...))
	}
}

func randomMaintenance(rng *rand.Rand) string {
	t := knownTargets[rng.Intn(len(knownTargets))]
	switch x := rng.Intn(20); {
	case x < 7:
		return "UpdateMetadata"
	case x < 10:
		return "UpdateSize"
	case x < 13:
		return "Reset:" + t
	case x < 16:
		return "Query"
	case x < 17:
		return "Sync:" + t
	case x < 18:
		return "Connect:" + t
	}
	return "ConnectError:" + t
}

func sortedKeys(m map[string]int) []string {
	var ks []string
	for k := range m {
		ks = append(ks, k)
	}
	sort.Strings(ks)
	return ks
}

func startCacheTrial(r *vlib.Run, mode string, trial int, rng *rand.Rand, kind string, ts int64) *cacheTrial {
	atomic.StoreInt64(&vclock, ts+int64(time.Second))
	ct := &cacheTrial{r: r, mode: mode, trial: trial, rng: rng, stateSeed: rng.Int63(), startClock: ts + int64(time.Second)}
	if pi := guard(func() { ct.env = buildState(kind, rand.New(rand.NewSource(ct.stateSeed)), ts-int64(time.Second)) }); pi != nil {
		// Building the state only replays well-formed messages and the refresh calls.
		ct.env = &cacheEnv{kind: kind}
		ct.violation("cache-refresh", "state-build:"+fallbackClass(pi.Kind, nil), pi, "building cache state "+kind, nil)
		return ct
	}
	if pi := ct.env.snapshot(); pi != nil {
		ct.violation("cache-query", fallbackClass(pi.Kind, nil), pi, "Query of initial state", nil)
	}
	r.Count("cache_state_"+kind, 1)
	return ct
}

const baseTS = int64(1_000_000_000_000)

// modeCacheHistory: a history of grammar-generated messages and maintenance
// calls against one of the cache states.
func modeCacheHistory(r *vlib.Run, mode string, trial int, rng *rand.Rand) {
	kind := stateKinds[trial%len(stateKinds)]
	g := newGen(rng, baseTS)
	ct := startCacheTrial(r, mode, trial, rng, kind, baseTS)
	steps := 20 + rng.Intn(30)
	var texts []string
	var msgs []*pb.Notification
	var wires [][]byte
	var ops []string
	for i := 0; i < steps; i++ {
		if rng.Intn(100) < 14 {
			ops = append(ops, randomMaintenance(rng))
			msgs = append(msgs, nil)
			wires = append(wires, nil)
			continue
		}
		n, wire, ok := roundTrip(g.notification(knownTargets[rng.Intn(10)/7]), newNotification)
		if !ok {
			r.Count("generated_not_wire_valid", 1)
			continue
		}
		ops = append(ops, "")
		msgs = append(msgs, n)
		wires = append(wires, wire)
		texts = append(texts, ptext(n))
	}
	r.SaveCurrent(map[string]interface{}{"mode": mode, "trial": trial, "entry_point": "cache-ingest", "state": kind, "messages": texts, "ops": ops})
	for i, op := range ops {
		if ct.env.dead {
			break
		}
		if op != "" {
			ct.maintain(op)
			continue
		}
		ct.message(msgs[i], wires[i])
	}
	ct.finish()
	if r.WantSample() && trial%53 == 0 && len(texts) > 0 {
		r.Sample(map[string]interface{}{"mode": mode, "trial": trial, "state": kind, "steps": len(ops), "first_message": texts[0], "last_outcomes": ct.hist})
	}
}

// modeCacheMatrix: state x message. One grammar-generated message is tried
// against every cache state, each followed by the refresh calls.
func modeCacheMatrix(r *vlib.Run, mode string, trial int, rng *rand.Rand) {
	g := newGen(rng, baseTS)
	var msgs []*pb.Notification
	var texts []string
	for len(msgs) < 3 {
		n, _, ok := roundTrip(g.notification("dev1"), newNotification)
		if !ok {
			r.Count("generated_not_wire_valid", 1)
			continue
		}
		msgs = append(msgs, n)
		texts = append(texts, ptext(n))
	}
	r.SaveCurrent(map[string]interface{}{"mode": mode, "trial": trial, "entry_point": "cache-ingest", "state": "every state in turn", "messages": texts})
	for si, kind := range stateKinds {
		srng := rand.New(rand.NewSource(vlib.Mix(int64(trial), int64(si), rng.Int63())))
		ct := startCacheTrial(r, mode, trial, srng, kind, baseTS)
		for _, m := range msgs {
			if ct.env.dead {
				break
			}
			c := proto.Clone(m).(*pb.Notification)
			b, _ := proto.Marshal(c)
			ct.message(c, b)
			if srng.Intn(2) == 0 {
				ct.maintain("UpdateMetadata")
			}
		}
		ct.finish()
	}
}

// modeCacheMutation: the messages come from the byte-level mutation engine.
func modeCacheMutation(r *vlib.Run, mode string, trial int, rng *rand.Rand) {
	kind := stateKinds[trial%len(stateKinds)]
	g := newGen(rng, baseTS)
	var seeds [][]byte
	for len(seeds) < 8 {
		if _, b, ok := roundTrip(g.notification(knownTargets[rng.Intn(10)/7]), newNotification); ok {
			seeds = append(seeds, b)
		}
	}
	corp := newCorpus(seeds)
	ct := startCacheTrial(r, mode, trial, rng, kind, baseTS)
	unm := func(b []byte) (proto.Message, bool) {
		n := &pb.Notification{}
		if proto.Unmarshal(b, n) != nil {
			return nil, false
		}
		return n, true
	}
	steps := 60 + rng.Intn(60)
	type mut struct {
		b  []byte
		n  *pb.Notification
		fp string
	}
	for i := 0; i < steps && !ct.env.dead; {
		// A batch of mutants from the current corpus; the batch is on disk before
		// any of it is executed.
		var batch []mut
		var texts []string
		for k := 0; k < 16 && i+k < steps; k++ {
			b, m, rej := corp.mutant(rng, unm)
			r.Count("mutants_rejected_not_protobuf_valid", int64(rej))
			n := m.(*pb.Notification)
			batch = append(batch, mut{b, n, shortHash(fingerprint(n))})
			texts = append(texts, ptext(n))
		}
		r.SaveCurrent(map[string]interface{}{"mode": mode, "trial": trial, "entry_point": "cache-ingest", "state": kind, "first_step": i, "messages": texts})
		for _, mu := range batch {
			if ct.env.dead {
				break
			}
			out := ct.message(mu.n, mu.b)
			r.Count("mutants_executed_cache", 1)
			if corp.feedback("cache|"+out+"|"+mu.fp, mu.b) {
				r.Count("mutants_novel_kept", 1)
			}
			if rng.Intn(100) < 8 {
				ct.maintain(randomMaintenance(rng))
			}
		}
		i += len(batch)
	}
	ct.finish()
}
