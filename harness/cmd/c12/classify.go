package main

import (
	"fmt"
	"hash/fnv"
	"regexp"
	"runtime"
	"sort"
	"strings"

	"google.golang.org/protobuf/encoding/prototext"
	"google.golang.org/protobuf/proto"
	"google.golang.org/protobuf/reflect/protoreflect"

	pb "github.com/openconfig/gnmi/proto/gnmi"

	"verif/internal/model"
)

const repoPrefix = "github.com/openconfig/gnmi/"

// panicInfo is what the monitor keeps of a recovered panic. The frames are for
// the reader; they are never part of a signature.
type panicInfo struct {
	Value      string   `json:"panic"`
	Kind       string   `json:"panic_kind"`
	RepoFrame  string   `json:"innermost_repo_frame"`
	InnerFrame string   `json:"innermost_frame"`
	Stack      []string `json:"stack_top,omitempty"`
}

func (p *panicInfo) String() string {
	return fmt.Sprintf("panic %q (%s) at %s", p.Value, p.Kind, p.RepoFrame)
}

// panicKind maps the recovered value to a coarse class of failure.
func panicKind(v interface{}) string {
	s := fmt.Sprint(v)
	switch {
	case strings.Contains(s, "index out of range"):
		return "index-out-of-range"
	case strings.Contains(s, "slice bounds out of range"):
		return "slice-bounds"
	case strings.Contains(s, "nil pointer dereference"):
		return "nil-dereference"
	case strings.Contains(s, "interface conversion"):
		return "type-assertion"
	case strings.Contains(s, "assignment to entry in nil map"):
		return "nil-map-write"
	case strings.Contains(s, "divide by zero"):
		return "divide-by-zero"
	case strings.Contains(s, "close of closed channel"), strings.Contains(s, "close of nil channel"), strings.Contains(s, "send on closed channel"):
		return "channel-misuse"
	case strings.Contains(s, "makeslice"), strings.Contains(s, "out of memory"):
		return "allocation"
	}
	return "other"
}

// capture runs inside the deferred recover: the panicking frames are still on
// the stack, so runtime.Callers sees them. It returns the innermost frame that
// belongs to the repository and the innermost non-runtime frame overall.
func capture(v interface{}) *panicInfo {
	pi := &panicInfo{Value: truncate(fmt.Sprint(v), 300), Kind: panicKind(v)}
	pcs := make([]uintptr, 64)
	n := runtime.Callers(2, pcs)
	frames := runtime.CallersFrames(pcs[:n])
	for {
		f, more := frames.Next()
		fn := f.Function
		if fn != "" && !strings.HasPrefix(fn, "runtime.") && !strings.HasPrefix(fn, "runtime/") {
			loc := fmt.Sprintf("%s (%s:%d)", strings.TrimPrefix(fn, repoPrefix), shortFile(f.File), f.Line)
			if strings.HasPrefix(fn, "main.capture") || strings.HasPrefix(fn, "main.guard") {
				// the monitor's own frames
			} else {
				if pi.InnerFrame == "" {
					pi.InnerFrame = loc
				}
				if pi.RepoFrame == "" && strings.HasPrefix(fn, repoPrefix) {
					pi.RepoFrame = loc
				}
				if len(pi.Stack) < 14 {
					pi.Stack = append(pi.Stack, loc)
				}
			}
		}
		if !more {
			break
		}
	}
	return pi
}

func shortFile(f string) string {
	parts := strings.Split(f, "/")
	if len(parts) > 2 {
		parts = parts[len(parts)-2:]
	}
	return strings.Join(parts, "/")
}

// guard runs fn and returns what it panicked with, if it did. A panic whose
// innermost non-runtime frame is the harness itself and that has no repository
// frame below it is a bug of this check, not of the code under test: it is
// re-raised so that the run ends as broken instead of as a verdict.
func guard(fn func()) (pi *panicInfo) {
	defer func() {
		if v := recover(); v != nil {
			pi = capture(v)
			if pi.RepoFrame == "" || strings.HasPrefix(pi.InnerFrame, "main.") {
				panic(fmt.Sprintf("c12 harness bug (panic raised by the harness itself or without a repository frame): %v; stack %v", v, pi.Stack))
			}
		}
	}()
	fn()
	return nil
}

func truncate(s string, n int) string {
	if len(s) > n {
		return s[:n] + "…"
	}
	return s
}

var (
	reQuoted = regexp.MustCompile(`"(?:[^"\\]|\\.)*"|'[^']*'`)
	reDigits = regexp.MustCompile(`[0-9]+`)
	reHex    = regexp.MustCompile(`0x[0-9a-f]+`)
)

// errClass reduces an error text to a class (for counters and for the
// novelty signal of the mutation engine).
func errClass(err error) string {
	if err == nil {
		return "ok"
	}
	s := err.Error()
	if i := strings.IndexByte(s, '\n'); i >= 0 {
		s = s[:i]
	}
	if len(s) > 400 {
		s = s[:400]
	}
	s = reQuoted.ReplaceAllString(s, "Q")
	s = reHex.ReplaceAllString(s, "H")
	s = reDigits.ReplaceAllString(s, "N")
	fields := strings.FieldsFunc(s, func(r rune) bool {
		return !(r >= 'a' && r <= 'z' || r >= 'A' && r <= 'Z' || r == '.')
	})
	if len(fields) > 7 {
		fields = fields[:7]
	}
	return "err:" + strings.Join(fields, "_")
}

// ---- structural fingerprint -------------------------------------------------

// fingerprint renders which fields of a message are populated (names only,
// repeated-field lengths bucketed), to a bounded depth: the fall-back input
// class for crashes the named classifier does not know.
func fingerprint(m proto.Message) string {
	var b strings.Builder
	fpMsg(&b, m.ProtoReflect(), 0)
	return b.String()
}

func bucket(n int) string {
	switch {
	case n == 0:
		return "0"
	case n == 1:
		return "1"
	case n <= 4:
		return "few"
	}
	return "many"
}

func fpMsg(b *strings.Builder, m protoreflect.Message, depth int) {
	if depth > 5 {
		b.WriteString("…")
		return
	}
	type fv struct {
		fd protoreflect.FieldDescriptor
		v  protoreflect.Value
	}
	var fs []fv
	m.Range(func(fd protoreflect.FieldDescriptor, v protoreflect.Value) bool {
		fs = append(fs, fv{fd, v})
		return true
	})
	sort.Slice(fs, func(i, j int) bool { return fs[i].fd.Number() < fs[j].fd.Number() })
	b.WriteString("{")
	for i, f := range fs {
		if i > 0 {
			b.WriteString(",")
		}
		b.WriteString(string(f.fd.Name()))
		switch {
		case f.fd.IsMap():
			b.WriteString("#" + bucket(f.v.Map().Len()))
		case f.fd.IsList():
			l := f.v.List()
			b.WriteString("#" + bucket(l.Len()))
			if f.fd.Message() != nil && l.Len() > 0 {
				// Distinct shapes of the elements, in order of first appearance (max 3).
				seen := map[string]bool{}
				k := 0
				for j := 0; j < l.Len() && k < 3; j++ {
					var sb strings.Builder
					fpMsg(&sb, l.Get(j).Message(), depth+1)
					if !seen[sb.String()] {
						seen[sb.String()] = true
						b.WriteString(sb.String())
						k++
					}
				}
			}
		case f.fd.Message() != nil:
			fpMsg(b, f.v.Message(), depth+1)
		case f.fd.Kind() == protoreflect.EnumKind:
			if f.fd.Enum().Values().ByNumber(f.v.Enum()) == nil {
				b.WriteString("=unknown-enum")
			}
		case f.fd.Kind() == protoreflect.StringKind:
			if f.v.String() == "*" {
				b.WriteString("=*")
			}
		}
	}
	if len(m.GetUnknown()) > 0 {
		b.WriteString(",?unknown")
	}
	b.WriteString("}")
}

func shortHash(s string) string {
	h := fnv.New32a()
	h.Write([]byte(s))
	return fmt.Sprintf("%08x", h.Sum32())
}

func fallbackClass(kind string, m proto.Message) string {
	if m == nil {
		return kind + ":fp-none"
	}
	return kind + ":fp-" + shortHash(fingerprint(m))
}

func ptext(m proto.Message) string {
	if m == nil {
		return "<nil>"
	}
	return prototext.MarshalOptions{Multiline: false, EmitASCII: true, EmitUnknown: true, AllowPartial: true}.Format(m)
}

// ---- named input classes ------------------------------------------------------

var metaTyped = map[string]bool{"sync": true, "connected": true, "connectedAddress": true, "connectError": true}

func valueless(u *pb.Update) bool {
	return u.GetVal() == nil || u.GetVal().GetValue() == nil
}

func isDouble(n *pb.Notification) bool {
	if n == nil || len(n.GetUpdate()) == 0 {
		return false
	}
	_, ok := n.GetUpdate()[0].GetVal().GetValue().(*pb.TypedValue_DoubleVal)
	return ok
}

// cacheState is what the classifier may know about the cache before the call.
type cacheState struct {
	targetEmpty  bool                                // the addressed target held no leaf
	stored       func(idx []string) *pb.Notification // the leaf stored at idx in the addressed target, if any
	confusedMeta bool                                // some leaf under meta/ holds a value of another type than the registered entry
}

// cornersOf lists the named hostile corners a notification exercises in the
// given state (for the coverage counters and for signatures). Order = priority.
func cornersOf(n *pb.Notification, st *cacheState) []string {
	var out []string
	add := func(s string) {
		for _, o := range out {
			if o == s {
				return
			}
		}
		out = append(out, s)
	}
	pre := n.GetPrefix()
	ups := n.GetUpdate()
	for i, u := range ups {
		p := u.GetPath()
		if n.GetAtomic() {
			if i > 0 {
				break
			}
			p = nil
		}
		idx := model.CacheIndex(pre, p)
		switch {
		case len(idx) == 0:
			add("empty-full-path")
		case len(idx) == 1 && idx[0] == "meta":
			add("meta-alone")
		case idx[0] == "meta" && metaTyped[idx[1]] && valueless(u):
			add("meta-leaf-without-value")
		case idx[0] == "meta" && len(idx) >= 2:
			add("meta-leaf-update")
		}
		if st != nil && st.stored != nil && valueless(u) && len(idx) > 0 && isDouble(st.stored(idx)) {
			add("double-then-valueless")
		}
		if st != nil && st.stored != nil && len(idx) > 0 {
			if old := st.stored(idx); old != nil && len(old.GetUpdate()) > 0 && !valueless(u) && !valueless(old.GetUpdate()[0]) &&
				fmt.Sprintf("%T", old.GetUpdate()[0].GetVal().GetValue()) != fmt.Sprintf("%T", u.GetVal().GetValue()) {
				add("value-type-change")
			}
		}
	}
	for _, d := range n.GetDelete() {
		idx := model.CacheIndex(pre, d)
		if st != nil && st.targetEmpty {
			add("delete-on-empty-target")
		}
		switch {
		case len(idx) == 0:
			add("delete-empty-full-path")
		case len(idx) == 1 && idx[0] == "meta":
			add("meta-alone")
		}
	}
	return out
}

// classKinds lists, per named corner, the kinds of failure it can explain. A
// crash is given a named class only if the message exercises the corner AND
// the failure is of a kind the corner explains; everything else falls back to
// the structural fingerprint.
var classKinds = map[string][]string{
	"empty-full-path":         {"index-out-of-range", "slice-bounds"},
	"delete-empty-full-path":  {"index-out-of-range", "slice-bounds"},
	"meta-alone":              {"index-out-of-range", "slice-bounds"},
	"meta-leaf-without-value": {"nil-dereference"},
	"double-then-valueless":   {"nil-dereference"},
	"delete-on-empty-target":  {"type-assertion", "nil-dereference"},
}

// cacheClass names the input class of a crash in the cache ingest path: the
// first corner, in the order the parts of the message are processed, that
// explains the kind of failure.
func cacheClass(pi *panicInfo, n *pb.Notification, st *cacheState) (class string, named bool) {
	for _, c := range cornersOf(n, st) {
		for _, k := range classKinds[c] {
			if k == pi.Kind {
				return c, true
			}
		}
	}
	return fallbackClass(pi.Kind, n), false
}

// singleParts splits a multi-part notification into one notification per
// update and per delete, in the order the cache processes them.
func singleParts(n *pb.Notification) []*pb.Notification {
	if n.GetAtomic() || len(n.GetUpdate())+len(n.GetDelete()) <= 1 {
		return nil
	}
	var out []*pb.Notification
	base := func() *pb.Notification {
		// The same notification without its parts (unknown fields kept).
		c := proto.Clone(n).(*pb.Notification)
		c.Update, c.Delete = nil, nil
		return c
	}
	for _, u := range n.GetUpdate() {
		c := base()
		c.Update = []*pb.Update{proto.Clone(u).(*pb.Update)}
		out = append(out, c)
	}
	for _, d := range n.GetDelete() {
		c := base()
		c.Delete = []*pb.Path{proto.Clone(d).(*pb.Path)}
		out = append(out, c)
	}
	return out
}

// fullClientPath is the path a client notification carries for an update or
// delete: target + origin + prefix elements + path elements.
func fullClientPath(prefix, p *pb.Path) []string {
	return append(model.IndexPrefix(prefix), model.IndexPath(p)...)
}

// hasRootPathPart reports whether a response carries an update (with a path
// and a value, i.e. one the client turns into a notification) or a delete
// whose full client path is empty.
func hasRootPathPart(r *pb.SubscribeResponse) bool {
	n := r.GetUpdate()
	if n == nil {
		return false
	}
	for _, u := range n.GetUpdate() {
		if u.GetPath() == nil {
			break // the client stops at a nil path
		}
		if u.GetVal() == nil && u.GetValue() == nil {
			continue // ignored by the client
		}
		if len(fullClientPath(n.GetPrefix(), u.GetPath())) == 0 {
			return true
		}
	}
	for _, d := range n.GetDelete() {
		if len(fullClientPath(n.GetPrefix(), d)) == 0 {
			return true
		}
	}
	return false
}

// streamClass names the input class of a crash in the client receive path or
// the CLI display. culprit is the single response that reproduces the crash
// on its own (nil when only the whole stream does).
func streamClass(entry string, pi *panicInfo, culprit *pb.SubscribeResponse, all []*pb.SubscribeResponse) (class string, named bool) {
	if culprit != nil {
		if entry == "cli-group-display" && pi.Kind == "index-out-of-range" && hasRootPathPart(culprit) {
			return "root-path-update", true
		}
		return fallbackClass(pi.Kind, culprit), false
	}
	if entry == "cli-group-display" && pi.Kind == "index-out-of-range" {
		for _, r := range all {
			if hasRootPathPart(r) {
				return "root-path-update", true
			}
		}
	}
	var sb strings.Builder
	for _, r := range all {
		sb.WriteString(fingerprint(r))
	}
	return pi.Kind + ":stream-fp-" + shortHash(sb.String()), false
}

// ---- shrinking ------------------------------------------------------------------

// shrink greedily removes populated fields and list / map entries from a copy
// of m for as long as fails still holds (fails re-executes the candidate
// through the same monitor). The result is the small message whose structural
// fingerprint names the input class of a crash no named class explains; it
// makes that fall-back class independent of the incidental rest of the
// message (and so stable across seeds). budget bounds the re-executions.
func shrink(m proto.Message, budget int, fails func(proto.Message) bool) proto.Message {
	cur := proto.Clone(m)
	for pass := 0; pass < 4 && budget > 0; pass++ {
		changed := false
		// Enumerate candidate edits on the current message by path; apply each to
		// a clone and keep the clone if it still fails.
		n := countEdits(cur.ProtoReflect(), 0)
		for i := 0; i < n && budget > 0; i++ {
			cand := proto.Clone(cur)
			k := i
			if !applyEdit(cand.ProtoReflect(), &k, 0) {
				continue
			}
			budget--
			if fails(cand) {
				cur = cand
				changed = true
				// The edit list changed: recount, stay at the same index.
				n = countEdits(cur.ProtoReflect(), 0)
				i--
			}
		}
		if !changed {
			break
		}
	}
	return cur
}

// countEdits counts the removal edits available in m: clearing a populated
// field, removing one list element / map entry, and the same recursively.
func countEdits(m protoreflect.Message, depth int) int {
	if depth > 6 {
		return 0
	}
	n := 0
	m.Range(func(fd protoreflect.FieldDescriptor, v protoreflect.Value) bool {
		n++ // clear the field
		switch {
		case fd.IsMap():
			if v.Map().Len() > 1 {
				n++ // keep a single entry
			}
		case fd.IsList():
			l := v.List()
			if l.Len() >= 4 {
				n += 2 // keep the first / the second half
			}
			if l.Len() > 1 {
				n += l.Len() // remove element j
			}
			if fd.Message() != nil {
				for j := 0; j < l.Len() && j < 8; j++ {
					n += countEdits(l.Get(j).Message(), depth+1)
				}
			}
		case fd.Message() != nil:
			n += countEdits(v.Message(), depth+1)
		}
		return true
	})
	if len(m.GetUnknown()) > 0 {
		n++
	}
	return n
}

// applyEdit applies the k-th edit in the enumeration order of countEdits.
// Range order over a message is not specified, so fields are visited sorted.
func applyEdit(m protoreflect.Message, k *int, depth int) bool {
	if depth > 6 {
		return false
	}
	var fds []protoreflect.FieldDescriptor
	m.Range(func(fd protoreflect.FieldDescriptor, _ protoreflect.Value) bool {
		fds = append(fds, fd)
		return true
	})
	sort.Slice(fds, func(i, j int) bool { return fds[i].Number() < fds[j].Number() })
	for _, fd := range fds {
		v := m.Get(fd)
		if *k == 0 {
			m.Clear(fd)
			return true
		}
		*k--
		switch {
		case fd.IsMap():
			if v.Map().Len() > 1 {
				if *k == 0 {
					mp := m.Mutable(fd).Map()
					var keys []protoreflect.MapKey
					mp.Range(func(mk protoreflect.MapKey, _ protoreflect.Value) bool { keys = append(keys, mk); return true })
					sort.Slice(keys, func(i, j int) bool { return keys[i].String() < keys[j].String() })
					for _, mk := range keys[1:] {
						mp.Clear(mk)
					}
					return true
				}
				*k--
			}
		case fd.IsList():
			l := m.Mutable(fd).List()
			if l.Len() >= 4 {
				if *k < 2 {
					lo, hi := 0, l.Len()/2
					if *k == 1 {
						lo, hi = l.Len()/2, l.Len()
					}
					var keep []protoreflect.Value
					for x := lo; x < hi; x++ {
						keep = append(keep, l.Get(x))
					}
					l.Truncate(0)
					for _, x := range keep {
						l.Append(x)
					}
					return true
				}
				*k -= 2
			}
			if l.Len() > 1 {
				if *k < l.Len() {
					j := *k
					// remove element j
					var keep []protoreflect.Value
					for x := 0; x < l.Len(); x++ {
						if x != j {
							keep = append(keep, l.Get(x))
						}
					}
					l.Truncate(0)
					for _, x := range keep {
						l.Append(x)
					}
					return true
				}
				*k -= l.Len()
			}
			if fd.Message() != nil {
				for j := 0; j < l.Len() && j < 8; j++ {
					c := countEdits(l.Get(j).Message(), depth+1)
					if *k < c {
						return applyEdit(l.Get(j).Message(), k, depth+1)
					}
					*k -= c
				}
			}
		case fd.Message() != nil:
			c := countEdits(v.Message(), depth+1)
			if *k < c {
				return applyEdit(m.Mutable(fd).Message(), k, depth+1)
			}
			*k -= c
		}
	}
	if len(m.GetUnknown()) > 0 {
		if *k == 0 {
			m.SetUnknown(nil)
			return true
		}
		*k--
	}
	return false
}

// shrunkClass is the fall-back input class: failure kind plus the readable
// structural fingerprint of the shrunk message (hashed when long).
func shrunkClass(kind string, small proto.Message) string {
	fp := fingerprint(small)
	if len(fp) > 90 {
		fp = fp[:60] + "~" + shortHash(fp)
	}
	return kind + ":" + fp
}
