package main

import (
	"bytes"
	"context"
	"fmt"
	"math/rand"
	"net"
	"os"
	"sync"
	"time"

	"google.golang.org/grpc"
	"google.golang.org/grpc/codes"
	"google.golang.org/grpc/credentials/insecure"
	"google.golang.org/grpc/status"
	"google.golang.org/grpc/test/bufconn"
	"google.golang.org/protobuf/proto"

	"github.com/openconfig/gnmi/cli"
	"github.com/openconfig/gnmi/client"
	gnmiclient "github.com/openconfig/gnmi/client/gnmi"
	pb "github.com/openconfig/gnmi/proto/gnmi"

	"verif/internal/vlib"
)

// Entry points 3 and 4: the real gnmi client (client/gnmi.Client built with
// NewFromConn) under client.BaseClient / client.CacheClient, and
// cli.QueryDisplay in every display type, both fed by a bufconn gRPC server
// that plays a generated SubscribeResponse stream.

// script is what the server plays for one Subscribe RPC.
type script struct {
	phases [][]*pb.SubscribeResponse // phase 0 right after the request, phase i after the i-th further request
	end    string                    // "eof" or "error"
}

type player struct {
	pb.UnimplementedGNMIServer
	mu      sync.Mutex
	scripts map[string]*script
}

var syncResp = &pb.SubscribeResponse{Response: &pb.SubscribeResponse_SyncResponse{SyncResponse: true}}

func (p *player) Subscribe(stream pb.GNMI_SubscribeServer) error {
	req, err := stream.Recv()
	if err != nil {
		return err
	}
	p.mu.Lock()
	sc := p.scripts[req.GetSubscribe().GetPrefix().GetTarget()]
	p.mu.Unlock()
	if sc == nil {
		return status.Error(codes.NotFound, "no script")
	}
	for i, ph := range sc.phases {
		if i > 0 {
			if _, err := stream.Recv(); err != nil {
				return nil
			}
		}
		for _, r := range ph {
			if err := stream.Send(r); err != nil {
				return err
			}
		}
		if i+1 < len(sc.phases) {
			// A phase that is followed by another always ends with a sync, so a
			// ONCE / POLL client stops reading and sends its next trigger.
			if err := stream.Send(syncResp); err != nil {
				return err
			}
		}
	}
	if sc.end == "error" {
		return status.Error(codes.Unavailable, "peer went away")
	}
	return nil
}

type bufnet struct {
	lis   *bufconn.Listener
	srv   *grpc.Server
	p     *player
	mu    sync.Mutex
	conns []*grpc.ClientConn
}

var theNet *bufnet

// startNet starts the process-wide bufconn server and makes the real gnmi
// client, built from a bufconn connection with NewFromConn, the only
// registered client implementation (under its real name).
func startNet() {
	bn := &bufnet{lis: bufconn.Listen(256 << 10), p: &player{scripts: map[string]*script{}}}
	bn.srv = grpc.NewServer()
	pb.RegisterGNMIServer(bn.srv, bn.p)
	go bn.srv.Serve(bn.lis)
	theNet = bn
	client.ResetRegisteredImpls()
	client.Register(gnmiclient.Type, func(ctx context.Context, d client.Destination) (client.Impl, error) {
		conn, err := grpc.NewClient("passthrough:///bufnet",
			grpc.WithContextDialer(func(ctx context.Context, _ string) (net.Conn, error) { return bn.lis.DialContext(ctx) }),
			grpc.WithTransportCredentials(insecure.NewCredentials()))
		if err != nil {
			return nil, err
		}
		bn.mu.Lock()
		bn.conns = append(bn.conns, conn)
		bn.mu.Unlock()
		return gnmiclient.NewFromConn(ctx, conn, d)
	})
}

// closeConns closes what the trial's clients left open (the CLI never closes
// its ONCE client).
func (bn *bufnet) closeConns() {
	bn.mu.Lock()
	cs := bn.conns
	bn.conns = nil
	bn.mu.Unlock()
	for _, c := range cs {
		c.Close()
	}
}

func (bn *bufnet) setScript(key string, sc *script) {
	bn.p.mu.Lock()
	bn.p.scripts = map[string]*script{key: sc}
	bn.p.mu.Unlock()
}

var queryTypes = []client.Type{client.Once, client.Poll, client.Stream}

// clientCase is one execution through the client or the CLI.
type clientCase struct {
	Entry     string `json:"entry_point"` // client-recv, client-cache, cli-<display>-display
	QueryType string `json:"query_type"`
	Display   string `json:"display,omitempty"`
	Timestamp string `json:"timestamp,omitempty"`
	Flags     int    `json:"flags,omitempty"`
	Polls     int    `json:"polls,omitempty"`
	End       string `json:"stream_end"`
	qt        client.Type
}

var caseSeq int

// runClientCase executes cc against the given response phases and returns the
// outcome class, the recovered panic and what the display / handler collected.
func runClientCase(cc *clientCase, phases [][]*pb.SubscribeResponse) (string, *panicInfo, int, bool) {
	caseSeq++
	key := fmt.Sprintf("k%d", caseSeq)
	theNet.setScript(key, &script{phases: phases, end: cc.End})
	defer theNet.closeConns()
	ctx, cancel := context.WithTimeout(context.Background(), watchdog)
	defer cancel()
	q := client.Query{Addrs: []string{"bufnet"}, Target: key, Queries: []client.Path{{"*"}}, Type: cc.qt, Timeout: 30 * time.Second}
	var err error
	collected := 0
	var pi *panicInfo
	switch cc.Entry {
	case "client-recv":
		c := &client.BaseClient{}
		q.NotificationHandler = func(n client.Notification) error {
			collected++
			switch v := n.(type) {
			case client.Update:
				_ = fmt.Sprint(v.Path, v.Val)
			case client.Delete:
				_ = fmt.Sprint(v.Path)
			}
			return nil
		}
		pi = guard(func() {
			err = c.Subscribe(ctx, q, gnmiclient.Type)
			for i := 0; i < cc.Polls && err == nil && cc.qt == client.Poll; i++ {
				err = c.Poll()
			}
			c.Close()
		})
	case "client-cache":
		c := client.New()
		if cc.Flags&1 != 0 {
			q.NotificationHandler = func(client.Notification) error { collected++; return nil }
		}
		pi = guard(func() {
			err = c.Subscribe(ctx, q, gnmiclient.Type)
			for i := 0; i < cc.Polls && err == nil && cc.qt == client.Poll; i++ {
				err = c.Poll()
			}
			collected += len(c.Leaves())
			c.Close()
		})
	default:
		var buf bytes.Buffer
		cfg := &cli.Config{
			Count:         uint(cc.Polls),
			Delimiter:     "/",
			Display:       func(b []byte) { buf.Write(b); buf.WriteByte('\n') },
			DisplayPrefix: "",
			DisplayIndent: "  ",
			DisplayType:   cc.Display,
			DisplayPeer:   cc.Flags&1 != 0,
			Timestamp:     cc.Timestamp,
			DisplaySize:   cc.Flags&2 != 0,
			Latency:       cc.Flags&4 != 0,
			ClientTypes:   []string{gnmiclient.Type},
			FilterDeletes: cc.Flags&8 != 0,
			FilterUpdates: cc.Flags&16 != 0,
		}
		if cc.Flags&32 != 0 {
			cfg.Location = time.UTC
		}
		if cc.qt == client.Poll && cfg.Count == 0 {
			cfg.Count = 1 // 0 would poll forever
		}
		pi = guard(func() { err = cli.QueryDisplay(ctx, q, cfg) })
		collected = buf.Len()
	}
	timedOut := ctx.Err() != nil
	if pi != nil {
		return "panic", pi, collected, timedOut
	}
	return errClass(err), nil, collected, timedOut
}

func flatten(phases [][]*pb.SubscribeResponse) []*pb.SubscribeResponse {
	var out []*pb.SubscribeResponse
	for _, ph := range phases {
		out = append(out, ph...)
	}
	return out
}

func textsOf(rs []*pb.SubscribeResponse) []string {
	out := make([]string, len(rs))
	for i, r := range rs {
		out[i] = ptext(r)
	}
	return out
}

// judgeClientCase runs one case, and on a panic looks for the single response
// that reproduces it on its own (through the same monitor) to classify it.
func judgeClientCase(r *vlib.Run, mode string, trial int, cc *clientCase, phases [][]*pb.SubscribeResponse) string {
	all := flatten(phases)
	texts := textsOf(all)
	r.SaveCurrent(map[string]interface{}{"mode": mode, "trial": trial, "case": cc, "responses": texts})
	out, pi, collected, timedOut := runClientCase(cc, phases)
	r.Eval(1)
	r.Count("calls_"+cc.Entry, 1)
	if timedOut {
		if dbg := os.Getenv("C12_DEBUG_LOG"); dbg != "" { // development aid
			if f, err := os.OpenFile(dbg, os.O_APPEND|os.O_CREATE|os.O_WRONLY, 0o644); err == nil {
				fmt.Fprintf(f, "watchdog: mode=%s trial=%d case=%+v out=%s responses=%q\n", mode, trial, *cc, out, texts)
				f.Close()
			}
		}
		r.Inconclusive(cc.Entry + ": case exceeded the watchdog")
		return "inconclusive"
	}
	if pi == nil {
		r.Count("outcome_"+cc.Entry+"_"+map[bool]string{true: "ok", false: "error_returned"}[out == "ok"], 1)
		r.SetAdd("client_outcome_classes", cc.Entry+"|"+out)
		if collected > 0 {
			r.Count("displayed_or_delivered_"+cc.Entry, 1)
		}
		var hash []interface{}
		for _, x := range all {
			b, _ := proto.Marshal(x)
			hash = append(hash, b)
		}
		r.Distinct(vlib.Hash(append([]interface{}{cc.Entry, cc.QueryType, cc.Timestamp, cc.Flags, cc.Polls, cc.End}, hash...)...))
		return out
	}
	r.Count("panics_"+cc.Entry, 1)
	var culprit *pb.SubscribeResponse
	alone := func(x *pb.SubscribeResponse) bool {
		one := [][]*pb.SubscribeResponse{{x, syncResp}}
		switch {
		case cc.qt == client.Stream:
			// In streaming group display single updates are shown after the sync.
			one = [][]*pb.SubscribeResponse{{syncResp, x, syncResp}}
		case cc.qt == client.Poll && (cc.Display == "" || cc.Display == "group"):
			// The polling protocol: the server syncs, then answers the poll trigger.
			one = [][]*pb.SubscribeResponse{{x}, {}}
		}
		_, p2, _, _ := runClientCase(cc, one)
		return p2 != nil && p2.Kind == pi.Kind
	}
	for _, x := range all {
		if alone(x) {
			culprit = x
			break
		}
	}
	class, named := streamClass(cc.Entry, pi, culprit, all)
	var small proto.Message
	if !named && culprit != nil {
		small = shrink(culprit, 200, func(m proto.Message) bool { return alone(m.(*pb.SubscribeResponse)) })
		class = shrunkClass(pi.Kind, small)
	}
	w := map[string]interface{}{"entry_point": cc.Entry, "case": cc, "responses": texts, "panic": pi, "input_class": class}
	what := fmt.Sprintf("%s (query type %s): %s", cc.Entry, cc.QueryType, pi)
	if culprit != nil {
		w["culprit_response"] = ptext(culprit)
		w["fingerprint"] = fingerprint(culprit)
		what += "; reproduced by the single response: " + truncate(ptext(culprit), 400)
		if small != nil {
			w["shrunk_response"] = ptext(small)
			what += "; shrunk to: " + truncate(ptext(small), 200)
		}
	} else {
		what += fmt.Sprintf("; no single response of the %d-message stream reproduces it alone", len(all))
	}
	r.Violation(mode, trial, cc.Entry+":"+class, what, w)
	return "panic"
}

var displays = []string{"group", "single", "proto", "shortproto"}
var timestamps = []string{"", "on", "raw", "2006-01-02", ""}

func drawCase(rng *rand.Rand, idx int, cliEntry bool) *clientCase {
	cc := &clientCase{qt: queryTypes[rng.Intn(3)], End: []string{"eof", "eof", "error"}[rng.Intn(3)]}
	cc.QueryType = cc.qt.String()
	if cc.qt == client.Poll {
		cc.Polls = 1 + rng.Intn(2)
	}
	if !cliEntry {
		cc.Entry = []string{"client-recv", "client-cache"}[idx%2]
		cc.Flags = rng.Intn(2)
		return cc
	}
	cc.Display = displays[idx%4]
	if idx%8 >= 4 {
		cc.Display = displays[0] // group display has the most code behind it
	}
	cc.Entry = "cli-" + cc.Display + "-display"
	cc.Timestamp = timestamps[rng.Intn(len(timestamps))]
	cc.Flags = rng.Intn(64)
	if cc.qt == client.Stream && rng.Intn(3) == 0 {
		cc.Polls = 1 + rng.Intn(5) // Count
	}
	return cc
}

// drawPhases builds the response phases for a case from a message source.
func drawPhases(rng *rand.Rand, cc *clientCase, next func() *pb.SubscribeResponse) [][]*pb.SubscribeResponse {
	nph := 1
	// Further phases are played on the client's poll triggers; only the polling
	// protocol sends them (the proto displays read the stream to its end and the
	// single display never polls, so they get everything in one phase).
	if cc.qt == client.Poll && (cc.Display == "" || cc.Display == "group") {
		nph = 1 + cc.Polls
	}
	var phases [][]*pb.SubscribeResponse
	for i := 0; i < nph; i++ {
		var ph []*pb.SubscribeResponse
		for j, k := 0, rng.Intn(5); j < k; j++ {
			ph = append(ph, next())
		}
		if i == 0 && cc.qt == client.Stream && rng.Intn(3) > 0 {
			// A streaming peer syncs and goes on.
			ph = append(ph, syncResp)
			for j, k := 0, 1+rng.Intn(4); j < k; j++ {
				ph = append(ph, next())
			}
		}
		if i == nph-1 && rng.Intn(3) > 0 {
			ph = append(ph, syncResp)
		}
		phases = append(phases, ph)
	}
	return phases
}

func modeClientStructured(cliEntry bool) func(r *vlib.Run, mode string, trial int, rng *rand.Rand) {
	return func(r *vlib.Run, mode string, trial int, rng *rand.Rand) {
		g := newGen(rng, baseTS)
		g.maxKeys = 250
		next := func() *pb.SubscribeResponse {
			for {
				if m, _, ok := roundTrip(g.response(), newSubscribeResponse); ok {
					return m
				}
				r.Count("generated_not_wire_valid", 1)
			}
		}
		for i := 0; i < 8; i++ {
			cc := drawCase(rng, trial*8+i, cliEntry)
			phases := drawPhases(rng, cc, next)
			out := judgeClientCase(r, mode, trial, cc, phases)
			if r.WantSample() && trial%61 == 0 && i == 0 {
				r.Sample(map[string]interface{}{"mode": mode, "trial": trial, "case": cc, "responses": textsOf(flatten(phases)), "outcome": out})
			}
		}
	}
}

func modeClientMutation(cliEntry bool) func(r *vlib.Run, mode string, trial int, rng *rand.Rand) {
	return func(r *vlib.Run, mode string, trial int, rng *rand.Rand) {
		g := newGen(rng, baseTS)
		g.maxKeys = 250
		var seeds [][]byte
		for len(seeds) < 10 {
			if _, b, ok := roundTrip(g.response(), newSubscribeResponse); ok {
				seeds = append(seeds, b)
			}
		}
		corp := newCorpus(seeds)
		unm := func(b []byte) (proto.Message, bool) {
			m := &pb.SubscribeResponse{}
			if proto.Unmarshal(b, m) != nil {
				return nil, false
			}
			return m, true
		}
		for i := 0; i < 8; i++ {
			cc := drawCase(rng, trial*8+i, cliEntry)
			var used [][]byte
			var fps string
			next := func() *pb.SubscribeResponse {
				b, m, rej := corp.mutant(rng, unm)
				r.Count("mutants_rejected_not_protobuf_valid", int64(rej))
				used = append(used, b)
				fps += shortHash(fingerprint(m))
				return m.(*pb.SubscribeResponse)
			}
			phases := drawPhases(rng, cc, next)
			out := judgeClientCase(r, mode, trial, cc, phases)
			r.Count("mutants_executed_"+map[bool]string{true: "cli", false: "client"}[cliEntry], int64(len(used)))
			if len(used) > 0 && corp.feedback(cc.Entry+"|"+out+"|"+shortHash(fps), used[rng.Intn(len(used))]) {
				r.Count("mutants_novel_kept", 1)
			}
		}
	}
}
