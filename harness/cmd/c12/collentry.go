package main

// Entry point 5: the real gnmi_collector process.
//
// The four in-process entry points reach the cache through a replica of the
// collector's stamping closure and never run manager.handleGNMIUpdate. This
// mode removes both gaps: the binary built from the working tree is started
// as a child, 2-5 scripted TLS targets stream generated hostile responses at
// it (structured grammar and byte-level mutants, wire-valid by construction:
// they travel over real gRPC), each target breaks its first stream so that
// the Reset / ConnectError / Connect closures run on whatever the first batch
// left in the cache, metadata and size refresh run every 20 / 30 ms so that
// the refresh goroutines re-read it, and a raw gRPC STREAM subscriber for "*"
// keeps the Subscribe server's matching, coalescing and sending busy with the
// same content. Oracle (1) only: the process must still be alive when every
// target's final sentinel has become visible to a fresh ONCE query. A child
// that exits by itself is a violation whose witness is its own stderr (the Go
// runtime's panic trace) plus the messages sent.

import (
	"context"
	"crypto/ecdsa"
	"crypto/elliptic"
	crand "crypto/rand"
	"crypto/tls"
	"crypto/x509"
	"crypto/x509/pkix"
	"encoding/pem"
	"fmt"
	"math/big"
	"math/rand"
	"net"
	"os"
	"os/exec"
	"path/filepath"
	"regexp"
	"strconv"
	"strings"
	"sync"
	"sync/atomic"
	"time"

	"google.golang.org/grpc"
	"google.golang.org/grpc/codes"
	"google.golang.org/grpc/credentials"
	"google.golang.org/grpc/status"
	"google.golang.org/protobuf/encoding/prototext"
	"google.golang.org/protobuf/proto"

	pb "github.com/openconfig/gnmi/proto/gnmi"
	tpb "github.com/openconfig/gnmi/proto/target"

	"verif/internal/vlib"
)

func prepareCollector(tier, work string) error {
	repo := os.Getenv("VERIF_REPO")
	if repo == "" {
		repo = "/repo"
	}
	cmd := exec.Command("go", "build", "-tags", "verif", "-o", filepath.Join(work, "gnmi_collector"), "./cmd/gnmi_collector")
	cmd.Dir = repo
	cmd.Env = append(os.Environ(), "GOFLAGS=-mod=mod", "GOPROXY=off", "GOSUMDB=off", "GOTOOLCHAIN=local")
	if out, err := cmd.CombinedOutput(); err != nil {
		return fmt.Errorf("building gnmi_collector from %s: %v: %s", repo, err, out)
	}
	return nil
}

type hostileTarget struct {
	name     string
	batches  [][]*pb.SubscribeResponse // batch i is played on session i; the last one ends with the sentinel and stays open
	nonce    string
	mu       sync.Mutex
	sessions int
	sent     int
	allSent  time.Time
	pb.UnimplementedGNMIServer
}

func (t *hostileTarget) Subscribe(stream pb.GNMI_SubscribeServer) error {
	if _, err := stream.Recv(); err != nil {
		return err
	}
	t.mu.Lock()
	idx := t.sessions
	t.sessions++
	t.mu.Unlock()
	if idx >= len(t.batches) {
		<-stream.Context().Done()
		return nil
	}
	for _, r := range t.batches[idx] {
		if err := stream.Send(r); err != nil {
			return err
		}
		t.mu.Lock()
		t.sent++
		t.mu.Unlock()
	}
	if idx < len(t.batches)-1 {
		return status.Error(codes.Unavailable, "scripted stream failure")
	}
	t.mu.Lock()
	t.allSent = time.Now()
	t.mu.Unlock()
	<-stream.Context().Done()
	return nil
}

func c12SelfSigned(dir string) (tls.Certificate, string, string, error) {
	priv, err := ecdsa.GenerateKey(elliptic.P256(), crand.Reader)
	if err != nil {
		return tls.Certificate{}, "", "", err
	}
	tmpl := &x509.Certificate{SerialNumber: big.NewInt(1), Subject: pkix.Name{CommonName: "localhost"}, NotBefore: time.Now().Add(-time.Hour), NotAfter: time.Now().Add(24 * time.Hour),
		KeyUsage: x509.KeyUsageDigitalSignature | x509.KeyUsageCertSign, ExtKeyUsage: []x509.ExtKeyUsage{x509.ExtKeyUsageServerAuth}, IsCA: true, BasicConstraintsValid: true,
		DNSNames: []string{"localhost"}, IPAddresses: []net.IP{net.IPv4(127, 0, 0, 1)}}
	der, err := x509.CreateCertificate(crand.Reader, tmpl, tmpl, &priv.PublicKey, priv)
	if err != nil {
		return tls.Certificate{}, "", "", err
	}
	kb, _ := x509.MarshalECPrivateKey(priv)
	certPEM := pem.EncodeToMemory(&pem.Block{Type: "CERTIFICATE", Bytes: der})
	keyPEM := pem.EncodeToMemory(&pem.Block{Type: "EC PRIVATE KEY", Bytes: kb})
	cf, kf := filepath.Join(dir, "cert.pem"), filepath.Join(dir, "key.pem")
	os.WriteFile(cf, certPEM, 0o600)
	os.WriteFile(kf, keyPEM, 0o600)
	c, err := tls.X509KeyPair(certPEM, keyPEM)
	return c, cf, kf, err
}

// ownsListener: the child itself holds the LISTEN socket of the port (see the
// note in cmd/c01: a port found free can be taken by a stranger meanwhile).
func ownsListener(pid, port int) bool {
	inodes := map[string]bool{}
	for _, f := range []string{"/proc/net/tcp", "/proc/net/tcp6"} {
		b, err := os.ReadFile(f)
		if err != nil {
			continue
		}
		for _, l := range strings.Split(string(b), "\n")[1:] {
			fs := strings.Fields(l)
			if len(fs) < 10 || fs[3] != "0A" {
				continue
			}
			i := strings.LastIndex(fs[1], ":")
			if i < 0 {
				continue
			}
			if p, err := strconv.ParseInt(fs[1][i+1:], 16, 32); err == nil && int(p) == port {
				inodes[fs[9]] = true
			}
		}
	}
	ents, err := os.ReadDir(fmt.Sprintf("/proc/%d/fd", pid))
	if err != nil || len(inodes) == 0 {
		return false
	}
	for _, e := range ents {
		if t, err := os.Readlink(fmt.Sprintf("/proc/%d/fd/%s", pid, e.Name())); err == nil && strings.HasPrefix(t, "socket:[") {
			if inodes[strings.TrimSuffix(strings.TrimPrefix(t, "socket:["), "]")] {
				return true
			}
		}
	}
	return false
}

var collFrameRe = regexp.MustCompile(`(?m)^([A-Za-z0-9_./\-]+(?:\.\(\*?[A-Za-z0-9_]+\))?\.[A-Za-z0-9_.]+(?:\[\.\.\.\])?)\(`)

// collectorDeath reads the child's stderr: the panic / fatal message and the
// innermost frame of the first goroutine block that is not the Go runtime's.
func collectorDeath(log string) (kind, site, msg string) {
	i := strings.Index(log, "\npanic: ")
	j := strings.Index(log, "\nfatal error: ")
	at := -1
	switch {
	case i >= 0 && (j < 0 || i < j):
		at, kind = i, "panic"
	case j >= 0:
		at, kind = j, "fatal-error"
	}
	if at < 0 {
		// glog's Fatal / Exit lines start with F.
		for _, l := range strings.Split(log, "\n") {
			if strings.HasPrefix(l, "F") && strings.Contains(l, "] ") {
				return "log-fatal", "", l
			}
		}
		return "exit", "", ""
	}
	rest := log[at+1:]
	if nl := strings.Index(rest, "\n"); nl > 0 {
		msg = rest[:nl]
	}
	g := strings.Index(rest, "\ngoroutine ")
	if g < 0 {
		return kind, "", msg
	}
	block := rest[g+1:]
	if e := strings.Index(block, "\n\n"); e > 0 {
		block = block[:e]
	}
	for _, m := range collFrameRe.FindAllStringSubmatch(block, -1) {
		fn := m[1]
		if strings.HasPrefix(fn, "runtime.") || strings.HasPrefix(fn, "runtime/") || strings.HasPrefix(fn, "panic") || strings.HasPrefix(fn, "sync.") || strings.HasPrefix(fn, "sync/") || strings.HasPrefix(fn, "internal/") {
			continue
		}
		return kind, strings.TrimPrefix(fn, "github.com/openconfig/gnmi/"), msg
	}
	return kind, "", msg
}

func sentinelResponse(nonce string) *pb.SubscribeResponse {
	return &pb.SubscribeResponse{Response: &pb.SubscribeResponse_Update{Update: &pb.Notification{
		Timestamp: time.Now().UnixNano(),
		// An origin of its own: a hostile update can legitimately store a leaf at
		// [target, openconfig] (an element-less path under the stamped default
		// origin), after which nothing below that origin is accepted any more.
		Prefix: &pb.Path{Origin: "c12origin"},
		Update: []*pb.Update{{Path: &pb.Path{Elem: []*pb.PathElem{{Name: "c12sentinel"}, {Name: "nonce"}}},
			Val: &pb.TypedValue{Value: &pb.TypedValue_StringVal{StringVal: nonce}}}},
	}}}
}

// sentinelVisible asks the collector (fresh connection, ONCE) for the sentinel leaf of a target.
func sentinelVisible(addr, target, nonce string) (bool, error) {
	ctx, cancel := context.WithTimeout(context.Background(), 5*time.Second)
	defer cancel()
	conn, err := grpc.NewClient(addr, grpc.WithTransportCredentials(credentials.NewTLS(&tls.Config{InsecureSkipVerify: true})))
	if err != nil {
		return false, err
	}
	defer conn.Close()
	st, err := pb.NewGNMIClient(conn).Subscribe(ctx)
	if err != nil {
		return false, err
	}
	req := &pb.SubscribeRequest{Request: &pb.SubscribeRequest_Subscribe{Subscribe: &pb.SubscriptionList{
		Mode: pb.SubscriptionList_ONCE, Prefix: &pb.Path{Target: target, Origin: "c12origin"},
		Subscription: []*pb.Subscription{{Path: &pb.Path{Elem: []*pb.PathElem{{Name: "c12sentinel"}}}}}}}}
	if err := st.Send(req); err != nil {
		return false, err
	}
	for {
		resp, err := st.Recv()
		if err != nil {
			return false, err
		}
		if resp.GetSyncResponse() {
			return false, nil
		}
		for _, u := range resp.GetUpdate().GetUpdate() {
			if u.GetVal().GetStringVal() == nonce {
				return true, nil
			}
		}
	}
}

func modeCollectorProcess(mutate bool) func(r *vlib.Run, mode string, trial int, rng *rand.Rand) {
	return func(r *vlib.Run, mode string, trial int, rng *rand.Rand) {
		dir, err := os.MkdirTemp(r.WorkDir, "coll")
		if err != nil {
			r.Inconclusive("collector-process: no scratch directory")
			return
		}
		defer os.RemoveAll(dir)
		cert, certFile, keyFile, err := c12SelfSigned(dir)
		if err != nil {
			r.Inconclusive("collector-process: certificate")
			return
		}
		g := newGen(rng, time.Now().Add(-time.Hour).UnixNano())
		g.maxKeys = 250
		var corp *corpus
		unm := func(b []byte) (proto.Message, bool) {
			m := &pb.SubscribeResponse{}
			if proto.Unmarshal(b, m) != nil {
				return nil, false
			}
			return m, true
		}
		if mutate {
			var seeds [][]byte
			for len(seeds) < 10 {
				if _, b, ok := roundTrip(g.response(), newSubscribeResponse); ok {
					seeds = append(seeds, b)
				}
			}
			corp = newCorpus(seeds)
		}
		next := func() *pb.SubscribeResponse {
			if mutate {
				_, m, rej := corp.mutant(rng, unm)
				r.Count("mutants_rejected_not_protobuf_valid", int64(rej))
				return m.(*pb.SubscribeResponse)
			}
			for {
				if m, _, ok := roundTrip(g.response(), newSubscribeResponse); ok {
					return m
				}
				r.Count("generated_not_wire_valid", 1)
			}
		}
		cfg := &tpb.Configuration{Request: map[string]*pb.SubscribeRequest{}, Target: map[string]*tpb.Target{}, Revision: 1}
		cfg.Request["all"] = &pb.SubscribeRequest{Request: &pb.SubscribeRequest_Subscribe{Subscribe: &pb.SubscriptionList{
			Prefix: &pb.Path{}, Subscription: []*pb.Subscription{{Path: &pb.Path{Elem: []*pb.PathElem{{Name: "*"}}}}}}}}
		nT := 2 + rng.Intn(4)
		var targets []*hostileTarget
		var servers []*grpc.Server
		total := 0
		for i := 0; i < nT; i++ {
			// Names include the two the generator addresses its notifications to.
			name := []string{"dev1", "dev2", "dev3", "dev4", "dev5"}[i]
			ht := &hostileTarget{name: name, nonce: fmt.Sprintf("n-%d-%d-%d", r.Seed, trial, i)}
			nb := 1 + rng.Intn(2)
			for b := 0; b < nb; b++ {
				var batch []*pb.SubscribeResponse
				for k, n := 0, 40+rng.Intn(160); k < n; k++ {
					batch = append(batch, next())
				}
				total += len(batch)
				ht.batches = append(ht.batches, batch)
			}
			ht.batches[nb-1] = append(ht.batches[nb-1], sentinelResponse(ht.nonce))
			lis, err := net.Listen("tcp", "127.0.0.1:0")
			if err != nil {
				r.Inconclusive("collector-process: cannot listen")
				return
			}
			srv := grpc.NewServer(grpc.Creds(credentials.NewServerTLSFromCert(&cert)))
			pb.RegisterGNMIServer(srv, ht)
			go srv.Serve(lis)
			servers = append(servers, srv)
			targets = append(targets, ht)
			cfg.Target[name] = &tpb.Target{Addresses: []string{lis.Addr().String()}, Request: "all"}
		}
		defer func() {
			for _, s := range servers {
				s.Stop()
			}
		}()
		cfgFile := filepath.Join(dir, "collector.cfg")
		os.WriteFile(cfgFile, []byte(prototext.Format(cfg)), 0o600)
		logFile := filepath.Join(dir, "collector.log")
		var cmd *exec.Cmd
		var waitErr error // valid once exited is closed
		var exited chan struct{}
		var addr string
		started := false
		for attempt := 0; attempt < 3 && !started; attempt++ {
			l, err := net.Listen("tcp", "127.0.0.1:0")
			if err != nil {
				continue
			}
			port := l.Addr().(*net.TCPAddr).Port
			l.Close()
			addr = fmt.Sprintf("127.0.0.1:%d", port)
			cmd = exec.Command(filepath.Join(r.WorkDir, "gnmi_collector"), "-config_file", cfgFile, "-cert_file", certFile, "-key_file", keyFile,
				"-port", strconv.Itoa(port), "-logtostderr", "-dial_timeout=20s", "-metadata_update_period=20ms", "-size_update_period=30ms")
			lf, _ := os.Create(logFile)
			cmd.Stdout, cmd.Stderr = lf, lf
			if err := cmd.Start(); err != nil {
				lf.Close()
				continue
			}
			lf.Close()
			ex := make(chan struct{})
			c := cmd
			go func() { waitErr = c.Wait(); close(ex) }()
			exited = ex
			selfExit := false
		wait:
			for i := 0; i < 1200; i++ {
				select {
				case <-ex:
					selfExit = true
					break wait
				default:
				}
				if ownsListener(cmd.Process.Pid, port) {
					started = true
					break
				}
				time.Sleep(25 * time.Millisecond)
			}
			if started {
				break
			}
			if !selfExit {
				cmd.Process.Kill()
				<-ex
				r.Inconclusive("collector-process: the collector did not listen within 30 s (killed)")
				return
			}
			if b, _ := os.ReadFile(logFile); !strings.Contains(string(b), "address already in use") {
				// It ended by itself before it listened and not because the port was
				// taken: the targets are dialled before the port is opened, so this
				// is judged like any later death.
				started = true
			} else {
				r.Count("collector_start_retries_port_taken", 1)
			}
		}
		if !started {
			r.Inconclusive("collector-process: the collector did not start listening")
			return
		}
		defer func() {
			cmd.Process.Kill()
			<-exited
		}()
		r.Eval(1)
		// A raw STREAM subscriber for every target keeps the Subscribe server busy.
		sctx, scancel := context.WithCancel(context.Background())
		defer scancel()
		var received int64
		var rmu sync.Mutex
		if conn, err := grpc.NewClient(addr, grpc.WithTransportCredentials(credentials.NewTLS(&tls.Config{InsecureSkipVerify: true}))); err == nil {
			defer conn.Close()
			for _, mode := range []pb.SubscriptionList_Mode{pb.SubscriptionList_STREAM, pb.SubscriptionList_POLL} {
				mode := mode
				go func() {
					st, err := pb.NewGNMIClient(conn).Subscribe(sctx)
					if err != nil {
						return
					}
					if st.Send(&pb.SubscribeRequest{Request: &pb.SubscribeRequest_Subscribe{Subscribe: &pb.SubscriptionList{Mode: mode,
						Prefix: &pb.Path{Target: "*"}, Subscription: []*pb.Subscription{{Path: &pb.Path{Elem: []*pb.PathElem{{Name: "*"}}}}}}}}) != nil {
						return
					}
					for {
						resp, err := st.Recv()
						if err != nil {
							return
						}
						rmu.Lock()
						received++
						rmu.Unlock()
						if mode == pb.SubscriptionList_POLL && resp.GetSyncResponse() {
							time.Sleep(15 * time.Millisecond)
							if st.Send(&pb.SubscribeRequest{Request: &pb.SubscribeRequest_Poll{Poll: &pb.Poll{}}}) != nil {
								return
							}
						}
					}
				}()
			}
		}
		// Hostile clients: 12-30 raw gRPC sessions send generated SubscribeRequests
		// (first request, then follow-ups: polls, second subscribes, empty requests)
		// at the collector's real gRPC server while the targets stream.
		var hostileSessions int64
		if conn, err := grpc.NewClient(addr, grpc.WithTransportCredentials(credentials.NewTLS(&tls.Config{InsecureSkipVerify: true}))); err == nil {
			defer conn.Close()
			hrng := rand.New(rand.NewSource(rng.Int63()))
			hg := newGen(hrng, time.Now().UnixNano())
			var sessions [][]*pb.SubscribeRequest
			for i, n := 0, 12+hrng.Intn(19); i < n; i++ {
				var reqs []*pb.SubscribeRequest
				for j, k := 0, 1+hrng.Intn(4); j < k; j++ {
					if m, _, ok := roundTrip(hg.subscribeRequest(j == 0), newSubscribeRequest); ok {
						reqs = append(reqs, m)
					}
				}
				if len(reqs) > 0 {
					sessions = append(sessions, reqs)
				}
			}
			var hwg sync.WaitGroup
			defer hwg.Wait()
			for _, reqs := range sessions {
				reqs := reqs
				hwg.Add(1)
				go func() {
					defer hwg.Done()
					hctx, hcancel := context.WithTimeout(sctx, 300*time.Millisecond)
					defer hcancel()
					st, err := pb.NewGNMIClient(conn).Subscribe(hctx)
					if err != nil {
						return
					}
					atomic.AddInt64(&hostileSessions, 1)
					go func() {
						for _, q := range reqs {
							if st.Send(q) != nil {
								return
							}
							time.Sleep(2 * time.Millisecond)
						}
						st.CloseSend()
					}()
					for k := 0; k < 200; k++ {
						if _, err := st.Recv(); err != nil {
							return
						}
					}
				}()
			}
		}
		witness := func() map[string]interface{} {
			w := map[string]interface{}{"mode": mode, "targets": nT, "mutated": mutate}
			sent := map[string]int{}
			last := map[string][]string{}
			for _, t := range targets {
				t.mu.Lock()
				n := t.sent
				t.mu.Unlock()
				sent[t.name] = n
				var flat []*pb.SubscribeResponse
				for _, b := range t.batches {
					flat = append(flat, b...)
				}
				// The message that killed the process is among those handed to the transport
				// last (plus whatever grpc had buffered): keep a window around that index.
				lo, hi := n-25, n+5
				if lo < 0 {
					lo = 0
				}
				if hi > len(flat) {
					hi = len(flat)
				}
				for _, m := range flat[lo:hi] {
					last[t.name] = append(last[t.name], truncate(prototext.MarshalOptions{}.Format(m), 600))
				}
			}
			w["responses_sent_per_target"] = sent
			w["responses_around_the_end"] = last
			b, _ := os.ReadFile(logFile)
			s := string(b)
			if i := strings.Index(s, "\npanic: "); i >= 0 {
				s = s[i:]
			} else if i := strings.Index(s, "\nfatal error: "); i >= 0 {
				s = s[i:]
			} else if len(s) > 3000 {
				s = s[len(s)-3000:]
			}
			w["collector_stderr"] = truncate(s, 6000)
			return w
		}
		died := func() bool {
			select {
			case <-exited:
			default:
				return false
			}
			b, _ := os.ReadFile(logFile)
			kind, site, msg := collectorDeath(string(b))
			if kind == "exit" && waitErr != nil && strings.Contains(waitErr.Error(), "signal: killed") {
				// Killed from outside (the kernel under memory pressure): not a death by its own hand.
				r.Inconclusive("collector-process: the collector was killed by SIGKILL from outside the harness (memory pressure?); scenario not judged")
				return true
			}
			if site == "" {
				site = "unattributed"
			}
			r.Violation(mode, trial, "collector-process-died:"+kind+":"+site,
				fmt.Sprintf("the gnmi_collector process ended by itself while %d targets streamed wire-valid responses at it: %s", nT, msg), witness())
			return true
		}
		deadline := time.Now().Add(60 * time.Second)
		for _, t := range targets {
			for {
				if died() {
					return
				}
				ok, qerr := sentinelVisible(addr, t.name, t.nonce)
				if ok {
					break
				}
				if time.Now().After(deadline) {
					if died() {
						return
					}
					t.mu.Lock()
					done := !t.allSent.IsZero()
					t.mu.Unlock()
					r.Inconclusive(fmt.Sprintf("collector-process: sentinel not visible within 60 s (target finished sending: %v); the process is alive; last query error: %v", done, qerr))
					return
				}
				time.Sleep(20 * time.Millisecond)
			}
		}
		// Everything was consumed and re-read by at least one refresh period.
		time.Sleep(60 * time.Millisecond)
		if died() {
			return
		}
		rmu.Lock()
		got := received
		rmu.Unlock()
		r.Count("collector_process_responses_streamed_at_it", int64(total))
		r.Count("collector_process_hostile_client_sessions", atomic.LoadInt64(&hostileSessions))
		r.Count("collector_process_responses_relayed_to_subscribers", got)
		r.Count("collector_process_target_sessions", int64(func() int {
			n := 0
			for _, t := range targets {
				t.mu.Lock()
				n += t.sessions
				t.mu.Unlock()
			}
			return n
		}()))
		r.Distinct(vlib.Hash(mode, trial, nT, total))
		if r.WantSample() && trial%7 == 0 {
			r.Sample(map[string]interface{}{"mode": mode, "trial": trial, "targets": nT, "responses": total, "relayed": got, "outcome": "alive, every sentinel visible"})
		}
	}
}
