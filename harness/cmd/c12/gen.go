package main

import (
	"fmt"
	"math"
	"math/rand"
	"strings"

	"google.golang.org/protobuf/proto"
	"google.golang.org/protobuf/types/known/anypb"

	pb "github.com/openconfig/gnmi/proto/gnmi"
	extpb "github.com/openconfig/gnmi/proto/gnmi_ext"
)

// The structured grammar. Everything is drawn from the trial's PRNG; the
// alphabet is tiny so that messages collide on paths (type changes, stale and
// equal timestamps, prefix collisions) and is salted with the hostile corners
// the property statement lists.

var (
	plainNames = []string{"a", "b", "c"}
	metaLeaves = []string{"sync", "connected", "connectedAddress", "connectError", "targetLeaves", "targetLeavesAdded",
		"targetLeavesDeleted", "targetLeavesEmpty", "targetLeavesUpdated", "targetLeavesStale", "targetLeavesFuture",
		"targetLeavesSuppressed", "targetSize", "latestTimestamp", "serverName"}
	hostileNames = []string{"", "*", "meta", "...", "a/b", " ", "héllo", "dev1", "openconfig", "\x00", "sync", "latency", "window", "2s", "avg",
		strings.Repeat("n", 300)}
	knownTargets = []string{"dev1", "dev2"}
)

type gen struct {
	rng *rand.Rand
	ts  int64 // monotone timestamp source (nanoseconds)
	// maxKeys bounds the "huge key map" corner. The CLI's group display costs
	// time cubic in the path depth (minutes for a 5000-element path): that is
	// resource exhaustion, outside this property, and only trips the watchdog.
	maxKeys int
	// pending holds the rest of a multi-message recipe: notification() hands
	// these out first, so the messages of a recipe arrive back to back.
	pending []*pb.Notification
}

func newGen(rng *rand.Rand, ts int64) *gen { return &gen{rng: rng, ts: ts, maxKeys: 5000} }

func (g *gen) pick(ss []string) string { return ss[g.rng.Intn(len(ss))] }
func (g *gen) chance(pct int) bool     { return g.rng.Intn(100) < pct }

func (g *gen) name() string {
	switch x := g.rng.Intn(20); {
	case x < 12:
		return g.pick(plainNames)
	case x < 14:
		return "*"
	case x < 15:
		return "meta"
	case x < 16:
		return g.pick(metaLeaves)
	}
	return g.pick(hostileNames)
}

func (g *gen) names(min, max int) []string {
	n := min + g.rng.Intn(max-min+1)
	out := make([]string, n)
	for i := range out {
		out[i] = g.name()
	}
	return out
}

// fullPath draws the index names of a complete path (origin position
// included), biased to the corners.
func (g *gen) fullPath() []string {
	switch x := g.rng.Intn(100); {
	case x < 10:
		return []string{} // root
	case x < 15:
		return []string{"meta"}
	case x < 27:
		return []string{"meta", g.pick(metaLeaves)}
	case x < 29:
		return []string{"meta", g.pick(metaLeaves), g.name()}
	case x < 31:
		return []string{"meta", "latency", "window", g.pick([]string{"2s", "4s", "1h"}), g.pick([]string{"avg", "max", "min", "x"})}
	case x < 33:
		return []string{"meta", g.name()}
	case x < 36:
		return []string{"*"}
	case x < 38:
		return []string{g.pick(plainNames), "*"}
	case x < 40:
		out := make([]string, 30+g.rng.Intn(40))
		for i := range out {
			out[i] = g.pick(plainNames)
		}
		return out
	case x < 70:
		// the hot leaves every state holds: a/b, a/c, b, c/d, ...
		return [][]string{{"a", "b"}, {"a", "c"}, {"b"}, {"c", "d"}, {"a"}, {"c"}, {"a", "b", "c"}, {"d", "v", "e"}, {"e", "f"}, {"oc", "x"}}[g.rng.Intn(10)]
	}
	return g.names(1, 4)
}

// encode turns index names into a Path in one of the encodings.
func (g *gen) encode(names []string, allowNil bool) *pb.Path {
	if len(names) == 0 {
		switch x := g.rng.Intn(10); {
		case x < 3 && allowNil:
			return nil
		case x < 8:
			return &pb.Path{}
		case x < 9:
			return &pb.Path{Elem: []*pb.PathElem{}}
		}
		return &pb.Path{Element: []string{}}
	}
	p := &pb.Path{}
	switch x := g.rng.Intn(20); {
	case x < 4: // deprecated encoding
		p.Element = append([]string{}, names...)
	case x < 6: // both encodings at once
		for _, n := range names {
			p.Elem = append(p.Elem, &pb.PathElem{Name: n})
		}
		p.Element = g.names(0, 3)
	case x < 9 && len(names) >= 2: // names folded into keys: a[k=b]
		for i := 0; i < len(names); i++ {
			e := &pb.PathElem{Name: names[i]}
			if i+1 < len(names) && g.chance(60) {
				e.Key = map[string]string{g.pick([]string{"k", "", "name", "*"}): names[i+1]}
				i++
			}
			p.Elem = append(p.Elem, e)
		}
	default:
		for _, n := range names {
			p.Elem = append(p.Elem, &pb.PathElem{Name: n})
		}
	}
	return p
}

// decorate adds what a grammar-conforming but unusual peer may add to a path.
func (g *gen) decorate(p *pb.Path) *pb.Path {
	if p == nil {
		return nil
	}
	switch x := g.rng.Intn(100); {
	case x < 3:
		p.Origin = g.pick([]string{"openconfig", "meta", "x", "*", ""})
	case x < 5:
		p.Target = g.pick([]string{"dev1", "*", "other"})
	case x < 6: // huge key map
		m := map[string]string{}
		k := 60 + g.rng.Intn(200)
		if g.chance(10) {
			k = 2000 + g.rng.Intn(3000)
		}
		if k > g.maxKeys {
			k = g.maxKeys
		}
		for i := 0; i < k; i++ {
			m[fmt.Sprintf("k%d", i)] = fmt.Sprintf("v%d", g.rng.Intn(50))
		}
		p.Elem = append(p.Elem, &pb.PathElem{Name: g.pick(plainNames), Key: m})
	case x < 9: // a few keys, odd ones
		e := &pb.PathElem{Name: g.name(), Key: map[string]string{}}
		for i, k := 0, 1+g.rng.Intn(3); i < k; i++ {
			e.Key[g.pick([]string{"", "k", "z", "*", "a/b"})] = g.pick([]string{"", "v", "*", "meta", "x/y"})
		}
		p.Elem = append(p.Elem, e)
	case x < 11: // empty element
		p.Elem = append(p.Elem, &pb.PathElem{})
	}
	return p
}

// split distributes a full index path over origin, prefix elements and path.
func (g *gen) split(full []string) (origin string, pre, p []string) {
	if len(full) > 0 && g.chance(15) {
		origin, full = full[0], full[1:]
	}
	k := 0
	if g.chance(35) {
		k = g.rng.Intn(len(full) + 1)
	}
	if g.chance(8) {
		k = len(full) // everything in the prefix
	}
	return origin, full[:k], full[k:]
}

func (g *gen) timestamp() int64 {
	switch x := g.rng.Intn(100); {
	case x < 70:
		g.ts += int64(g.rng.Intn(3)) * 1000 // equal or newer
		return g.ts
	case x < 80:
		return g.ts - int64(g.rng.Intn(5000)) // stale
	case x < 84:
		return 0
	case x < 87:
		return -1
	case x < 90:
		return math.MaxInt64
	case x < 93:
		return math.MinInt64
	case x < 96:
		return g.ts + int64(g.rng.Intn(1000))*1e12 // far future
	}
	return g.rng.Int63()
}

func (g *gen) json() []byte {
	return [][]byte{[]byte(`{"a":1}`), []byte(`[1,"x",null]`), []byte(`"s"`), []byte(`1e400`), []byte(`{`), {}, nil, []byte(`null`),
		[]byte(`{"a":{"b":[{},[]]}}`), []byte("\xff\xfe"), []byte(strings.Repeat("[", 200))}[g.rng.Intn(11)]
}

// scalar draws one TypedValue arm (no nil).
func (g *gen) scalar(depth int) *pb.TypedValue {
	switch g.rng.Intn(19) {
	case 0:
		return &pb.TypedValue{} // no arm set
	case 1:
		return &pb.TypedValue{Value: &pb.TypedValue_StringVal{StringVal: g.pick([]string{"", "x", "up", "true", "1", "héllo"})}}
	case 2:
		return &pb.TypedValue{Value: &pb.TypedValue_IntVal{IntVal: []int64{0, 1, -1, 42, math.MaxInt64, math.MinInt64}[g.rng.Intn(6)]}}
	case 3:
		return &pb.TypedValue{Value: &pb.TypedValue_UintVal{UintVal: []uint64{0, 1, 42, math.MaxUint64}[g.rng.Intn(4)]}}
	case 4:
		return &pb.TypedValue{Value: &pb.TypedValue_BoolVal{BoolVal: g.chance(50)}}
	case 5:
		return &pb.TypedValue{Value: &pb.TypedValue_BytesVal{BytesVal: [][]byte{nil, {}, {0}, {1, 2, 3}}[g.rng.Intn(4)]}}
	case 6:
		return &pb.TypedValue{Value: &pb.TypedValue_FloatVal{FloatVal: []float32{0, 1.5, -2.25, float32(math.NaN()), float32(math.Inf(1))}[g.rng.Intn(5)]}}
	case 7, 8:
		return &pb.TypedValue{Value: &pb.TypedValue_DoubleVal{DoubleVal: []float64{0, 1.5, -2.25, math.NaN(), math.Inf(-1), 1e300}[g.rng.Intn(6)]}}
	case 9:
		d := &pb.Decimal64{Digits: []int64{0, 1, -5, math.MaxInt64}[g.rng.Intn(4)], Precision: []uint32{0, 1, 18, math.MaxUint32}[g.rng.Intn(4)]}
		if g.chance(20) {
			d = &pb.Decimal64{}
		}
		return &pb.TypedValue{Value: &pb.TypedValue_DecimalVal{DecimalVal: d}}
	case 10:
		sa := &pb.ScalarArray{}
		if depth < 3 {
			for i, k := 0, g.rng.Intn(4); i < k; i++ {
				sa.Element = append(sa.Element, g.scalar(depth+1))
			}
		}
		return &pb.TypedValue{Value: &pb.TypedValue_LeaflistVal{LeaflistVal: sa}}
	case 11:
		a := &anypb.Any{TypeUrl: g.pick([]string{"", "type.googleapis.com/gnmi.Path", "x", "type.googleapis.com/nosuch.Type"}), Value: [][]byte{nil, {1, 2}, {0xff}}[g.rng.Intn(3)]}
		return &pb.TypedValue{Value: &pb.TypedValue_AnyVal{AnyVal: a}}
	case 12:
		return &pb.TypedValue{Value: &pb.TypedValue_JsonVal{JsonVal: g.json()}}
	case 13:
		return &pb.TypedValue{Value: &pb.TypedValue_JsonIetfVal{JsonIetfVal: g.json()}}
	case 14:
		return &pb.TypedValue{Value: &pb.TypedValue_AsciiVal{AsciiVal: g.pick([]string{"", "ascii", "\x00"})}}
	case 15:
		return &pb.TypedValue{Value: &pb.TypedValue_ProtoBytes{ProtoBytes: [][]byte{nil, {8, 1}, {0xff, 0xff}}[g.rng.Intn(3)]}}
	case 16:
		return &pb.TypedValue{Value: &pb.TypedValue_DoubleVal{DoubleVal: 1.5}}
	case 17:
		return &pb.TypedValue{Value: &pb.TypedValue_StringVal{StringVal: "x"}}
	}
	return &pb.TypedValue{Value: &pb.TypedValue_IntVal{IntVal: 7}}
}

var encodings = []pb.Encoding{pb.Encoding_JSON, pb.Encoding_BYTES, pb.Encoding_PROTO, pb.Encoding_ASCII, pb.Encoding_JSON_IETF, pb.Encoding(9), pb.Encoding(-1)}

// update draws an Update for path p: every value arm, no value, and the
// deprecated value field with every encoding.
func (g *gen) update(p *pb.Path) *pb.Update {
	u := &pb.Update{Path: p}
	switch x := g.rng.Intn(100); {
	case x < 12: // no value at all
	case x < 22: // deprecated field only
		u.Value = &pb.Value{Value: g.json(), Type: encodings[g.rng.Intn(len(encodings))]}
		if g.chance(15) {
			u.Value = &pb.Value{}
		}
	case x < 26: // both
		u.Value = &pb.Value{Value: g.json(), Type: encodings[g.rng.Intn(len(encodings))]}
		u.Val = g.scalar(0)
	default:
		u.Val = g.scalar(0)
	}
	if g.chance(5) {
		u.Duplicates = []uint32{1, 7, math.MaxUint32}[g.rng.Intn(3)]
	}
	return u
}

func (g *gen) prefixTarget(target string) string {
	switch x := g.rng.Intn(100); {
	case x < 86:
		return target
	case x < 90:
		return ""
	case x < 93:
		return "*"
	case x < 96:
		return "nosuch"
	}
	return g.pick(knownTargets)
}

// hotLeaf is one of the leaves every populated state holds, with the value it
// was populated with.
type hotLeaf struct {
	origin string
	pre    []string
	path   *pb.Path
	val    func() *pb.TypedValue
}

var hotLeaves = []hotLeaf{
	{"", nil, &pb.Path{Elem: []*pb.PathElem{{Name: "a"}, {Name: "b"}}}, func() *pb.TypedValue { return tvD(1.5) }},
	{"", []string{"a"}, &pb.Path{Elem: []*pb.PathElem{{Name: "c"}}}, func() *pb.TypedValue { return tvS("x") }},
	{"", nil, &pb.Path{Elem: []*pb.PathElem{{Name: "b"}}}, func() *pb.TypedValue { return tvI(1) }},
	{"", nil, &pb.Path{Elem: []*pb.PathElem{{Name: "d", Key: map[string]string{"k": "v"}}, {Name: "e"}}}, func() *pb.TypedValue { return tvB(true) }},
	{"", nil, &pb.Path{Element: []string{"e", "f"}}, func() *pb.TypedValue { return tvD(2) }},
	{"oc", nil, &pb.Path{Elem: []*pb.PathElem{{Name: "x"}}}, func() *pb.TypedValue { return tvS("o") }},
}

// repeatThenRejected is the recipe "a cached leaf A repeated unchanged, then a
// part the cache rejects, in ONE non-atomic notification": with event-driven
// emulation on, the repeat is accepted but suppressed, and the rejected part
// that follows must not touch A (nor anything else). It returns the messages
// to send back to back; the last one is the notification in question, the
// earlier ones make sure A (and, for the stale variant, B) are cached.
func (g *gen) repeatThenRejected(target string) []*pb.Notification {
	a := hotLeaves[g.rng.Intn(len(hotLeaves))]
	val := a.val
	if g.chance(40) {
		v := g.scalar(0)
		val = func() *pb.TypedValue { return proto.Clone(v).(*pb.TypedValue) }
	}
	prefix := func() *pb.Path {
		p := elemPath(a.pre)
		p.Target, p.Origin = target, a.origin
		return p
	}
	partA := func() *pb.Update { return &pb.Update{Path: proto.Clone(a.path).(*pb.Path), Val: val()} }
	g.ts += 1000
	t0 := g.ts
	var out []*pb.Notification
	if g.chance(60) { // do not rely on the state: cache A first
		out = append(out, &pb.Notification{Timestamp: t0, Prefix: prefix(), Update: []*pb.Update{partA()}})
	}
	tN := t0 + int64(g.rng.Intn(2))*1000 // equal or newer than the cached one
	var rejected []*pb.Update
	switch g.rng.Intn(7) {
	case 0: // below a leaf
		p := proto.Clone(a.path).(*pb.Path)
		if len(p.Elem) > 0 {
			p.Elem = append(p.Elem, &pb.PathElem{Name: "under"})
		} else {
			p.Element = append(p.Element, "under")
		}
		rejected = append(rejected, &pb.Update{Path: p, Val: g.scalar(0)})
	case 1: // a branch
		p := proto.Clone(a.path).(*pb.Path)
		if len(p.Elem) > 1 {
			p.Elem = p.Elem[:len(p.Elem)-1]
		} else if len(p.Element) > 1 {
			p.Element = p.Element[:len(p.Element)-1]
		} else {
			p = &pb.Path{} // the prefix itself (or the root)
		}
		rejected = append(rejected, &pb.Update{Path: p, Val: g.scalar(0)})
	case 2: // empty path (with an element-less prefix: the root)
		rejected = append(rejected, &pb.Update{Path: &pb.Path{}, Val: g.scalar(0)})
		if len(a.pre) > 0 || a.origin != "" {
			rejected[0].Path = nil
		}
	case 3: // stale: B is cached with a newer timestamp than this notification's
		b := &pb.Path{Elem: []*pb.PathElem{{Name: "stale"}, {Name: g.pick(plainNames)}}}
		out = append(out, &pb.Notification{Timestamp: tN + 5000, Prefix: prefix(), Update: []*pb.Update{{Path: proto.Clone(b).(*pb.Path), Val: tvI(1)}}})
		rejected = append(rejected, &pb.Update{Path: b, Val: tvI(2)})
		g.ts = tN + 5000
	case 4: // the same timestamp and content as cached: stale as well
		b := &pb.Path{Elem: []*pb.PathElem{{Name: "same"}}}
		out = append(out, &pb.Notification{Timestamp: tN, Prefix: prefix(), Update: []*pb.Update{{Path: proto.Clone(b).(*pb.Path), Val: tvI(1)}}})
		rejected = append(rejected, &pb.Update{Path: b, Val: tvI(1)})
	default: // anything the grammar draws (often rejected: meta leaves of the wrong type, no value, collisions)
		rejected = append(rejected, g.update(g.decorate(g.encode(g.fullPath(), true))))
	}
	last := &pb.Notification{Timestamp: tN, Prefix: prefix()}
	if g.chance(25) { // something accepted first
		last.Update = append(last.Update, &pb.Update{Path: &pb.Path{Elem: []*pb.PathElem{{Name: "fresh"}, {Name: g.pick(plainNames)}}}, Val: g.scalar(0)})
	}
	last.Update = append(last.Update, partA())
	last.Update = append(last.Update, rejected...)
	if g.chance(20) {
		last.Update = append(last.Update, g.update(g.encode(g.fullPath(), true)))
	}
	if g.chance(10) {
		last.Delete = append(last.Delete, elemPath([]string{"nosuch"}))
	}
	if g.ts < tN {
		g.ts = tN
	}
	return append(out, last)
}

// notification draws a Notification addressed (mostly) to target.
func (g *gen) notification(target string) *pb.Notification {
	if len(g.pending) > 0 {
		n := g.pending[0]
		g.pending = g.pending[1:]
		return n
	}
	if g.chance(5) {
		seq := g.repeatThenRejected(target)
		g.pending = seq[1:]
		return seq[0]
	}
	n := &pb.Notification{Timestamp: g.timestamp()}
	full := g.fullPath()
	origin, pre, rest := g.split(full)
	if g.chance(2) {
		n.Prefix = nil // a peer may omit the prefix
	} else {
		n.Prefix = g.encode(pre, false)
		if n.Prefix == nil {
			n.Prefix = &pb.Path{}
		}
		n.Prefix.Target = g.prefixTarget(target)
		n.Prefix.Origin = origin
		if origin == "" && g.chance(6) {
			n.Prefix.Origin = g.pick([]string{"openconfig", "meta", "oc", "*"})
		}
		if g.chance(4) {
			g.decorate(n.Prefix)
		}
	}
	first := func() *pb.Path { return g.decorate(g.encode(rest, true)) }
	other := func() *pb.Path {
		if g.chance(30) {
			return first()
		}
		return g.decorate(g.encode(g.fullPath(), true))
	}
	switch x := g.rng.Intn(100); {
	case x < 45: // single update
		n.Update = []*pb.Update{g.update(first())}
	case x < 60: // single delete
		n.Delete = []*pb.Path{first()}
	case x < 72: // atomic
		n.Atomic = true
		for i, k := 0, g.rng.Intn(4); i < k; i++ {
			n.Update = append(n.Update, g.update(other()))
		}
		if g.chance(15) {
			n.Delete = []*pb.Path{other()}
		}
	case x < 75: // nothing
	case x < 78: // many parts
		for i, k := 0, 20+g.rng.Intn(60); i < k; i++ {
			n.Update = append(n.Update, g.update(other()))
		}
	default: // multi
		n.Update = append(n.Update, g.update(first()))
		for i, k := 0, g.rng.Intn(3); i < k; i++ {
			n.Update = append(n.Update, g.update(other()))
		}
		for i, k := 0, g.rng.Intn(3); i < k; i++ {
			n.Delete = append(n.Delete, other())
		}
		if g.chance(25) { // duplicates
			n.Update = append(n.Update, proto.Clone(n.Update[0]).(*pb.Update))
		}
	}
	// Delete paths cannot be nil on the wire as list members: replace.
	for i, d := range n.Delete {
		if d == nil {
			n.Delete[i] = &pb.Path{}
		}
	}
	return n
}

// ---- SubscribeRequest ---------------------------------------------------------

func (g *gen) extension() []*extpb.Extension {
	if !g.chance(6) {
		return nil
	}
	switch g.rng.Intn(4) {
	case 0:
		return []*extpb.Extension{{}}
	case 1:
		return []*extpb.Extension{{Ext: &extpb.Extension_RegisteredExt{RegisteredExt: &extpb.RegisteredExtension{Id: extpb.ExtensionID(99), Msg: []byte{1}}}}}
	case 2:
		return []*extpb.Extension{{Ext: &extpb.Extension_History{History: &extpb.History{}}}, {Ext: &extpb.Extension_Depth{Depth: &extpb.Depth{Level: math.MaxUint32}}}}
	}
	return []*extpb.Extension{{Ext: &extpb.Extension_MasterArbitration{MasterArbitration: &extpb.MasterArbitration{}}}}
}

var listModes = []pb.SubscriptionList_Mode{pb.SubscriptionList_STREAM, pb.SubscriptionList_ONCE, pb.SubscriptionList_POLL}

func (g *gen) subscription() *pb.Subscription {
	s := &pb.Subscription{}
	switch x := g.rng.Intn(100); {
	case x < 8: // nil path
	case x < 20:
		s.Path = g.encode([]string{"*"}, false)
	case x < 30:
		s.Path = g.encode(nil, false)
	default:
		s.Path = g.decorate(g.encode(g.fullPath(), true))
	}
	if g.chance(30) {
		s.Mode = []pb.SubscriptionMode{0, 1, 2, 99, -1}[g.rng.Intn(5)]
		s.SampleInterval = []uint64{0, 1, 1e9, math.MaxUint64}[g.rng.Intn(4)]
		s.HeartbeatInterval = []uint64{0, 1, math.MaxUint64}[g.rng.Intn(3)]
		s.SuppressRedundant = g.chance(50)
	}
	return s
}

func (g *gen) subscribeRequest(first bool) *pb.SubscribeRequest {
	r := &pb.SubscribeRequest{Extension: g.extension()}
	x := g.rng.Intn(100)
	if !first {
		switch {
		case x < 70:
			r.Request = &pb.SubscribeRequest_Poll{Poll: &pb.Poll{}}
			return r
		case x < 80:
			return r // nothing set
		}
	} else {
		switch {
		case x < 3:
			return r
		case x < 6:
			r.Request = &pb.SubscribeRequest_Poll{Poll: &pb.Poll{}}
			return r
		}
	}
	sl := &pb.SubscriptionList{}
	r.Request = &pb.SubscribeRequest_Subscribe{Subscribe: sl}
	if g.chance(3) {
		return r // empty list: no prefix
	}
	switch y := g.rng.Intn(100); {
	case y < 3: // nil prefix
	default:
		_, pre, _ := g.split(g.fullPath())
		if g.chance(60) {
			pre = nil
		}
		sl.Prefix = g.encode(pre, false)
		if sl.Prefix == nil {
			sl.Prefix = &pb.Path{}
		}
		switch z := g.rng.Intn(100); {
		case z < 50:
			sl.Prefix.Target = g.pick(knownTargets)
		case z < 80:
			sl.Prefix.Target = "*"
		case z < 86:
			sl.Prefix.Target = ""
		case z < 92:
			sl.Prefix.Target = "nosuch"
		default:
			sl.Prefix.Target = g.pick(hostileNames)
		}
		if g.chance(15) {
			sl.Prefix.Origin = g.pick([]string{"openconfig", "meta", "oc", "*", "x"})
		}
	}
	switch y := g.rng.Intn(100); {
	case y < 5:
	case y < 8:
		for i, k := 0, 50+g.rng.Intn(200); i < k; i++ {
			sl.Subscription = append(sl.Subscription, g.subscription())
		}
	default:
		for i, k := 0, 1+g.rng.Intn(4); i < k; i++ {
			sl.Subscription = append(sl.Subscription, g.subscription())
		}
		if g.chance(25) { // duplicate paths
			sl.Subscription = append(sl.Subscription, proto.Clone(sl.Subscription[0]).(*pb.Subscription))
		}
	}
	switch y := g.rng.Intn(100); {
	case y < 90:
		sl.Mode = listModes[g.rng.Intn(3)]
	default:
		sl.Mode = []pb.SubscriptionList_Mode{3, 7, -1, math.MaxInt32, math.MinInt32}[g.rng.Intn(5)]
	}
	sl.UpdatesOnly = g.chance(20)
	if g.chance(20) {
		sl.Encoding = encodings[g.rng.Intn(len(encodings))]
		sl.AllowAggregation = g.chance(50)
		sl.Qos = &pb.QOSMarking{Marking: math.MaxUint32}
		sl.UseModels = []*pb.ModelData{{}, {Name: "m", Organization: "o", Version: "v"}}
	}
	return r
}

// ---- SubscribeResponse ----------------------------------------------------------

// response draws one message of a response stream as a target / collector may
// send it. rootBias raises the share of updates without target and elements.
func (g *gen) response() *pb.SubscribeResponse {
	r := &pb.SubscribeResponse{Extension: g.extension()}
	switch x := g.rng.Intn(100); {
	case x < 8:
		r.Response = &pb.SubscribeResponse_SyncResponse{SyncResponse: g.chance(85)}
	case x < 11:
		r.Response = &pb.SubscribeResponse_Error{Error: &pb.Error{Code: uint32(g.rng.Intn(20)), Message: g.pick([]string{"", "boom"}),
			Data: &anypb.Any{TypeUrl: "x", Value: []byte{1}}}}
	case x < 13: // nothing set
	case x < 21: // root-ish: no target, few or no elements
		n := g.notification("")
		if n.Prefix != nil {
			n.Prefix.Target = ""
			if g.chance(70) {
				n.Prefix.Origin = ""
			}
		}
		r.Response = &pb.SubscribeResponse_Update{Update: n}
	default:
		n := g.notification(g.pick([]string{"dev1", "dev1", "", "dev2"}))
		r.Response = &pb.SubscribeResponse_Update{Update: n}
	}
	return r
}

// ---- wire round trip ----------------------------------------------------------------

// roundTrip is the definition of "a message a peer can send": it must survive
// marshal -> unmarshal. It returns the unmarshalled message and its encoding.
func roundTrip[T proto.Message](m T, fresh func() T) (T, []byte, bool) {
	var zero T
	b, err := proto.Marshal(m)
	if err != nil {
		return zero, nil, false
	}
	out := fresh()
	if err := proto.Unmarshal(b, out); err != nil {
		return zero, nil, false
	}
	return out, b, true
}

func newNotification() *pb.Notification           { return &pb.Notification{} }
func newSubscribeRequest() *pb.SubscribeRequest   { return &pb.SubscribeRequest{} }
func newSubscribeResponse() *pb.SubscribeResponse { return &pb.SubscribeResponse{} }
