// C12 — No message from a remote peer can crash a process.
//
// Panic monitor over the four entry points a peer's bytes reach:
//
//  1. cache ingest: Cache.GnmiUpdate followed by UpdateMetadata / UpdateSize /
//     Reset / Query (which re-read what was stored), directly and behind the
//     collector's stamping logic with live subscribers attached;
//
//  2. subscribe.Server.Subscribe over an in-memory stream (single sessions, and
//     storms of concurrent ONCE / POLL requests that are rejected mid-walk);
//
//  3. the real gnmi client receive path (client/gnmi.Client built with
//     NewFromConn under client.BaseClient / client.CacheClient) over a bufconn
//     gRPC server that plays generated response streams;
//
//  4. cli.QueryDisplay in group / single / proto / shortproto display, fed by
//     the same server.
//
//  5. the real gnmi_collector process (collentry.go): manager receive path,
//     the collector's own closures, refresh goroutines and Subscribe server,
//     fed by scripted TLS targets; judged by the process staying alive.
//
// Every call runs under recover(); the children of vlib catch what recover
// cannot see (panics on goroutines the code under test starts). Oracle (2): a
// rejected notification leaves the cache content intact.
//
// "A message a peer can send" = a message that survives proto marshal ->
// unmarshal. Generators (all seeded): a structured grammar biased to the
// hostile corners, state x message, and byte-level mutation of valid encodings
// (kept only if they still unmarshal) guided by a cheap novelty signal.
package main

import (
	"math/rand"
	"os"
	"runtime/pprof"
	"strings"

	"verif/internal/vlib"
)

type modeSpec struct {
	name            string
	quick, thorough int
	run             func(r *vlib.Run, mode string, trial int, rng *rand.Rand)
}

var modes = []modeSpec{
	{"cache-history", 3200, 45000, modeCacheHistory},                       // x 20-50 calls
	{"cache-matrix", 1200, 15000, modeCacheMatrix},                         // x 3 messages x 6 states + refreshes
	{"cache-mutation", 1300, 22000, modeCacheMutation},                     // x 60-120 mutants
	{"subscribe-structured", 1300, 20000, modeSubscribeStructured},         // x 8 sessions
	{"subscribe-mutation", 1000, 15000, modeSubscribeMutation},             // x 12 sessions
	{"once-rejected-storm", 320, 2400, modeOnceRejectedStorm},              // x ~1000 concurrent sessions
	{"client-structured", 700, 9000, modeClientStructured(false)},          // x 8 streams
	{"client-mutation", 500, 8000, modeClientMutation(false)},              // x 8 streams
	{"cli-structured", 1100, 15000, modeClientStructured(true)},            // x 8 streams
	{"cli-mutation", 800, 12000, modeClientMutation(true)},                 // x 8 streams
	{"collector-process-structured", 24, 480, modeCollectorProcess(false)}, // x 2-5 targets x 40-400 responses at the real binary
	{"collector-process-mutation", 24, 480, modeCollectorProcess(true)},
}

func body(r *vlib.Run) {
	// glog output of the code under test (one line per Subscribe, per dropped
	// update, ...) is dropped: it goes through the os.Stderr variable, while the
	// runtime's crash traces, which the parent classifies, go to descriptor 2.
	if dn, err := os.OpenFile(os.DevNull, os.O_WRONLY, 0); err == nil && os.Getenv("C12_KEEP_GLOG") == "" {
		os.Stderr = dn
	}
	if pf := os.Getenv("C12_CPUPROFILE"); pf != "" { // development aid
		if f, err := os.Create(pf); err == nil {
			pprof.StartCPUProfile(f)
			defer pprof.StopCPUProfile()
		}
	}
	installGlobals()
	startNet()
	only := os.Getenv("C12_MODES") // development aid: comma-separated subset of modes
	for _, m := range modes {
		m := m
		if only != "" && !strings.Contains(","+only+",", ","+m.name+",") {
			continue
		}
		r.ForTrials(m.name, r.N(m.quick, m.thorough), func(trial int, rng *rand.Rand) {
			m.run(r, m.name, trial, rng)
		})
	}
}

func main() {
	vlib.Main(&vlib.Spec{
		ID: "C12",
		Rule: "Per entry point (cache ingest + refresh calls, Subscribe handler, gnmi client receive path, CLI display) three seeded sources of wire-valid messages " +
			"(every message is used only after a proto marshal -> unmarshal round trip): a structured grammar biased to the hostile corners (empty / root paths, 'meta' alone and " +
			"meta/<known leaf> with every value arm and none, element-less prefixes with atomic, both path encodings at once, wildcards in updates, deletes on empty targets, " +
			"value-type changes on one leaf, unknown enum values, huge key maps, nil Update.Path, deprecated Update.value with every encoding, duplicates, empty names); " +
			"for the Subscribe handler additionally storms of concurrent ONCE / POLL sessions whose request path.CompletePath rejects at a varying subscription index (GOMAXPROCS 2/4/8/all, 3-8 connections); " +
			"state x message (each message against the cache states empty / populated / after Reset / type-confused meta leaf stored / latency windows configured / collector wiring with live subscribers); " +
			"byte-level mutation (field duplication, drop, reorder, renumber, retype, scalar and length edits, bit flips, truncation, splice; mutants kept only if they unmarshal; per-trial corpus " +
			"grows by mutants whose (entry point, outcome class, structural fingerprint) is new). Every call runs under recover(); a rejected notification is followed by a comparison of the whole cache content " +
			"with its content before the call. Process mode: the gnmi_collector binary built from the working tree is streamed at by 2-5 scripted TLS targets (structured and mutated responses, first stream broken by the target, refresh periods 20/30 ms, one STREAM and one POLL subscriber for '*') and must be alive when every target's sentinel is visible to a fresh ONCE query. A case is distinct non-trivial when the entry point ran to a verdict (returned or panicked) on at least one wire-valid message: hashed by entry point, state / display case and the wire bytes of its messages.",
		Assumptions: []string{
			"a message a peer can send = a protobuf message that survives marshal -> unmarshal (Go-only shapes such as nil list members are excluded); HTTP/2 / gRPC framing violations are grpc-go's business",
			"the collector's stamping of prefix target / origin (package main of cmd/gnmi_collector, not importable) is replicated in the harness line by line for the in-process modes; the collector-process modes run the real binary and judge only that the process stays alive (a sentinel under an origin of its own marks that everything before it was consumed)",
			"oracle (2) compares the content visible through Cache.Query(target, [*]) immediately before and after a rejected message; for a multi-part notification only leaves addressed by none of its parts are required to be unchanged (index per model.CacheIndex / model.MatchQ), unless every part was rejected",
			"a panic on a goroutine started by the code under test cannot be recovered: it ends the child process and is reported by the parent as crash:<function> with the saved current case as witness",
			"resource exhaustion (multi-GiB messages) is out of scope; watchdogs (60 s) only ever yield 'inconclusive'",
		},
		QuickShards: 8, ThoroughShards: 16,
		MinDistinctQuick: 20000, MinDistinctThorough: 300000,
		Prepare: prepareCollector,
		Body:    body,
	})
}
