package main

import (
	"math"
	"math/rand"

	"google.golang.org/protobuf/encoding/protowire"
	"google.golang.org/protobuf/proto"
)

// Byte-level mutation of valid encodings. A mutant is used only if it still
// unmarshals into the message type (it is protobuf-valid, hence something a
// peer can put on the wire).

type wfield struct {
	num protowire.Number
	typ protowire.Type
	raw []byte // whole field including the tag
	val []byte // payload of a length-delimited field
}

func parseFields(b []byte) ([]wfield, bool) {
	var out []wfield
	for len(b) > 0 {
		num, typ, n := protowire.ConsumeTag(b)
		if n < 0 {
			return nil, false
		}
		m := protowire.ConsumeFieldValue(num, typ, b[n:])
		if m < 0 {
			return nil, false
		}
		f := wfield{num: num, typ: typ, raw: b[:n+m]}
		if typ == protowire.BytesType {
			v, k := protowire.ConsumeBytes(b[n:])
			if k < 0 {
				return nil, false
			}
			f.val = v
		}
		out = append(out, f)
		b = b[n+m:]
		if len(out) > 4096 {
			return nil, false
		}
	}
	return out, true
}

func joinFields(fs []wfield) []byte {
	var out []byte
	for _, f := range fs {
		out = append(out, f.raw...)
	}
	return out
}

func bytesField(num protowire.Number, payload []byte) wfield {
	raw := protowire.AppendTag(nil, num, protowire.BytesType)
	raw = protowire.AppendBytes(raw, payload)
	return wfield{num: num, typ: protowire.BytesType, raw: raw, val: payload}
}

var interestingVarints = []uint64{0, 1, 2, 3, 4, 5, 7, 127, 128, 255, 1 << 31, 1<<32 - 1, 1 << 32, math.MaxInt64, 1 << 63, math.MaxUint64}

// mutStruct mutates b as a protobuf message: fields are duplicated, dropped,
// reordered, renumbered, retyped, their values edited, or (recursively) their
// payloads mutated with the enclosing lengths fixed up.
func mutStruct(rng *rand.Rand, b, other []byte, depth int) []byte {
	fs, ok := parseFields(b)
	if !ok || len(fs) == 0 {
		return mutRaw(rng, b, other)
	}
	i := rng.Intn(len(fs))
	f := fs[i]
	op := rng.Intn(14)
	if depth < 6 && f.typ == protowire.BytesType && len(f.val) > 0 && rng.Intn(3) > 0 {
		op = 0
	}
	switch op {
	case 0: // descend
		if f.typ == protowire.BytesType {
			fs[i] = bytesField(f.num, mutStruct(rng, f.val, other, depth+1))
			return joinFields(fs)
		}
		fallthrough
	case 1: // duplicate
		fs = append(fs[:i+1], append([]wfield{f}, fs[i+1:]...)...)
	case 2: // drop
		fs = append(fs[:i:i], fs[i+1:]...)
	case 3: // swap
		j := rng.Intn(len(fs))
		fs[i], fs[j] = fs[j], fs[i]
	case 4: // move to the end (a later oneof arm wins)
		fs = append(append(fs[:i:i], fs[i+1:]...), f)
	case 5: // renumber, same wire type
		num := protowire.Number(1 + rng.Intn(14))
		raw := protowire.AppendTag(nil, num, f.typ)
		_, _, n := protowire.ConsumeTag(f.raw)
		fs[i] = wfield{num: num, typ: f.typ, raw: append(raw, f.raw[n:]...), val: f.val}
	case 6: // edit a scalar value
		switch f.typ {
		case protowire.VarintType:
			raw := protowire.AppendTag(nil, f.num, f.typ)
			fs[i].raw = protowire.AppendVarint(raw, interestingVarints[rng.Intn(len(interestingVarints))])
		case protowire.Fixed32Type:
			raw := protowire.AppendTag(nil, f.num, f.typ)
			fs[i].raw = protowire.AppendFixed32(raw, []uint32{0, 0x7fc00000, 0x7f800000, 0xffffffff, rng.Uint32()}[rng.Intn(5)])
		case protowire.Fixed64Type:
			raw := protowire.AppendTag(nil, f.num, f.typ)
			fs[i].raw = protowire.AppendFixed64(raw, []uint64{0, 0x7ff8000000000001, 0x7ff0000000000000, math.MaxUint64, rng.Uint64()}[rng.Intn(5)])
		default:
			fs[i] = bytesField(f.num, nil) // empty payload
		}
	case 7: // payload of another length-delimited field of this message (type confusion)
		var cands [][]byte
		for _, o := range fs {
			if o.typ == protowire.BytesType {
				cands = append(cands, o.val)
			}
		}
		if len(cands) == 0 {
			return mutRaw(rng, b, other)
		}
		num := f.num
		if rng.Intn(2) == 0 {
			num = protowire.Number(1 + rng.Intn(14))
		}
		fs = append(fs, bytesField(num, cands[rng.Intn(len(cands))]))
	case 8: // splice: append a field of the other message
		ofs, ok := parseFields(other)
		if !ok || len(ofs) == 0 {
			return mutRaw(rng, b, other)
		}
		fs = append(fs, ofs[rng.Intn(len(ofs))])
	case 9: // add a new scalar field
		raw := protowire.AppendTag(nil, protowire.Number(1+rng.Intn(14)), protowire.VarintType)
		fs = append(fs, wfield{raw: protowire.AppendVarint(raw, interestingVarints[rng.Intn(len(interestingVarints))])})
	case 10: // add an empty sub-message
		fs = append(fs, bytesField(protowire.Number(1+rng.Intn(14)), nil))
	case 11: // wrap: the whole message as a payload of one of its own fields
		if len(b) < 4096 {
			fs = append(fs, bytesField(protowire.Number(1+rng.Intn(14)), b))
		}
	case 12: // retype the tag only (usually breaks the parse; kept if it does not)
		_, _, n := protowire.ConsumeTag(f.raw)
		raw := protowire.AppendTag(nil, f.num, []protowire.Type{protowire.VarintType, protowire.BytesType, protowire.Fixed32Type, protowire.Fixed64Type}[rng.Intn(4)])
		fs[i].raw = append(raw, f.raw[n:]...)
	default:
		return mutRaw(rng, b, other)
	}
	return joinFields(fs)
}

// mutRaw mutates b without looking at its structure.
func mutRaw(rng *rand.Rand, b, other []byte) []byte {
	out := append([]byte{}, b...)
	if len(out) == 0 {
		return []byte{byte(rng.Intn(256))}
	}
	i := rng.Intn(len(out))
	switch rng.Intn(9) {
	case 0: // bit flip
		out[i] ^= 1 << uint(rng.Intn(8))
	case 1: // byte set
		out[i] = []byte{0, 1, 0x7f, 0x80, 0xff, byte(rng.Intn(256))}[rng.Intn(6)]
	case 2: // insert
		out = append(out[:i], append([]byte{byte(rng.Intn(256))}, out[i:]...)...)
	case 3: // delete
		out = append(out[:i], out[i+1:]...)
	case 4: // truncate
		out = out[:i]
	case 5: // length edit: +-1 on a byte (most small bytes after a tag are lengths)
		if rng.Intn(2) == 0 {
			out[i]++
		} else {
			out[i]--
		}
	case 6: // splice head of b with tail of other
		if len(other) > 0 {
			out = append(out[:i], other[rng.Intn(len(other)):]...)
		}
	case 7: // duplicate a chunk
		j := i + rng.Intn(len(out)-i) + 1
		chunk := append([]byte{}, out[i:j]...)
		out = append(out[:j], append(chunk, out[j:]...)...)
	case 8: // swap two chunks' worth of bytes
		j := rng.Intn(len(out))
		out[i], out[j] = out[j], out[i]
	}
	return out
}

// corpus is the per-trial state of the mutation engine: seeds plus the
// mutants that reached something new.
type corpus struct {
	items [][]byte
	seen  map[string]struct{}
	kept  int
}

func newCorpus(seeds [][]byte) *corpus {
	return &corpus{items: seeds, seen: map[string]struct{}{}}
}

// mutant returns the next protobuf-valid mutant, decoded by unmarshal.
// tries counts rejected (non-unmarshalling) candidates.
func (c *corpus) mutant(rng *rand.Rand, unmarshal func([]byte) (proto.Message, bool)) (b []byte, m proto.Message, rejected int) {
	for try := 0; try < 40; try++ {
		base := c.items[rng.Intn(len(c.items))]
		other := c.items[rng.Intn(len(c.items))]
		cand := base
		for k, n := 0, 1+rng.Intn(3); k < n; k++ {
			if rng.Intn(10) < 6 {
				cand = mutStruct(rng, cand, other, 0)
			} else {
				cand = mutRaw(rng, cand, other)
			}
		}
		if len(cand) > 1<<16 {
			rejected++
			continue
		}
		if m, ok := unmarshal(cand); ok {
			return cand, m, rejected
		}
		rejected++
	}
	base := c.items[rng.Intn(len(c.items))]
	m, _ = unmarshal(base)
	return base, m, rejected
}

// feedback keeps a mutant that produced an outcome not seen before in this trial.
func (c *corpus) feedback(key string, b []byte) bool {
	if _, ok := c.seen[key]; ok {
		return false
	}
	c.seen[key] = struct{}{}
	if len(c.items) < 96 {
		c.items = append(c.items, b)
	} else {
		c.items[8+len(c.seen)%88] = b
	}
	c.kept++
	return true
}
