package main

import (
	"context"
	"fmt"
	"math/rand"
	"runtime"
	"strings"
	"sync"
	"sync/atomic"
	"time"

	"google.golang.org/protobuf/proto"

	"github.com/openconfig/gnmi/cache"
	pb "github.com/openconfig/gnmi/proto/gnmi"
	"github.com/openconfig/gnmi/subscribe"

	"verif/internal/vlib"
)

// Mode "once-rejected-storm" of entry point 2.
//
// A rejected request must "just return an error". For a ONCE (and POLL)
// request that path.CompletePath rejects, the handler's walker goroutine fails
// and closes the client queue at the very moment the handler itself wakes up
// and runs its deferred clean-up: whatever the two do to the shared queue
// then happens concurrently. The window is a few instructions wide, so this
// mode sends a storm: tens of thousands of such sessions per run, from several
// concurrent "connections" against one server, with GOMAXPROCS varied. Each
// session is driven through Server.Subscribe on vlib.Stream to completion under
// recover(); a panic on the walker goroutine ends the child and is reported by
// the parent with the saved storm description as witness.

type stormReq struct {
	req   *pb.SubscribeRequest
	label string // why (and whether) the request is rejected
	text  string
}

var stormValidPaths = [][]string{{"*"}, {"a"}, {"a", "b"}, {"a", "*"}, {"b"}, {"x"}, {"meta"}, {"meta", "sync"}, {}, {"c", "d"}, {"e", "f"}, {"nosuch"}}

func elemPath(names []string) *pb.Path {
	p := &pb.Path{}
	for _, n := range names {
		p.Elem = append(p.Elem, &pb.PathElem{Name: n})
	}
	return p
}

// stormRequest draws a request of the storm: mostly ONCE, a few POLL; one
// subscription (at a varying index, after a varying number of valid ones) is
// one that path.CompletePath rejects.
func (g *gen) stormRequest() *stormReq {
	sl := &pb.SubscriptionList{Prefix: &pb.Path{Target: g.pick([]string{"*", "dev1", "dev1", "dev2"})}}
	sl.Mode = pb.SubscriptionList_ONCE
	if g.chance(12) {
		sl.Mode = pb.SubscriptionList_POLL
	}
	label := ""
	var bad *pb.Path
	switch x := g.rng.Intn(100); {
	case x < 5: // nothing to reject: the control group
		label = "valid"
		if g.chance(50) {
			sl.Prefix.Origin = g.pick([]string{"openconfig", "oc"})
		}
	case x < 55: // origin in the prefix and in the path
		label = "origin-in-prefix-and-path"
		sl.Prefix.Origin = g.pick([]string{"openconfig", "oc", "x"})
		if g.chance(30) {
			sl.Prefix.Elem = elemPath(g.pick2([][]string{{"a"}, {"c"}, {"x"}})).Elem
		}
		bad = elemPath(stormValidPaths[g.rng.Intn(len(stormValidPaths))])
		bad.Origin = g.pick([]string{"openconfig", "oc", "x", sl.Prefix.Origin})
	default: // origin in the path, elements in the prefix
		label = "path-origin-with-prefix-elements"
		pre := g.pick2([][]string{{"a"}, {"a", "b"}, {"c"}, {"meta"}, {"*"}})
		if g.chance(20) {
			sl.Prefix.Element = pre // deprecated encoding
		} else {
			sl.Prefix.Elem = elemPath(pre).Elem
		}
		bad = elemPath(stormValidPaths[g.rng.Intn(len(stormValidPaths))])
		bad.Origin = g.pick([]string{"openconfig", "oc", "x"})
	}
	// Valid subscriptions before the rejected one: the walker has inserted
	// items (and the sender may be busy) by the time it fails.
	for i, k := 0, g.rng.Intn(5); i < k; i++ {
		sl.Subscription = append(sl.Subscription, &pb.Subscription{Path: elemPath(stormValidPaths[g.rng.Intn(len(stormValidPaths))])})
	}
	if label == "valid" && len(sl.Subscription) == 0 {
		sl.Subscription = append(sl.Subscription, &pb.Subscription{Path: elemPath([]string{"*"})})
	}
	if bad != nil {
		sl.Subscription = append(sl.Subscription, &pb.Subscription{Path: bad})
		for i, k := 0, g.rng.Intn(3); i < k; i++ {
			sl.Subscription = append(sl.Subscription, &pb.Subscription{Path: elemPath(stormValidPaths[g.rng.Intn(len(stormValidPaths))])})
		}
	}
	return &stormReq{req: &pb.SubscribeRequest{Request: &pb.SubscribeRequest_Subscribe{Subscribe: sl}}, label: label}
}

func (g *gen) pick2(ss [][]string) []string { return ss[g.rng.Intn(len(ss))] }

type stormPanic struct {
	pi  *panicInfo
	req *stormReq
	how string
}

func modeOnceRejectedStorm(r *vlib.Run, mode string, trial int, rng *rand.Rand) {
	g := newGen(rng, baseTS)
	// The pool of distinct wire-valid requests of this batch.
	var pool []*stormReq
	for len(pool) < 24 {
		sr := g.stormRequest()
		m, _, ok := roundTrip(sr.req, newSubscribeRequest)
		if !ok {
			r.Count("generated_not_wire_valid", 1)
			continue
		}
		sr.req, sr.text = m, ptext(m)
		pool = append(pool, sr)
	}
	procs := []int{2, 4, 8, runtime.NumCPU()}[trial%4]
	workers := []int{4, 6, 3, 8}[(trial/4)%4]
	perWorker := 150 + rng.Intn(100)
	state := rng.Intn(3)
	withStats := rng.Intn(3) == 0
	cancelPct := []int{0, 0, 3, 10}[rng.Intn(4)] // the peer goes away right after its request

	var desc []map[string]string
	var hash []interface{}
	for _, sr := range pool {
		desc = append(desc, map[string]string{"class": sr.label, "request": sr.text})
		hash = append(hash, sr.text)
	}
	r.SaveCurrent(map[string]interface{}{"mode": mode, "trial": trial, "entry_point": "subscribe",
		"storm":        fmt.Sprintf("%d concurrent connections x %d sessions, each a request drawn from the pool below, against one Server.Subscribe (cache state %d, stats %v, GOMAXPROCS %d, %d%% of the peers cancel right after their request)", workers, perWorker, state, withStats, procs, cancelPct),
		"request_pool": desc})

	c := cache.New(knownTargets)
	if state >= 1 {
		populate(c, "dev1", baseTS)
	}
	if state >= 2 {
		populate(c, "dev2", baseTS)
	}
	var opts []subscribe.Option
	if withStats {
		opts = append(opts, subscribe.WithStats())
	}
	srv, _ := subscribe.NewServer(c, opts...)
	c.SetClient(srv.Update)

	old := runtime.GOMAXPROCS(procs)
	defer runtime.GOMAXPROCS(old)

	// Watchdog (never a verdict): cancelling the parent context ends every stream.
	wctx, wcancel := context.WithTimeout(context.Background(), 2*watchdog)
	defer wcancel()

	var (
		wg       sync.WaitGroup
		mu       sync.Mutex
		panics   []stormPanic
		stop     int32
		sessions int64
		byLabel  = map[string]int64{}
		outcomes = map[string]int64{}
	)
	for w := 0; w < workers; w++ {
		wrng := rand.New(rand.NewSource(vlib.Mix(rng.Int63(), int64(w))))
		wg.Add(1)
		go func() {
			defer wg.Done()
			local := map[string]int64{}
			localOut := map[string]int64{}
			n := int64(0)
			for i := 0; i < perWorker && atomic.LoadInt32(&stop) == 0 && wctx.Err() == nil; i++ {
				sr := pool[wrng.Intn(len(pool))]
				req := proto.Clone(sr.req).(*pb.SubscribeRequest)
				st := vlib.NewStream(wctx, "c12")
				st.NoClone = true
				st.Push(req)
				how := "to completion"
				if wrng.Intn(100) < cancelPct {
					how = "peer cancels right after the request"
					go func() {
						runtime.Gosched()
						st.Cancel()
					}()
				} else {
					st.CloseSend()
				}
				var err error
				pi := guard(func() { err = srv.Subscribe(st) })
				st.Cancel()
				n++
				local[sr.label+"_"+strings.ToLower(req.GetSubscribe().GetMode().String())]++
				if pi != nil {
					atomic.StoreInt32(&stop, 1)
					mu.Lock()
					panics = append(panics, stormPanic{pi, sr, how})
					mu.Unlock()
					break
				}
				switch {
				case err == nil:
					localOut["returned_ok"]++
				case strings.Contains(err.Error(), "origin"):
					localOut["rejected_by_completepath"]++
				default:
					localOut["other_error"]++
				}
			}
			mu.Lock()
			sessions += n
			for k, v := range local {
				byLabel[k] += v
			}
			for k, v := range localOut {
				outcomes[k] += v
			}
			mu.Unlock()
		}()
	}
	wg.Wait()
	timedOut := wctx.Err() != nil
	// Let the goroutines of the last sessions (walker, sender) finish their
	// clean-up before the next batch changes GOMAXPROCS: that clean-up is the
	// window this mode is about.
	time.Sleep(time.Millisecond)

	r.Eval(int(sessions))
	r.Count("storm_sessions", sessions)
	r.Count(fmt.Sprintf("storm_batches_gomaxprocs_%d", procs), 1)
	for k, v := range byLabel {
		r.Count("storm_sessions_"+k, v)
	}
	for k, v := range outcomes {
		r.Count("storm_outcome_"+k, v)
	}
	if timedOut {
		r.Inconclusive("once-rejected-storm: batch exceeded the watchdog")
	}
	for _, p := range panics {
		r.Count("subscribe_panics", 1)
		class := shrunkClass(p.pi.Kind, p.req.req)
		if p.pi.Kind == "channel-misuse" && p.req.label != "valid" {
			// Input class: a ONCE / POLL request the server rejects while walking.
			class = "request-rejected-during-walk"
		}
		r.Violation(mode, trial, "subscribe:"+class,
			fmt.Sprintf("subscribe: Server.Subscribe (%s, one of %d concurrent sessions): %s; request (%s): %s", p.how, workers, p.pi, p.req.label, truncate(p.req.text, 400)),
			map[string]interface{}{"entry_point": "subscribe", "request": p.req.text, "request_class": p.req.label, "panic": p.pi, "storm": map[string]interface{}{"workers": workers, "sessions_per_worker": perWorker, "gomaxprocs": procs, "cache_state": state, "request_pool": desc}})
	}
	if sessions > 0 && !timedOut {
		r.Distinct(vlib.Hash(append([]interface{}{mode, state, procs, workers}, hash...)...))
	}
	if r.WantSample() && trial%101 == 0 {
		r.Sample(map[string]interface{}{"mode": mode, "trial": trial, "sessions": sessions, "gomaxprocs": procs, "workers": workers, "outcomes": outcomes, "first_request": pool[0].text, "first_request_class": pool[0].label})
	}
}
