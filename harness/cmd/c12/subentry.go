package main

import (
	"context"
	"fmt"
	"math/rand"
	"time"

	"google.golang.org/protobuf/proto"

	"github.com/openconfig/gnmi/cache"
	pb "github.com/openconfig/gnmi/proto/gnmi"
	"github.com/openconfig/gnmi/subscribe"

	"verif/internal/vlib"
)

// Entry point 2: subscribe.Server.Subscribe over the in-memory stream, fed
// with the peer's first request and whatever it sends afterwards (poll
// triggers or anything else), against a pre-populated cache.

const watchdog = 60 * time.Second // never a verdict: a trial that exceeds it is inconclusive

// denyDev2 is a per-RPC ACL of a legal but uncomparable shape (a struct value
// holding a map): the server must never use it as a map key or compare it.
type denyDev2 struct{ denied map[string]bool }

func (d denyDev2) Check(t string) bool { return !d.denied[t] }

type partialACL struct{}

func (partialACL) NewRPCACL(context.Context) (subscribe.RPCACL, error) {
	return denyDev2{denied: map[string]bool{"dev2": true}}, nil
}
func (partialACL) Check(string, string) bool                           { return true }

type subResult struct {
	err error
	pi  *panicInfo
}

func isTargetDeleteOf(r *pb.SubscribeResponse, target string) bool {
	n := r.GetUpdate()
	if n == nil || n.GetPrefix().GetTarget() != target || len(n.GetDelete()) != 1 || len(n.GetUpdate()) != 0 {
		return false
	}
	e := n.GetDelete()[0].GetElem()
	return n.GetPrefix().GetOrigin() == "" && len(n.GetPrefix().GetElem()) == 0 && len(e) == 1 && e[0].GetName() == "*"
}

func hasSync(sent []*pb.SubscribeResponse) bool {
	for _, r := range sent {
		if _, ok := r.GetResponse().(*pb.SubscribeResponse_SyncResponse); ok {
			return true
		}
	}
	return false
}

// runSubscribe plays one client session. It returns the outcome class and,
// if something panicked, the recovered panic with the entry point and the
// message that was being processed.
func runSubscribe(r *vlib.Run, rng *rand.Rand, reqs []*pb.SubscribeRequest, feed []*pb.Notification) (out string, pi *panicInfo, entry string, culprit proto.Message, class string) {
	state := rng.Intn(3)
	mkCache := func() *cache.Cache {
		c := cache.New(knownTargets)
		if state >= 1 {
			populate(c, "dev1", baseTS)
		}
		if state >= 2 {
			populate(c, "dev2", baseTS)
		}
		return c
	}
	c := mkCache()
	var opts []subscribe.Option
	if rng.Intn(2) == 0 {
		opts = append(opts, subscribe.WithStats())
	}
	acl := rng.Intn(4) == 0
	if acl {
		opts = append(opts, subscribe.WithACL(partialACL{}))
	}
	if rng.Intn(4) == 0 {
		opts = append(opts, subscribe.WithoutDupReport())
	}
	srv, _ := subscribe.NewServer(c, opts...)
	c.SetClient(srv.Update)

	st := vlib.NewStream(context.Background(), "c12")
	defer st.Cancel()
	for _, q := range reqs {
		st.Push(q)
	}
	resCh := make(chan subResult, 1)
	gdone := make(chan struct{})
	go func() {
		var err error
		p := guard(func() { err = srv.Subscribe(st) })
		resCh <- subResult{err, p}
		close(gdone)
	}()
	finished := func() (string, *panicInfo, string, proto.Message, string) {
		res := <-resCh
		if res.pi != nil {
			return "panic", res.pi, "subscribe", reqs[0], ""
		}
		r.Count("subscribe_responses_sent_"+bucket(st.NSent()), 1)
		return errClass(res.err), nil, "", nil, ""
	}
	isDone := func() bool {
		select {
		case <-gdone:
			return true
		default:
			return false
		}
	}
	// wctx is the watchdog; pctx additionally ends when the handler returned.
	wctx, wcancel := context.WithTimeout(context.Background(), watchdog)
	defer wcancel()
	pctx, pcancel := context.WithCancel(wctx)
	defer pcancel()
	go func() {
		select {
		case <-gdone:
			pcancel()
		case <-pctx.Done():
		}
	}()

	// Phase 1: until the handler returned or the initial sync went out.
	synced := st.WaitSent(pctx, hasSync)
	if isDone() {
		return finished()
	}
	if !synced {
		r.Inconclusive("subscribe: neither returned nor synced within the watchdog")
		return "inconclusive", nil, "", nil, ""
	}
	r.Count("subscribe_sessions_synced", 1)

	// Phase 2: the session is live. Updates flow through the cache into the
	// subscription (STREAM), poll triggers are consumed (POLL).
	view := &cacheEnv{kind: "subscribe-session", c: c, targets: knownTargets} // for reading the state only
	for i, n := range feed {
		view.snapshot()
		cst := view.stateFor(n)
		before := proto.Clone(n).(*pb.Notification)
		if p := guard(func() { c.GnmiUpdate(n) }); p != nil {
			st.Cancel()
			// The cache as it was before this message, without the subscribers.
			exact := stateBuilder{"the re-created", func() *cacheEnv {
				var env *cacheEnv
				if guard(func() {
					env = &cacheEnv{kind: "subscribe-session", c: mkCache(), targets: knownTargets}
					for _, m := range feed[:i] {
						env.c.GnmiUpdate(proto.Clone(m).(*pb.Notification))
					}
				}) != nil {
					return nil
				}
				return env
			}}
			cl, _ := classifyIngestCrash(before, cst, p, []stateBuilder{exact, freshBuilder("empty")})
			return "panic", p, "cache-ingest", before, cl
		}
	}
	view.snapshot()
	confused := view.confused()
	if p := guard(func() {
		c.UpdateMetadata()
		c.Remove("dev2")
		c.Remove("dev1")
	}); p != nil {
		st.Cancel()
		cl := fallbackClass(p.Kind, nil)
		if confused {
			cl = "meta-leaf-type-confusion"
		}
		return "panic", p, "cache-refresh", nil, cl
	}
	st.CloseSend()
	sl := reqs[0].GetSubscribe()
	registered := false
	for _, s := range sl.GetSubscription() {
		if s.GetPath() != nil {
			registered = true
		}
	}
	target := sl.GetPrefix().GetTarget()
	stream := sl.GetMode() == pb.SubscriptionList_STREAM
	switch {
	case !stream, target != "*" && registered && !(acl && target == "dev2"):
		// The session ends by itself: ONCE after the walk, POLL at end of input,
		// a single-target STREAM with the deletion of its target.
		select {
		case <-gdone:
			r.Count("subscribe_sessions_ended_by_themselves", 1)
			return finished()
		case <-wctx.Done():
			r.Inconclusive("subscribe: live session did not end within the watchdog")
		}
	case registered:
		// STREAM on every target: wait for the last target's deletion to be relayed.
		if st.WaitSent(pctx, func(sent []*pb.SubscribeResponse) bool {
			for _, x := range sent {
				if isTargetDeleteOf(x, "dev1") {
					return true
				}
			}
			return false
		}) {
			r.Count("subscribe_sessions_drained_to_target_delete", 1)
		}
	}
	st.Cancel()
	select {
	case <-gdone:
		return finished()
	case <-time.After(watchdog):
		r.Inconclusive("subscribe: handler did not return after cancellation within the watchdog")
		return "inconclusive", nil, "", nil, ""
	}
}

func subscribeSession(g *gen, rng *rand.Rand) (reqs []*pb.SubscribeRequest, feed []*pb.Notification, ok bool) {
	first, _, ok := roundTrip(g.subscribeRequest(true), newSubscribeRequest)
	if !ok {
		return nil, nil, false
	}
	reqs = append(reqs, first)
	for i, k := 0, rng.Intn(4); i < k; i++ {
		if q, _, ok := roundTrip(g.subscribeRequest(false), newSubscribeRequest); ok {
			reqs = append(reqs, q)
		}
	}
	for i, k := 0, rng.Intn(6); i < k; i++ {
		if n, _, ok := roundTrip(g.notification(knownTargets[rng.Intn(10)/7]), newNotification); ok {
			feed = append(feed, n)
		}
	}
	return reqs, feed, true
}

func judgeSubscribe(r *vlib.Run, mode string, trial int, rng *rand.Rand, reqs []*pb.SubscribeRequest, feed []*pb.Notification) string {
	optSeed := rng.Int63() // the server options and cache state of this session (re-used when a crash is shrunk)
	var texts, feedTexts []string
	var hash []interface{}
	for _, q := range reqs {
		texts = append(texts, ptext(q))
		b, _ := proto.Marshal(q)
		hash = append(hash, b)
	}
	for _, n := range feed {
		feedTexts = append(feedTexts, ptext(n))
	}
	r.SaveCurrent(map[string]interface{}{"mode": mode, "trial": trial, "entry_point": "subscribe", "requests": texts, "cache_feed": feedTexts})
	out, pi, entry, culprit, class := runSubscribe(r, rand.New(rand.NewSource(optSeed)), reqs, feed)
	r.Eval(1)
	sl := reqs[0].GetSubscribe()
	if _, known := pb.SubscriptionList_Mode_name[int32(sl.GetMode())]; known {
		r.Count("subscribe_mode_"+sl.GetMode().String(), 1)
	} else {
		r.Count("subscribe_mode_unknown_enum_value", 1)
	}
	if pi != nil {
		r.Count("subscribe_panics", 1)
		if entry == "subscribe" {
			small := shrink(reqs[0], 200, func(m proto.Message) bool {
				rs := append([]*pb.SubscribeRequest{proto.Clone(m).(*pb.SubscribeRequest)}, reqs[1:]...)
				_, p2, e2, _, _ := runSubscribe(r, rand.New(rand.NewSource(optSeed)), rs, feed)
				return p2 != nil && e2 == entry && p2.Kind == pi.Kind
			})
			class = shrunkClass(pi.Kind, small)
			texts = append(texts, "shrunk first request: "+ptext(small))
		}
		r.Violation(mode, trial, entry+":"+class, fmt.Sprintf("%s (during a live Subscribe session): %s; first request: %s; message: %s", entry, pi, truncate(texts[0], 300), truncate(ptext(culprit), 300)),
			map[string]interface{}{"entry_point": entry, "requests": texts, "cache_feed": feedTexts, "panic": pi, "message": ptext(culprit)})
		return out
	}
	if out != "inconclusive" {
		r.Distinct(vlib.Hash(append([]interface{}{"subscribe"}, hash...)...))
		r.SetAdd("subscribe_outcome_classes", out)
		if out == "ok" {
			r.Count("subscribe_sessions_ok", 1)
		} else {
			r.Count("subscribe_sessions_rejected_or_failed", 1)
		}
	}
	return out
}

func modeSubscribeStructured(r *vlib.Run, mode string, trial int, rng *rand.Rand) {
	g := newGen(rng, baseTS)
	for i := 0; i < 8; i++ {
		reqs, feed, ok := subscribeSession(g, rng)
		if !ok {
			r.Count("generated_not_wire_valid", 1)
			continue
		}
		out := judgeSubscribe(r, mode, trial, rng, reqs, feed)
		if r.WantSample() && trial%97 == 0 && i == 0 {
			r.Sample(map[string]interface{}{"mode": mode, "trial": trial, "first_request": ptext(reqs[0]), "followups": len(reqs) - 1, "outcome": out})
		}
	}
}

func modeSubscribeMutation(r *vlib.Run, mode string, trial int, rng *rand.Rand) {
	g := newGen(rng, baseTS)
	var seeds [][]byte
	for len(seeds) < 8 {
		if _, b, ok := roundTrip(g.subscribeRequest(true), newSubscribeRequest); ok {
			seeds = append(seeds, b)
		}
	}
	corp := newCorpus(seeds)
	unm := func(b []byte) (proto.Message, bool) {
		q := &pb.SubscribeRequest{}
		if proto.Unmarshal(b, q) != nil {
			return nil, false
		}
		return q, true
	}
	for i := 0; i < 12; i++ {
		b, m, rej := corp.mutant(rng, unm)
		r.Count("mutants_rejected_not_protobuf_valid", int64(rej))
		reqs := []*pb.SubscribeRequest{m.(*pb.SubscribeRequest)}
		for j, k := 0, rng.Intn(3); j < k; j++ {
			_, m2, _ := corp.mutant(rng, unm)
			reqs = append(reqs, m2.(*pb.SubscribeRequest))
		}
		var feed []*pb.Notification
		for j, k := 0, rng.Intn(4); j < k; j++ {
			if n, _, ok := roundTrip(g.notification("dev1"), newNotification); ok {
				feed = append(feed, n)
			}
		}
		fp := shortHash(fingerprint(reqs[0]))
		out := judgeSubscribe(r, mode, trial, rng, reqs, feed)
		r.Count("mutants_executed_subscribe", 1)
		if corp.feedback("subscribe|"+out+"|"+fp, b) {
			r.Count("mutants_novel_kept", 1)
		}
	}
}
