// C13 — Target manager: strict per-target session discipline; silence after Remove.
// Trace-grammar monitor: the real manager.Manager (over the real
// connection.Manager) talks to a scripted gNMI server on bufconn; every
// callback and every stream opening is recorded with one global tick and fed
// to an online state machine per target.
package main

import (
	"context"
	"errors"
	"fmt"
	"math/rand"
	"net"
	"runtime"
	"strings"
	"sync"
	"sync/atomic"
	"time"

	"google.golang.org/grpc"
	"google.golang.org/grpc/codes"
	"google.golang.org/grpc/credentials/insecure"
	"google.golang.org/grpc/metadata"
	"google.golang.org/grpc/status"
	"google.golang.org/grpc/test/bufconn"

	"github.com/openconfig/gnmi/connection"
	"github.com/openconfig/gnmi/manager"
	gpb "github.com/openconfig/gnmi/proto/gnmi"
	tpb "github.com/openconfig/gnmi/proto/target"

	"verif/internal/vlib"
)

const (
	baseDelay = 20 * time.Millisecond
	maxDelay  = 40 * time.Millisecond
	// healthy mode: receive timeout and how long a healthy stream keeps sending
	healthyTimeout = 300 * time.Millisecond
	healthyFor     = 450 * time.Millisecond
)

type session struct {
	Msgs    []byte // 'u' update, 's' sync
	Outcome string // error, eof, block, healthy-error, healthy-eof
	// driver action for this session
	Action   string // none, reconnect, remove, remove-in-backoff
	ActionAt int    // message index at which the action is taken
	Refusals int    // dial refusals scripted before this session
	// DialCancel: the next dial for this session is slow (honouring its context)
	// and the driver issues Reconnect while the attempt is pending, so the
	// attempt — and every target that joined it — ends with context.Canceled.
	DialCancel bool
	// EdgeGap > 0 (outcome block): after the scripted messages the target keeps
	// sending with gaps just around the receive timeout (EdgeGap), so that message
	// arrivals race the expiry of the receive timer, until the client goes away.
	EdgeGap time.Duration
}

type event struct {
	Tick    int64
	At      time.Time
	Kind    string // add, attempt, refused, open, connect, update, sync, reset, connecterror, monitorerror, remove-returned
	Payload int64
}

type targetState struct {
	name        string
	script      []session
	mu          sync.Mutex
	events      []event
	state       string // idle, opened, live
	managed     bool
	removed     bool              // Remove returned and no re-Add yet
	opened      int               // scripted sessions begun so far (server side)
	sentBy      map[int64][]int64 // stream id -> ids of the messages the server sent on it, in order
	curSid      int64             // stream id of the stream the client opened last
	sentN       int32             // messages sent in the script being played (server side)
	resetAtOpen map[int]int
	deliv       int // messages delivered in the current session
	lastEnd     time.Time
	haveEnd     bool
	refuse      int32 // pending dial refusals
	slowDial    int32 // pending slow dials
	attempts    int   // connection attempts seen so far
	cond        *sync.Cond
	viol        []string
	violSig     []string
	ended       map[int]bool
	resetFor    int // number of resets observed
	// healthy mode: streams on which the target keeps sending well inside the
	// receive timeout until it ends the stream itself
	healthy    map[int64]*hsess
	driverActs int           // Reconnect/Remove calls issued by the driver so far
	lastEvAt   time.Time     // time of the previous event
	maxOpenGap time.Duration // longest gap between consecutive events while a stream was open
	judgeGap   time.Duration // a cut is judged only when maxOpenGap stayed below this (0: never judged)
}

type hsess struct {
	idx        int
	finishing  bool // the target is about to end the stream itself
	actsAtOpen int
}

type env struct {
	r       *vlib.Run
	targets map[string]*targetState
	tick    int64
	sidCtr  int64
	lis     *bufconn.Listener
}

func (e *env) record(ts *targetState, kind string, payload int64) {
	ts.mu.Lock()
	defer ts.mu.Unlock()
	ev := event{Tick: atomic.AddInt64(&e.tick, 1), At: time.Now(), Kind: kind, Payload: payload}
	ts.events = append(ts.events, ev)
	bad := func(sig, what string) {
		ts.viol = append(ts.viol, fmt.Sprintf("%s at event #%d (%s): %s", ts.name, len(ts.events)-1, kind, what))
		ts.violSig = append(ts.violSig, sig)
	}
	e.r.Count("event_"+kind, 1)
	if ts.state != "idle" && !ts.lastEvAt.IsZero() {
		if gap := ev.At.Sub(ts.lastEvAt); gap > ts.maxOpenGap {
			ts.maxOpenGap = gap
		}
	}
	ts.lastEvAt = ev.At
	if ts.removed && kind != "add" {
		bad("callback-after-remove", "event for a target whose Remove had already returned")
	}
	switch kind {
	case "add":
		ts.managed, ts.removed, ts.haveEnd = true, false, false
	case "attempt":
		ts.attempts++
		if ts.haveEnd {
			if gap := ev.At.Sub(ts.lastEnd); gap < baseDelay/2 {
				bad("retry-without-backoff", fmt.Sprintf("next connection attempt started %v after the previous attempt ended (minimum backoff %v)", gap, baseDelay/2))
			}
			e.r.Count("backoff_gaps_checked", 1)
		}
	case "refused":
		ts.lastEnd, ts.haveEnd = ev.At, true
	case "open":
		if ts.state != "idle" {
			bad("second-stream-before-reset", "a new stream was opened while the previous one ("+ts.state+") had not been followed by a Reset")
		}
		ts.state = "opened"
		ts.deliv = 0
		ts.curSid = payload
	case "connect":
		switch {
		case ts.state == "live":
			bad("connect-twice", "Connect reported twice on one stream")
		case ts.state != "opened":
			bad("connect-without-stream", "Connect reported while no stream is open")
		case len(ts.sentBy[ts.curSid]) < 1:
			bad("connect-before-first-message", "Connect reported although the target has not sent any message on this stream")
		}
		ts.state = "live"
	case "update", "sync":
		if ts.state != "live" {
			bad("delivery-outside-session", kind+" delivered in state "+ts.state+" (not between a Connect and its Reset)")
		} else {
			// Prefix, in order, of what the server sent in this session.
			want := int64(0)
			if sent := ts.sentBy[ts.curSid]; ts.deliv < len(sent) {
				want = sent[ts.deliv]
			}
			if (kind == "update" && want != payload) || (kind == "sync" && want >= 0) {
				bad("delivery-out-of-order", fmt.Sprintf("message #%d of the stream delivered as %s id %d, the stream carried id %d at that position (negative = sync, 0 = nothing)", ts.deliv, kind, payload, want))
			}
			ts.deliv++
		}
	case "reset":
		if ts.state == "idle" {
			bad("reset-without-stream", "Reset although no stream was open (second Reset for one stream, or none)")
		} else if h := ts.healthy[ts.curSid]; h != nil && ts.judgeGap > 0 {
			// A stream on which the target never stayed silent: it may end only
			// because the target ended it or because the driver asked for it.
			switch {
			case h.actsAtOpen != ts.driverActs:
				e.r.Count("healthy_sessions_ended_by_driver", 1)
			case ts.maxOpenGap >= ts.judgeGap:
				e.r.Count("healthy_sessions_unjudged_gap_seen", 1)
			case h.finishing:
				e.r.Count("healthy_sessions_judged_ran_to_their_end", 1)
			default:
				bad("session-ended-without-cause", fmt.Sprintf("the stream of scripted session %d was torn down (Reset after %d deliveries) although the target was still sending every few ms, no Reconnect/Remove had been issued and no gap between consecutive events on an open stream exceeded %v so far (receive timeout %v): a receive timeout was acted upon for a stream that never stayed silent", h.idx, ts.deliv, ts.maxOpenGap, 2*ts.judgeGap))
			}
		}
		ts.state = "idle"
		ts.lastEnd, ts.haveEnd = ev.At, true
		ts.resetFor++
	case "remove-returned":
		ts.managed, ts.removed = false, true
		if ts.state != "idle" {
			bad("remove-without-reset", "Remove returned while a stream ("+ts.state+") had not been followed by a Reset")
		}
	}
	ts.cond.Broadcast()
}

// ---- scripted server ----

type server struct {
	gpb.UnimplementedGNMIServer
	e *env
}

func (s *server) Subscribe(stream gpb.GNMI_SubscribeServer) error {
	req, err := stream.Recv()
	if err != nil {
		return err
	}
	name := req.GetSubscribe().GetPrefix().GetTarget()
	ts := s.e.targets[name]
	if ts == nil {
		return status.Error(codes.NotFound, "unknown target")
	}
	var sid int64
	if md, ok := metadata.FromIncomingContext(stream.Context()); ok {
		if v := md.Get("vsid"); len(v) > 0 {
			fmt.Sscanf(v[0], "%d", &sid)
		}
	}
	ts.mu.Lock()
	idx := ts.opened
	ts.opened++
	ts.resetAtOpen[idx] = ts.resetFor
	atomic.StoreInt32(&ts.sentN, 0)
	var sess session
	if idx < len(ts.script) {
		sess = ts.script[idx]
	} else {
		sess = session{Outcome: "block"}
	}
	ts.cond.Broadcast()
	ts.mu.Unlock()
	s.e.r.Count("sessions_served_"+sess.Outcome, 1)
	for i, k := range sess.Msgs {
		id := int64(idx)*1000 + int64(i) + 1
		var resp *gpb.SubscribeResponse
		if k == 's' {
			id = -id
			resp = &gpb.SubscribeResponse{Response: &gpb.SubscribeResponse_SyncResponse{SyncResponse: true}}
		} else {
			resp = &gpb.SubscribeResponse{Response: &gpb.SubscribeResponse_Update{Update: &gpb.Notification{Timestamp: id}}}
		}
		ts.mu.Lock()
		ts.sentBy[sid] = append(ts.sentBy[sid], id)
		atomic.AddInt32(&ts.sentN, 1)
		ts.cond.Broadcast()
		ts.mu.Unlock()
		if err := stream.Send(resp); err != nil {
			return err
		}
		if i%3 == 2 {
			runtime.Gosched()
		}
	}
	if sess.EdgeGap > 0 {
		for i := len(sess.Msgs); i < len(sess.Msgs)+60; i++ {
			// gap in (EdgeGap - 1.2 ms, EdgeGap + 0.3 ms), a fixed function of the position
			jit := time.Duration((i*7919+idx*104729)%1501-1200) * time.Microsecond
			select {
			case <-stream.Context().Done():
				return stream.Context().Err()
			case <-time.After(sess.EdgeGap + jit):
			}
			id := int64(idx)*1000 + int64(i) + 1
			resp := &gpb.SubscribeResponse{Response: &gpb.SubscribeResponse_Update{Update: &gpb.Notification{Timestamp: id}}}
			ts.mu.Lock()
			ts.sentBy[sid] = append(ts.sentBy[sid], id)
			atomic.AddInt32(&ts.sentN, 1)
			ts.cond.Broadcast()
			ts.mu.Unlock()
			s.e.r.Count("edge_messages_sent_around_the_receive_timeout", 1)
			if err := stream.Send(resp); err != nil {
				return err
			}
		}
	}
	if strings.HasPrefix(sess.Outcome, "healthy") {
		ts.mu.Lock()
		h := &hsess{idx: idx, actsAtOpen: ts.driverActs}
		ts.healthy[sid] = h
		ts.mu.Unlock()
		gap := time.Duration(3+idx%5*3) * time.Millisecond
		until := time.Now().Add(healthyFor)
		for i := len(sess.Msgs); time.Now().Before(until) && i < 990; i++ {
			id := int64(idx)*1000 + int64(i) + 1
			resp := &gpb.SubscribeResponse{Response: &gpb.SubscribeResponse_Update{Update: &gpb.Notification{Timestamp: id}}}
			if i%17 == 5 {
				id = -id
				resp = &gpb.SubscribeResponse{Response: &gpb.SubscribeResponse_SyncResponse{SyncResponse: true}}
			}
			ts.mu.Lock()
			ts.sentBy[sid] = append(ts.sentBy[sid], id)
			atomic.AddInt32(&ts.sentN, 1)
			ts.cond.Broadcast()
			ts.mu.Unlock()
			if err := stream.Send(resp); err != nil {
				return err
			}
			select {
			case <-stream.Context().Done():
				return stream.Context().Err()
			case <-time.After(gap):
			}
		}
		ts.mu.Lock()
		h.finishing = true
		ts.mu.Unlock()
	}
	defer func() {
		ts.mu.Lock()
		ts.ended[idx] = true
		ts.cond.Broadcast()
		ts.mu.Unlock()
	}()
	switch sess.Outcome {
	case "error", "healthy-error":
		return status.Error(codes.Unavailable, "scripted failure")
	case "eof", "healthy-eof":
		return nil
	default:
		<-stream.Context().Done()
		return stream.Context().Err()
	}
}

// ---- connection manager wrapper (records attempts, scripted refusals) ----

type cmWrap struct {
	e    *env
	real *connection.Manager
	mu   sync.Mutex
	slow map[string]int // address -> number of coming dials that are slow
}

func (c *cmWrap) takeSlow(addr string) bool {
	c.mu.Lock()
	defer c.mu.Unlock()
	if c.slow[addr] > 0 {
		c.slow[addr]--
		return true
	}
	return false
}

func (c *cmWrap) Connection(ctx context.Context, addr, dialer string) (*grpc.ClientConn, func(), error) {
	md, _ := metadata.FromOutgoingContext(ctx)
	name := ""
	if v := md.Get("target"); len(v) > 0 {
		name = v[0]
	}
	ts := c.e.targets[name]
	if ts != nil {
		c.e.record(ts, "attempt", 0)
		if atomic.LoadInt32(&ts.refuse) > 0 {
			atomic.AddInt32(&ts.refuse, -1)
			c.e.record(ts, "refused", 0)
			return nil, func() {}, errors.New("scripted dial refusal")
		}
		if atomic.LoadInt32(&ts.slowDial) > 0 {
			atomic.AddInt32(&ts.slowDial, -1)
			c.mu.Lock()
			c.slow[addr]++
			c.mu.Unlock()
		}
	}
	conn, done, err := c.real.Connection(ctx, addr, dialer)
	if err != nil && ts != nil {
		c.e.record(ts, "refused", 1)
	}
	return conn, done, err
}

type wrappedStream struct {
	grpc.ClientStream
	e     *env
	sid   int64
	first bool
}

func (w *wrappedStream) SendMsg(m interface{}) error {
	err := w.ClientStream.SendMsg(m)
	if err == nil && !w.first {
		w.first = true
		if req, ok := m.(*gpb.SubscribeRequest); ok {
			if ts := w.e.targets[req.GetSubscribe().GetPrefix().GetTarget()]; ts != nil {
				w.e.record(ts, "open", w.sid)
			}
		}
	}
	return err
}

func waitFor(ts *targetState, d time.Duration, pred func() bool) bool {
	deadline := time.Now().Add(d)
	timer := time.AfterFunc(d, func() { ts.mu.Lock(); ts.cond.Broadcast(); ts.mu.Unlock() })
	defer timer.Stop()
	ts.mu.Lock()
	defer ts.mu.Unlock()
	for !pred() {
		if time.Now().After(deadline) {
			return false
		}
		ts.cond.Wait()
	}
	return true
}

func runTrial(r *vlib.Run, mode string, trial int, rng *rand.Rand) {
	e := &env{r: r, targets: map[string]*targetState{}, lis: bufconn.Listen(1 << 20)}
	nT := 1 + rng.Intn(4)
	shareAddr := rng.Intn(2) == 0
	recvTimeout := time.Duration(0)
	if rng.Intn(2) == 0 {
		recvTimeout = 50 * time.Millisecond
	}
	healthy := mode == "healthy"
	if healthy && recvTimeout > 0 {
		recvTimeout = healthyTimeout
	}
	var names []string
	// Per-target receive_timeout override in the target's meta: none, enabling
	// ("50ms") or disabling ("0s") — the effective timeout is the override when
	// present, else the manager-wide default.
	overrides := make([]string, nT)
	effective := make([]time.Duration, nT)
	for i := 0; i < nT; i++ {
		overrides[i] = []string{"", "50ms", "0s"}[rng.Intn(3)]
		if healthy {
			overrides[i] = []string{"", healthyTimeout.String(), healthyTimeout.String(), "0s"}[rng.Intn(4)]
		}
		if !healthy && rng.Intn(4) == 0 {
			overrides[i] = "8ms" // short enough for many arrivals around its expiry (EdgeGap sessions)
		}
		effective[i] = recvTimeout
		switch overrides[i] {
		case "8ms":
			effective[i] = 8 * time.Millisecond
		case healthyTimeout.String():
			effective[i] = healthyTimeout
		case "50ms":
			effective[i] = 50 * time.Millisecond
		case "0s":
			effective[i] = 0
		}
	}
	for i := 0; i < nT; i++ {
		name := fmt.Sprintf("dev%d", i)
		names = append(names, name)
		ts := &targetState{name: name, state: "idle", ended: map[int]bool{}, sentBy: map[int64][]int64{}, resetAtOpen: map[int]int{}, healthy: map[int64]*hsess{}}
		ts.cond = sync.NewCond(&ts.mu)
		ns := 3 + rng.Intn(6)
		if healthy {
			// Streams that fail quickly (never silent), each followed sooner or
			// later by a stream on which the target keeps sending for 1.5 receive
			// timeouts before it ends the stream itself.
			ts.judgeGap = healthyTimeout / 2
			ns = 0
			for g := 1 + rng.Intn(2); g > 0; g-- {
				for f := 1 + rng.Intn(3); f > 0; f-- {
					s := session{Outcome: []string{"error", "eof"}[rng.Intn(2)], Action: "none"}
					for m := rng.Intn(12); m > 0; m-- {
						s.Msgs = append(s.Msgs, 'u')
					}
					if rng.Intn(4) == 0 {
						s.Refusals = 1
					}
					ts.script = append(ts.script, s)
				}
				s := session{Outcome: []string{"healthy-error", "healthy-eof"}[rng.Intn(2)], Action: "none"}
				for m := rng.Intn(4); m > 0; m-- {
					s.Msgs = append(s.Msgs, 'u')
				}
				if rng.Intn(5) == 0 {
					s.Action, s.ActionAt = "reconnect", len(s.Msgs)+5+rng.Intn(30)
				}
				ts.script = append(ts.script, s)
			}
		}
		for j := 0; j < ns; j++ {
			var s session
			k := rng.Intn(21)
			if rng.Intn(5) == 0 {
				k = 0
			}
			for m := 0; m < k; m++ {
				if rng.Intn(6) == 0 {
					s.Msgs = append(s.Msgs, 's')
				} else {
					s.Msgs = append(s.Msgs, 'u')
				}
			}
			s.Outcome = []string{"error", "eof", "block"}[rng.Intn(3)]
			if rng.Intn(5) == 0 {
				s.Refusals = 1 + rng.Intn(2)
			}
			s.DialCancel = rng.Intn(6) == 0
			switch s.Outcome {
			case "block":
				if effective[i] > 0 && rng.Intn(2) == 0 {
					s.Action = "none" // the receive timeout ends it
					if effective[i] < 20*time.Millisecond && rng.Intn(4) > 0 {
						s.EdgeGap = effective[i]
					}
				} else {
					s.Action = []string{"reconnect", "remove", "double-remove"}[rng.Intn(3)]
				}
				s.ActionAt = k
				if k > 0 && rng.Intn(2) == 0 {
					s.ActionAt = rng.Intn(k + 1)
				}
			default:
				switch rng.Intn(6) {
				case 0:
					s.Action, s.ActionAt = "reconnect", rng.Intn(k+1)
				case 1:
					s.Action, s.ActionAt = []string{"remove", "double-remove"}[rng.Intn(2)], rng.Intn(k+1)
				case 2:
					s.Action = "remove-in-backoff"
				default:
					s.Action = "none"
				}
			}
			ts.script = append(ts.script, s)
		}
		e.targets[name] = ts
	}
	srv := grpc.NewServer()
	gpb.RegisterGNMIServer(srv, &server{e: e})
	go srv.Serve(e.lis)
	defer srv.Stop()
	// Dial-level failures inside the real connection.Manager: the first few dials
	// of an address fail after a short delay, so that targets sharing the
	// address join the pending attempt and fail together.
	var dialMu sync.Mutex
	dialFailLeft := map[string]int{}
	dialDelay := time.Duration(5+rng.Intn(16)) * time.Millisecond
	for i := 0; i < nT; i++ {
		a := fmt.Sprintf("addr%d", i)
		if shareAddr {
			a = "shared"
		}
		if _, ok := dialFailLeft[a]; !ok {
			dialFailLeft[a] = []int{0, 0, 1, 2}[rng.Intn(4)]
		}
	}
	cm := &cmWrap{e: e, slow: map[string]int{}}
	dial := func(ctx context.Context, target string, opts ...grpc.DialOption) (*grpc.ClientConn, error) {
		dialMu.Lock()
		fail := dialFailLeft[target] > 0
		if fail {
			dialFailLeft[target]--
		}
		dialMu.Unlock()
		if fail {
			r.Count("dial_level_failures", 1)
			time.Sleep(dialDelay)
			return nil, errors.New("scripted dial failure")
		}
		if cm.takeSlow(target) {
			r.Count("slow_dials", 1)
			select {
			case <-ctx.Done():
				r.Count("slow_dials_cancelled_while_pending", 1)
				return nil, ctx.Err()
			case <-time.After(10 * dialDelay):
			}
		}
		opts = append(opts,
			grpc.WithContextDialer(func(ctx context.Context, _ string) (net.Conn, error) { return e.lis.DialContext(ctx) }),
			grpc.WithTransportCredentials(insecure.NewCredentials()),
			grpc.WithStreamInterceptor(func(ctx context.Context, desc *grpc.StreamDesc, cc *grpc.ClientConn, method string, streamer grpc.Streamer, opts ...grpc.CallOption) (grpc.ClientStream, error) {
				sid := atomic.AddInt64(&e.sidCtr, 1)
				ctx = metadata.AppendToOutgoingContext(ctx, "vsid", fmt.Sprint(sid))
				cs, err := streamer(ctx, desc, cc, method, opts...)
				if err != nil {
					return nil, err
				}
				return &wrappedStream{ClientStream: cs, e: e, sid: sid}, nil
			}))
		return grpc.NewClient("passthrough:///"+target, opts...)
	}
	real, err := connection.NewManagerCustom(map[string]connection.Dial{connection.DEFAULT: dial})
	if err != nil {
		panic(err)
	}
	cm.real = real
	// Callbacks are user code and may be slow: in a third of the trials Reset
	// (and rarely Update) take a while, which stretches the time Remove holds
	// the manager's lock and opens windows for the other targets' timers.
	slowCB := rng.Intn(3) == 0 && !healthy
	var cbMu sync.Mutex
	cbRng := rand.New(rand.NewSource(rng.Int63()))
	maybeSlow := func(kind string) {
		if !slowCB {
			return
		}
		cbMu.Lock()
		x, d := cbRng.Float64(), time.Duration(cbRng.Intn(160))*time.Millisecond
		cbMu.Unlock()
		switch {
		case kind == "reset" && x < 0.4:
			time.Sleep(d)
		case kind == "update" && x < 0.03:
			time.Sleep(d / 10)
		}
	}
	cb := func(kind string) func(string) {
		return func(name string) {
			if ts := e.targets[name]; ts != nil {
				e.record(ts, kind, 0)
				maybeSlow(kind)
			}
		}
	}
	m, err := manager.NewManager(manager.Config{
		Connect: cb("connect"),
		Reset:   cb("reset"),
		Sync:    cb("sync"),
		Update: func(name string, n *gpb.Notification) {
			if ts := e.targets[name]; ts != nil {
				e.record(ts, "update", n.GetTimestamp())
				maybeSlow("update")
			}
		},
		ConnectError:      func(name string, err error) { cb("connecterror")(name) },
		MonitorError:      func(name string, err error) { cb("monitorerror")(name) },
		ConnectionManager: cm,
		ReceiveTimeout:    recvTimeout,
		Timeout:           5 * time.Second,
	})
	if err != nil {
		panic(err)
	}
	req := &gpb.SubscribeRequest{Request: &gpb.SubscribeRequest_Subscribe{Subscribe: &gpb.SubscriptionList{Prefix: &gpb.Path{Origin: "oc"}, Subscription: []*gpb.Subscription{{Path: &gpb.Path{Elem: []*gpb.PathElem{{Name: "x"}}}}}}}}
	addrOf := func(i int) string {
		if shareAddr {
			return "shared"
		}
		return fmt.Sprintf("addr%d", i)
	}
	const grace = 40 * time.Second // 1000 x RetryMaxDelay
	// Add / Remove / Reconnect must return: a call still pending after the grace
	// period is a violation when the goroutine dump shows it inside the manager.
	var hungOnce sync.Once
	callBounded := func(what string, f func() error) (error, bool) {
		done := make(chan error, 1)
		go func() { done <- f() }()
		select {
		case err := <-done:
			return err, true
		case <-time.After(grace):
			hungOnce.Do(func() {
				buf := make([]byte, 1<<19)
				n := runtime.Stack(buf, true)
				dump := string(buf[:n])
				if strings.Contains(dump, "manager.(*Manager)."+what) {
					r.Violation(mode, trial, strings.ToLower(what)+"-never-returns", fmt.Sprintf("%s did not return within %v; the goroutine dump shows it inside the manager", what, grace), map[string]interface{}{"goroutines": dump})
				} else {
					r.Inconclusive(what + " did not return within the grace period and the dump does not attribute it")
				}
			})
			return nil, false
		}
	}
	var wg sync.WaitGroup
	stuck := make(chan string, nT)
	for i, name := range names {
		i, name := i, name
		ts := e.targets[name]
		tgt := &tpb.Target{Addresses: []string{addrOf(i)}}
		if overrides[i] != "" {
			tgt.Meta = map[string]string{"receive_timeout": overrides[i]}
		}
		act := func() { ts.mu.Lock(); ts.driverActs++; ts.mu.Unlock() }
		settle := func(what string) {
			// After Remove returned no callback may follow; keep poking Reconnect.
			ts.mu.Lock()
			n := len(ts.events)
			ts.mu.Unlock()
			for k := 0; k < 4; k++ {
				time.Sleep(15 * time.Millisecond)
				if _, ok := callBounded("Reconnect", func() error { act(); return m.Reconnect(name) }); !ok {
					return
				}
			}
			ts.mu.Lock()
			if len(ts.events) != n {
				ts.viol = append(ts.viol, fmt.Sprintf("%s: %d event(s) after Remove returned (%s): %v", name, len(ts.events)-n, what, kinds(ts.events[n:])))
				ts.violSig = append(ts.violSig, "callback-after-remove")
			}
			ts.mu.Unlock()
			r.Count("silence_windows_checked", 1)
		}
		add := func() bool {
			e.record(ts, "add", 0)
			err, returned := callBounded("Add", func() error { return m.Add(name, tgt, req) })
			if !returned {
				return false
			}
			if err != nil {
				ts.mu.Lock()
				ts.viol = append(ts.viol, fmt.Sprintf("%s: Add of an unmanaged target failed: %v", name, err))
				ts.violSig = append(ts.violSig, "add-refused")
				ts.mu.Unlock()
				return false
			}
			return true
		}
		hung := false
		remove := func(what string) {
			err, returned := callBounded("Remove", func() error { act(); return m.Remove(name) })
			if !returned {
				hung = true
				return
			}
			if err != nil {
				ts.mu.Lock()
				ts.viol = append(ts.viol, fmt.Sprintf("%s: Remove of a managed target failed: %v", name, err))
				ts.violSig = append(ts.violSig, "remove-refused")
				ts.mu.Unlock()
			}
			e.record(ts, "remove-returned", 0)
			settle(what)
		}
		// Two overlapping Remove calls with a re-Add as soon as the first has
		// succeeded: every Remove that returns nil removed a managed target (the
		// original or the re-added one) and must leave it silent.
		removeDouble := func(what string) bool {
			res := make(chan error, 2)
			for k := 0; k < 2; k++ {
				go func() {
					err, returned := callBounded("Remove", func() error { act(); return m.Remove(name) })
					if !returned {
						err = errors.New("Remove never returned")
					}
					if err == nil {
						e.record(ts, "remove-returned", 0)
					}
					res <- err
				}()
			}
			first := <-res
			if first != nil {
				if second := <-res; second != nil {
					ts.mu.Lock()
					ts.viol = append(ts.viol, fmt.Sprintf("%s: both of two concurrent Removes of a managed target failed: %v / %v", name, first, second))
					ts.violSig = append(ts.violSig, "remove-refused")
					ts.mu.Unlock()
					return false
				}
				settle(what)
				return add()
			}
			if !add() {
				return false
			}
			if second := <-res; second == nil {
				settle(what + " (the second concurrent Remove removed the re-added target)")
				r.Count("double_remove_second_removed_readded_target", 1)
				return add()
			}
			return true
		}
		wg.Add(1)
		go func() {
			defer wg.Done()
			atomic.StoreInt32(&ts.refuse, int32(ts.script[0].Refusals))
			slow := func(s session) int32 {
				if s.DialCancel {
					return 1
				}
				return 0
			}
			atomic.StoreInt32(&ts.slowDial, slow(ts.script[0]))
			attemptsSeen := 0
			if !add() {
				return
			}
			for j, s := range ts.script {
				if s.DialCancel {
					// Reconnect while the (slow) connection attempt for this session is pending.
					waitFor(ts, grace, func() bool { return ts.attempts > attemptsSeen+s.Refusals || ts.opened > j })
					ts.mu.Lock()
					pending := ts.opened <= j
					ts.mu.Unlock()
					if pending {
						if _, ok := callBounded("Reconnect", func() error { act(); return m.Reconnect(name) }); !ok {
							return
						}
						r.Count("reconnects_during_connection_attempt", 1)
					}
				}
				// Bounded progress: the j-th session must be opened while the target is managed.
				if !waitFor(ts, grace, func() bool { return ts.opened > j }) {
					stuck <- fmt.Sprintf("%s: session %d was never opened within %v although the target is managed (retry loop dead, or a silent stream not ended by the target's effective receive timeout %v?)", name, j, grace, effective[i])
					return
				}
				if j+1 < len(ts.script) {
					atomic.StoreInt32(&ts.refuse, int32(ts.script[j+1].Refusals))
					atomic.StoreInt32(&ts.slowDial, slow(ts.script[j+1]))
				}
				ts.mu.Lock()
				attemptsSeen = ts.attempts
				ts.mu.Unlock()
				// Duplicate Add must be refused and cause nothing.
				if j == 1 {
					if err := m.Add(name, tgt, req); err == nil {
						ts.mu.Lock()
						ts.viol = append(ts.viol, name+": duplicate Add accepted")
						ts.violSig = append(ts.violSig, "duplicate-add-accepted")
						ts.mu.Unlock()
					}
					r.Count("duplicate_adds_checked", 1)
				}
				switch s.Action {
				case "reconnect", "remove", "double-remove":
					waitFor(ts, grace, func() bool { return ts.opened > j+1 || ts.ended[j] || int(atomic.LoadInt32(&ts.sentN)) >= s.ActionAt })
					if s.Action == "reconnect" {
						if _, ok := callBounded("Reconnect", func() error { act(); return m.Reconnect(name) }); !ok {
							return
						}
						r.Count("forced_reconnects", 1)
					} else if s.Action == "double-remove" {
						r.Count("double_removes", 1)
						if !removeDouble(fmt.Sprintf("two concurrent Removes mid-stream, session %d at message %d", j, s.ActionAt)) {
							return
						}
					} else {
						remove(fmt.Sprintf("mid-stream, session %d at message %d", j, s.ActionAt))
						r.Count("removes_mid_stream", 1)
						if hung || !add() {
							return
						}
					}
				case "remove-in-backoff":
					waitFor(ts, grace, func() bool {
						return (ts.ended[j] && ts.state == "idle" && ts.resetFor > ts.resetAtOpen[j]) || ts.opened > j+1
					})
					remove(fmt.Sprintf("during backoff after session %d", j))
					r.Count("removes_in_backoff", 1)
					if hung || !add() {
						return
					}
				}
			}
			// All scripted sessions opened; let the last one end, then remove.
			last := len(ts.script) - 1
			lastWait := 2 * time.Second
			if healthy {
				lastWait = 5 * time.Second
			}
			waitFor(ts, lastWait, func() bool {
				if healthy { // let the Reset of the last stream be judged before the driver acts
					return (ts.ended[last] && ts.state == "idle" && ts.resetFor > ts.resetAtOpen[last]) || ts.opened > last+1
				}
				return ts.ended[last] || ts.opened > last+1
			})
			remove("final")
		}()
	}
	wg.Wait()
	// Unknown names.
	if err, returned := callBounded("Remove", func() error { return m.Remove("nobody") }); returned && err == nil {
		r.Violation(mode, trial, "remove-unknown-accepted", "Remove of an unknown target returned nil", nil)
	}
	if err, returned := callBounded("Reconnect", func() error { return m.Reconnect("nobody") }); returned && err == nil {
		r.Violation(mode, trial, "reconnect-unknown-accepted", "Reconnect of an unknown target returned nil", nil)
	}
	r.Eval(1)
	select {
	case why := <-stuck:
		buf := make([]byte, 1<<19)
		n := runtime.Stack(buf, true)
		dump := string(buf[:n])
		if strings.Contains(dump, "manager.(*Manager).retryMonitor") || !strings.Contains(dump, "manager.(*Manager)") {
			r.Violation(mode, trial, "retry-stopped", why, map[string]interface{}{"goroutines": dump})
		} else {
			r.Inconclusive("a scripted session was not opened within the grace period and the state is not attributable")
		}
	default:
	}
	sig := ""
	for _, name := range names {
		ts := e.targets[name]
		ts.mu.Lock()
		for i, v := range ts.viol {
			if i < 3 {
				r.Violation(mode, trial, ts.violSig[i], v, map[string]interface{}{"target": name, "script": describe(ts.script), "trace": kinds(ts.events), "receive_timeout_default": recvTimeout.String(), "receive_timeout_overrides": overrides, "shared_address": shareAddr})
			}
		}
		sig += fmt.Sprintf("%s:%s|", name, strings.Join(kinds(ts.events), ","))
		r.Count("sessions_opened", int64(ts.opened))
		ts.mu.Unlock()
	}
	r.Distinct(vlib.Hash(sig))
	if r.WantSample() && trial%7 == 0 {
		ts := e.targets[names[0]]
		ev := kinds(ts.events)
		if len(ev) > 40 {
			ev = ev[:40]
		}
		r.Sample(map[string]interface{}{"trial": trial, "targets": nT, "shared_address": shareAddr, "receive_timeout": recvTimeout.String(), "dev0_script": describe(ts.script), "dev0_trace_prefix": ev})
	}
}

func kinds(ev []event) []string {
	out := make([]string, len(ev))
	for i, e := range ev {
		out[i] = e.Kind
	}
	return out
}

func describe(s []session) []string {
	out := make([]string, len(s))
	for i, x := range s {
		out[i] = fmt.Sprintf("refuse%d msgs=%s %s action=%s@%d", x.Refusals, string(x.Msgs), x.Outcome, x.Action, x.ActionAt)
	}
	return out
}

func body(r *vlib.Run) {
	manager.RetryBaseDelay = baseDelay
	manager.RetryMaxDelay = maxDelay
	r.ForTrials("script", r.N(240, 5000), func(trial int, rng *rand.Rand) {
		runTrial(r, "script", trial, rng)
	})
	// Streams that never stay silent must not be ended by the manager: each
	// trial takes about a second of wall time (1.5 receive timeouts per healthy
	// stream), so there are fewer of them.
	r.ForTrials("healthy", r.N(48, 640), func(trial int, rng *rand.Rand) {
		runTrial(r, "healthy", trial, rng)
	})
}

func main() {
	vlib.Main(&vlib.Spec{
		ID:   "C13",
		Rule: "Each trial: the real manager.Manager over the real connection.Manager with a bufconn dialer; 1-4 targets (sharing one address or not), 3-8 scripted sessions each (0-20 numbered update/sync messages, then error / EOF / block), scripted dial refusals at the wrapper and delayed dial failures inside the connection manager (so that targets sharing an address join a failing attempt), a manager-wide receive timeout of 0 or 50 ms combined with per-target receive_timeout overrides (none / 50ms / 0s), forced Reconnect, Remove+re-Add, two overlapping Removes with an immediate re-Add, at seeded message indexes and during backoff, duplicate Add, unknown Remove/Reconnect; in a third of the trials the Reset/Update callbacks are slow (user code), and every Add/Remove/Reconnect call is bounded (a call that never returns is a violation when the dump shows it inside the manager). Every callback, connection attempt and stream opening (first SendMsg succeeded, via a client stream interceptor) feeds an online per-target state machine. A trial is distinct non-trivial by the hash of its complete per-target event-kind traces. Mode healthy (receive timeout 300 ms, manager-wide or by override): every target plays 1-3 streams that fail at once (0-11 messages then error/EOF, never silent) followed by a stream on which the target sends every 3-15 ms for 450 ms before ending it itself, once or twice over; such a stream may be followed by a Reset only after the target ended it or the driver issued Reconnect/Remove (a receive timeout may only be acted upon for a stream that stayed silent).",
		Assumptions: []string{
			"RetryBaseDelay/RetryMaxDelay are set to 20/40 ms; liveness is restated as bounded progress: a scripted session not opened within 40 s (1000 x RetryMaxDelay) while the target is managed is a violation only when the goroutine dump attributes it",
			"the backoff clause is one-sided: gap between the end of a failed attempt and the next attempt >= 0.5 x RetryBaseDelay (load only lengthens gaps)",
			"silence after Remove is observed for a 60 ms settling window during which Reconnect keeps being called; later callbacks would be missed (never a false alarm)",
			"spurious reconnects (receive timeout under load) are allowed by the statement and tolerated: a session may end early, deliveries must still be an in-order prefix",
			"mode healthy judges a torn-down stream only while no gap between consecutive events of that target on an open stream (opening, Connect, deliveries, Reset; taken at callback entry, which over-estimates the time a receive timer was armed) has reached half the receive timeout in the whole trial so far; otherwise the stream is counted as unjudged (load), never as a violation",
		},
		PostMerge: func(tier string, c map[string]int64) []string {
			if c["healthy_sessions_judged_ran_to_their_end"] == 0 {
				return []string{"oracle branch never exercised: healthy_sessions_judged_ran_to_their_end"}
			}
			return nil
		},
		QuickShards: 8, ThoroughShards: 16,
		MinDistinctQuick: 100, MinDistinctThorough: 2000,
		Body: body,
	})
}
