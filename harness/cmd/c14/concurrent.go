// C14, concurrent mode: Remove(X) / Reset(X) land while subscriptions are being
// attached (registration, initial walk, first responses) and while the writers
// of the OTHER targets keep running. X's own update stream is stopped before
// Remove and resumes only after Reset has returned (the collector's
// discipline; updates racing with Remove/Add of the same target are excluded).
//
// The schedule is pushed into the windows by (a) the harness's own Send gates
// and feed consumer (a stalled peer, a slow feed consumer) and (b) the verif
// schedule points (seeded delays; a bounded hold in the middle of a walk).
// Verdicts are taken from what the streams were sent, the status their RPCs
// ended with and the cache at logical quiescence only — never from a hook.
package main

import (
	"context"
	"fmt"
	"math/rand"
	"runtime"
	"sort"
	"strings"
	"sync"
	"sync/atomic"
	"time"

	"github.com/openconfig/gnmi/cache"
	"github.com/openconfig/gnmi/ctree"
	"github.com/openconfig/gnmi/metadata"
	"github.com/openconfig/gnmi/subscribe"
	"github.com/openconfig/gnmi/verifhook"
	"google.golang.org/grpc/codes"
	"google.golang.org/grpc/status"

	pb "github.com/openconfig/gnmi/proto/gnmi"

	"verif/internal/gen"
	"verif/internal/model"
	"verif/internal/vlib"
)

const (
	cmode     = "concurrent"
	cwatchdog = 30 * time.Second // inconclusive only
	sentRoot  = "zz"
)

// stuckConc counts watchdog verdicts of this process; after three of them the
// remaining concurrent trials of the shard are skipped.
var stuckConc int

var ctk int64

func ctick() int64 { return atomic.AddInt64(&ctk, 1) }

var croots = []string{"a", "b", "c"}

type csub struct {
	Idx    int        `json:"idx"`
	Kind   string     `json:"kind"` // x-stream, y-stream, star-stream, star-once
	Target string     `json:"target"`
	Paths  [][]string `json:"paths"`
	When   string     `json:"when"` // early, racing, window, late
	Slow   bool       `json:"slow_peer"`
	Lead   bool       `json:"lead"` // the subscriber the schedule is aimed at

	req       *pb.SubscribeRequest
	st        *vlib.Stream
	done      chan struct{}
	err       error
	delay     time.Duration
	slowFor   time.Duration
	callTick  int64
	retTick   int64
	firstSend int64
	walkBegin int64 // hook observations, evidence only
	walkEnd   int64
	gate      func(i int)
	ndeq      int64
	started   int32
}

func (s *csub) ended() bool {
	select {
	case <-s.done:
		return true
	default:
		return false
	}
}

func (s *csub) selects(idx []string) bool {
	for _, q := range s.Paths {
		if model.MatchQ(q, idx) {
			return true
		}
	}
	return false
}

func (s *csub) covers(target string) bool { return s.Target == "*" || s.Target == target }

func (s *csub) wait(pred func([]*pb.SubscribeResponse) bool) (ok, ended, timedOut bool) {
	return s.waitFor(pred, cwatchdog)
}

func (s *csub) waitFor(pred func([]*pb.SubscribeResponse) bool, d time.Duration) (ok, ended, timedOut bool) {
	ctx, cancel := context.WithTimeout(context.Background(), d)
	defer cancel()
	go func() {
		select {
		case <-s.done:
			cancel()
		case <-ctx.Done():
		}
	}()
	if s.st.WaitSent(ctx, pred) {
		return true, s.ended(), false
	}
	if s.ended() {
		return pred(s.st.Sent()), true, false
	}
	return false, false, true
}

type ctrial struct {
	r     *vlib.Run
	trial int
	rng   *rand.Rand

	c       *cache.Cache
	srv     *subscribe.Server
	targets []string
	x       string
	op      string // remove, reset
	tmode   string // midwalk, sendgate, registering, feedstall, free
	nPer    int
	procs   int
	refresh int // 0: no periodic refresh, 1: UpdateMetadata loop, 2: UpdateMetadata and UpdateSize loops

	mu   sync.Mutex
	subs []*csub
	lead *csub

	valCtr int64
	ts     map[string]*int64

	opInvoked, opDone, trigger chan struct{}
	trigOnce                   sync.Once
	opInvokeTick, opReturnTick int64
	walkHits, midK             int64
	feedArmed                  int32
	window                     *csub
	failed, aborted            bool
	sentVal                    map[string]int64
	outcomes                   []string
}

func (t *ctrial) fire() { t.trigOnce.Do(func() { close(t.trigger) }) }

func waitChan(ch <-chan struct{}, d time.Duration) bool {
	select {
	case <-ch:
		return true
	default:
	}
	tm := time.NewTimer(d)
	defer tm.Stop()
	select {
	case <-ch:
		return true
	case <-tm.C:
		return false
	}
}

func (t *ctrial) witness(s *csub) map[string]interface{} {
	w := map[string]interface{}{"targets": t.targets, "x": t.x, "op": t.op, "schedule": t.tmode, "leaves_per_root": t.nPer, "gomaxprocs": t.procs, "periodic_refresh_loops": t.refresh,
		"op_invoked_tick": atomic.LoadInt64(&t.opInvokeTick), "op_returned_tick": atomic.LoadInt64(&t.opReturnTick)}
	t.mu.Lock()
	w["subscriptions"] = append([]*csub{}, t.subs...)
	t.mu.Unlock()
	if s != nil {
		sent := s.st.Sent()
		var tail []string
		for i := len(sent) - 6; i < len(sent); i++ {
			if i >= 0 {
				tail = append(tail, renderResp(sent[i]))
			}
		}
		w["subscriber"] = s.Idx
		w["responses"] = len(sent)
		w["last_responses"] = tail
		w["call_tick"] = atomic.LoadInt64(&s.callTick)
		w["return_tick"] = atomic.LoadInt64(&s.retTick)
		w["first_send_tick"] = atomic.LoadInt64(&s.firstSend)
	}
	return w
}

func (t *ctrial) fail(s *csub, sig, what string) {
	t.failed = true
	desc := ""
	if s != nil {
		desc = fmt.Sprintf("subscriber %d (%s on %q, paths %v, started %s): ", s.Idx, s.Kind, s.Target, s.Paths, s.When)
	}
	t.r.Violation(cmode, t.trial, sig, fmt.Sprintf("%s%s — %s(%q) with schedule %q over targets %v", desc, what, t.op, t.x, t.tmode, t.targets), t.witness(s))
}

func (t *ctrial) stuck(reason string) {
	t.aborted = true
	stuckConc++
	t.r.Inconclusive("concurrent: " + reason)
}

func (t *ctrial) upd(target string, p []string) (int64, error) {
	ts := atomic.AddInt64(t.ts[target], 1)
	v := atomic.AddInt64(&t.valCtr, 1)
	return v, t.c.GnmiUpdate(gen.Update(target, "", ts, nil, gen.Path(false, p...), gen.I(v)))
}

func (t *ctrial) del(target string, p []string) error {
	ts := atomic.AddInt64(t.ts[target], 1)
	return t.c.GnmiUpdate(gen.Delete(target, "", ts, nil, gen.Path(false, p...)))
}

func leafName(i int) string { return fmt.Sprintf("l%04d", i) }

func (t *ctrial) newSub(kind, target string, paths [][]string, when string) *csub {
	t.mu.Lock()
	defer t.mu.Unlock()
	s := &csub{Idx: len(t.subs), Kind: kind, Target: target, Paths: paths, When: when, done: make(chan struct{})}
	sl := &pb.SubscriptionList{Prefix: &pb.Path{Target: target}, Mode: pb.SubscriptionList_STREAM}
	switch kind {
	case "star-once":
		sl.Mode = pb.SubscriptionList_ONCE
	case "x-poll", "star-poll":
		sl.Mode = pb.SubscriptionList_POLL
	}
	for _, p := range paths {
		sl.Subscription = append(sl.Subscription, &pb.Subscription{Path: gen.Path(false, p...)})
	}
	// A third of the single-target streams of a target that is going to be removed
	// ask for updates only (no snapshot; the sync comes first): the end of such a
	// stream is owed exactly like any other's. Streams that have to converge to
	// the cache keep their snapshot.
	if kind == "x-stream" && t.op == "remove" && t.rng.Intn(3) == 0 {
		sl.UpdatesOnly = true
		t.r.Count("conc_x_stream_updates_only", 1)
	}
	s.req = &pb.SubscribeRequest{Request: &pb.SubscribeRequest_Subscribe{Subscribe: sl}}
	s.st = vlib.NewStream(context.Background(), "c14")
	s.st.SendGate = func(i int, _ *pb.SubscribeResponse) error {
		atomic.CompareAndSwapInt64(&s.firstSend, 0, ctick())
		if s.gate != nil {
			s.gate(i)
		}
		if s.Slow && i < 3 && s.slowFor > 0 {
			time.Sleep(s.slowFor)
		}
		return nil
	}
	s.st.Push(s.req)
	t.subs = append(t.subs, s)
	return s
}

func (t *ctrial) start(s *csub) {
	atomic.StoreInt32(&s.started, 1)
	go func() {
		if s.delay > 0 {
			time.Sleep(s.delay)
		}
		atomic.StoreInt64(&s.callTick, ctick())
		s.err = t.srv.Subscribe(s.st)
		atomic.StoreInt64(&s.retTick, ctick())
		close(s.done)
	}()
}

func (t *ctrial) streamPaths(kind string) [][]string {
	rng := t.rng
	switch kind {
	case "x-stream":
		// 2-3 data paths (each is a separate cache query) + the sentinel path.
		perm := rng.Perm(3)
		n := 2 + rng.Intn(2)
		var ps [][]string
		for _, i := range perm[:n] {
			ps = append(ps, []string{croots[i]})
		}
		if rng.Intn(4) == 0 {
			return append([][]string{{sentRoot}}, ps...)
		}
		return append(ps, []string{sentRoot})
	case "y-stream":
		return [][]string{{croots[rng.Intn(3)]}, {sentRoot}}
	case "star-once":
		if rng.Intn(2) == 0 {
			return [][]string{{}}
		}
		return [][]string{{"a"}, {"b"}}
	default: // star-stream
		switch rng.Intn(5) {
		case 0, 1:
			return [][]string{{}}
		case 2:
			return [][]string{{"meta"}, {sentRoot}}
		case 3:
			return [][]string{{croots[rng.Intn(3)]}, {sentRoot}}
		default:
			return [][]string{{"b"}, {"c"}, {sentRoot}}
		}
	}
}

// isResetDelete: an origin-wide delete of target x as announced by Reset.
func isResetDelete(l *ctree.Leaf, x string) bool {
	n, ok := l.Value().(*pb.Notification)
	if !ok || len(n.GetUpdate()) != 0 || len(n.GetDelete()) != 1 {
		return false
	}
	return n.GetPrefix().GetTarget() == x && n.GetPrefix().GetOrigin() != "" && n.GetPrefix().GetOrigin() != "meta"
}

func hasIntValues(vals []int64) func([]*pb.SubscribeResponse) bool {
	return func(sent []*pb.SubscribeResponse) bool {
		if !hasSync(sent) {
			return false
		}
		need := map[int64]bool{}
		for _, v := range vals {
			need[v] = true
		}
		for i := len(sent) - 1; i >= 0 && len(need) > 0; i-- {
			for _, u := range sent[i].GetUpdate().GetUpdate() {
				if _, isInt := u.GetVal().GetValue().(*pb.TypedValue_IntVal); isInt {
					delete(need, u.GetVal().GetIntVal())
				}
			}
		}
		return len(need) == 0
	}
}

func hasProbeOf(idx int) func([]*pb.SubscribeResponse) bool {
	pre := fmt.Sprintf("%s%d/", probeMark, idx)
	return func(sent []*pb.SubscribeResponse) bool {
		for i := len(sent) - 1; i >= 0; i-- {
			for _, u := range sent[i].GetUpdate().GetUpdate() {
				if strings.HasPrefix(u.GetVal().GetStringVal(), pre) {
					return true
				}
			}
		}
		return false
	}
}

func (t *ctrial) probe(s *csub) string {
	val := fmt.Sprintf("%s%d/%d", probeMark, s.Idx, ctick())
	n := &pb.Notification{Timestamp: 1, Prefix: &pb.Path{Target: s.Target}, Update: []*pb.Update{{Path: gen.Path(false, append(append([]string{}, s.Paths[0]...), "c14probe")...), Val: gen.S(val)}}}
	t.srv.Update(ctree.DetachedLeaf(n))
	return val
}

// replay of everything a stream was sent (probes excluded).
func replayLog(sent []*pb.SubscribeResponse) *model.Shadow {
	sh := model.NewShadow()
	for _, r := range sent {
		n := r.GetUpdate()
		if n == nil {
			continue
		}
		if len(n.GetUpdate()) == 1 && strings.HasPrefix(n.GetUpdate()[0].GetVal().GetStringVal(), probeMark) {
			continue
		}
		sh.Apply(n)
	}
	return sh
}

// converge: the replayed log of s must equal the cache content it selects;
// nothing of a removed target may be left.
func (t *ctrial) converge(s *csub, live []string) bool {
	sh := replayLog(s.st.Sent())
	want := map[string]*pb.Notification{}
	for _, tg := range live {
		if !s.covers(tg) {
			continue
		}
		t.c.Query(tg, []string{"*"}, func(p []string, _ *ctree.Leaf, v interface{}) error {
			if n, ok := v.(*pb.Notification); ok && s.selects(p) {
				want[model.Key(append([]string{tg}, p...))] = n
			}
			return nil
		})
	}
	isLive := map[string]bool{}
	for _, tg := range live {
		isLive[tg] = true
	}
	var diffs []string
	sig := "stream-replay"
	for k, wn := range want {
		key := model.Unkey(k)
		g := sh.M[k]
		if g == nil {
			diffs = append(diffs, fmt.Sprintf("missing %s (cache holds %s)", strings.Join(key, "/"), renderNoti(wn)))
			continue
		}
		var gv *pb.TypedValue
		for _, u := range g.GetUpdate() {
			gv = u.GetVal()
		}
		isMeta := len(key) > 1 && key[1] == "meta"
		if gv.String() != wn.GetUpdate()[0].GetVal().String() || (!isMeta && g.GetTimestamp() != wn.GetTimestamp()) {
			diffs = append(diffs, fmt.Sprintf("stale %s: subscriber holds %v@%d, cache holds %s", strings.Join(key, "/"), gv.GetValue(), g.GetTimestamp(), renderNoti(wn)))
		}
	}
	nGone := 0
	for k := range sh.M {
		if want[k] == nil {
			key := model.Unkey(k)
			if !isLive[key[0]] {
				nGone++
				if nGone > 2 {
					continue
				}
				diffs = append(diffs, fmt.Sprintf("leftover %s of removed target %q", strings.Join(key, "/"), key[0]))
			} else {
				diffs = append(diffs, fmt.Sprintf("extra %s (not in the cache, still held by the subscriber)", strings.Join(key, "/")))
			}
		}
	}
	t.r.Count("conc_convergence_leaves_compared", int64(len(want)))
	if len(diffs) == 0 {
		return true
	}
	sort.Strings(diffs)
	if len(diffs) > 5 {
		diffs = append(diffs[:5], fmt.Sprintf("… (%d differences)", len(diffs)))
	}
	switch {
	case nGone > 0:
		sig = "remove-stream-leftover"
	case t.op == "reset":
		sig = "reset-stream-replay"
	}
	extra := ""
	if nGone > 0 {
		extra = fmt.Sprintf(" (%d leaves of the removed target in total)", nGone)
	}
	t.fail(s, sig, "after the operation returned and logical quiescence the replayed responses differ from the cache: "+strings.Join(diffs, "; ")+extra)
	return false
}

func dataOf(sent []*pb.SubscribeResponse, x string) int {
	n := 0
	for _, r := range sent {
		u := r.GetUpdate()
		if u == nil || u.GetPrefix().GetTarget() != x {
			continue
		}
		for _, up := range u.GetUpdate() {
			if !strings.HasPrefix(up.GetVal().GetStringVal(), probeMark) {
				n++
			}
		}
	}
	return n
}

// judgeRemovedX: single-target stream of x, x was removed.
func (t *ctrial) judgeRemovedX(s *csub) {
	inv, ret := atomic.LoadInt64(&t.opInvokeTick), atomic.LoadInt64(&t.opReturnTick)
	var got bool
	if !s.ended() {
		// The probe is repeated: a subscription whose registration is still
		// pending (its Subscribe call overlapped Remove) misses earlier ones.
		mine := hasProbeOf(s.Idx)
		deadline := time.Now().Add(cwatchdog)
		for {
			t.probe(s)
			var ended bool
			got, ended, _ = s.waitFor(mine, 100*time.Millisecond)
			if got || ended {
				break
			}
			if time.Now().After(deadline) {
				t.stuck("single-target stream of the removed target neither ended nor delivered any probe within the watchdog")
				return
			}
		}
	}
	sent := s.st.Sent()
	sawDelete := false
	for _, r := range sent {
		if wholeTargetDelete(r.GetUpdate(), t.x) {
			sawDelete = true
		}
	}
	call, rt, fs := atomic.LoadInt64(&s.callTick), atomic.LoadInt64(&s.retTick), atomic.LoadInt64(&s.firstSend)
	switch {
	case got && sawDelete:
		t.fail(s, "remove-stream-not-ended", "was sent the whole-target delete but its stream went on (a later feed entry was delivered)")
	case got && call > ret:
		t.fail(s, "subscribe-after-remove-accepted", "the subscription was made after Remove had returned, yet it was accepted and serves")
	case got && (dataOf(sent, t.x) > 0 || (fs != 0 && fs < inv)):
		t.fail(s, "remove-stream-no-delete", fmt.Sprintf("was registered before the removal (it was sent %d updates of the target, first response at tick %d, Remove invoked at tick %d) but never received the whole-target delete; its stream is still serving", dataOf(sent, t.x), fs, inv))
	case got:
		// Subscribe overlapped Remove, was accepted, registered only after the
		// whole-target delete had been announced: nothing was delivered to it
		// and it never ends.
		t.r.Count("conc_x_stream_accepted_during_remove_left_open_empty", 1)
		t.fail(s, "remove-stream-left-open-after-racing-registration", fmt.Sprintf("its Subscribe call (tick %d) overlapped Remove (ticks %d-%d) and was accepted; it was sent %d responses, never the whole-target delete, and its stream is still open and serving after Remove returned and quiescence; want OK after the whole-target delete, or NotFound and no response", call, inv, ret, len(sent)))
	case s.err != nil && status.Code(s.err) == codes.NotFound && len(sent) == 0:
		if rt < inv {
			t.fail(s, "remove-stream-status", "ended with NotFound before Remove was even invoked")
			return
		}
		t.outcomes = append(t.outcomes, "x:notfound")
		t.r.Count("conc_x_stream_refused_notfound", 1)
		if call < ret {
			// Evidence: the call was made before Remove returned and refused,
			// i.e. it raced the removal (check or re-check after registration).
			t.r.Count("conc_x_stream_call_overlapping_remove_refused_notfound", 1)
		}
	case s.err != nil:
		t.fail(s, "remove-stream-status", fmt.Sprintf("ended with status %v after %d responses (whole-target delete delivered: %v); want OK after the whole-target delete (or NotFound and no response if the target was already gone)", s.err, len(sent), sawDelete))
	case len(sent) == 0 || !wholeTargetDelete(sent[len(sent)-1].GetUpdate(), t.x):
		last := "nothing"
		if len(sent) > 0 {
			last = renderResp(sent[len(sent)-1])
		}
		t.fail(s, "remove-stream-last", fmt.Sprintf("ended OK but its last response is %s, not the whole-target delete (delivered at all: %v)", last, sawDelete))
	default:
		t.outcomes = append(t.outcomes, "x:ended-ok")
		t.r.Count("conc_x_stream_ended_ok_on_whole_target_delete", 1)
		if fs != 0 && call < ret && atomic.LoadInt64(&s.retTick) > inv && s.When != "early" {
			t.r.Count("conc_x_stream_ended_ok_attached_while_racing", 1)
		}
	}
}

func concTrial(r *vlib.Run, trial int, rng *rand.Rand) {
	r.SaveCurrent(map[string]interface{}{"mode": cmode, "trial": trial})
	defer r.Eval(1)
	t := &ctrial{r: r, trial: trial, rng: rng, ts: map[string]*int64{}, sentVal: map[string]int64{},
		opInvoked: make(chan struct{}), opDone: make(chan struct{}), trigger: make(chan struct{})}
	t.procs = []int{2, 4, 16}[rng.Intn(3)]
	prev := runtime.GOMAXPROCS(t.procs)
	defer runtime.GOMAXPROCS(prev)
	nT := 2 + rng.Intn(3)
	for i := 0; i < nT; i++ {
		name := fmt.Sprintf("dev%d", i+1)
		t.targets = append(t.targets, name)
		t.ts[name] = new(int64)
	}
	t.x = t.targets[rng.Intn(nT)]
	t.op = "remove"
	if rng.Intn(5) < 2 {
		t.op = "reset"
	}
	switch x := rng.Intn(10); {
	case x < 3:
		t.tmode = "midwalk"
	case x < 5:
		t.tmode = "sendgate"
	case x < 7:
		t.tmode = "registering"
	case x < 9 && t.op == "reset":
		t.tmode = "feedstall"
	default:
		t.tmode = "free"
	}
	t.refresh = []int{0, 0, 0, 1, 1, 1, 1, 2, 2, 2}[rng.Intn(10)]
	t.nPer = 60 + rng.Intn(440)
	t.midK = 1 + int64(rng.Intn(t.nPer))

	// Half of the trials configure a server name (see the history mode).
	srvName := ""
	if rng.Intn(2) == 0 {
		srvName = "srv-conc"
		t.c = cache.New(t.targets, cache.WithServerName(srvName))
	} else {
		metadata.UnregisterServerNameMetadata()
		t.c = cache.New(t.targets)
	}
	initStr := renderStrs(t.c.Metadata()[t.x])
	t.srv, _ = subscribe.NewServer(t.c)
	windowKind := []string{"x-stream", "star-stream"}[rng.Intn(2)]
	t.c.SetClient(func(l *ctree.Leaf) {
		t.srv.Update(l)
		// A feed consumer that is slow right after an announcement of Reset: a
		// subscription attaches meanwhile.
		if atomic.LoadInt32(&t.feedArmed) == 1 && isResetDelete(l, t.x) && atomic.CompareAndSwapInt32(&t.feedArmed, 1, 2) {
			var ps [][]string
			if windowKind == "x-stream" {
				ps = [][]string{{"a"}, {"b"}, {"c"}, {sentRoot}}
			} else {
				ps = [][]string{{}}
			}
			tg := t.x
			if windowKind == "star-stream" {
				tg = "*"
			}
			w := t.newSub(windowKind, tg, ps, "window")
			t.window = w
			t.start(w)
			ctx, cancel := context.WithTimeout(context.Background(), 25*time.Millisecond)
			w.st.WaitSent(ctx, hasSync)
			cancel()
		}
	})
	// Prefill: identical path sets.
	for _, tg := range t.targets {
		for _, root := range croots {
			for i := 0; i < t.nPer; i++ {
				t.upd(tg, []string{root, leafName(i)})
			}
		}
	}

	// Subscriptions.
	var early, racing []*csub
	for _, kind := range []string{"x-stream", "star-stream", "y-stream"} {
		if rng.Intn(3) == 0 {
			tg := "*"
			switch kind {
			case "x-stream":
				tg = t.x
			case "y-stream":
				tg = t.targets[rng.Intn(nT)]
				if tg == t.x {
					continue
				}
			}
			early = append(early, t.newSub(kind, tg, t.streamPaths(kind), "early"))
		}
	}
	// POLL subscribers, attached and answered once before the operation.
	if rng.Intn(3) == 0 {
		early = append(early, t.newSub("x-poll", t.x, [][]string{{croots[rng.Intn(3)]}, {sentRoot}}, "early"))
	}
	if rng.Intn(4) == 0 {
		early = append(early, t.newSub("star-poll", "*", [][]string{{croots[rng.Intn(3)]}, {sentRoot}}, "early"))
	}
	leadKind := []string{"x-stream", "star-stream"}[rng.Intn(2)]
	if t.tmode == "registering" {
		leadKind = "x-stream"
	}
	for _, kind := range []string{"x-stream", "star-stream", "star-once"} {
		if kind != leadKind && rng.Intn(2) == 0 {
			continue
		}
		tg := "*"
		if kind == "x-stream" {
			tg = t.x
		}
		s := t.newSub(kind, tg, t.streamPaths(kind), "racing")
		s.delay = time.Duration(rng.Intn(300)) * time.Microsecond
		s.Slow = rng.Intn(3) == 0
		s.slowFor = time.Duration(50+rng.Intn(400)) * time.Microsecond
		if kind == leadKind {
			s.Lead, s.delay = true, 0
			t.lead = s
		}
		racing = append(racing, s)
	}
	stall := time.Duration(200+rng.Intn(2800)) * time.Microsecond
	lead := t.lead
	if t.tmode == "sendgate" || (t.tmode == "midwalk" && rng.Intn(2) == 0) {
		first := t.tmode == "sendgate"
		lead.gate = func(i int) {
			if i != 0 {
				return
			}
			if first {
				t.fire()
			}
			// The peer is busy with its first response while the operation runs,
			// and a little longer.
			waitChan(t.opDone, 50*time.Millisecond)
			waitChan(lead.done, stall)
		}
	}

	// Schedule points.
	byReq := map[*pb.SubscribeRequest]*csub{}
	var byReqMu sync.RWMutex
	lookup := func(key interface{}) *csub {
		sr, ok := key.(*pb.SubscribeRequest)
		if !ok {
			return nil
		}
		byReqMu.RLock()
		s := byReq[sr]
		byReqMu.RUnlock()
		if s == nil {
			t.mu.Lock()
			for _, c := range t.subs {
				if c.req == sr {
					s = c
				}
			}
			t.mu.Unlock()
			if s != nil {
				byReqMu.Lock()
				byReq[sr] = s
				byReqMu.Unlock()
			}
		}
		return s
	}
	pert := vlib.NewPerturb(vlib.Mix(r.Seed, int64(trial), 14))
	pert.MaxSleep = time.Duration(rng.Intn(300)) * time.Microsecond
	var leadWalking int32
	pert.OnPoint = func(name string, key interface{}) {
		switch name {
		case "subscribe.registering":
			// A bounded hold between the target check and the registration of the
			// lead subscriber.
			if t.tmode == "registering" && lookup(key) == lead {
				t.fire()
				if waitChan(t.opInvoked, 20*time.Millisecond) {
					waitChan(t.opDone, 4*time.Millisecond)
				}
			}
		case "subscribe.walk.begin":
			if s := lookup(key); s != nil {
				atomic.CompareAndSwapInt64(&s.walkBegin, 0, ctick())
				if s == lead {
					atomic.StoreInt32(&leadWalking, 1)
				}
			}
		case "subscribe.walk.end":
			if s := lookup(key); s != nil {
				atomic.CompareAndSwapInt64(&s.walkEnd, 0, ctick())
				if s == lead {
					atomic.StoreInt32(&leadWalking, 0)
				}
			}
		case "coalesce.insert.checked":
			// A bounded hold in the middle of the lead subscriber's initial walk.
			if t.tmode == "midwalk" && atomic.LoadInt32(&leadWalking) == 1 && atomic.AddInt64(&t.walkHits, 1) == t.midK {
				t.fire()
				if waitChan(t.opInvoked, 20*time.Millisecond) {
					d := time.Duration(300+t.midK%700) * time.Microsecond
					if t.refresh > 0 {
						d *= 4 // the operation may have to wait for a refresh in progress
					}
					waitChan(t.opDone, d)
				}
			}
		}
	}
	pert.Only = func(name string, key interface{}) bool {
		switch name {
		case "subscribe.registering", "subscribe.registered", "subscribe.walk.begin", "subscribe.walk.end", "cache.remove.walked":
			return true
		case "cache.update.written":
			// Slows the writers of the other targets and the refresh of their
			// metadata; X's last updates right before the operation are not delayed.
			tn, _ := key.(string)
			return tn != t.x
		case "subscribe.dequeue":
			// Only around the start of a stream (a walk delivers thousands of responses).
			if s := lookup(key); s != nil {
				return atomic.AddInt64(&s.ndeq, 1) <= 6
			}
		}
		return false
	}
	verifhook.Set(pert.Handle)
	defer verifhook.Set(nil)

	stopRefresh := make(chan struct{})
	var stopOnce sync.Once
	stopRefreshers := func() { stopOnce.Do(func() { close(stopRefresh) }) }
	var refreshCalls [2]int64
	var rwg sync.WaitGroup
	teardown := func() {
		stopRefreshers()
		rwg.Wait()
		t.mu.Lock()
		subs := append([]*csub{}, t.subs...)
		t.mu.Unlock()
		for _, s := range subs {
			s.st.Cancel()
		}
		for _, s := range subs {
			if atomic.LoadInt32(&s.started) == 0 {
				continue
			}
			if !waitChan(s.done, cwatchdog) {
				r.Inconclusive("concurrent: a cancelled stream did not end within the watchdog")
			}
		}
	}
	defer teardown()

	// 1. Early subscribers are attached and synced.
	for _, s := range early {
		t.start(s)
	}
	for _, s := range early {
		got, ended, timedOut := s.wait(hasSync)
		switch {
		case timedOut:
			t.stuck("no sync_response within the watchdog")
			return
		case !got || ended:
			t.fail(s, "stream-ended-without-remove", fmt.Sprintf("ended during its initial snapshot with status %v", s.err))
			return
		}
	}
	// 1b. The periodic refreshes of the collector run during the whole trial.
	for i, fn := range []func(){t.c.UpdateMetadata, t.c.UpdateSize} {
		i, fn := i, fn
		if i >= t.refresh {
			continue // seeded: no refresh / UpdateMetadata only / both
		}
		rr := rand.New(rand.NewSource(rng.Int63()))
		rwg.Add(1)
		go func() {
			defer rwg.Done()
			for {
				select {
				case <-stopRefresh:
					return
				default:
				}
				atomic.AddInt64(&vclock, 1)
				fn()
				atomic.AddInt64(&refreshCalls[i], 1)
				var pause time.Duration
				if i == 0 {
					pause = time.Duration(rr.Intn(150)) * time.Microsecond
				} else {
					pause = time.Duration(300+rr.Intn(2500)) * time.Microsecond
				}
				if pause < 20*time.Microsecond {
					runtime.Gosched()
				} else {
					time.Sleep(pause)
				}
			}
		}()
	}
	// X's stream reports its state (metadata of X changes).
	switch rng.Intn(4) {
	case 0:
		t.c.Sync(t.x)
	case 1:
		t.c.Connect(t.x)
		t.c.Sync(t.x)
	case 2:
		t.c.ConnectError(t.x, fmt.Errorf("c14 connect error"))
	}
	// 2. Writers of the other targets.
	var wg sync.WaitGroup
	nops := 30 + rng.Intn(120)
	for _, tg := range t.targets {
		if tg == t.x {
			continue
		}
		tg := tg
		wr := rand.New(rand.NewSource(rng.Int63()))
		wg.Add(1)
		go func() {
			defer wg.Done()
			for i := 0; i < nops; i++ {
				p := []string{croots[wr.Intn(3)], leafName(wr.Intn(t.nPer))}
				switch x := wr.Intn(100); {
				case x < 70:
					t.upd(tg, p)
				case x < 92:
					t.del(tg, p)
				case x < 95:
					t.del(tg, p[:1])
				default:
					t.upd(tg, []string{p[0], leafName(t.nPer + wr.Intn(8))})
				}
				if wr.Intn(6) == 0 {
					runtime.Gosched()
				}
			}
		}()
	}
	// 3. Racing subscribers.
	for _, s := range racing {
		t.start(s)
	}
	// 4. The operation.
	switch t.tmode {
	case "midwalk", "sendgate", "registering":
		waitChan(t.trigger, 50*time.Millisecond)
	case "feedstall":
		atomic.StoreInt32(&t.feedArmed, 1)
		time.Sleep(time.Duration(rng.Intn(200)) * time.Microsecond)
	default:
		time.Sleep(time.Duration(rng.Intn(500)) * time.Microsecond)
	}
	// The last updates of X's own stream move its counters and its latest
	// timestamp shortly before the operation (existing leaves only); then the
	// stream is stopped.
	for i, n := 0, 2+rng.Intn(4); i < n; i++ {
		t.upd(t.x, []string{croots[rng.Intn(3)], leafName(rng.Intn(t.nPer))})
	}
	atomic.StoreInt64(&t.opInvokeTick, ctick())
	close(t.opInvoked)
	func() {
		defer func() {
			if p := recover(); p != nil {
				t.fail(nil, "panic:"+t.op, fmt.Sprintf("%s panicked: %v", t.op, p))
			}
		}()
		if t.op == "remove" {
			t.c.Remove(t.x)
		} else {
			t.c.Reset(t.x)
		}
	}()
	atomic.StoreInt64(&t.opReturnTick, ctick())
	close(t.opDone)
	atomic.StoreInt32(&t.feedArmed, 0)
	if t.failed {
		wg.Wait()
		return
	}
	// 5. After Reset the string metadata is what it was at creation; the
	// target's own update stream resumes.
	if t.op == "reset" {
		r.Count("conc_reset_string_metadata_compared", 1)
		if now := renderStrs(t.c.Metadata()[t.x]); now != initStr {
			t.fail(nil, "reset-string-metadata-lost", fmt.Sprintf("after Reset(%q) returned its string metadata is [%s]; right after the target was created it was [%s]", t.x, now, initStr))
			wg.Wait()
			return
		}
		for i, n := 0, 5+rng.Intn(30); i < n; i++ {
			t.upd(t.x, []string{croots[rng.Intn(3)], leafName(rng.Intn(t.nPer))})
		}
	}
	// 6. Late subscribers (called after the operation returned).
	var late []*csub
	late = append(late, t.newSub("x-stream", t.x, t.streamPaths("x-stream"), "late"))
	if rng.Intn(2) == 0 {
		late = append(late, t.newSub("star-stream", "*", t.streamPaths("star-stream"), "late"))
	}
	late = append(late, t.newSub("star-once", "*", t.streamPaths("star-once"), "late"))
	for _, s := range late {
		t.start(s)
	}
	wg.Wait()
	// The refreshes stop before the sentinels are written: what they announced
	// precedes the sentinels on every feed consumer's queue.
	stopRefreshers()
	rwg.Wait()
	r.Count("conc_updatemetadata_calls", atomic.LoadInt64(&refreshCalls[0]))
	r.Count("conc_updatesize_calls", atomic.LoadInt64(&refreshCalls[1]))

	// 7. Sentinels, quiescence.
	var live []string
	for _, tg := range t.targets {
		if t.op == "remove" && tg == t.x {
			continue
		}
		live = append(live, tg)
		v, err := t.upd(tg, []string{sentRoot, "end"})
		if err != nil {
			t.stuck("sentinel update rejected: " + err.Error())
			return
		}
		t.sentVal[tg] = v
	}
	t.mu.Lock()
	subs := append([]*csub{}, t.subs...)
	t.mu.Unlock()
	inv, ret := atomic.LoadInt64(&t.opInvokeTick), atomic.LoadInt64(&t.opReturnTick)
	inWalk := false
	for _, s := range subs {
		if wb, we := atomic.LoadInt64(&s.walkBegin), atomic.LoadInt64(&s.walkEnd); wb != 0 && wb < ret && (we == 0 || we > inv) {
			inWalk = true
		}
	}
	for _, s := range subs {
		if t.failed || t.aborted {
			return
		}
		r.Count("conc_subscriptions_judged", 1)
		switch {
		case s.Kind == "x-poll" || s.Kind == "star-poll":
			// The system is quiescent: one poll trigger.
			gone := s.Kind == "x-poll" && t.op == "remove"
			before := s.st.NSent()
			nsync := countSync(s.st.Sent())
			s.st.Push(&pb.SubscribeRequest{Request: &pb.SubscribeRequest_Poll{Poll: &pb.Poll{}}})
			got, ended, timedOut := s.wait(func(sent []*pb.SubscribeResponse) bool { return countSync(sent) > nsync })
			if timedOut {
				t.stuck("a POLL subscription neither answered a trigger nor ended within the watchdog")
				return
			}
			sent := s.st.Sent()
			switch {
			case gone && !ended:
				t.fail(s, "remove-poll-stream-left-open", fmt.Sprintf("its target was removed, the next poll trigger was answered (%d responses) and the RPC is still open; want the RPC to end with OK", len(sent)-before))
				return
			case gone && s.err != nil:
				t.fail(s, "remove-poll-stream-status", fmt.Sprintf("ended with status %v after its target was removed, want OK", s.err))
				return
			case gone && dataOf(sent[before:], t.x) > 0:
				t.fail(s, "remove-poll-stream-data", fmt.Sprintf("was sent %d updates of the removed target after the removal", dataOf(sent[before:], t.x)))
				return
			case gone:
				r.Count("conc_x_poll_ended_ok_on_trigger_after_remove", 1)
			case ended || !got:
				t.fail(s, "poll-stream-ended", fmt.Sprintf("ended with status %v on a poll trigger although its target is known", s.err))
				return
			default:
				// The answered round is exactly the cache content it selects.
				sh := replayLog(sent[before:])
				want := map[string]*pb.Notification{}
				for _, tg := range live {
					if !s.covers(tg) {
						continue
					}
					t.c.Query(tg, []string{"*"}, func(p []string, _ *ctree.Leaf, v interface{}) error {
						if n, ok := v.(*pb.Notification); ok && s.selects(p) {
							want[model.Key(append([]string{tg}, p...))] = n
						}
						return nil
					})
				}
				bad := ""
				for k, wn := range want {
					g := sh.M[k]
					if g == nil || g.GetTimestamp() != wn.GetTimestamp() {
						bad = fmt.Sprintf("%s: round has %s, cache holds %s", strings.Join(model.Unkey(k), "/"), renderNoti(g), renderNoti(wn))
					}
				}
				for k := range sh.M {
					if want[k] == nil {
						bad = fmt.Sprintf("%s reported but not selected from the cache (removed target: %v)", strings.Join(model.Unkey(k), "/"), t.op == "remove" && model.Unkey(k)[0] == t.x)
					}
				}
				if bad != "" {
					t.fail(s, "poll-round-mismatch", "the round answered after the operation and quiescence differs from the cache content it selects: "+bad)
					return
				}
				r.Count("conc_poll_round_after_operation_compared", 1)
			}
		case s.Kind == "star-once":
			if !waitChan(s.done, cwatchdog) {
				t.stuck("a ONCE query did not end within the watchdog")
				return
			}
			sent := s.st.Sent()
			if t.op == "remove" && atomic.LoadInt64(&s.callTick) > ret {
				if n := dataOf(sent, t.x); n > 0 || s.err != nil {
					t.fail(s, "once-after-remove-reports-target", fmt.Sprintf("a \"*\" ONCE query made after Remove had returned reports %d updates of the removed target (status %v)", n, s.err))
					return
				}
				r.Count("conc_star_once_after_remove_clean", 1)
			} else {
				r.Count("conc_star_once_overlapping_not_judged", 1)
			}
		case s.Kind == "x-stream" && t.op == "remove":
			if s.When == "late" {
				if !waitChan(s.done, 2*time.Second) {
					// Accepted although the target was gone: let the probe protocol decide.
					t.judgeRemovedX(s)
					continue
				}
				if s.err == nil || status.Code(s.err) != codes.NotFound || s.st.NSent() != 0 {
					t.fail(s, "subscribe-after-remove-accepted", fmt.Sprintf("a subscription made after Remove had returned ended with status %v after %d responses, want NotFound and no response", s.err, s.st.NSent()))
					return
				}
				r.Count("conc_x_stream_after_remove_refused", 1)
				continue
			}
			t.judgeRemovedX(s)
		default:
			// A stream that has to stay open and converge.
			var vals []int64
			for _, tg := range live {
				if s.covers(tg) {
					vals = append(vals, t.sentVal[tg])
				}
			}
			got, ended, timedOut := s.wait(hasIntValues(vals))
			switch {
			case timedOut:
				t.stuck("an open stream did not deliver the sentinels and its sync within the watchdog")
				return
			case ended || !got:
				sig := "stream-ended-without-remove"
				if s.Target == "*" {
					sig = "star-stream-ended"
				}
				t.fail(s, sig, fmt.Sprintf("its RPC ended with status %v although its target was not removed", s.err))
				return
			}
			if !t.converge(s, live) {
				return
			}
			switch {
			case s.Target == "*" && t.op == "remove":
				r.Count("conc_star_stream_holds_nothing_of_removed_target", 1)
			case t.op == "reset" && s.covers(t.x):
				r.Count("conc_stream_converged_after_reset", 1)
			default:
				r.Count("conc_other_stream_converged", 1)
			}
		}
	}
	if t.failed || t.aborted {
		return
	}
	r.Count("conc_trials_"+t.op+"_"+t.tmode, 1)
	r.Count(fmt.Sprintf("conc_trials_with_%d_refresh_loops", t.refresh), 1)
	if inWalk {
		r.Count("conc_trials_operation_overlapped_an_initial_walk", 1)
		if lead != nil {
			if wb, we := atomic.LoadInt64(&lead.walkBegin), atomic.LoadInt64(&lead.walkEnd); wb != 0 && wb < ret && (we == 0 || we > inv) {
				r.Count("conc_trials_operation_overlapped_the_lead_walk", 1)
			}
		}
	}
	if t.window != nil {
		r.Count("conc_trials_subscriber_attached_inside_reset_feed_stall", 1)
	}
	for k, v := range pert.Hits() {
		r.Count("conc_point_"+k, v)
	}
	r.SetAdd("conc_interleavings", pert.Signature())
	r.Distinct(vlib.Hash(cmode, trial, pert.Signature()))
	if r.WantSample() && trial%29 == 0 {
		r.Sample(map[string]interface{}{"mode": cmode, "trial": trial, "targets": t.targets, "x": t.x, "op": t.op, "schedule": t.tmode, "leaves_per_root": t.nPer, "subscriptions": len(subs), "outcomes": t.outcomes, "operation_overlapped_a_walk": inWalk})
	}
}

func concBody(r *vlib.Run) {
	r.ForTrials(cmode, r.N(400, 8000), func(trial int, rng *rand.Rand) {
		if stuckConc >= 3 {
			r.Count("conc_trials_skipped_after_repeated_watchdog_verdicts", 1)
			return
		}
		concTrial(r, trial, rng)
	})
}
