// C14 — Reset/Remove clear exactly one target and announce it; targets are isolated.
//
// Multi-target differential + stream monitor. One goroutine drives seeded
// histories (update, delete, multi, empty, Sync, Connect, ConnectError, Reset,
// Add, Remove, UpdateMetadata) over 2-4 targets that all use the SAME path set
// against the real cache.Cache; the cache's change feed is recorded and handed
// to a real subscribe.Server whose STREAM subscribers (single target and "*")
// are in-memory vlib.Streams attached at seeded points.
//
// After EVERY operation addressed to target X the whole observable state of
// every OTHER target (existence, every leaf with path/value/timestamp as the
// deterministic wire bytes of the stored notification, and the values of
// Cache.Metadata()) is compared with its state before the operation; Reset,
// Remove and (re-)Add have their own post-conditions; streams are judged by
// what they were sent and by the status their RPC ended with.
//
// No verdict depends on wall-clock time: waits are for events (a response or
// the end of the RPC) with a watchdog that only yields "inconclusive".
package main

import (
	"bytes"
	"context"
	"errors"
	"fmt"
	"math/rand"
	"sort"
	"strings"
	"sync"
	"sync/atomic"
	"time"

	"github.com/openconfig/gnmi/cache"
	"github.com/openconfig/gnmi/ctree"
	"github.com/openconfig/gnmi/metadata"
	"github.com/openconfig/gnmi/subscribe"
	"google.golang.org/protobuf/proto"

	pb "github.com/openconfig/gnmi/proto/gnmi"

	"verif/internal/gen"
	"verif/internal/model"
	"verif/internal/vlib"
)

const (
	mode      = "history"
	watchdog  = 90 * time.Second // inconclusive only, never a verdict
	probeMark = "c14-probe:"
	probeTgt  = "c14-probe-target"
)

// ---- virtual clock ---------------------------------------------------------

var vclock int64

func now() int64 { return atomic.LoadInt64(&vclock) }

// ---- the eight counters and the two flags of the statement -----------------

var counters = []string{metadata.AddCount, metadata.DelCount, metadata.EmptyCount, metadata.LeafCount,
	metadata.UpdateCount, metadata.StaleCount, metadata.FutureCount, metadata.SuppressedCount}
var flags = []string{metadata.Sync, metadata.Connected}

// Also "reported" for a target, compared for isolation only.
var extraInts = []string{metadata.Size, metadata.LatestTimestamp}
var extraStrs = []string{metadata.ConnectedAddr, metadata.ConnectError, metadata.ServerName}

// ---- path set (identical for every target) ---------------------------------

const nLeafShapes = 9

// leafShape returns prefix and path of data leaf i for a target, and its index
// path inside the target. Different encodings on purpose: elements in the
// prefix, a keyed element, a root that is itself a leaf, an origin, the
// deprecated element encoding.
func leafShape(i int, target string) (*pb.Path, *pb.Path, []string) {
	switch i {
	case 0:
		return &pb.Path{Target: target}, gen.Path(false, "a", "b"), []string{"a", "b"}
	case 1:
		return &pb.Path{Target: target, Elem: gen.Elems("a")}, gen.Path(false, "c"), []string{"a", "c"}
	case 2:
		return &pb.Path{Target: target}, gen.Path(false, "a", "d", "e"), []string{"a", "d", "e"}
	case 3:
		return &pb.Path{Target: target}, gen.Path(false, "b", "c"), []string{"b", "c"}
	case 4:
		return &pb.Path{Target: target}, &pb.Path{Elem: []*pb.PathElem{{Name: "b", Key: map[string]string{"k": "1"}}, {Name: "z"}}}, []string{"b", "1", "z"}
	case 5:
		return &pb.Path{Target: target}, gen.Path(false, "c"), []string{"c"}
	case 6:
		return &pb.Path{Target: target, Origin: "oc"}, gen.Path(false, "x", "y"), []string{"oc", "x", "y"}
	case 7:
		return &pb.Path{Target: target, Origin: "oc", Elem: gen.Elems("x")}, gen.Path(false, "z"), []string{"oc", "x", "z"}
	default:
		return &pb.Path{Target: target}, gen.Path(true, "d", "e"), []string{"d", "e"}
	}
}

// Deletes: exact leaves, subtrees, wildcards. None of them can cover a meta/
// leaf, and none is the origin-less "*" (which IS the whole-target delete).
var delNames = []string{"leaf0", "leaf1", "leaf2", "leaf3", "leaf4", "leaf5", "leaf6", "leaf7", "leaf8",
	"sub-a", "sub-b", "sub-oc", "sub-a/d", "wild-a/*", "wild-*/c", "wild-oc/x/*", "sub-d"}

func delShape(name, target string) (*pb.Path, *pb.Path) {
	if strings.HasPrefix(name, "leaf") {
		pre, p, _ := leafShape(int(name[4]-'0'), target)
		return pre, p
	}
	switch name {
	case "sub-a":
		return &pb.Path{Target: target}, gen.Path(false, "a")
	case "sub-b":
		return &pb.Path{Target: target}, gen.Path(false, "b")
	case "sub-oc":
		return &pb.Path{Target: target, Origin: "oc"}, &pb.Path{}
	case "sub-a/d":
		return &pb.Path{Target: target, Elem: gen.Elems("a")}, gen.Path(false, "d")
	case "wild-a/*":
		return &pb.Path{Target: target}, gen.Path(false, "a", "*")
	case "wild-*/c":
		return &pb.Path{Target: target}, gen.Path(false, "*", "c")
	case "wild-oc/x/*":
		return &pb.Path{Target: target, Origin: "oc"}, gen.Path(false, "x", "*")
	default: // sub-d
		return &pb.Path{Target: target}, gen.Path(true, "d")
	}
}

// Sentinel leaves written to every remaining target at the end of a history.
var sentinels = []struct {
	origin string
	path   []string
}{{"", []string{"a", "zz"}}, {"", []string{"b", "zz"}}, {"oc", []string{"x", "zz"}}}

// Subscription shapes. queries are the index-form paths inside a target
// (origin first) that the subscription selects.
type subShape struct {
	Name    string
	Origin  string
	Paths   [][]string
	queries [][]string
}

var subShapes = []subShape{
	{Name: "all", Paths: [][]string{{}}, queries: [][]string{{}}},
	{Name: "a", Paths: [][]string{{"a"}}, queries: [][]string{{"a"}}},
	{Name: "b", Paths: [][]string{{"b"}}, queries: [][]string{{"b"}}},
	{Name: "oc", Origin: "oc", Paths: [][]string{{}}, queries: [][]string{{"oc"}}},
	{Name: "a+c", Paths: [][]string{{"a"}, {"c"}}, queries: [][]string{{"a"}, {"c"}}},
	{Name: "meta", Paths: [][]string{{"meta"}}, queries: [][]string{{"meta"}}},
}

func (s subShape) selects(idx []string) bool {
	for _, q := range s.queries {
		if model.MatchQ(q, idx) {
			return true
		}
	}
	return false
}

var valuePool = []*pb.TypedValue{gen.S("v0"), gen.S("v1"), gen.I(7)}

// ---- recorded history -------------------------------------------------------

type step struct {
	Kind   string `json:"kind"`
	Target string `json:"target,omitempty"`
	Arg    string `json:"arg,omitempty"`
	TS     int64  `json:"ts,omitempty"`
	Val    int    `json:"val,omitempty"`
	Clock  int64  `json:"clock"`
}

func (s step) String() string {
	var b strings.Builder
	fmt.Fprintf(&b, "%s(%s", s.Kind, s.Target)
	if s.Arg != "" {
		fmt.Fprintf(&b, ",%s", s.Arg)
	}
	if s.TS != 0 {
		fmt.Fprintf(&b, ",ts=%d,v%d", s.TS, s.Val)
	}
	fmt.Fprintf(&b, ")@%d", s.Clock)
	return b.String()
}

// ---- snapshots ---------------------------------------------------------------

type tsnap struct {
	Exists   bool
	QueryErr string
	Leaves   map[string][]byte           // key(path) -> deterministic wire bytes of the stored notification
	Notis    map[string]*pb.Notification // key(path) -> the stored notification
	Data     int                         // number of non-meta leaves
	HasMeta  bool
	Meta     string // canonical rendering of every readable metadata value
	NonZero  bool   // some counter != 0 or some flag true
	MetaVals map[string]int64
}

var marshalOpts = proto.MarshalOptions{Deterministic: true}

type mismatch struct{ sig, what string }

func pathStr(k string) string { return strings.Join(model.Unkey(k), "/") }

func isMetaKey(k string) bool {
	p := model.Unkey(k)
	return len(p) > 0 && p[0] == metadata.Root
}

func renderMeta(md *metadata.Metadata) (string, bool, map[string]int64) {
	var b strings.Builder
	nonZero := false
	vals := map[string]int64{}
	for _, n := range counters {
		v, err := md.GetInt(n)
		fmt.Fprintf(&b, "%s=%d/%v ", n, v, err)
		if v != 0 {
			nonZero = true
		}
		if err == nil {
			vals[n] = v
		}
	}
	for _, n := range flags {
		v, err := md.GetBool(n)
		fmt.Fprintf(&b, "%s=%v/%v ", n, v, err)
		if v {
			nonZero = true
		}
	}
	for _, n := range extraInts {
		v, err := md.GetInt(n)
		fmt.Fprintf(&b, "%s=%d/%v ", n, v, err)
	}
	for _, n := range extraStrs {
		v, err := md.GetStr(n)
		fmt.Fprintf(&b, "%s=%q/%v ", n, v, err)
	}
	return b.String(), nonZero, vals
}

// ---- subscribers -------------------------------------------------------------

type sub struct {
	ID       int
	Target   string // "*" or a target name
	Shape    subShape
	st       *vlib.Stream
	done     chan struct{}
	err      error // valid once done is closed
	finished bool  // the harness has judged the end of this stream
	sawRm    bool  // a target was removed while this ("*") subscriber was attached
	nprobe   int
	// POLL subscribers: rounds answered so far, index of the first response of
	// the next round, and whether its target was removed since the last round.
	Poll    bool
	rounds  int
	roundAt int
	rmSince bool
	// Single-target STREAM subscribers: a peer that stops reading (every Send
	// blocks while stall is set); rmPending names the target whose removal the
	// stalled stream still has to be judged for once the peer reads again.
	stallMu   sync.Mutex
	stall     chan struct{}
	rmPending string
}

func (s *sub) gate(int, *pb.SubscribeResponse) error {
	s.stallMu.Lock()
	ch := s.stall
	s.stallMu.Unlock()
	if ch != nil {
		<-ch
	}
	return nil
}

func (s *sub) setStall(on bool) {
	s.stallMu.Lock()
	defer s.stallMu.Unlock()
	if on && s.stall == nil {
		s.stall = make(chan struct{})
	} else if !on && s.stall != nil {
		close(s.stall)
		s.stall = nil
	}
}

func (s *sub) ended() bool {
	select {
	case <-s.done:
		return true
	default:
		return false
	}
}

// wait blocks until pred holds on the responses sent so far, the RPC ended, or
// the watchdog fired.
func (s *sub) wait(pred func([]*pb.SubscribeResponse) bool) (ok, ended, timedOut bool) {
	ctx, cancel := context.WithTimeout(context.Background(), watchdog)
	defer cancel()
	go func() {
		select {
		case <-s.done:
			cancel()
		case <-ctx.Done():
		}
	}()
	if s.st.WaitSent(ctx, pred) {
		return true, s.ended(), false
	}
	if s.ended() {
		return pred(s.st.Sent()), true, false
	}
	return false, false, true
}

func hasSync(sent []*pb.SubscribeResponse) bool {
	for _, r := range sent {
		if r.GetSyncResponse() {
			return true
		}
	}
	return false
}

func hasValue(val string) func([]*pb.SubscribeResponse) bool {
	return func(sent []*pb.SubscribeResponse) bool {
		for i := len(sent) - 1; i >= 0; i-- {
			for _, u := range sent[i].GetUpdate().GetUpdate() {
				if u.GetVal().GetStringVal() == val {
					return true
				}
			}
		}
		return false
	}
}

// wholeTargetDelete: a delete that covers every possible leaf of target x and
// nothing else (no origin, no updates, index path "*" or empty).
func wholeTargetDelete(n *pb.Notification, x string) bool {
	if n == nil || len(n.GetUpdate()) != 0 || len(n.GetDelete()) != 1 {
		return false
	}
	if n.GetPrefix().GetTarget() != x || n.GetPrefix().GetOrigin() != "" || n.GetDelete()[0].GetOrigin() != "" {
		return false
	}
	p := append(model.IndexPath(n.GetPrefix()), model.IndexPath(n.GetDelete()[0])...)
	return len(p) == 0 || (len(p) == 1 && p[0] == "*")
}

func renderNoti(n *pb.Notification) string {
	if n == nil {
		return "<nil>"
	}
	var parts []string
	pre := model.IndexPrefix(n.GetPrefix())
	for _, u := range n.GetUpdate() {
		parts = append(parts, fmt.Sprintf("update %s=%v@%d", strings.Join(append(append([]string{}, pre...), model.IndexPath(u.GetPath())...), "/"), u.GetVal().GetValue(), n.GetTimestamp()))
	}
	for _, d := range n.GetDelete() {
		parts = append(parts, fmt.Sprintf("delete %s (target=%q origin=%q)@%d", strings.Join(append(append([]string{}, pre...), model.IndexPath(d)...), "/"), n.GetPrefix().GetTarget(), n.GetPrefix().GetOrigin(), n.GetTimestamp()))
	}
	if len(parts) == 0 {
		return "empty notification"
	}
	return strings.Join(parts, "; ")
}

// ---- harness -----------------------------------------------------------------

type harness struct {
	r     *vlib.Run
	trial int
	rng   *rand.Rand

	c       *cache.Cache
	srv     *subscribe.Server
	names   []string
	present map[string]bool
	future  int64 // future threshold in ns (0 = off)
	leaves  []int // the leaf shapes this history writes (all targets alike)
	evDrv   bool
	srvName string // cache.WithServerName (""= option not used)
	// initStr: the string-valued metadata of a target right after it was created.
	initStr   map[string]string
	refreshed map[string]bool // an UpdateMetadata ran since the target was created
	connErr   map[string]bool // ConnectError was reported since the target was created

	feed    []*pb.Notification
	feedBad int
	subs    []*sub
	steps   []step
	cur     map[string]*tsnap
	failed  bool
	aborted bool

	resetJudged, removeJudged, streamJudged bool
	cnt                                     map[string]int64
	probeSeq                                int
}

func (h *harness) count(name string, d int64) { h.cnt[name] += d }

func (h *harness) witness() interface{} {
	strs := make([]string, len(h.steps))
	for i, s := range h.steps {
		strs[i] = s.String()
	}
	return map[string]interface{}{"targets": h.names, "server_name": h.srvName, "leaf_shapes": h.leaves, "future_threshold_ns": h.future, "event_driven": h.evDrv, "steps": h.steps, "history": strs}
}

func (h *harness) fail(sig, what string) {
	if h.failed {
		return
	}
	h.failed = true
	last := "(setup)"
	if n := len(h.steps); n > 0 {
		last = fmt.Sprintf("step %d %s", n-1, h.steps[n-1])
	}
	h.r.Violation(mode, h.trial, sig, fmt.Sprintf("%s — at %s of a history over targets %v (threshold %dns, event-driven %v)", what, last, h.names, h.future, h.evDrv), h.witness())
}

func (h *harness) inconclusive(reason string) {
	h.aborted = true
	h.r.Inconclusive(reason)
}

// guard runs f and turns a panic of the code under test into a violation.
func (h *harness) guard(what string, f func()) {
	defer func() {
		if p := recover(); p != nil {
			h.fail("panic:"+what, fmt.Sprintf("%s panicked: %v", what, p))
		}
	}()
	f()
}

func (h *harness) snapTarget(t string) (*tsnap, *mismatch) {
	s := &tsnap{Leaves: map[string][]byte{}, Notis: map[string]*pb.Notification{}}
	s.Exists = h.c.HasTarget(t)
	var mm *mismatch
	err := h.c.Query(t, []string{"*"}, func(p []string, _ *ctree.Leaf, v interface{}) error {
		n, ok := v.(*pb.Notification)
		if !ok {
			mm = &mismatch{"query-foreign-leaf", fmt.Sprintf("Query(%q) reports a %T at %v", t, v, p)}
			return nil
		}
		k := model.Key(p)
		b, _ := marshalOpts.Marshal(n)
		s.Leaves[k] = b
		s.Notis[k] = n
		if len(p) == 0 || p[0] != metadata.Root {
			s.Data++
		}
		if n.GetPrefix().GetTarget() != t {
			mm = &mismatch{"query-foreign-leaf", fmt.Sprintf("Query(%q) reports at %s a notification stored for target %q: %s", t, strings.Join(p, "/"), n.GetPrefix().GetTarget(), renderNoti(n))}
		}
		return nil
	})
	if err != nil {
		s.QueryErr = err.Error()
	}
	if md := h.c.Metadata()[t]; md != nil {
		s.HasMeta = true
		s.Meta, s.NonZero, s.MetaVals = renderMeta(md)
	}
	return s, mm
}

// snapshot observes every target of the trial, and checks that the
// all-targets query reports exactly the union of the per-target queries.
func (h *harness) snapshot() (map[string]*tsnap, *mismatch) {
	out := map[string]*tsnap{}
	var first *mismatch
	for _, t := range h.names {
		s, mm := h.snapTarget(t)
		out[t] = s
		if mm != nil && first == nil {
			first = mm
		}
	}
	if first != nil {
		return out, first
	}
	// Query("*"): group by the target the stored notification names.
	star := map[string]map[string][]byte{}
	n := 0
	err := h.c.Query("*", []string{"*"}, func(p []string, _ *ctree.Leaf, v interface{}) error {
		no, ok := v.(*pb.Notification)
		if !ok {
			return nil
		}
		n++
		t := no.GetPrefix().GetTarget()
		if star[t] == nil {
			star[t] = map[string][]byte{}
		}
		b, _ := marshalOpts.Marshal(no)
		star[t][model.Key(p)] = b
		return nil
	})
	if err != nil {
		return out, &mismatch{"query-all-mismatch", fmt.Sprintf("Query(\"*\") returned %v", err)}
	}
	total := 0
	for _, t := range h.names {
		total += len(out[t].Leaves)
		if d := diffLeaves(out[t].Leaves, star[t]); d != "" {
			sig := "query-all-mismatch"
			if !out[t].Exists {
				sig = "remove-query-all"
			}
			return out, &mismatch{sig, fmt.Sprintf("Query(\"*\") disagrees with Query(%q) (target known: %v): %s", t, out[t].Exists, d)}
		}
	}
	if n != total || len(star) > len(h.names) {
		return out, &mismatch{"query-all-mismatch", fmt.Sprintf("Query(\"*\") made %d callbacks, the per-target queries report %d leaves", n, total)}
	}
	return out, nil
}

func diffLeaves(a, b map[string][]byte) string {
	var ks []string
	for k := range a {
		ks = append(ks, k)
	}
	for k := range b {
		if _, ok := a[k]; !ok {
			ks = append(ks, k)
		}
	}
	sort.Strings(ks)
	for _, k := range ks {
		av, aok := a[k]
		bv, bok := b[k]
		switch {
		case aok && !bok:
			return fmt.Sprintf("leaf %s only in the first (%s)", pathStr(k), decode(av))
		case !aok && bok:
			return fmt.Sprintf("leaf %s only in the second (%s)", pathStr(k), decode(bv))
		case !bytes.Equal(av, bv):
			return fmt.Sprintf("leaf %s differs: %s vs %s", pathStr(k), decode(av), decode(bv))
		}
	}
	return ""
}

func decode(b []byte) string {
	n := &pb.Notification{}
	if err := proto.Unmarshal(b, n); err != nil {
		return "?"
	}
	return renderNoti(n)
}

// isolation: everything observed for targets other than x is as before.
func (h *harness) isolation(x string, pre, post map[string]*tsnap) {
	for _, y := range h.names {
		if y == x {
			continue
		}
		a, b := pre[y], post[y]
		h.count("isolation_comparisons", 1)
		if a.Data > 0 {
			h.count("isolation_comparisons_other_target_has_data", 1)
		}
		switch {
		case a.Exists != b.Exists || a.QueryErr != b.QueryErr || a.HasMeta != b.HasMeta:
			h.fail("isolation-existence", fmt.Sprintf("an operation addressed to %q changed whether target %q is known: HasTarget %v -> %v, Query error %q -> %q, in Metadata() %v -> %v", x, y, a.Exists, b.Exists, a.QueryErr, b.QueryErr, a.HasMeta, b.HasMeta))
		case diffLeaves(a.Leaves, b.Leaves) != "":
			h.fail("isolation-leaves", fmt.Sprintf("an operation addressed to %q changed the leaves of target %q (before vs after): %s", x, y, diffLeaves(a.Leaves, b.Leaves)))
		case a.Meta != b.Meta:
			h.fail("isolation-metadata", fmt.Sprintf("an operation addressed to %q changed Metadata() of target %q: before [%s] after [%s]", x, y, a.Meta, b.Meta))
		}
		if h.failed {
			return
		}
	}
}

func (h *harness) feedIsolation(x string, fe []*pb.Notification) {
	for _, n := range fe {
		if t := n.GetPrefix().GetTarget(); t != x {
			h.fail("isolation-feed", fmt.Sprintf("an operation addressed to %q announced a change for target %q on the feed: %s", x, t, renderNoti(n)))
			return
		}
	}
}

// ---- operation post-conditions ------------------------------------------------

// renderStrs renders every string-valued metadata entry of a target.
func renderStrs(md *metadata.Metadata) string {
	if md == nil {
		return "<no metadata>"
	}
	var b strings.Builder
	for _, n := range extraStrs {
		v, err := md.GetStr(n)
		fmt.Fprintf(&b, "%s=%q/%v ", n, v, err)
	}
	return b.String()
}

// created records the string metadata a new target starts with and checks the
// configured server name.
func (h *harness) created(x, sig string) {
	md := h.c.Metadata()[x]
	h.initStr[x] = renderStrs(md)
	h.refreshed[x], h.connErr[x] = false, false
	if h.srvName != "" && md != nil {
		if v, err := md.GetStr(metadata.ServerName); err != nil || v != h.srvName {
			h.fail(sig, fmt.Sprintf("target %q was created in a cache configured with server name %q but Metadata()[%q] serverName = %q (err %v)", x, h.srvName, x, v, err))
		}
	}
}

// serverNameLeaves: after UpdateMetadata every known target shows the
// configured server name at meta/serverName.
func (h *harness) serverNameLeaves(sig, when string) {
	for _, t := range h.names {
		if h.present[t] {
			h.refreshed[t] = true
		}
	}
	if h.srvName == "" {
		return
	}
	for _, t := range h.names {
		if !h.present[t] {
			continue
		}
		var got *pb.Notification
		h.c.Query(t, []string{metadata.Root, metadata.ServerName}, func(_ []string, _ *ctree.Leaf, v interface{}) error {
			got, _ = v.(*pb.Notification)
			return nil
		})
		h.count("servername_leaf_checked", 1)
		if got == nil || len(got.GetUpdate()) != 1 || got.GetUpdate()[0].GetVal().GetStringVal() != h.srvName {
			h.fail(sig, fmt.Sprintf("%s: leaf meta/serverName of %q is %s, want %q (Metadata(): %s)", when, t, renderNoti(got), h.srvName, renderStrs(h.c.Metadata()[t])))
			return
		}
	}
}

func (h *harness) checkMetaInitial(x, when string) {
	md := h.c.Metadata()[x]
	if md == nil {
		h.fail("reset-metadata", fmt.Sprintf("%s: Metadata() has no entry for %q", when, x))
		return
	}
	for _, n := range flags {
		if v, err := md.GetBool(n); err != nil || v {
			h.fail("reset-metadata", fmt.Sprintf("%s: Metadata()[%q] %s = %v (err %v), want false", when, x, n, v, err))
			return
		}
	}
	for _, n := range counters {
		if v, err := md.GetInt(n); err != nil || v != 0 {
			h.fail("reset-metadata", fmt.Sprintf("%s: Metadata()[%q] %s = %d (err %v), want 0", when, x, n, v, err))
			return
		}
	}
}

// metaLeavesInitial checks that the meta/ leaves of x for the two flags and
// eight counters are all stored and show the initial values.
func (h *harness) metaLeavesInitial(x, sig, when string) {
	got := map[string]*pb.Notification{}
	err := h.c.Query(x, []string{metadata.Root}, func(p []string, _ *ctree.Leaf, v interface{}) error {
		if n, ok := v.(*pb.Notification); ok && len(p) == 2 {
			got[p[1]] = n
		}
		return nil
	})
	if err != nil {
		h.fail(sig, fmt.Sprintf("%s: Query(%q, meta) failed: %v", when, x, err))
		return
	}
	for _, n := range append(append([]string{}, flags...), counters...) {
		l := got[n]
		if l == nil || len(l.GetUpdate()) != 1 {
			h.fail(sig, fmt.Sprintf("%s: leaf meta/%s of %q is missing", when, n, x))
			return
		}
		v := l.GetUpdate()[0].GetVal()
		isFlag := n == metadata.Sync || n == metadata.Connected
		if _, ok := v.GetValue().(*pb.TypedValue_BoolVal); isFlag && (!ok || v.GetBoolVal()) {
			h.fail(sig, fmt.Sprintf("%s: leaf meta/%s of %q shows %v, want false", when, n, x, v.GetValue()))
			return
		}
		if _, ok := v.GetValue().(*pb.TypedValue_IntVal); !isFlag && (!ok || v.GetIntVal() != 0) {
			h.fail(sig, fmt.Sprintf("%s: leaf meta/%s of %q shows %v, want 0", when, n, x, v.GetValue()))
			return
		}
	}
}

func (h *harness) checkReset(x string, pre, post map[string]*tsnap, fe []*pb.Notification) {
	if !pre[x].Exists {
		return
	}
	h.count("reset_judged", 1)
	otherData := false
	for _, y := range h.names {
		if y != x && pre[y].Data > 0 {
			otherData = true
		}
	}
	if pre[x].Data > 0 && pre[x].NonZero && otherData {
		h.resetJudged = true
		h.count("reset_judged_with_data_nonzero_counters_and_other_data", 1)
	}
	for n, v := range pre[x].MetaVals {
		if v != 0 {
			h.count("reset_from_nonzero_"+n, 1)
		}
	}
	if strings.Contains(pre[x].Meta, metadata.Sync+"=true") {
		h.count("reset_from_sync_true", 1)
	}
	if strings.Contains(pre[x].Meta, metadata.Connected+"=true") {
		h.count("reset_from_connected_true", 1)
	}
	h.count("reset_data_leaves_before", int64(pre[x].Data))
	// (1) no non-metadata leaf left.
	for k := range post[x].Leaves {
		if !isMetaKey(k) {
			h.fail("reset-leaves-left", fmt.Sprintf("after Reset(%q) the non-metadata leaf %s is still stored (%s)", x, pathStr(k), decode(post[x].Leaves[k])))
			return
		}
	}
	// (2) the feed entries of this call, replayed on a shadow of the state before.
	sh := model.NewShadow()
	for t, s := range pre {
		for k, n := range s.Notis {
			sh.M[model.Key(append([]string{t}, model.Unkey(k)...))] = n
		}
	}
	ndel := 0
	for _, n := range fe {
		sh.Apply(n)
		ndel += len(n.GetDelete())
	}
	h.count("reset_feed_deletes", int64(ndel))
	byT := map[string]map[string]*pb.Notification{}
	for k, n := range sh.M {
		p := model.Unkey(k)
		if byT[p[0]] == nil {
			byT[p[0]] = map[string]*pb.Notification{}
		}
		byT[p[0]][model.Key(p[1:])] = n
	}
	for _, y := range h.names {
		if y == x {
			continue
		}
		for k, n := range pre[y].Notis {
			if byT[y][k] != n {
				h.fail("reset-feed", fmt.Sprintf("the feed entries of Reset(%q), replayed, change leaf %s of target %q (now %s)", x, pathStr(k), y, renderNoti(byT[y][k])))
				return
			}
		}
		if len(byT[y]) != len(pre[y].Notis) {
			h.fail("reset-feed", fmt.Sprintf("the feed entries of Reset(%q), replayed, add leaves to target %q", x, y))
			return
		}
	}
	for k := range byT[x] {
		if !isMetaKey(k) {
			h.fail("reset-feed", fmt.Sprintf("the feed entries of Reset(%q) do not cover its leaf %s: a consumer replaying the feed keeps it (feed: %s)", x, pathStr(k), renderFeed(fe)))
			return
		}
	}
	for k := range post[x].Leaves {
		if _, ok := byT[x][k]; !ok {
			h.fail("reset-feed", fmt.Sprintf("after Reset(%q) the cache holds %s but a consumer replaying the feed does not (feed: %s)", x, pathStr(k), renderFeed(fe)))
			return
		}
	}
	// (3) metadata back to the initial values.
	h.checkMetaInitial(x, fmt.Sprintf("after Reset(%q)", x))
	if h.failed {
		return
	}
	// (3b) the string-valued metadata is what it was right after the target was
	// created (connectedAddress "", connectError unset, serverName as configured).
	if !h.refreshed[x] {
		h.count("reset_before_first_updatemetadata", 1)
		if h.connErr[x] {
			h.count("reset_after_connecterror_before_first_updatemetadata", 1)
		}
	}
	if init, ok := h.initStr[x]; ok {
		h.count("reset_string_metadata_compared", 1)
		if now := renderStrs(h.c.Metadata()[x]); now != init {
			h.fail("reset-string-metadata-lost", fmt.Sprintf("after Reset(%q) its string metadata is [%s]; right after the target was created it was [%s]", x, now, init))
			return
		}
	}
	// (4a) Reset removes non-metadata leaves only: a flag / counter leaf under
	// meta/ that was stored before the Reset is still stored right after it
	// (its value is judged after UpdateMetadata, when metadata leaves refresh).
	for _, n := range append(append([]string{}, flags...), counters...) {
		k := model.Key([]string{metadata.Root, n})
		if _, was := pre[x].Leaves[k]; !was {
			continue
		}
		h.count("reset_meta_leaf_survival_checked", 1)
		if _, is := post[x].Leaves[k]; !is {
			h.fail("reset-removed-meta-leaf", fmt.Sprintf("Reset(%q) removed the metadata leaf meta/%s (feed: %s)", x, n, renderFeed(fe)))
			return
		}
	}
	// (4b) after UpdateMetadata all of them do.
	h.guard("UpdateMetadata", func() { h.c.UpdateMetadata() })
	if h.failed {
		return
	}
	h.metaLeavesInitial(x, "reset-meta-leaves", fmt.Sprintf("after Reset(%q) and UpdateMetadata", x))
	if h.failed {
		return
	}
	h.checkMetaInitial(x, fmt.Sprintf("after Reset(%q) and UpdateMetadata", x))
	if h.failed {
		return
	}
	h.serverNameLeaves("reset-string-metadata-lost", fmt.Sprintf("after Reset(%q) and UpdateMetadata", x))
}

func renderFeed(fe []*pb.Notification) string {
	var s []string
	for _, n := range fe {
		s = append(s, renderNoti(n))
	}
	return "[" + strings.Join(s, " | ") + "]"
}

// unknown: x must be unknown to queries and updates.
func (h *harness) checkUnknown(x, when string, snap *tsnap) {
	switch {
	case h.c.HasTarget(x) || snap.Exists:
		h.fail("remove-still-known", fmt.Sprintf("%s: HasTarget(%q) is true", when, x))
	case snap.QueryErr == "":
		h.fail("remove-still-known", fmt.Sprintf("%s: Query(%q) succeeds (%d leaves)", when, x, len(snap.Leaves)))
	case snap.HasMeta:
		h.fail("remove-still-known", fmt.Sprintf("%s: Metadata() still reports %q", when, x))
	}
}

func (h *harness) checkRemove(x string, pre, post map[string]*tsnap, fe []*pb.Notification) {
	h.count("remove_judged", 1)
	h.checkUnknown(x, fmt.Sprintf("after Remove(%q)", x), post[x])
	if h.failed {
		return
	}
	if !pre[x].Exists {
		return // removing an unknown target: only isolation is judged
	}
	otherData := false
	for _, y := range h.names {
		if y != x && pre[y].Data > 0 {
			otherData = true
		}
	}
	if pre[x].Data > 0 && otherData {
		h.removeJudged = true
		h.count("remove_judged_with_data_and_other_data", 1)
	}
	// The feed got exactly one whole-target delete.
	if len(fe) != 1 || !wholeTargetDelete(fe[0], x) {
		h.fail("remove-feed", fmt.Sprintf("Remove(%q) must announce exactly one whole-target delete for %q; the feed got %d entries: %s", x, x, len(fe), renderFeed(fe)))
		return
	}
	// An update for the removed target is refused and changes nothing.
	pre2, p, _ := leafShape(0, x)
	nfeed := len(h.feed)
	var err error
	h.guard("GnmiUpdate", func() {
		err = h.c.GnmiUpdate(&pb.Notification{Timestamp: now(), Prefix: pre2, Update: []*pb.Update{{Path: p, Val: gen.S("after-remove")}}})
	})
	if h.failed {
		return
	}
	if err == nil || h.c.HasTarget(x) || len(h.feed) != nfeed {
		h.fail("remove-still-known", fmt.Sprintf("after Remove(%q) GnmiUpdate for it returned %v, HasTarget=%v, feed entries %d", x, err, h.c.HasTarget(x), len(h.feed)-nfeed))
		return
	}
	h.count("remove_update_refused", 1)
	// Streams.
	for _, s := range h.subs {
		if s.finished {
			continue
		}
		if s.Target == "*" {
			s.sawRm = true
			if s.ended() {
				h.fail("star-stream-ended", fmt.Sprintf("the \"*\" subscriber %d (%s) ended (status %v) — a target removal must not end it", s.ID, s.Shape.Name, s.err))
				return
			}
			continue
		}
		if s.Target != x {
			continue
		}
		if s.Poll {
			// The next trigger has to end it; it is sent now or, by seed, later
			// in the history (possibly after the target was added again).
			s.rmSince = true
			if h.rng.Intn(2) == 0 {
				h.pollOnce(s, post)
			} else {
				h.count("poll_trigger_after_remove_deferred", 1)
			}
			if h.failed || h.aborted {
				return
			}
			continue
		}
		if s.rmPending == x {
			s.finished = true // judged by releaseStalled once the peer reads again
			continue
		}
		h.judgeRemovedStream(s, x)
		if h.failed || h.aborted {
			return
		}
	}
	// A new single-target subscription to the removed target is refused.
	if h.rng.Intn(3) == 0 {
		h.subscribeUnknown(x)
	}
}

func (h *harness) probe(s *sub) string {
	h.probeSeq++
	val := fmt.Sprintf("%s%d/%d", probeMark, s.ID, h.probeSeq)
	t := s.Target
	if t == "*" {
		t = probeTgt
	}
	p := append(append([]string{}, s.Shape.Paths[0]...), "c14probe")
	n := &pb.Notification{Timestamp: now(), Prefix: &pb.Path{Target: t, Origin: s.Shape.Origin}, Update: []*pb.Update{{Path: gen.Path(false, p...), Val: gen.S(val)}}}
	h.guard("Server.Update", func() { h.srv.Update(ctree.DetachedLeaf(n)) })
	return val
}

// judgeRemovedStream: s is a single-target stream of x, x has just been
// removed and the feed carried the whole-target delete.
func (h *harness) judgeRemovedStream(s *sub, x string) {
	s.finished = true
	// A probe entry behind the delete: a stream that is still serving delivers
	// it; one that ended never does. Either event ends the wait.
	val := h.probe(s)
	if h.failed {
		return
	}
	got, ended, timedOut := s.wait(hasValue(val))
	sent := s.st.Sent()
	sawDelete := false
	for _, r := range sent {
		if wholeTargetDelete(r.GetUpdate(), x) {
			sawDelete = true
		}
	}
	switch {
	case timedOut:
		h.inconclusive("single-target stream neither ended nor delivered the probe within the watchdog")
	case got && sawDelete:
		h.fail("remove-stream-not-ended", fmt.Sprintf("single-target subscriber %d (%s) of %q was sent the whole-target delete but its stream went on: it delivered a later feed entry (RPC ended: %v)", s.ID, s.Shape.Name, x, ended))
	case got:
		h.fail("remove-stream-no-delete", fmt.Sprintf("single-target subscriber %d (%s) of %q never received the whole-target delete although a later feed entry was delivered", s.ID, s.Shape.Name, x))
	case s.err != nil:
		h.fail("remove-stream-status", fmt.Sprintf("single-target subscriber %d (%s) of removed target %q ended with status %v, want OK", s.ID, s.Shape.Name, x, s.err))
	case len(sent) == 0 || !wholeTargetDelete(sent[len(sent)-1].GetUpdate(), x):
		last := "nothing"
		if len(sent) > 0 {
			last = renderResp(sent[len(sent)-1])
		}
		h.fail("remove-stream-last", fmt.Sprintf("single-target subscriber %d (%s) of removed target %q ended OK but its last response is %s, not the whole-target delete", s.ID, s.Shape.Name, x, last))
	default:
		h.streamJudged = true
		h.count("stream_single_ended_ok_after_remove", 1)
	}
}

func renderResp(r *pb.SubscribeResponse) string {
	if r.GetSyncResponse() {
		return "sync_response"
	}
	return renderNoti(r.GetUpdate())
}

func (h *harness) checkFresh(x string, post map[string]*tsnap, fe []*pb.Notification) {
	s := post[x]
	h.count("add_judged", 1)
	switch {
	case !s.Exists || s.QueryErr != "" || !s.HasMeta:
		h.fail("readd-not-fresh", fmt.Sprintf("after Add(%q): HasTarget=%v, Query error %q, in Metadata()=%v", x, s.Exists, s.QueryErr, s.HasMeta))
	case len(s.Leaves) != 0:
		var ks []string
		for k := range s.Leaves {
			ks = append(ks, pathStr(k))
		}
		sort.Strings(ks)
		h.fail("readd-not-fresh", fmt.Sprintf("a target added after its removal must be empty; Add(%q) gives leaves %v", x, ks))
	case s.NonZero:
		h.fail("readd-not-fresh", fmt.Sprintf("a target added after its removal must have initial metadata; Add(%q) gives [%s]", x, s.Meta))
	case len(fe) != 0:
		h.fail("readd-not-fresh", fmt.Sprintf("Add(%q) announced changes on the feed: %s", x, renderFeed(fe)))
	}
	if !h.failed {
		h.checkMetaInitial(x, fmt.Sprintf("after Add(%q)", x))
	}
	if !h.failed {
		h.created(x, "readd-not-fresh")
	}
}

// ---- subscribers: attach, end of trial ------------------------------------------

func (h *harness) request(target string, sh subShape, poll bool) *pb.SubscribeRequest {
	sl := &pb.SubscriptionList{Prefix: &pb.Path{Target: target, Origin: sh.Origin}, Mode: pb.SubscriptionList_STREAM}
	if poll {
		sl.Mode = pb.SubscriptionList_POLL
	}
	for _, p := range sh.Paths {
		sl.Subscription = append(sl.Subscription, &pb.Subscription{Path: gen.Path(false, p...)})
	}
	return &pb.SubscribeRequest{Request: &pb.SubscribeRequest_Subscribe{Subscribe: sl}}
}

func (h *harness) start(target string, sh subShape, poll bool) *sub {
	s := &sub{ID: len(h.subs), Target: target, Shape: sh, Poll: poll, done: make(chan struct{})}
	s.st = vlib.NewStream(context.Background(), "c14")
	if !poll && target != "*" {
		s.st.SendGate = s.gate
	}
	s.st.Push(h.request(target, sh, poll))
	go func() {
		s.err = h.srv.Subscribe(s.st)
		close(s.done)
	}()
	return s
}

func (h *harness) attach(target string, sh subShape, poll bool) {
	if target != "*" && !h.present[target] {
		h.subscribeUnknown(target)
		return
	}
	s := h.start(target, sh, poll)
	h.subs = append(h.subs, s)
	h.count("subscribers_attached", 1)
	if target == "*" {
		h.count("subscribers_attached_star", 1)
	}
	if poll {
		h.count("subscribers_attached_poll", 1)
		h.pollAttached(s)
		return
	}
	// The history continues once the initial snapshot has been delivered
	// (the ordering of walk and live updates is C04's subject, not this one's).
	got, ended, timedOut := s.wait(hasSync)
	switch {
	case timedOut:
		h.inconclusive("no sync_response within the watchdog")
	case !got || ended:
		s.finished = true
		h.fail("stream-ended-without-remove", fmt.Sprintf("subscriber %d (%s) of known target %q ended during its initial snapshot with status %v", s.ID, sh.Name, target, s.err))
	}
}

func (h *harness) subscribeUnknown(x string) {
	if h.c.HasTarget(x) {
		h.fail("remove-still-known", fmt.Sprintf("HasTarget(%q) is true for a target that is not in the cache", x))
		return
	}
	s := h.start(x, subShapes[0], h.rng.Intn(4) == 0)
	defer s.st.Cancel()
	ctx, cancel := context.WithTimeout(context.Background(), watchdog)
	defer cancel()
	select {
	case <-s.done:
	case <-ctx.Done():
		h.inconclusive("Subscribe to an unknown target did not return within the watchdog")
		return
	}
	if s.err == nil || s.st.NSent() != 0 {
		h.fail("remove-still-known", fmt.Sprintf("a STREAM subscription to unknown target %q ended with status %v after %d responses, want an error and no response", x, s.err, s.st.NSent()))
		return
	}
	h.count("subscribe_unknown_target_refused", 1)
}

// finish: sentinels to every remaining target, then every open stream is
// brought to quiescence (a probe entry behind everything else) and what it was
// sent, replayed, must be the cache content it selects.
// releaseStalled lets the stalled peers of the removed target x (every target
// when x is empty) read again and judges the end of their streams. readded:
// the target exists again by now; a leaf written to the new incarnation
// first makes sure there is something queued behind the whole-target delete.
func (h *harness) releaseStalled(x string, readded bool) {
	for _, s := range h.subs {
		if s.rmPending == "" || (x != "" && s.rmPending != x) {
			continue
		}
		t := s.rmPending
		s.rmPending = ""
		if readded {
			pre, p, _ := leafShape(0, t)
			n := &pb.Notification{Timestamp: h.timestamp(), Prefix: pre, Update: []*pb.Update{{Path: p, Val: gen.S("readded")}}}
			h.guard("GnmiUpdate", func() { h.c.GnmiUpdate(n) })
			if h.failed {
				return
			}
			h.count("stalled_peer_released_after_re_add", 1)
		} else {
			h.count("stalled_peer_released_at_end", 1)
		}
		s.setStall(false)
		h.judgeRemovedStream(s, t)
		if h.failed || h.aborted {
			return
		}
	}
	if readded {
		var mm *mismatch
		if h.cur, mm = h.snapshot(); mm != nil {
			h.fail(mm.sig, mm.what)
		}
	}
}

func (h *harness) finish() {
	h.releaseStalled("", false)
	if h.failed || h.aborted {
		return
	}
	var live []string
	for _, t := range h.names {
		if h.present[t] {
			live = append(live, t)
		}
	}
	atomic.AddInt64(&vclock, 1000)
	for _, t := range live {
		for i, sn := range sentinels {
			n := &pb.Notification{Timestamp: now(), Prefix: &pb.Path{Target: t, Origin: sn.origin}, Update: []*pb.Update{{Path: gen.Path(false, sn.path...), Val: gen.S(fmt.Sprintf("sentinel-%s-%d", t, i))}}}
			var err error
			h.guard("GnmiUpdate", func() { err = h.c.GnmiUpdate(n) })
			if h.failed {
				return
			}
			if err != nil {
				h.inconclusive("sentinel update rejected: " + err.Error())
				return
			}
		}
	}
	final, mm := h.snapshot()
	if mm != nil {
		h.fail(mm.sig, mm.what)
		return
	}
	for _, s := range h.subs {
		if s.finished {
			continue
		}
		if s.Poll {
			h.pollOnce(s, final)
			if h.failed || h.aborted {
				return
			}
			s.finished = true
			continue
		}
		s.finished = true
		if s.Target != "*" && !h.present[s.Target] {
			continue // cannot happen: judged at Remove
		}
		val := h.probe(s)
		if h.failed {
			return
		}
		got, ended, timedOut := s.wait(hasValue(val))
		switch {
		case timedOut:
			h.inconclusive("open stream did not deliver the final probe within the watchdog")
			return
		case ended || !got:
			if s.Target == "*" {
				h.fail("star-stream-ended", fmt.Sprintf("the \"*\" subscriber %d (%s) ended with status %v (a target was removed while it was attached: %v)", s.ID, s.Shape.Name, s.err, s.sawRm))
			} else {
				h.fail("stream-ended-without-remove", fmt.Sprintf("single-target subscriber %d (%s) of %q ended with status %v although %q was not removed", s.ID, s.Shape.Name, s.Target, s.err, s.Target))
			}
			return
		}
		// Replay.
		sh := model.NewShadow()
		for _, r := range s.st.Sent() {
			n := r.GetUpdate()
			if n == nil {
				continue
			}
			if len(n.GetUpdate()) == 1 && strings.HasPrefix(n.GetUpdate()[0].GetVal().GetStringVal(), probeMark) {
				continue
			}
			sh.Apply(n)
		}
		want := map[string]*pb.Notification{}
		for _, t := range live {
			if s.Target != "*" && s.Target != t {
				continue
			}
			for k, n := range final[t].Notis {
				if idx := model.Unkey(k); s.Shape.selects(idx) {
					want[model.Key(append([]string{t}, idx...))] = n
				}
			}
		}
		h.count("stream_replays_compared", 1)
		for k, n := range want {
			g := sh.M[k]
			if g == nil {
				h.fail("stream-replay", fmt.Sprintf("subscriber %d (%s on %q, a target was removed meanwhile: %v) was never sent leaf %s which the cache holds (%s)", s.ID, s.Shape.Name, s.Target, s.sawRm, pathStr(k), renderNoti(n)))
				return
			}
			var gv *pb.TypedValue
			for _, u := range g.GetUpdate() {
				gv = u.GetVal()
			}
			if !proto.Equal(gv, n.GetUpdate()[0].GetVal()) {
				h.fail("stream-replay", fmt.Sprintf("subscriber %d (%s on %q) holds %v for leaf %s, the cache holds %s", s.ID, s.Shape.Name, s.Target, gv, pathStr(k), renderNoti(n)))
				return
			}
		}
		for k, g := range sh.M {
			if want[k] == nil {
				p := model.Unkey(k)
				sig := "stream-replay"
				if !h.present[p[0]] {
					sig = "remove-stream-leftover"
				}
				h.fail(sig, fmt.Sprintf("subscriber %d (%s on %q), replayed, still holds leaf %s (%s) which the cache does not hold (target %q known: %v)", s.ID, s.Shape.Name, s.Target, pathStr(k), renderNoti(g), p[0], h.present[p[0]]))
				return
			}
		}
		if s.Target == "*" && s.sawRm {
			h.streamJudged = true
			h.count("stream_star_open_and_converged_after_remove", 1)
		}
	}
}

func (h *harness) cleanup() {
	for _, s := range h.subs {
		s.setStall(false)
		s.st.Cancel()
	}
	for _, s := range h.subs {
		ctx, cancel := context.WithTimeout(context.Background(), watchdog)
		select {
		case <-s.done:
		case <-ctx.Done():
			h.r.Inconclusive("a cancelled stream did not end within the watchdog")
		}
		cancel()
	}
}

// ---- one history -------------------------------------------------------------

func (h *harness) pickTarget(preferPresent bool) string {
	if preferPresent && h.rng.Intn(100) < 85 {
		var live []string
		for _, t := range h.names {
			if h.present[t] {
				live = append(live, t)
			}
		}
		if len(live) > 0 {
			return live[h.rng.Intn(len(live))]
		}
	}
	return h.names[h.rng.Intn(len(h.names))]
}

func (h *harness) timestamp() int64 {
	if h.future > 0 && h.rng.Intn(20) == 0 {
		return now() + 10*h.future
	}
	return now() + int64(h.rng.Intn(7)) - 4
}

func (h *harness) run(nsteps int) {
	rng := h.rng
	var mm *mismatch
	h.cur, mm = h.snapshot()
	if mm != nil {
		h.fail(mm.sig, mm.what)
		return
	}
	for i := 0; i < nsteps && !h.failed && !h.aborted; i++ {
		atomic.AddInt64(&vclock, int64(rng.Intn(4)))
		var absent []string
		for _, t := range h.names {
			if !h.present[t] {
				absent = append(absent, t)
			}
		}
		x := rng.Intn(100)
		if len(absent) > 0 && rng.Intn(len(h.names)*2) < len(absent) {
			x = 93 // add
		}
		st := step{Clock: now()}
		var op func()
		switch {
		case x < 8 && len(h.subs) < 6:
			st.Kind = "subscribe"
			st.Target = "*"
			if rng.Intn(5) < 3 {
				st.Target = h.pickTarget(true)
			}
			sh := subShapes[rng.Intn(len(subShapes))]
			st.Arg = sh.Name
			poll := rng.Intn(3) == 0
			if poll {
				st.Kind = "subscribe-poll"
			}
			h.steps = append(h.steps, st)
			h.count("op_"+st.Kind, 1)
			h.attach(st.Target, sh, poll)
			continue
		case x < 12 && h.openPoll() != nil:
			s := h.openPoll()
			st.Kind, st.Target, st.Arg = "poll", s.Target, fmt.Sprintf("sub%d", s.ID)
			h.steps = append(h.steps, st)
			h.count("op_poll", 1)
			h.pollOnce(s, h.cur)
			continue
		case x < 46:
			st.Kind, st.Target = "update", h.pickTarget(true)
			li := h.leaves[rng.Intn(len(h.leaves))]
			st.Arg, st.TS, st.Val = fmt.Sprintf("leaf%d", li), h.timestamp(), rng.Intn(len(valuePool))
			pre, p, _ := leafShape(li, st.Target)
			n := &pb.Notification{Timestamp: st.TS, Prefix: pre, Update: []*pb.Update{{Path: p, Val: proto.Clone(valuePool[st.Val]).(*pb.TypedValue)}}}
			op = func() { h.update(st.Target, n) }
		case x < 56:
			st.Kind, st.Target = "delete", h.pickTarget(true)
			st.Arg, st.TS = delNames[rng.Intn(len(delNames))], now()+int64(rng.Intn(5))-1
			pre, p := delShape(st.Arg, st.Target)
			n := &pb.Notification{Timestamp: st.TS, Prefix: pre, Delete: []*pb.Path{p}}
			op = func() { h.update(st.Target, n) }
		case x < 60:
			st.Kind, st.Target = "multi", h.pickTarget(true)
			plain := []int{0, 2, 3, 5}
			rng.Shuffle(len(plain), func(a, b int) { plain[a], plain[b] = plain[b], plain[a] })
			st.Arg, st.TS, st.Val = fmt.Sprintf("leaf%d+leaf%d-a/c", plain[0], plain[1]), h.timestamp(), rng.Intn(len(valuePool))
			_, p0, _ := leafShape(plain[0], st.Target)
			_, p1, _ := leafShape(plain[1], st.Target)
			n := &pb.Notification{Timestamp: st.TS, Prefix: &pb.Path{Target: st.Target},
				Update: []*pb.Update{{Path: p0, Val: proto.Clone(valuePool[st.Val]).(*pb.TypedValue)}, {Path: p1, Val: gen.S("m")}},
				Delete: []*pb.Path{gen.Path(false, "a", "c")}}
			op = func() { h.update(st.Target, n) }
		case x < 63:
			st.Kind, st.Target = "empty", h.pickTarget(true)
			n := &pb.Notification{Timestamp: now(), Prefix: &pb.Path{Target: st.Target}}
			op = func() { h.update(st.Target, n) }
		case x < 68:
			st.Kind, st.Target = "sync", h.pickTarget(true)
			op = func() { h.c.Sync(st.Target) }
		case x < 73:
			st.Kind, st.Target = "connect", h.pickTarget(true)
			op = func() { h.c.Connect(st.Target) }
		case x < 77:
			st.Kind, st.Target = "connecterror", h.pickTarget(true)
			st.Arg = fmt.Sprintf("err%d", rng.Intn(2))
			op = func() { h.c.ConnectError(st.Target, errors.New(st.Arg)) }
		case x < 85:
			st.Kind, st.Target = "reset", h.pickTarget(true)
			op = func() { h.c.Reset(st.Target) }
		case x < 91:
			st.Kind, st.Target = "remove", h.pickTarget(true)
			// Prefer a target that has a live single-target subscriber.
			if rng.Intn(2) == 0 {
				for _, s := range h.subs {
					if !s.finished && s.Target != "*" && h.present[s.Target] && (!s.Poll || rng.Intn(2) == 0) {
						st.Target = s.Target
						break
					}
				}
			}
			// By seed the peers of the target's single-target STREAM subscribers stop
			// reading before the removal and resume only after the target has been
			// added again (or at the end of the history): the stream subscribed to
			// the removed target and must still end with the whole-target delete.
			if rng.Intn(5) < 2 {
				for _, s := range h.subs {
					if !s.finished && !s.Poll && s.Target == st.Target && h.present[s.Target] {
						s.setStall(true)
						s.rmPending = st.Target
						st.Arg = "peers-stalled"
						h.count("remove_with_stalled_single_target_peer", 1)
					}
				}
			}
			op = func() { h.c.Remove(st.Target) }
		case x < 96 && len(absent) > 0:
			st.Kind, st.Target = "add", absent[rng.Intn(len(absent))]
			op = func() { h.c.Add(st.Target) }
		case x < 96:
			st.Kind, st.Target = "reset", h.pickTarget(true)
			op = func() { h.c.Reset(st.Target) }
		default:
			st.Kind = "updatemetadata"
			op = func() { h.c.UpdateMetadata() }
		}
		h.steps = append(h.steps, st)
		h.count("op_"+st.Kind, 1)
		pre := h.cur
		f0 := len(h.feed)
		h.guard(st.Kind, op)
		if h.failed {
			return
		}
		switch st.Kind {
		case "remove":
			h.present[st.Target] = false
		case "add":
			h.present[st.Target] = true
		}
		fe := h.feed[f0:]
		h.count("feed_entries", int64(len(fe)))
		post, mm := h.snapshot()
		h.cur = post
		if h.feedBad > 0 {
			h.fail("feed-value", "the feed handed out a leaf that does not hold a notification")
			return
		}
		if st.Kind == "updatemetadata" {
			if mm != nil {
				h.fail(mm.sig, mm.what)
			}
			if !h.failed {
				h.serverNameLeaves("string-metadata-leaf-missing", "after UpdateMetadata")
			}
			continue
		}
		if st.Kind == "connecterror" {
			h.connErr[st.Target] = true
		}
		// Existence of targets other than the addressed one, their leaves, metadata.
		h.isolation(st.Target, pre, post)
		if h.failed {
			return
		}
		h.feedIsolation(st.Target, fe)
		if h.failed {
			return
		}
		if mm != nil {
			h.fail(mm.sig, mm.what)
			return
		}
		switch st.Kind {
		case "reset":
			h.checkReset(st.Target, pre, post, fe)
			if !h.failed && pre[st.Target].Exists {
				// checkReset called UpdateMetadata: re-observe.
				if h.cur, mm = h.snapshot(); mm != nil {
					h.fail(mm.sig, mm.what)
				}
			}
		case "remove":
			h.checkRemove(st.Target, pre, post, fe)
		case "add":
			h.checkFresh(st.Target, post, fe)
			if !h.failed && !h.aborted {
				h.releaseStalled(st.Target, true)
			}
		default:
			if !h.present[st.Target] {
				// Anything addressed to an unknown target leaves it unknown and silent.
				h.checkUnknown(st.Target, fmt.Sprintf("after %s addressed to unknown target %q", st.Kind, st.Target), post[st.Target])
				if !h.failed && len(fe) != 0 {
					h.fail("remove-still-known", fmt.Sprintf("%s addressed to unknown target %q announced %s", st.Kind, st.Target, renderFeed(fe)))
				}
				h.count("ops_on_unknown_target_judged", 1)
			}
		}
	}
	if h.failed || h.aborted {
		return
	}
	h.steps = append(h.steps, step{Kind: "finish", Clock: now()})
	h.finish()
}

// update sends a notification and, for an unknown target, requires an error.
func (h *harness) update(target string, n *pb.Notification) {
	err := h.c.GnmiUpdate(n)
	if !h.present[target] && err == nil {
		h.fail("remove-still-known", fmt.Sprintf("GnmiUpdate for unknown target %q returned nil", target))
	}
	switch {
	case err == nil:
		h.count("update_result_ok", 1)
	case errors.Is(err, cache.ErrStale):
		h.count("update_result_stale", 1)
	case errors.Is(err, cache.ErrFuture):
		h.count("update_result_future", 1)
	default:
		h.count("update_result_other_error", 1)
	}
}

func trialBody(r *vlib.Run, trial int, rng *rand.Rand) {
	r.SaveCurrent(map[string]interface{}{"mode": mode, "trial": trial})
	h := &harness{r: r, trial: trial, rng: rng, present: map[string]bool{}, cnt: map[string]int64{},
		initStr: map[string]string{}, refreshed: map[string]bool{}, connErr: map[string]bool{}}
	nT := 2 + rng.Intn(3)
	var initial []string
	for i := 0; i < nT; i++ {
		name := fmt.Sprintf("dev%d", i+1)
		h.names = append(h.names, name)
		if i > 0 && rng.Intn(8) == 0 {
			continue // starts unknown, may be added later
		}
		h.present[name] = true
		initial = append(initial, name)
	}
	h.leaves = rng.Perm(nLeafShapes)[:[]int{3, 5, nLeafShapes, nLeafShapes}[rng.Intn(4)]]
	sort.Ints(h.leaves)
	h.evDrv = rng.Intn(4) != 0
	if rng.Intn(2) == 0 {
		h.future = 50
	}
	if rng.Intn(2) == 0 {
		h.srvName = []string{"srv-a", "collector.example:9339"}[rng.Intn(2)]
	}
	atomic.StoreInt64(&vclock, 1000)
	var opts []cache.Option
	if !h.evDrv {
		opts = append(opts, cache.DisableEventDrivenEmulation())
	}
	if h.future > 0 {
		opts = append(opts, cache.WithFutureThreshold(time.Duration(h.future)))
	}
	// The serverName metadata entry is registered process-wide by cache.New; a
	// trial without the option starts from the unregistered state so that a
	// trial depends on (seed, mode, trial) only.
	if h.srvName != "" {
		opts = append(opts, cache.WithServerName(h.srvName))
	} else {
		metadata.UnregisterServerNameMetadata()
	}
	ok := false
	h.guard("setup", func() {
		h.c = cache.New(initial, opts...)
		var err error
		h.srv, err = subscribe.NewServer(h.c)
		if err != nil {
			panic(err)
		}
		h.c.SetClient(func(l *ctree.Leaf) {
			if n, isN := l.Value().(*pb.Notification); isN {
				h.feed = append(h.feed, proto.Clone(n).(*pb.Notification))
			} else {
				h.feedBad++
			}
			h.srv.Update(l)
		})
		ok = true
	})
	if !ok {
		return
	}
	for _, tg := range initial {
		h.created(tg, "new-target-string-metadata")
	}
	if !h.failed {
		h.run(r.N(40, 60))
	}
	h.cleanup()
	r.Eval(1)
	for k, v := range h.cnt {
		r.Count(k, v)
	}
	if h.failed || h.aborted {
		return
	}
	if h.resetJudged && h.removeJudged {
		strs := make([]string, len(h.steps))
		for i, s := range h.steps {
			strs[i] = s.String()
		}
		r.Distinct(vlib.Hash("hist", nT, h.future, h.evDrv, h.srvName, fmt.Sprint(h.leaves), strings.Join(strs, ";")))
		if h.streamJudged {
			r.Count("histories_nontrivial_with_stream_judged_across_remove", 1)
		}
		if r.WantSample() && trial%53 == 0 {
			if len(strs) > 16 {
				strs = append(strs[:16], fmt.Sprintf("… (%d steps)", len(h.steps)))
			}
			r.Sample(map[string]interface{}{"mode": mode, "trial": trial, "targets": h.names, "first_steps": strs, "subscribers": len(h.subs)})
		}
	}
}

func body(r *vlib.Run) {
	cache.Now = func() time.Time { return time.Unix(0, now()) }
	concBody(r)
	r.ForTrials(mode, r.N(4000, 40000), func(trial int, rng *rand.Rand) { trialBody(r, trial, rng) })
}

func main() {
	vlib.Main(&vlib.Spec{
		ID: "C14",
		Rule: "seeded histories of 40 (thorough 60) operations — update / delete (exact, subtree, wildcard) / multi-update+delete / empty / Sync / Connect / ConnectError / Reset / Remove / Add / UpdateMetadata — over 2-4 targets that share one set of 3, 5 or 9 leaf paths (prefix elements, keyed element, root leaf, origin, deprecated encoding), timestamps around a virtual clock (stale, equal, newer, beyond a future threshold), event-driven emulation on/off, cache.WithServerName in half of the histories, " +
			"up to 6 subscribers (STREAM, or POLL in a third of the cases; one target or \"*\", 6 path shapes) attached at seeded points through subscribe.Server over in-memory streams; a POLL subscriber is synced, polled at seeded steps (each answered round must be exactly the cache content it selects) and, after Remove of its target, the next poll trigger — sent at once or later in the history — must end its RPC with OK without any further data of the target (after a re-Add it may also continue with the new content). After every operation addressed to X every other target's existence, leaves (wire bytes of the stored notifications) and Metadata() values are compared with the state before it, the feed entries of the call must name X only, and Query(\"*\") must equal the union of the per-target queries. " +
			"Mode concurrent (400 trials quick, 8000 thorough): 2-4 pre-filled targets (3 roots x 60-500 leaves, identical paths), Remove(X) or Reset(X) fired in the middle of a lead subscriber's initial walk or between its target check and its registration (bounded holds at schedule points), while its peer is stalled on its first response (Send gate), while the feed consumer is slow right after a Reset announcement, or at a seeded moment; by seed no periodic refresh (30%), a goroutine looping UpdateMetadata (40%) or that and one looping UpdateSize (30%) with seeded pauses during the whole trial, X's stream reporting Sync/Connect/ConnectError and a few last updates right before the operation; single-target X STREAM (2-3 paths), '*' STREAM, '*' ONCE and other-target STREAM subscribers attached before / while / after, and single-target X / '*' POLL subscribers answered once before the operation and triggered once at quiescence (X removed: the RPC must end with OK; otherwise the round must equal the cache); each judged trial is distinct by its sequence of schedule points reached. " +
			"A history is counted as distinct non-trivial when it contains a Reset of a target that held data leaves and non-initial metadata AND a Remove of a target that held data leaves, each while another target held data leaves; hashed by its operation list.",
		Assumptions: []string{
			"all cache calls are made by one goroutine (the collector's discipline: one writer per target); subscribers run concurrently but only read",
			"a subscriber is attached between two operations and the history continues when its sync_response has been delivered (walk/live-update ordering is C04's subject)",
			"whole-target delete = a notification with no update and one delete whose prefix names the target, carries no origin and whose index path is \"*\" (or empty)",
			"the end of a stream is decided by events only: a probe entry passed to Server.Update behind the whole-target delete is either delivered (stream still serving: violation) or the RPC returns; a watchdog of 90 s yields inconclusive",
			"Add is only issued for a target that is currently unknown; the origin-less data delete \"*\" (which is the whole-target delete by convention) is not generated as a data operation",
			"cache.Now is a virtual clock advanced by the generator; latestTimestamp and targetSize are compared for isolation only, not asserted after Reset",
			"initial values of the string-valued metadata (connectedAddress, connectError, serverName) = what Cache.Metadata() reports right after the target was created; after Reset they must be the same again, and with a configured server name every known target shows it at meta/serverName after UpdateMetadata. The serverName entry is registered process-wide by cache.New; a history without the option first calls metadata.UnregisterServerNameMetadata so that trials stay reproducible",
			"right after Reset a meta/ leaf (flags, eight counters) that was stored before the Reset must still be stored (Reset removes non-metadata leaves only); after UpdateMetadata all ten must be stored and show the initial values",
			"concurrent mode: Remove(X)/Reset(X) run while subscriptions attach and the writers of the OTHER targets run; X's own update stream is stopped before the operation and resumes only after Reset returned (updates racing with Remove/Add of the same target are excluded). Stalled peers (Send gates), a slow feed consumer and bounded holds / seeded delays at the verif schedule points only steer the schedule; verdicts use the responses, the RPC status and the cache at logical quiescence (sentinel of every remaining target AND sync received)",
			"concurrent mode: a single-target subscription whose Subscribe call overlapped Remove must either be refused with NotFound and no response, or be accepted and then end OK with the whole-target delete as its last response; an accepted one that is still open after Remove returned and quiescence is a violation (decided by events: repeated probe entries through Server.Update are delivered by a stream that still serves). A '*' ONCE query overlapping Remove is not judged, one made after Remove returned must report nothing of the target",
		},
		QuickShards: 8, ThoroughShards: 16,
		MinDistinctQuick: 1000, MinDistinctThorough: 10000,
		Body: body,
	})
}
