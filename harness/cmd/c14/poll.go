// C14, history mode: single-target and "*" POLL subscribers.
//
// A POLL subscription is not registered for streaming; it is answered round by
// round (matching leaves, then sync). After Remove of its only target the next
// poll trigger has to end the RPC cleanly (status OK) instead of answering
// with a bare sync for ever; subscribers polling another target or "*" are
// unaffected: every round is exactly the cache content they select.
package main

import (
	"fmt"
	"sort"
	"strings"

	"google.golang.org/protobuf/proto"

	pb "github.com/openconfig/gnmi/proto/gnmi"

	"verif/internal/model"
)

func countSync(sent []*pb.SubscribeResponse) int {
	n := 0
	for _, r := range sent {
		if r.GetSyncResponse() {
			n++
		}
	}
	return n
}

// openPoll returns the first POLL subscriber whose end has not been judged.
func (h *harness) openPoll() *sub {
	for _, s := range h.subs {
		if s.Poll && !s.finished {
			return s
		}
	}
	return nil
}

// roundWant: what a round of s has to report, from a snapshot of the cache.
func (h *harness) roundWant(s *sub, snap map[string]*tsnap) map[string]*pb.Notification {
	want := map[string]*pb.Notification{}
	for _, t := range h.names {
		if !h.present[t] || (s.Target != "*" && s.Target != t) {
			continue
		}
		for k, n := range snap[t].Notis {
			if idx := model.Unkey(k); s.Shape.selects(idx) {
				want[model.Key(append([]string{t}, idx...))] = n
			}
		}
	}
	return want
}

// checkRound compares one answered round (responses before its sync) with the
// cache content the subscription selects.
func (h *harness) checkRound(s *sub, round []*pb.SubscribeResponse, snap map[string]*tsnap, when string) {
	want := h.roundWant(s, snap)
	got := map[string]*pb.TypedValue{}
	var diffs []string
	for _, r := range round {
		n := r.GetUpdate()
		if n == nil {
			continue
		}
		if len(n.GetDelete()) > 0 {
			diffs = append(diffs, "a delete in a poll round: "+renderNoti(n))
		}
		pre := model.IndexPrefix(n.GetPrefix())
		for _, u := range n.GetUpdate() {
			got[model.Key(append(append([]string{}, pre...), model.IndexPath(u.GetPath())...))] = u.GetVal()
		}
	}
	for k, wn := range want {
		gv, ok := got[k]
		switch {
		case !ok:
			diffs = append(diffs, fmt.Sprintf("missing %s (cache holds %s)", pathStr(k), renderNoti(wn)))
		case !proto.Equal(gv, wn.GetUpdate()[0].GetVal()):
			diffs = append(diffs, fmt.Sprintf("%s reported as %v, cache holds %s", pathStr(k), gv.GetValue(), renderNoti(wn)))
		}
	}
	for k := range got {
		if want[k] == nil {
			p := model.Unkey(k)
			diffs = append(diffs, fmt.Sprintf("extra %s (target %q known: %v)", pathStr(k), p[0], h.present[p[0]]))
		}
	}
	h.count("poll_rounds_compared", 1)
	h.count("poll_round_leaves_compared", int64(len(want)))
	if len(diffs) > 0 {
		sort.Strings(diffs)
		if len(diffs) > 5 {
			diffs = append(diffs[:5], fmt.Sprintf("… (%d differences)", len(diffs)))
		}
		h.fail("poll-round-mismatch", fmt.Sprintf("POLL subscriber %d (%s on %q) %s: the round differs from the cache content it selects: %s", s.ID, s.Shape.Name, s.Target, when, strings.Join(diffs, "; ")))
	}
}

// pollAttached: the initial round of a new POLL subscriber.
func (h *harness) pollAttached(s *sub) {
	got, ended, timedOut := s.wait(hasSync)
	switch {
	case timedOut:
		h.inconclusive("no sync_response of a POLL subscription within the watchdog")
		return
	case !got || ended:
		s.finished = true
		h.fail("poll-stream-ended", fmt.Sprintf("POLL subscriber %d (%s) of known target %q ended during its initial round with status %v", s.ID, s.Shape.Name, s.Target, s.err))
		return
	}
	sent := s.st.Sent()
	h.checkRound(s, sent, h.cur, "initial round")
	s.rounds, s.roundAt = 1, len(sent)
}

// pollOnce sends one poll trigger and judges what happens.
func (h *harness) pollOnce(s *sub, snap map[string]*tsnap) {
	gone := s.Target != "*" && !h.present[s.Target]
	before := s.st.NSent()
	want := s.rounds + 1
	if !s.ended() {
		s.st.Push(&pb.SubscribeRequest{Request: &pb.SubscribeRequest_Poll{Poll: &pb.Poll{}}})
	}
	got, ended, timedOut := s.wait(func(sent []*pb.SubscribeResponse) bool { return countSync(sent) >= want })
	if timedOut {
		h.inconclusive("a POLL subscription neither answered a trigger nor ended within the watchdog")
		return
	}
	sent := s.st.Sent()
	newX := 0
	for _, r := range sent[before:] {
		if n := r.GetUpdate(); n != nil && n.GetPrefix().GetTarget() == s.Target {
			newX += len(n.GetUpdate())
		}
	}
	switch {
	case gone && !ended:
		s.finished = true
		h.fail("remove-poll-stream-left-open", fmt.Sprintf("POLL subscriber %d (%s) of %q: its target was removed, the next poll trigger was answered (%d responses, last %s) and the RPC is still open; want the RPC to end with OK", s.ID, s.Shape.Name, s.Target, len(sent)-before, renderResp(sent[len(sent)-1])))
	case gone && s.err != nil:
		s.finished = true
		h.fail("remove-poll-stream-status", fmt.Sprintf("POLL subscriber %d (%s) of removed target %q ended with status %v, want OK", s.ID, s.Shape.Name, s.Target, s.err))
	case gone && newX > 0:
		s.finished = true
		h.fail("remove-poll-stream-data", fmt.Sprintf("POLL subscriber %d (%s) of removed target %q was sent %d updates of it after the removal", s.ID, s.Shape.Name, s.Target, newX))
	case gone:
		s.finished = true
		h.streamJudged = true
		h.count("poll_stream_ended_ok_on_trigger_after_remove", 1)
	case ended && s.rmSince && s.err == nil && s.Target != "*":
		// Removed and added again before this trigger: a clean end is as
		// legitimate as a continuation.
		s.finished = true
		h.count("poll_stream_ended_ok_after_remove_and_readd", 1)
	case ended || !got:
		s.finished = true
		h.fail("poll-stream-ended", fmt.Sprintf("POLL subscriber %d (%s on %q) ended with status %v on a poll trigger although its target is known (removed since its last round: %v)", s.ID, s.Shape.Name, s.Target, s.err, s.rmSince))
	default:
		if s.rmSince {
			h.count("poll_stream_continued_after_remove_and_readd", 1)
		}
		h.checkRound(s, sent[s.roundAt:], snap, fmt.Sprintf("round %d", want))
		s.rounds, s.roundAt, s.rmSince = want, len(sent), false
		if s.Target == "*" && s.sawRm {
			h.count("poll_star_round_after_remove_compared", 1)
		}
	}
}
