// C15 — Per-target metadata counters and latency statistics are truthful.
//
// Three monitors over the real cache / metadata / latency code:
//
//	(A) hist: sequential conservation monitor. Seeded histories of updates
//	    (both path encodings, elements in the prefix, prefix-only paths, origins),
//	    deletes (exact, subtree, wildcard, whole target, covering meta/ leaves),
//	    multi-update and atomic notifications, empty notifications and the
//	    lifecycle calls Connect / ConnectError / Sync / Reset / UpdateMetadata /
//	    UpdateSize are applied to a real cache.Cache under a virtual cache.Now.
//	    After EVERY step the exported counters (Cache.Metadata()) are compared
//	    with the leaves Cache.Query returns, the per-call classification law is
//	    checked on the counter deltas, and a twin cache that receives every
//	    multi-update notification split into its parts must show the same
//	    counters and leaves.
//	(B) lat / cachelat: latency oracle under a virtual latency.Now. A recording
//	    latency.Metadata passed to UpdateReset sees every value a refresh sets;
//	    each must lie within [min S - p, max S + p] for the sample set S of its
//	    window (samples attributed to the refresh that follows them in CALL
//	    order). The same bound is checked through the cache (WithLatencyWindows,
//	    WithAvgLatencyPrecision, after Sync) on the values that change in
//	    Cache.Metadata() across UpdateMetadata.
//	(C) race / conc: one update goroutine per target + UpdateMetadata +
//	    UpdateSize loops, the update stream toggling Sync/Reset/Connect/
//	    ConnectError every few updates. Under the race detector (race workers,
//	    deciding) and, without it, in the ordinary workers; the conservation
//	    equalities are checked by each target's own stream goroutine and at
//	    quiescence.
//	(D) latconc / latrace: concurrent latency oracle. The clock is an atomic
//	    counter advanced only by the single update stream and every sample is
//	    stamped exactly L before it, so every value any refresh exports must be
//	    L (within the averaging precision) whatever the interleaving of Compute
//	    and UpdateReset; directly on latency.Latency and through the cache.
package main

import (
	"errors"
	"fmt"
	"math/big"
	"math/rand"
	"runtime"
	"sort"
	"strings"
	"sync"
	"sync/atomic"
	"time"

	"github.com/openconfig/gnmi/cache"
	"github.com/openconfig/gnmi/ctree"
	"github.com/openconfig/gnmi/errlist"
	"github.com/openconfig/gnmi/latency"
	"github.com/openconfig/gnmi/metadata"

	pb "github.com/openconfig/gnmi/proto/gnmi"

	"verif/internal/gen"
	"verif/internal/model"
	"verif/internal/vlib"
)

const (
	modeHist     = "hist"
	modeLat      = "lat"
	modeCacheLat = "cachelat"
	modeConc     = "conc"
	modeRace     = "race"
	modeLatConc  = "latconc"
	modeLatRace  = "latrace"
)

// ---- virtual clocks (sequential modes only) ---------------------------------

var cacheClk, latClk int64

func useVirtualClocks() {
	cache.Now = func() time.Time { return time.Unix(0, cacheClk) }
	latency.Now = func() time.Time { return time.Unix(0, latClk) }
}

// aclk is the clock of the concurrent latency trials: read atomically by
// cache.Now / latency.Now, advanced only by the (single) update stream.
var aclk int64

func useAtomicClocks() {
	f := func() time.Time { return time.Unix(0, atomic.LoadInt64(&aclk)) }
	cache.Now = f
	latency.Now = f
}

func useRealClocks() {
	cache.Now = time.Now
	latency.Now = time.Now
}

// ---- observation -------------------------------------------------------------

const (
	cLeaf = iota
	cAdd
	cDel
	cEmpty
	cUpd
	cSupp
	cStale
	cFut
	nCnt
)

var cnames = [nCnt]string{metadata.LeafCount, metadata.AddCount, metadata.DelCount, metadata.EmptyCount,
	metadata.UpdateCount, metadata.SuppressedCount, metadata.StaleCount, metadata.FutureCount}

type cnt [nCnt]int64

var cshort = [nCnt]string{"leaves", "added", "deleted", "empty", "updated", "suppressed", "stale", "future"}

func (c cnt) String() string {
	var b strings.Builder
	for i, n := range cshort {
		if i > 0 {
			b.WriteString(" ")
		}
		fmt.Fprintf(&b, "%s=%d", n, c[i])
	}
	return b.String()
}

func (c cnt) sub(o cnt) (d cnt) {
	for i := range c {
		d[i] = c[i] - o[i]
	}
	return d
}

func readCnt(m *metadata.Metadata) (c cnt, err error) {
	if m == nil {
		return c, errors.New("Cache.Metadata() has no entry for the target")
	}
	for i, n := range cnames {
		v, e := m.GetInt(n)
		if e != nil {
			return c, fmt.Errorf("GetInt(%s): %v", n, e)
		}
		c[i] = v
	}
	return c, nil
}

// lv is what is stored at one leaf, as far as this check cares.
type lv struct {
	TS     int64
	Kind   byte // 'i' int, 'b' bool, 's' string, '?' other
	I      int64
	S      string
	Atomic bool
	Meta   bool
}

type snap map[string]lv

func isMetaPath(p []string) bool { return len(p) > 0 && p[0] == metadata.Root }

// takeSnap reads every leaf of a target through Cache.Query.
func takeSnap(c *cache.Cache, tgt string) (s snap, err error) {
	s = snap{}
	dup := ""
	qerr := c.Query(tgt, []string{"*"}, func(p []string, _ *ctree.Leaf, v interface{}) error {
		k := model.Key(p)
		if _, ok := s[k]; ok {
			dup = strings.Join(p, "/")
		}
		l := lv{Kind: '?', Meta: isMetaPath(p)}
		if n, ok := v.(*pb.Notification); ok {
			l.TS = n.GetTimestamp()
			l.Atomic = n.GetAtomic()
			if len(n.GetUpdate()) > 0 {
				switch x := n.GetUpdate()[0].GetVal().GetValue().(type) {
				case *pb.TypedValue_IntVal:
					l.Kind, l.I = 'i', x.IntVal
				case *pb.TypedValue_BoolVal:
					l.Kind = 'b'
					if x.BoolVal {
						l.I = 1
					}
				case *pb.TypedValue_StringVal:
					l.Kind, l.S = 's', x.StringVal
				}
			}
		}
		s[k] = l
		return nil
	})
	if qerr != nil {
		return s, qerr
	}
	if dup != "" {
		return s, fmt.Errorf("Query reported leaf %s twice", dup)
	}
	return s, nil
}

func (s snap) nonMeta() int {
	n := 0
	for _, l := range s {
		if !l.Meta {
			n++
		}
	}
	return n
}

// diffKeys counts non-metadata leaves that appeared / disappeared.
func diffKeys(pre, post snap) (added, removed int) {
	for k, l := range post {
		if _, ok := pre[k]; !ok && !l.Meta {
			added++
		}
	}
	for k, l := range pre {
		if _, ok := post[k]; !ok && !l.Meta {
			removed++
		}
	}
	return
}

func sameData(a, b snap) string {
	for k, l := range a {
		if l.Meta {
			continue
		}
		m, ok := b[k]
		if !ok {
			return fmt.Sprintf("leaf %s missing", strings.Join(model.Unkey(k), "/"))
		}
		if m != l {
			return fmt.Sprintf("leaf %s differs (%+v vs %+v)", strings.Join(model.Unkey(k), "/"), l, m)
		}
	}
	for k, l := range b {
		if l.Meta {
			continue
		}
		if _, ok := a[k]; !ok {
			return fmt.Sprintf("extra leaf %s", strings.Join(model.Unkey(k), "/"))
		}
	}
	return ""
}

type mismatch struct{ sig, what string }

// conservation is the first law of the statement, judged on what the cache
// exports and on what Query returns.
func conservation(tgt string, c cnt, s snap) *mismatch {
	if n := int64(s.nonMeta()); c[cLeaf] != n {
		return &mismatch{"leafcount-ne-stored-leaves", fmt.Sprintf("target %s exports %s=%d but Cache.Query returns %d non-metadata leaves (%s)", tgt, metadata.LeafCount, c[cLeaf], n, c)}
	}
	if c[cLeaf] != c[cAdd]-c[cDel] {
		return &mismatch{"leafcount-ne-added-minus-deleted", fmt.Sprintf("target %s exports %s=%d but %s-%s = %d-%d since the last Reset", tgt, metadata.LeafCount, c[cLeaf], metadata.AddCount, metadata.DelCount, c[cAdd], c[cDel])}
	}
	return nil
}

// ---- history steps -----------------------------------------------------------

type part struct {
	P   []string `json:"p"`
	Dep bool     `json:"dep,omitempty"` // deprecated element encoding
	Nil bool     `json:"nil,omitempty"` // nil *pb.Path when P is empty
	V   int64    `json:"v,omitempty"`
}

type step struct {
	Kind   string   `json:"k"` // upd del multi atomic empty sync connect connecterr reset meta size
	Tgt    int      `json:"t"`
	Adv    int64    `json:"adv,omitempty"` // virtual clock advance before the call
	TS     int64    `json:"ts,omitempty"`
	Origin string   `json:"o,omitempty"`
	Pre    []string `json:"pre,omitempty"`
	PreDep bool     `json:"predep,omitempty"`
	Atomic bool     `json:"atomic,omitempty"`
	Ups    []part   `json:"u,omitempty"`
	Dels   []part   `json:"d,omitempty"`
	Msg    string   `json:"msg,omitempty"`
}

func (s step) isData() bool {
	switch s.Kind {
	case "upd", "del", "multi", "atomic", "empty":
		return true
	}
	return false
}

func (s step) String() string {
	if !s.isData() {
		if s.Kind == "connecterr" {
			return fmt.Sprintf("+%d %s(t%d,%q)", s.Adv, s.Kind, s.Tgt, s.Msg)
		}
		return fmt.Sprintf("+%d %s(t%d)", s.Adv, s.Kind, s.Tgt)
	}
	var b strings.Builder
	fmt.Fprintf(&b, "+%d %s(t%d ts=%d", s.Adv, s.Kind, s.Tgt, s.TS)
	if s.Atomic {
		b.WriteString(" atomic")
	}
	if s.Origin != "" {
		fmt.Fprintf(&b, " origin=%s", s.Origin)
	}
	if len(s.Pre) > 0 {
		enc := "elem"
		if s.PreDep {
			enc = "element"
		}
		fmt.Fprintf(&b, " prefix[%s]=%s", enc, strings.Join(s.Pre, "/"))
	}
	for _, u := range s.Ups {
		enc := ""
		if u.Dep {
			enc = "[element]"
		}
		fmt.Fprintf(&b, " U%s:%s=%d", enc, strings.Join(u.P, "/"), u.V)
	}
	for _, d := range s.Dels {
		enc := ""
		if d.Dep {
			enc = "[element]"
		}
		fmt.Fprintf(&b, " D%s:%s", enc, strings.Join(d.P, "/"))
	}
	b.WriteString(")")
	return b.String()
}

func mkPath(p part) *pb.Path {
	if len(p.P) == 0 && p.Nil {
		return nil
	}
	return gen.Path(p.Dep, p.P...)
}

func (s step) prefix(target string) *pb.Path {
	pre := &pb.Path{Target: target, Origin: s.Origin}
	if len(s.Pre) > 0 {
		if s.PreDep {
			pre.Element = append([]string{}, s.Pre...)
		} else {
			pre.Elem = gen.Elems(s.Pre...)
		}
	}
	return pre
}

// build makes a fresh notification (the cache keeps the pointer).
func (s step) build(target string) *pb.Notification {
	n := &pb.Notification{Timestamp: s.TS, Prefix: s.prefix(target), Atomic: s.Atomic}
	for _, u := range s.Ups {
		n.Update = append(n.Update, &pb.Update{Path: mkPath(u), Val: gen.I(u.V)})
	}
	for _, d := range s.Dels {
		p := mkPath(d)
		if p == nil {
			p = &pb.Path{}
		}
		n.Delete = append(n.Delete, p)
	}
	return n
}

// full is the index path of a part: origin, prefix elements, path elements.
func (s step) full(p part) []string {
	var out []string
	if s.Origin != "" {
		out = append(out, s.Origin)
	}
	out = append(out, s.Pre...)
	if !s.Atomic {
		out = append(out, p.P...)
	}
	return out
}

// apply runs one step on a cache.
func apply(c *cache.Cache, s step, tgt string) (err error, pan interface{}) {
	defer func() {
		if x := recover(); x != nil {
			pan = x
		}
	}()
	switch s.Kind {
	case "sync":
		c.Sync(tgt)
	case "connect":
		c.Connect(tgt)
	case "connecterr":
		c.ConnectError(tgt, errors.New(s.Msg))
	case "reset":
		c.Reset(tgt)
	case "meta":
		c.UpdateMetadata()
	case "size":
		c.UpdateSize()
	default:
		err = c.GnmiUpdate(s.build(tgt))
	}
	return
}

// applySplit submits a non-atomic multi notification as its parts, in the
// order the statement's "sum of their parts" refers to: updates, then deletes.
func applySplit(c *cache.Cache, s step, tgt string) (pan interface{}) {
	defer func() {
		if x := recover(); x != nil {
			pan = x
		}
	}()
	if s.Atomic || len(s.Ups)+len(s.Dels) <= 1 || !s.isData() {
		_, pan = apply(c, s, tgt)
		return
	}
	for _, u := range s.Ups {
		one := s
		one.Ups, one.Dels = []part{u}, nil
		c.GnmiUpdate(one.build(tgt))
	}
	for _, d := range s.Dels {
		one := s
		one.Ups, one.Dels = nil, []part{d}
		c.GnmiUpdate(one.build(tgt))
	}
	return nil
}

// errCounts decomposes the error a GnmiUpdate call returned.
func errCounts(err error) (total, stale, future int) {
	if err == nil {
		return
	}
	list := []error{err}
	if el, ok := err.(errlist.Errors); ok {
		list = el.Errors()
	}
	for _, e := range list {
		total++
		switch {
		case errors.Is(e, cache.ErrStale):
			stale++
		case errors.Is(e, cache.ErrFuture):
			future++
		}
	}
	return
}

// ---- history generator --------------------------------------------------------

type histCfg struct {
	NT          int   `json:"targets"`
	F           int64 `json:"future_threshold_ns"`
	EventDriven bool  `json:"event_driven"`
	Twin        bool  `json:"twin"`
}

var dataNames = []string{"a", "b", "c"}

func splitPath(rng *rand.Rand, fp []string) (origin string, pre, suf []string) {
	if len(fp) == 0 {
		return "", nil, nil
	}
	switch x := rng.Intn(6); {
	case x < 2:
		return "", nil, fp
	case x == 2:
		k := rng.Intn(len(fp) + 1)
		return "", fp[:k], fp[k:]
	case x == 3:
		return "", fp, nil // every element in the prefix
	case x == 4 && fp[0] != "*":
		rest := fp[1:]
		k := rng.Intn(len(rest) + 1)
		return fp[0], rest[:k], rest[k:]
	default:
		k := 1 + rng.Intn(len(fp))
		return "", fp[:k], fp[k:]
	}
}

func cp(p []string) []string { return append([]string{}, p...) }

func genHistory(rng *rand.Rand, nsteps int) (histCfg, []step) {
	cfg := histCfg{NT: 1 + rng.Intn(2), EventDriven: rng.Intn(5) != 0, Twin: rng.Intn(2) == 0}
	switch rng.Intn(4) {
	case 2:
		cfg.F = 5
	case 3:
		cfg.F = 25
	}
	// Pool of data leaves: few names, so collisions, prefix conflicts, equal and
	// older timestamps and re-adds all happen.
	want := 4 + rng.Intn(5)
	seen := map[string]bool{}
	var pool [][]string
	for tries := 0; len(pool) < want && tries < 100; tries++ {
		d := 1 + rng.Intn(3)
		p := make([]string, d)
		for i := range p {
			p[i] = dataNames[rng.Intn(len(dataNames))]
		}
		if k := model.Key(p); !seen[k] {
			seen[k] = true
			pool = append(pool, p)
		}
	}
	metaPool := [][]string{{metadata.Root, "x"}, {metadata.Root, "y", "z"}}
	val := func() int64 { return int64(rng.Intn(3)) }
	clk := int64(1000)
	ts := func(clampFuture bool) int64 {
		var t int64
		switch x := rng.Intn(100); {
		case x < 76:
			t = clk + int64(rng.Intn(10)) - 6
		case x < 84:
			t = clk - 100 - int64(rng.Intn(50))
		default:
			switch {
			case cfg.F > 0:
				t = clk + cfg.F + 1 + int64(rng.Intn(40))
			case x < 88:
				t = clk + 30 + int64(rng.Intn(40))
			default:
				t = clk + int64(rng.Intn(4))
			}
		}
		if clampFuture && cfg.F > 0 && t-clk > cfg.F {
			t = clk + cfg.F - int64(rng.Intn(3))
		}
		return t
	}
	pick := func(meta bool) []string {
		if meta {
			return metaPool[rng.Intn(len(metaPool))]
		}
		return pool[rng.Intn(len(pool))]
	}
	steps := make([]step, 0, nsteps)
	for i := 0; i < nsteps; i++ {
		s := step{Tgt: rng.Intn(cfg.NT), Adv: int64(rng.Intn(4))}
		if rng.Intn(30) == 0 {
			s.Adv += 50
		}
		clk += s.Adv
		switch x := rng.Intn(100); {
		case x < 40:
			s.Kind = "upd"
			s.TS = ts(false)
			fp := pick(rng.Intn(16) == 0)
			o, pre, suf := splitPath(rng, fp)
			s.Origin, s.Pre, s.PreDep = o, cp(pre), rng.Intn(2) == 0
			s.Ups = []part{{P: cp(suf), Dep: rng.Intn(2) == 0, Nil: rng.Intn(2) == 0, V: val()}}
		case x < 52:
			s.Kind = "del"
			s.TS = ts(false)
			var fp []string
			switch y := rng.Intn(100); {
			case y < 52:
				fp = cp(pick(false))
			case y < 66:
				fp = cp(pick(false))
				if len(fp) > 1 {
					fp = fp[:len(fp)-1]
				}
			case y < 78:
				fp = cp(pick(false))
				fp[rng.Intn(len(fp))] = "*"
			case y < 85:
				fp = []string{"*"}
			case y < 90:
				fp = []string{}
			case y < 93:
				fp = []string{metadata.Root}
			case y < 96:
				fp = []string{metadata.Root, "*"}
			case y < 98:
				fp = cp(pick(true))
			default:
				fp = []string{metadata.Root, metadata.ConnectError}
			}
			o, pre, suf := splitPath(rng, fp)
			s.Origin, s.Pre, s.PreDep = o, cp(pre), rng.Intn(2) == 0
			s.Dels = []part{{P: cp(suf), Dep: rng.Intn(2) == 0}}
		case x < 62:
			s.Kind = "multi"
			s.TS = ts(cfg.Twin)
			meta := rng.Intn(10) == 0
			base := pick(meta)
			shared := 0
			if rng.Intn(2) == 0 || meta && rng.Intn(2) == 0 {
				shared = 1
				if rng.Intn(3) == 0 {
					s.Origin = base[0]
				} else {
					s.Pre, s.PreDep = []string{base[0]}, rng.Intn(2) == 0
				}
			}
			var cand [][]string
			src := pool
			if meta {
				src = metaPool
			}
			for _, p := range src {
				if shared == 0 || p[0] == base[0] {
					cand = append(cand, p)
				}
			}
			nu, nd := rng.Intn(4), rng.Intn(3)
			for nu+nd < 2 {
				nu++
			}
			for j := 0; j < nu; j++ {
				p := cand[rng.Intn(len(cand))]
				s.Ups = append(s.Ups, part{P: cp(p[shared:]), Dep: rng.Intn(2) == 0, Nil: rng.Intn(2) == 0, V: val()})
			}
			for j := 0; j < nd; j++ {
				p := cp(cand[rng.Intn(len(cand))][shared:])
				switch y := rng.Intn(10); {
				case y < 6:
				case y < 8 && len(p) > 0:
					p[rng.Intn(len(p))] = "*"
				case y == 8:
					p = []string{"*"}
				default:
					if len(p) > 1 {
						p = p[:len(p)-1]
					}
				}
				s.Dels = append(s.Dels, part{P: p, Dep: rng.Intn(2) == 0})
			}
		case x < 68:
			s.Kind = "atomic"
			s.Atomic = true
			s.TS = ts(false)
			fp := pick(rng.Intn(20) == 0)
			switch y := rng.Intn(12); {
			case y == 0: // element-less prefix: must be refused
			case y < 4 && len(fp) > 1:
				s.Origin, s.Pre = fp[0], cp(fp[1:])
			default:
				s.Pre = cp(fp)
			}
			s.PreDep = rng.Intn(2) == 0
			for j, k := 0, 1+rng.Intn(3); j < k; j++ {
				s.Ups = append(s.Ups, part{P: []string{"m", dataNames[rng.Intn(3)]}, Dep: rng.Intn(2) == 0, V: val()})
			}
			if rng.Intn(12) == 0 {
				s.Dels = []part{{P: []string{"m"}}}
			}
			if rng.Intn(15) == 0 {
				s.Ups = nil
			}
		case x < 71:
			s.Kind = "empty"
			s.TS = ts(false)
			s.Atomic = rng.Intn(4) == 0
			if rng.Intn(3) == 0 {
				s.Pre = cp(pick(false))
			}
		case x < 75:
			s.Kind = "sync"
		case x < 80:
			s.Kind = "connect"
		case x < 85:
			s.Kind = "connecterr"
			s.Msg = []string{"e1", "e2"}[rng.Intn(2)]
		case x < 88:
			s.Kind = "reset"
		case x < 97:
			s.Kind = "meta"
		default:
			s.Kind = "size"
		}
		steps = append(steps, s)
	}
	return cfg, steps
}

// ---- sequential conservation monitor ------------------------------------------

type tmodel struct {
	latest    int64
	hasLatest bool
	latestSrc string // how the update that set it carried its path
	cntPre    cnt
	snapPre   snap
}

func pathClass(s step) string {
	u := s.Ups[0]
	switch {
	case s.Atomic:
		return "atomic"
	case len(u.P) == 0 && s.Origin != "" && len(s.Pre) == 0:
		return "origin_only"
	case len(u.P) == 0:
		return "prefix_only"
	case u.Dep:
		return "element_encoding"
	default:
		return "elem_encoding"
	}
}

func cacheOpts(cfg histCfg) []cache.Option {
	var opts []cache.Option
	if cfg.F > 0 {
		opts = append(opts, cache.WithFutureThreshold(time.Duration(cfg.F)))
	}
	if !cfg.EventDriven {
		opts = append(opts, cache.DisableEventDrivenEmulation())
	}
	return opts
}

func tname(i int) string { return fmt.Sprintf("t%d", i) }

// runHistory executes a history, judging after every step. stats counts the
// oracle's decisions by branch.
func runHistory(cfg histCfg, steps []step, stats map[string]int64) (mm *mismatch, at int) {
	names := make([]string, cfg.NT)
	for i := range names {
		names[i] = tname(i)
	}
	A := cache.New(names, cacheOpts(cfg)...)
	var B *cache.Cache
	if cfg.Twin {
		B = cache.New(names, cacheOpts(cfg)...)
	}
	cacheClk = 1000
	tm := make([]*tmodel, cfg.NT)
	for i := range tm {
		tm[i] = &tmodel{snapPre: snap{}}
		var err error
		if tm[i].cntPre, err = readCnt(A.Metadata()[names[i]]); err != nil {
			return &mismatch{"counter-unreadable", err.Error()}, 0
		}
	}
	twinOK := B != nil
	for i, s := range steps {
		cacheClk += s.Adv
		tgt := names[s.Tgt]
		err, pan := apply(A, s, tgt)
		if pan != nil {
			return &mismatch{"panic:" + s.Kind, fmt.Sprintf("%v panicked: %v", s, pan)}, i
		}
		if twinOK {
			if pan := applySplit(B, s, tgt); pan != nil {
				return &mismatch{"panic:" + s.Kind, fmt.Sprintf("%v (submitted as its parts) panicked: %v", s, pan)}, i
			}
		}
		stats["steps_"+s.Kind]++
		mdA := A.Metadata()
		for ti, name := range names {
			m := tm[ti]
			post, qerr := takeSnap(A, name)
			if qerr != nil {
				return &mismatch{"query-failed", fmt.Sprintf("after %v: Cache.Query(%s): %v", s, name, qerr)}, i
			}
			ca, cerr := readCnt(mdA[name])
			if cerr != nil {
				return &mismatch{"counter-unreadable", fmt.Sprintf("after %v: target %s: %v", s, name, cerr)}, i
			}
			// Law 1, every step, every target.
			if mm := conservation(name, ca, post); mm != nil {
				mm.what = fmt.Sprintf("after %v: %s", s, mm.what)
				return mm, i
			}
			stats["conservation_checks"]++
			global := s.Kind == "meta" || s.Kind == "size"
			if ti == s.Tgt || global {
				var mm *mismatch
				switch {
				case s.isData():
					mm = judgeData(cfg, s, err, m, post, ca, stats)
				case s.Kind == "reset":
					mm = judgeReset(name, m, post, ca, stats)
				default:
					mm = judgeLifecycle(s, name, m, post, ca, stats)
				}
				if mm == nil && (s.Kind == "meta" || s.Kind == "reset") {
					mm = judgeExport(s, name, mdA[name], m, post, stats)
				}
				if mm != nil {
					mm.what = fmt.Sprintf("%s [before: %s; after: %s]", mm.what, m.cntPre, ca)
					return mm, i
				}
			}
			if twinOK {
				postB, qerrB := takeSnap(B, name)
				cb, cerrB := readCnt(B.Metadata()[name])
				if qerrB != nil || cerrB != nil {
					return &mismatch{"query-failed", fmt.Sprintf("twin cache unreadable after %v: %v %v", s, qerrB, cerrB)}, i
				}
				diff := ""
				if cb != ca {
					diff = fmt.Sprintf("counters as one notification: %s; as its parts: %s", ca, cb)
				} else if d := sameData(post, postB); d != "" {
					diff = "stored leaves differ: " + d
				}
				if diff != "" {
					if s.Kind == "multi" {
						return &mismatch{"multi-not-sum-of-parts", fmt.Sprintf("%v counted differently from the same updates and deletes submitted one by one (target %s): %s", s, name, diff)}, i
					}
					// Identical calls, different result: not this property's business.
					stats["twin_diverged_on_identical_calls"]++
					twinOK = false
				} else if s.Kind == "multi" && ti == s.Tgt {
					stats["multi_equal_to_sum_of_parts"]++
				}
			}
			m.cntPre, m.snapPre = ca, post
		}
	}
	return nil, -1
}

func judgeLifecycle(s step, name string, m *tmodel, post snap, ca cnt, stats map[string]int64) *mismatch {
	d := ca.sub(m.cntPre)
	if d[cLeaf] != 0 || d[cAdd] != 0 || d[cDel] != 0 {
		return &mismatch{"lifecycle-changed-leaf-counters", fmt.Sprintf("%v changed the leaf counters of target %s: d(leaves)=%d d(added)=%d d(deleted)=%d", s, name, d[cLeaf], d[cAdd], d[cDel])}
	}
	if df := sameData(m.snapPre, post); df != "" {
		return &mismatch{"lifecycle-changed-data-leaves", fmt.Sprintf("%v changed the non-metadata leaves of target %s: %s", s, name, df)}
	}
	if s.Kind == "connect" {
		if _, ok := m.snapPre[model.Key(metadata.Path(metadata.ConnectError))]; ok {
			stats["connect_after_connecterror"]++
		}
	}
	stats["lifecycle_judged"]++
	return nil
}

func judgeReset(name string, m *tmodel, post snap, ca cnt, stats map[string]int64) *mismatch {
	for i, v := range ca {
		if v != 0 {
			return &mismatch{"reset-counter-not-cleared", fmt.Sprintf("after Reset(%s) %s=%d (counters count since the last Reset)", name, cnames[i], v)}
		}
	}
	m.hasLatest, m.latest, m.latestSrc = false, 0, ""
	stats["reset_judged"]++
	return nil
}

// judgeExport: what UpdateMetadata wrote under meta/ equals Cache.Metadata(),
// and the exported latest timestamp is the greatest accepted one.
func judgeExport(s step, name string, md *metadata.Metadata, m *tmodel, post snap, stats map[string]int64) *mismatch {
	ints := append(append([]string{}, cnames[:]...), metadata.Size, metadata.LatestTimestamp)
	for _, n := range ints {
		v, err := md.GetInt(n)
		if err != nil {
			continue
		}
		l, ok := post[model.Key(metadata.Path(n))]
		if !ok || l.Kind != 'i' || l.I != v {
			return &mismatch{"meta-leaf-ne-metadata", fmt.Sprintf("after %v: Cache.Metadata()[%s] has %s=%d but the leaf %s holds %+v (present=%v)", s, name, n, v, strings.Join(metadata.Path(n), "/"), l, ok)}
		}
		stats["meta_leaf_compared"]++
	}
	for _, n := range []string{metadata.Sync, metadata.Connected} {
		v, err := md.GetBool(n)
		if err != nil {
			continue
		}
		l, ok := post[model.Key(metadata.Path(n))]
		if !ok || l.Kind != 'b' || (l.I == 1) != v {
			return &mismatch{"meta-leaf-ne-metadata", fmt.Sprintf("after %v: Cache.Metadata()[%s] has %s=%v but the leaf holds %+v (present=%v)", s, name, n, v, l, ok)}
		}
		stats["meta_leaf_compared"]++
	}
	if s.Kind == "reset" {
		return nil
	}
	if m.hasLatest {
		v, err := md.GetInt(metadata.LatestTimestamp)
		if err != nil || v != m.latest {
			return &mismatch{"latest-timestamp", fmt.Sprintf("after UpdateMetadata target %s exports %s=%d (err %v) but the greatest timestamp among accepted non-metadata updates since the last Reset is %d (carried by an update whose path was %s)", name, metadata.LatestTimestamp, v, err, m.latest, m.latestSrc)}
		}
		stats["latest_asserted"]++
		stats["latest_asserted_from_"+m.latestSrc]++
	}
	return nil
}

func judgeData(cfg histCfg, s step, err error, m *tmodel, post snap, ca cnt, stats map[string]int64) *mismatch {
	d := ca.sub(m.cntPre)
	U, D := len(s.Ups), len(s.Dels)
	added, removed := diffKeys(m.snapPre, post)
	isStale, isFuture := errors.Is(err, cache.ErrStale), errors.Is(err, cache.ErrFuture)
	grew := func() string {
		return fmt.Sprintf("d(updated)=%d d(suppressed)=%d d(stale)=%d d(future)=%d d(empty)=%d", d[cUpd], d[cSupp], d[cStale], d[cFut], d[cEmpty])
	}
	exact := func(sig string, upd, supp, stale, fut, empty int64, why string) *mismatch {
		if d[cUpd] != upd || d[cSupp] != supp || d[cStale] != stale || d[cFut] != fut || d[cEmpty] != empty {
			return &mismatch{sig, fmt.Sprintf("%v returned %v: expected d(updated)=%d d(suppressed)=%d d(stale)=%d d(future)=%d d(empty)=%d (%s), observed %s", s, err, upd, supp, stale, fut, empty, why, grew())}
		}
		return nil
	}
	accepted := false
	var mm *mismatch
	switch {
	case s.Atomic && D > 0:
		if err == nil {
			stats["unjudged_atomic_with_deletes_accepted"]++
			return nil
		}
		mm = exact("atomic-classification", 0, 0, 0, 0, 0, "refused with an error: nothing counted")
		stats["atomic_error"]++
	case U+D == 0:
		mm = exact("empty-classification", 0, 0, 0, 0, 1, "an empty notification counts as empty and nothing else")
		if mm == nil && (added != 0 || removed != 0) {
			mm = &mismatch{"empty-classification", fmt.Sprintf("%v changed the stored leaves", s)}
		}
		stats["empty_judged"]++
	case s.Atomic:
		switch {
		case err == nil:
			accepted = true
			mm = exact("atomic-classification", int64(U), 0, 0, 0, 0, "an accepted atomic group counts its size as updated")
			stats["atomic_accepted"]++
		case isStale:
			mm = exact("atomic-classification", 0, 0, 1, 0, 0, "a stale atomic group counts one stale")
			stats["atomic_stale"]++
		case isFuture:
			mm = exact("atomic-classification", 0, 0, 0, 1, 0, "an atomic group too far in the future counts one future")
			stats["atomic_future"]++
		default:
			mm = exact("atomic-classification", 0, 0, 0, 0, 0, "refused with another error: nothing counted")
			stats["atomic_error"]++
		}
	case U+D > 1:
		nErr, nStale, nFut := errCounts(err)
		accepted = nErr < U
		switch {
		case d[cEmpty] != 0 || d[cStale] != int64(nStale) || d[cFut] != int64(nFut):
			mm = &mismatch{"multi-classification", fmt.Sprintf("%v returned %d errors (%d stale, %d future): stale/future/empty must grow by exactly that, observed %s", s, nErr, nStale, nFut, grew())}
		case d[cUpd]+d[cSupp] != int64(U-nErr+D) || d[cUpd] < int64(D) || d[cSupp] < 0:
			mm = &mismatch{"multi-classification", fmt.Sprintf("%v (%d updates, %d deletes) returned %d errors: updated+suppressed must grow by %d with every delete counted as updated, observed %s", s, U, D, nErr, U-nErr+D, grew())}
		case !cfg.EventDriven && d[cSupp] != 0:
			mm = &mismatch{"multi-classification", fmt.Sprintf("%v: suppression is disabled but suppressed grew: %s", s, grew())}
		}
		if mm == nil {
			// A part can only be suppressed if its value equals what was stored
			// before the call or what an earlier part of the call wrote.
			can := 0
			earlier := map[string]map[int64]bool{}
			for _, u := range s.Ups {
				k := model.Key(s.full(u))
				old, ok := m.snapPre[k]
				if ok && !old.Atomic && old.Kind == 'i' && old.I == u.V || earlier[k][u.V] {
					can++
				}
				if earlier[k] == nil {
					earlier[k] = map[int64]bool{}
				}
				earlier[k][u.V] = true
			}
			if d[cSupp] > int64(can) {
				mm = &mismatch{"suppressed-vs-updated", fmt.Sprintf("%v: suppressed grew by %d but only %d of its updates carry a value equal to the one cached", s, d[cSupp], can)}
			}
		}
		if mm == nil && (d[cAdd] < int64(added) || d[cDel] < int64(removed)) {
			mm = &mismatch{"added-deleted-delta", fmt.Sprintf("%v: %d leaves appeared and %d disappeared but d(added)=%d d(deleted)=%d", s, added, removed, d[cAdd], d[cDel])}
		}
		stats["multi_judged"]++
		stats["multi_parts"] += int64(U + D)
		stats["multi_part_errors"] += int64(nErr)
	case U == 1:
		k := model.Key(s.full(s.Ups[0]))
		old, existed := m.snapPre[k]
		switch {
		case err == nil:
			accepted = true
			// A stored atomic group is never "the same value" as a scalar update.
			same := existed && !old.Atomic && old.Kind == 'i' && old.I == s.Ups[0].V
			if existed && old.Atomic {
				stats["upd_onto_atomic"]++
			}
			switch {
			case same && cfg.EventDriven:
				mm = exact("suppressed-vs-updated", 0, 1, 0, 0, 0, "accepted with the value already cached: suppressed")
				stats["upd_suppressed"]++
			default:
				why := "accepted: updated"
				if same {
					why = "accepted with the cached value but suppression is disabled: updated"
				}
				mm = exact("suppressed-vs-updated", 1, 0, 0, 0, 0, why)
				if mm != nil && d[cUpd]+d[cSupp] != 1 {
					mm.sig = "single-update-classification"
				}
				if existed {
					stats["upd_updated_existing"]++
				} else {
					stats["upd_updated_new"]++
				}
			}
		case isStale:
			mm = exact("single-update-classification", 0, 0, 1, 0, 0, "returned ErrStale: stale")
			stats["upd_stale"]++
		case isFuture:
			mm = exact("single-update-classification", 0, 0, 0, 1, 0, "returned ErrFuture: future")
			stats["upd_future"]++
		default:
			mm = exact("single-update-classification", 0, 0, 0, 0, 0, "returned another error: nothing counted")
			stats["upd_error"]++
		}
	default: // single delete
		mm = exact("delete-classification", 1, 0, 0, 0, 0, "a delete counts as one update")
		if mm == nil && err != nil {
			stats["unjudged_delete_error"]++
		}
		if removed > 0 {
			stats["del_removed_some"]++
			stats["del_removed_leaves"] += int64(removed)
		} else {
			stats["del_removed_none"]++
		}
		if covered := len(m.snapPre) - len(post) - removed; covered > 0 {
			stats["del_removed_meta_leaves"] += int64(covered)
		}
	}
	if mm != nil {
		return mm
	}
	if U+D <= 1 || s.Atomic {
		if d[cAdd] != int64(added) || d[cDel] != int64(removed) {
			return &mismatch{"added-deleted-delta", fmt.Sprintf("%v: %d non-metadata leaves appeared and %d disappeared but d(added)=%d d(deleted)=%d", s, added, removed, d[cAdd], d[cDel])}
		}
	}
	if accepted && U > 0 && !isMetaPath(s.full(s.Ups[0])) {
		if !m.hasLatest || s.TS > m.latest {
			m.hasLatest, m.latest, m.latestSrc = true, s.TS, pathClass(s)
		}
	}
	return nil
}

func histTrial(r *vlib.Run, trial int, rng *rand.Rand) {
	n := r.N(40, 80)
	if rng.Intn(4) == 0 {
		n /= 2
	}
	cfg, steps := genHistory(rng, n)
	// Always end with a refresh so the exports are judged at least once.
	steps = append(steps, step{Kind: "meta", Adv: 1})
	stats := map[string]int64{}
	mm, at := runHistory(cfg, steps, stats)
	r.Eval(1)
	for k, v := range stats {
		r.Count(k, v)
	}
	strs := func(upto int) []string {
		out := make([]string, 0, upto+1)
		for i, s := range steps {
			if i > upto {
				break
			}
			out = append(out, s.String())
		}
		return out
	}
	if mm != nil {
		r.Violation(modeHist, trial, mm.sig, fmt.Sprintf("step %d of a history on %d target(s) (future threshold %dns, suppression %v): %s; history so far: %s", at, cfg.NT, cfg.F, cfg.EventDriven, mm.what, strings.Join(strs(at), " ")),
			map[string]interface{}{"config": cfg, "steps": steps[:at+1], "failed_at_step": at})
		return
	}
	if stats["upd_updated_new"] > 0 && stats["upd_suppressed"]+stats["upd_stale"] > 0 && stats["del_removed_some"] > 0 && stats["lifecycle_judged"] > 0 && stats["latest_asserted"] > 0 {
		r.Distinct(vlib.Hash(modeHist, fmt.Sprint(cfg), fmt.Sprint(steps)))
	}
	if cfg.Twin {
		r.Count("histories_with_twin", 1)
	}
	if r.WantSample() && trial%211 == 0 {
		r.Sample(map[string]interface{}{"mode": modeHist, "trial": trial, "config": cfg, "first_steps": strs(11), "len": len(steps)})
	}
}

// ---- latency oracle ---------------------------------------------------------------

type setCall struct {
	Name string
	V    int64
}

type recorder struct{ sets []setCall }

func (r *recorder) SetInt(name string, v int64) error {
	r.sets = append(r.sets, setCall{name, v})
	return nil
}

type statKey struct {
	W   int64
	Typ latency.StatType
}

// nameTable maps the exact metadata names of the configured windows.
func nameTable(ws []int64) (map[string]statKey, *mismatch) {
	t := map[string]statKey{}
	for _, w := range ws {
		for _, typ := range []latency.StatType{latency.Avg, latency.Max, latency.Min} {
			n := latency.MetadataName(time.Duration(w), typ)
			if o, ok := t[n]; ok {
				return nil, &mismatch{"latency-name-collision", fmt.Sprintf("windows %v/%v and %v/%v share the metadata name %q", time.Duration(o.W), o.Typ, time.Duration(w), typ, n)}
			}
			t[n] = statKey{w, typ}
		}
	}
	return t, nil
}

type interval struct {
	End     int64
	Samples []int64
}

// sampleSet is S for window w at refresh time tau: the samples of the refresh
// intervals that hold a sample and end after tau-w.
func sampleSet(ivs []interval, tau, w int64) (n int, lo, hi int64, hasZero bool) {
	for _, iv := range ivs {
		if iv.End <= tau-w {
			continue
		}
		for _, s := range iv.Samples {
			if n == 0 || s < lo {
				lo = s
			}
			if n == 0 || s > hi {
				hi = s
			}
			if s == 0 {
				hasZero = true
			}
			n++
		}
	}
	return
}

// judgeLatency judges one exported value. exactMinMax: S is known exactly (not
// a superset), so min/max must be the smallest/largest sample where the code's
// documented "0 means unset" convention cannot interfere.
func judgeLatency(prefix string, k statKey, v int64, ivs []interval, tau, p int64, exactMinMax bool, stats map[string]int64) *mismatch {
	n, lo, hi, hasZero := sampleSet(ivs, tau, k.W)
	w := time.Duration(k.W)
	if n == 0 {
		return &mismatch{prefix + "latency-set-with-empty-window", fmt.Sprintf("refresh at virtual time %d exported %s of window %v = %d although no latency was observed in that window", tau, k.Typ, w, v)}
	}
	if (v < lo-p || v > hi+p) && k.Typ == latency.Avg && exactMinMax {
		// Input class of the known finding D35: the scaled latencies of the window do
		// not add up in an int64 (the implementation keeps its running totals in one).
		sum := new(big.Int)
		for _, iv := range ivs {
			if iv.End <= tau-k.W {
				continue
			}
			for _, smp := range iv.Samples {
				sum.Add(sum, big.NewInt(smp/p))
			}
		}
		if !sum.IsInt64() {
			return &mismatch{prefix + "latency-out-of-bounds:avg:window-sum-exceeds-int64", fmt.Sprintf("refresh at virtual time %d exported avg of window %v = %d, outside [min S - p, max S + p] = [%d - %d, %d + %d]: the %d latencies observed in the window (scaled by the precision) add up to %s, which does not fit an int64", tau, w, v, lo, p, hi, p, n, sum.String())}
		}
	}
	if v < lo-p || v > hi+p {
		return &mismatch{prefix + "latency-out-of-bounds", fmt.Sprintf("refresh at virtual time %d exported %s of window %v = %d, outside [min S - p, max S + p] = [%d - %d, %d + %d] (%d samples in the window)", tau, k.Typ, w, v, lo, p, hi, p, n)}
	}
	stats[prefix+"lat_values_within_bounds_"+k.Typ.String()]++
	if !exactMinMax {
		return nil
	}
	switch {
	case k.Typ == latency.Max && hi > 0:
		if v != hi {
			return &mismatch{prefix + "latency-max-not-largest", fmt.Sprintf("refresh at virtual time %d exported max of window %v = %d but the largest latency observed in that window is %d (smallest %d, %d samples)", tau, w, v, hi, lo, n)}
		}
		stats[prefix+"lat_max_exact"]++
	case k.Typ == latency.Min && !hasZero:
		if v != lo {
			return &mismatch{prefix + "latency-min-not-smallest", fmt.Sprintf("refresh at virtual time %d exported min of window %v = %d but the smallest latency observed in that window is %d (largest %d, %d samples)", tau, w, v, lo, hi, n)}
		}
		stats[prefix+"lat_min_exact"]++
	}
	return nil
}

type lstep struct {
	Kind string `json:"k"` // s sample, r UpdateReset, last UpdateLast
	Adv  int64  `json:"adv,omitempty"`
	Lat  int64  `json:"lat,omitempty"`
}

type latCfg struct {
	Windows []int64 `json:"windows_ns"`
	P       int64   `json:"avg_precision_ns"`
	NilOpts bool    `json:"nil_options"`
}

func genWindows(rng *rand.Rand, u int64) []int64 {
	mults := []int64{1, 2, 5, 10, 25}
	if u == 25 && rng.Intn(2) == 0 {
		return []int64{25, 125} // names where one is a suffix of the other
	}
	n := 1 + rng.Intn(3)
	seen := map[int64]bool{}
	var ws []int64
	for len(ws) < n {
		w := u * mults[rng.Intn(len(mults))]
		if !seen[w] {
			seen[w] = true
			ws = append(ws, w)
		}
	}
	return ws
}

func genLatSchedule(rng *rand.Rand) (latCfg, []lstep) {
	u := []int64{1, 5, 25, 1000, 2000000000}[rng.Intn(5)]
	cfg := latCfg{Windows: genWindows(rng, u)}
	cfg.P = []int64{0, 0, 1, 7, 50, 1000}[rng.Intn(6)]
	cfg.NilOpts = cfg.P == 0 && rng.Intn(2) == 0
	base := []int64{0, 3, 100, 10000, 1000000000}[rng.Intn(5)]
	if rng.Intn(10) == 0 {
		// A device whose clock was never set stamps its updates near the epoch: every
		// latency is about 56 years (1.7e18 ns), and six of them no longer add up in
		// an int64.
		base = 1_700_000_000_000_000_000
	}
	spread := []int64{1, 10, 1000, 100000}[rng.Intn(4)]
	nsteps := 20 + rng.Intn(61)
	steps := make([]lstep, 0, nsteps+1)
	for i := 0; i < nsteps; i++ {
		s := lstep{}
		switch x := rng.Intn(10); {
		case x < 2:
		case x < 8:
			s.Adv = rng.Int63n(u + 1)
		case x < 9:
			s.Adv = rng.Int63n(3*u + 1)
		default:
			s.Adv = rng.Int63n(30*u + 1)
		}
		if rng.Intn(100) < 62 {
			s.Kind = "s"
			s.Lat = base + rng.Int63n(spread)
			switch x := rng.Intn(40); {
			case x == 0:
				s.Lat = 0
			case x == 1:
				s.Lat = -s.Lat
			case x == 2:
				s.Lat = -1 - rng.Int63n(5)
			case x == 3:
				s.Lat = 1 + rng.Int63n(5)
			}
		} else {
			s.Kind = "r"
		}
		steps = append(steps, s)
	}
	if rng.Intn(3) == 0 {
		steps = append(steps, lstep{Kind: "last", Adv: rng.Int63n(u + 1)})
	} else {
		steps = append(steps, lstep{Kind: "r", Adv: rng.Int63n(u + 1)})
	}
	return cfg, steps
}

func latTrial(r *vlib.Run, trial int, rng *rand.Rand) {
	cfg, steps := genLatSchedule(rng)
	stats := map[string]int64{}
	mm, at := runLat(cfg, steps, stats)
	r.Eval(1)
	for k, v := range stats {
		r.Count(k, v)
	}
	if mm != nil {
		r.Violation(modeLat, trial, mm.sig, fmt.Sprintf("step %d of a latency schedule (windows %v ns, precision %d ns): %s", at, cfg.Windows, cfg.P, mm.what),
			map[string]interface{}{"config": cfg, "steps": steps[:at+1], "failed_at_step": at})
		return
	}
	if stats["lat_values_judged"] > 0 {
		r.Distinct(vlib.Hash(modeLat, fmt.Sprint(cfg), fmt.Sprint(steps)))
	}
	if r.WantSample() && trial%173 == 0 {
		r.Sample(map[string]interface{}{"mode": modeLat, "trial": trial, "config": cfg, "steps": len(steps), "values_judged": stats["lat_values_judged"]})
	}
}

func runLat(cfg latCfg, steps []lstep, stats map[string]int64) (mm *mismatch, at int) {
	defer func() {
		if x := recover(); x != nil {
			mm = &mismatch{"panic:latency", fmt.Sprintf("latency panicked: %v", x)}
		}
	}()
	names, mm := nameTable(cfg.Windows)
	if mm != nil {
		return mm, 0
	}
	var ws []time.Duration
	var maxW int64
	for _, w := range cfg.Windows {
		ws = append(ws, time.Duration(w))
		if w > maxW {
			maxW = w
		}
	}
	var opts *latency.Options
	if !cfg.NilOpts {
		opts = &latency.Options{AvgPrecision: time.Duration(cfg.P)}
	}
	p := cfg.P
	if p < 1 {
		p = 1
	}
	l := latency.New(ws, opts)
	latClk = 1000000
	rec := &recorder{}
	var ivs []interval
	var cur []int64
	for i, s := range steps {
		at = i
		latClk += s.Adv
		if s.Kind == "s" {
			l.Compute(time.Unix(0, latClk-s.Lat))
			cur = append(cur, s.Lat)
			stats["lat_samples"]++
			continue
		}
		rec.sets = rec.sets[:0]
		if s.Kind == "last" {
			l.UpdateLast(rec)
		} else {
			l.UpdateReset(rec)
		}
		tau := latClk
		if len(cur) > 0 {
			ivs = append(ivs, interval{End: tau, Samples: cur})
			cur = nil
		}
		for len(ivs) > 0 && ivs[0].End <= tau-maxW {
			ivs = ivs[1:]
		}
		stats["lat_refreshes"]++
		if len(rec.sets) == 0 {
			stats["lat_refreshes_exporting_nothing"]++
		}
		for _, sc := range rec.sets {
			k, ok := names[sc.Name]
			if !ok {
				return &mismatch{"latency-unknown-name", fmt.Sprintf("refresh set %q=%d, which is not the metadata name of any configured window statistic", sc.Name, sc.V)}, i
			}
			if mm := judgeLatency("", k, sc.V, ivs, tau, p, true, stats); mm != nil {
				return mm, i
			}
			stats["lat_values_judged"]++
		}
	}
	return nil, -1
}

// ---- latency through the cache -------------------------------------------------------

type cstep struct {
	Kind string `json:"k"` // upd sync reset meta
	Adv  int64  `json:"adv,omitempty"`
	Leaf int    `json:"leaf,omitempty"`
	V    int64  `json:"v,omitempty"`
	Lat  int64  `json:"lat,omitempty"`
}

type clatCfg struct {
	Period  int64   `json:"period_ns"`
	Windows []int64 `json:"windows_ns"`
	P       int64   `json:"avg_precision_ns"`
}

var clatLeaves = [][]string{{"a", "b"}, {"a", "c"}, {"d"}, {"e", "f", "g"}}

const clockSkew = 700000 // cache.Now lags latency.Now: a metadata update leaking into the statistics shows

func cacheLatTrial(r *vlib.Run, trial int, rng *rand.Rand) {
	u := []int64{2, 10, 100}[rng.Intn(3)]
	cfg := clatCfg{Period: u, Windows: genWindows(rng, u), P: []int64{0, 1, 7, 50}[rng.Intn(4)]}
	if len(cfg.Windows) > 2 {
		cfg.Windows = cfg.Windows[:2]
	}
	n := 30 + rng.Intn(51)
	steps := []cstep{}
	syncAt := rng.Intn(6)
	var ctr int64
	for i := 0; i < n; i++ {
		s := cstep{Adv: rng.Int63n(u + 1)}
		if rng.Intn(12) == 0 {
			s.Adv = rng.Int63n(8*u + 1)
		}
		switch x := rng.Intn(100); {
		case i == syncAt || x < 3:
			s.Kind = "sync"
		case x < 70:
			s.Kind = "upd"
			s.Leaf = rng.Intn(len(clatLeaves))
			ctr++
			s.V = ctr
			if rng.Intn(7) == 0 {
				s.V = 0 // repeated value: suppressed
			}
			s.Lat = 1 + rng.Int63n(3*u)
			if rng.Intn(10) == 0 {
				s.Lat = 1000 + rng.Int63n(4000)
			}
		case x < 97:
			s.Kind = "meta"
		default:
			s.Kind = "reset"
		}
		steps = append(steps, s)
	}
	steps = append(steps, cstep{Kind: "meta", Adv: 1})
	stats := map[string]int64{}
	mm, at := runCacheLat(cfg, steps, stats)
	r.Eval(1)
	for k, v := range stats {
		r.Count(k, v)
	}
	if mm != nil {
		r.Violation(modeCacheLat, trial, mm.sig, fmt.Sprintf("step %d of a latency history through the cache (period %d ns, windows %v ns, precision %d ns): %s", at, cfg.Period, cfg.Windows, cfg.P, mm.what),
			map[string]interface{}{"config": cfg, "steps": steps[:at+1], "failed_at_step": at})
		return
	}
	if stats["cache_lat_values_judged"] > 0 {
		r.Distinct(vlib.Hash(modeCacheLat, fmt.Sprint(cfg), fmt.Sprint(steps)))
	}
	if r.WantSample() && trial%157 == 0 {
		r.Sample(map[string]interface{}{"mode": modeCacheLat, "trial": trial, "config": cfg, "steps": len(steps), "values_judged": stats["cache_lat_values_judged"]})
	}
}

func runCacheLat(cfg clatCfg, steps []cstep, stats map[string]int64) (mm *mismatch, at int) {
	defer func() {
		if x := recover(); x != nil {
			mm = &mismatch{"panic:cache-latency", fmt.Sprintf("cache panicked: %v", x)}
		}
	}()
	names, mm := nameTable(cfg.Windows)
	if mm != nil {
		return mm, 0
	}
	var wstr []string
	var maxW int64
	for _, w := range cfg.Windows {
		wstr = append(wstr, time.Duration(w).String())
		if w > maxW {
			maxW = w
		}
	}
	wopt, err := cache.WithLatencyWindows(wstr, time.Duration(cfg.Period))
	if err != nil || wopt == nil {
		return &mismatch{"latency-windows-refused", fmt.Sprintf("WithLatencyWindows(%v, %v) = %v", wstr, time.Duration(cfg.Period), err)}, 0
	}
	const tgt = "dev"
	c := cache.New([]string{tgt}, wopt, cache.WithAvgLatencyPrecision(time.Duration(cfg.P)))
	md := c.Metadata()[tgt]
	p := cfg.P
	if p < 1 {
		p = 1
	}
	latClk = 2000000
	cacheClk = latClk - clockSkew
	synced := false
	var ivs []interval
	var cur []int64
	read := func() map[string]int64 {
		out := map[string]int64{}
		for n := range names {
			if v, err := md.GetInt(n); err == nil {
				out[n] = v
			}
		}
		return out
	}
	for i, s := range steps {
		at = i
		latClk += s.Adv
		cacheClk += s.Adv
		switch s.Kind {
		case "sync":
			c.Sync(tgt)
			synced = true
		case "upd":
			n := gen.Update(tgt, "", latClk-s.Lat, nil, gen.Path(false, clatLeaves[s.Leaf]...), gen.I(s.V))
			c.GnmiUpdate(n)
			if synced {
				// Every update submitted after Sync may have been observed (a
				// superset of what the cache samples: it skips stale and
				// suppressed ones).
				cur = append(cur, s.Lat)
				stats["cache_lat_candidate_samples"]++
			} else {
				stats["cache_lat_updates_before_sync"]++
			}
		case "meta", "reset":
			before := read()
			if s.Kind == "reset" {
				c.Reset(tgt)
				before = map[string]int64{} // Reset clears the metadata first: whatever is set afterwards was set by its refresh
			} else {
				c.UpdateMetadata()
			}
			tau := latClk
			if len(cur) > 0 {
				ivs = append(ivs, interval{End: tau, Samples: cur})
				cur = nil
			}
			for len(ivs) > 0 && ivs[0].End <= tau-maxW {
				ivs = ivs[1:]
			}
			after := read()
			stats["cache_lat_refreshes"]++
			for n, v := range after {
				if old, ok := before[n]; ok && old == v {
					continue // possibly left over from an earlier refresh: not judged
				}
				if mm := judgeLatency("cache-", names[n], v, ivs, tau, p, false, stats); mm != nil {
					return mm, i
				}
				stats["cache_lat_values_judged"]++
			}
			if s.Kind == "meta" {
				snp, qerr := takeSnap(c, tgt)
				if qerr != nil {
					return &mismatch{"query-failed", qerr.Error()}, i
				}
				for n, v := range after {
					k := names[n]
					lp := metadata.LatencyPath(time.Duration(k.W), k.Typ)
					l, ok := snp[model.Key(lp)]
					if !ok || l.Kind != 'i' || l.I != v {
						return &mismatch{"meta-leaf-ne-metadata", fmt.Sprintf("after UpdateMetadata Cache.Metadata() has %s=%d but the leaf %s holds %+v (present=%v)", n, v, strings.Join(lp, "/"), l, ok)}, i
					}
					stats["cache_lat_leaf_compared"]++
				}
			}
			if s.Kind == "reset" {
				synced = false
			}
		}
	}
	return nil, -1
}

// ---- concurrent mode ------------------------------------------------------------------

type concResult struct {
	mu   sync.Mutex
	mm   *mismatch
	pan  string
	ops  int64
	togg int64
	chk  int64
}

func (cr *concResult) fail(m *mismatch) {
	cr.mu.Lock()
	if cr.mm == nil {
		cr.mm = m
	}
	cr.mu.Unlock()
}

var concPool = [][]string{{"a", "b"}, {"a", "c"}, {"a", "d", "e"}, {"b"}, {"c", "x"}, {"c", "y"}, {"oc", "i", "j"}, {"oc", "i", "k"}}

// concStep draws the next stream operation of a target.
func concStep(rng *rand.Rand, clk *int64, future bool) step {
	*clk += int64(1 + rng.Intn(4))
	s := step{TS: *clk - int64(rng.Intn(6))}
	if future && rng.Intn(25) == 0 {
		s.TS = *clk + 5000 + int64(rng.Intn(100)) // beyond the threshold relative to the latest timestamp
	}
	val := func() int64 { return int64(rng.Intn(3)) }
	switch x := rng.Intn(100); {
	case x < 58:
		s.Kind = "upd"
		fp := concPool[rng.Intn(len(concPool))]
		o, pre, suf := splitPath(rng, fp)
		s.Origin, s.Pre, s.PreDep = o, cp(pre), rng.Intn(2) == 0
		s.Ups = []part{{P: cp(suf), Dep: rng.Intn(2) == 0, V: val()}}
	case x < 74:
		s.Kind = "del"
		s.TS = *clk + 1
		var fp []string
		switch y := rng.Intn(10); {
		case y < 4:
			fp = cp(concPool[rng.Intn(len(concPool))])
		case y < 6:
			fp = cp(concPool[rng.Intn(len(concPool))][:1])
		case y < 7:
			fp = []string{"*"}
		case y < 8:
			fp = []string{}
			s.TS = 1 << 62 // whole target including every metadata leaf: the refresh has to rebuild them
		case y < 9:
			fp = []string{metadata.Root}
			s.TS = 1 << 62
		default:
			fp = []string{"a", "*"}
		}
		o, pre, suf := splitPath(rng, fp)
		s.Origin, s.Pre, s.PreDep = o, cp(pre), rng.Intn(2) == 0
		s.Dels = []part{{P: cp(suf), Dep: rng.Intn(2) == 0}}
	case x < 86:
		s.Kind = "multi"
		for j, k := 0, 1+rng.Intn(3); j < k; j++ {
			s.Ups = append(s.Ups, part{P: cp(concPool[rng.Intn(len(concPool))]), V: val()})
		}
		for j, k := 0, 1+rng.Intn(2); j < k; j++ {
			s.Dels = append(s.Dels, part{P: cp(concPool[rng.Intn(len(concPool))])})
		}
	case x < 94:
		s.Kind = "atomic"
		s.Atomic = true
		s.Pre = []string{"at", dataNames[rng.Intn(3)]}
		for j, k := 0, 1+rng.Intn(3); j < k; j++ {
			s.Ups = append(s.Ups, part{P: []string{"m", dataNames[rng.Intn(3)]}, V: val()})
		}
	default:
		s.Kind = "empty"
	}
	return s
}

func concTrial(r *vlib.Run, mode string, rep int, rng *rand.Rand) {
	r.SaveCurrent(map[string]interface{}{"mode": mode, "trial": rep})
	nt := 2 + rng.Intn(2)
	nops := r.N(3000, 6000)
	if mode == modeConc {
		nops = r.N(400, 800)
	}
	future := rng.Intn(2) == 0
	names := make([]string, nt)
	for i := range names {
		names[i] = tname(i)
	}
	wopt, err := cache.WithLatencyWindows([]string{"1us", "1ms"}, time.Microsecond)
	if err != nil {
		r.Inconclusive("WithLatencyWindows refused the concurrent configuration: " + err.Error())
		return
	}
	opts := []cache.Option{wopt}
	if rng.Intn(2) == 0 {
		opts = append(opts, cache.WithAvgLatencyPrecision(time.Microsecond))
	}
	if future {
		opts = append(opts, cache.WithFutureThreshold(time.Microsecond))
	}
	if rng.Intn(4) == 0 {
		opts = append(opts, cache.DisableEventDrivenEmulation())
	}
	c := cache.New(names, opts...) // registers the latency metadata before any goroutine starts
	var feed int64
	c.SetClient(func(*ctree.Leaf) { atomic.AddInt64(&feed, 1) })
	res := &concResult{}
	var stop int32
	var refreshes, sizes int64
	seeds := make([]int64, nt)
	for i := range seeds {
		seeds[i] = rng.Int63()
	}
	// Timestamps far ahead of the wall clock when the future rule is on, so the
	// rule is exercised without the harness reading a clock.
	base := int64(1000)
	if future {
		base = 4102444800000000000
	}
	check := func(name string, ctx func() string) bool {
		md := c.Metadata()[name]
		ca, cerr := readCnt(md)
		if cerr != nil {
			res.fail(&mismatch{"counter-unreadable", fmt.Sprintf("target %s: %v (%s)", name, cerr, ctx())})
			return false
		}
		sn, qerr := takeSnap(c, name)
		if qerr != nil {
			res.fail(&mismatch{"query-failed", fmt.Sprintf("target %s: %v (%s)", name, qerr, ctx())})
			return false
		}
		if mm := conservation(name, ca, sn); mm != nil {
			mm.sig = "concurrent-" + mm.sig
			mm.what = fmt.Sprintf("%s; only this target's stream goroutine changes its data leaves, the refresh goroutines were running (%s)", mm.what, ctx())
			res.fail(mm)
			return false
		}
		atomic.AddInt64(&res.chk, 1)
		return true
	}
	var upd, ref sync.WaitGroup
	for ti := range names {
		ti := ti
		upd.Add(1)
		go func() {
			defer upd.Done()
			defer func() {
				if x := recover(); x != nil {
					res.mu.Lock()
					res.pan = fmt.Sprint(x)
					res.mu.Unlock()
				}
			}()
			g := rand.New(rand.NewSource(seeds[ti]))
			name := names[ti]
			clk := base
			recent := make([]string, 0, 8)
			nextToggle := 2 + g.Intn(6)
			for i := 0; i < nops; i++ {
				var desc string
				if i == nextToggle {
					nextToggle = i + 3 + g.Intn(6)
					switch x := g.Intn(20); {
					case x < 7:
						c.Sync(name)
						desc = "Sync"
					case x < 12:
						c.Reset(name)
						desc = "Reset"
					case x < 16:
						c.Connect(name)
						desc = "Connect"
					default:
						c.ConnectError(name, errors.New("refused"))
						desc = "ConnectError"
					}
					atomic.AddInt64(&res.togg, 1)
				} else {
					s := concStep(g, &clk, future)
					s.Tgt = ti
					c.GnmiUpdate(s.build(name))
					desc = s.String()
				}
				atomic.AddInt64(&res.ops, 1)
				if len(recent) == 8 {
					recent = recent[1:]
				}
				recent = append(recent, desc)
				if i%3 == 0 {
					if !check(name, func() string {
						return fmt.Sprintf("after operation %d of its stream; last operations: %s", i, strings.Join(recent, " "))
					}) {
						return
					}
				}
			}
		}()
	}
	for _, f := range []func(){
		func() { c.UpdateMetadata(); atomic.AddInt64(&refreshes, 1) },
		func() { c.UpdateSize(); atomic.AddInt64(&sizes, 1) },
	} {
		f := f
		ref.Add(1)
		go func() {
			defer ref.Done()
			defer func() {
				if x := recover(); x != nil {
					res.mu.Lock()
					res.pan = fmt.Sprint(x)
					res.mu.Unlock()
				}
			}()
			for atomic.LoadInt32(&stop) == 0 {
				f()
				runtime.Gosched()
			}
		}()
	}
	done := make(chan struct{})
	go func() { upd.Wait(); atomic.StoreInt32(&stop, 1); ref.Wait(); close(done) }()
	select {
	case <-done:
	case <-time.After(10 * time.Minute): // watchdog only
		atomic.StoreInt32(&stop, 1)
		r.Inconclusive("concurrent trial did not finish within the watchdog")
		return
	}
	r.Eval(1)
	r.Count(mode+"_stream_ops", atomic.LoadInt64(&res.ops))
	r.Count(mode+"_lifecycle_toggles", atomic.LoadInt64(&res.togg))
	r.Count(mode+"_update_metadata_calls_concurrent", atomic.LoadInt64(&refreshes))
	r.Count(mode+"_update_size_calls_concurrent", atomic.LoadInt64(&sizes))
	r.Count(mode+"_feed_callbacks", atomic.LoadInt64(&feed))
	res.mu.Lock()
	mm, pan := res.mm, res.pan
	res.mu.Unlock()
	if pan != "" {
		r.Violation(mode, rep, "panic:concurrent", "cache panicked under the concurrent workload: "+pan, nil)
		return
	}
	if mm == nil {
		// Quiescence.
		c.UpdateMetadata()
		c.UpdateSize()
		for _, name := range names {
			if check(name, func() string { return "at quiescence" }) {
				r.Count(mode+"_quiescent_conservation_checks", 1)
			}
		}
		res.mu.Lock()
		mm = res.mm
		res.mu.Unlock()
	}
	r.Count(mode+"_inflight_conservation_checks", atomic.LoadInt64(&res.chk))
	if mm != nil {
		r.Violation(mode, rep, mm.sig, mm.what, map[string]interface{}{"targets": nt, "ops_per_stream": nops, "future_rule": future})
		return
	}
	if atomic.LoadInt64(&refreshes) > 0 && atomic.LoadInt64(&res.togg) > 0 {
		r.Distinct(vlib.Hash(mode, rep, r.Seed))
	}
}

// ---- concurrent latency oracle ----------------------------------------------------------
//
// Under concurrency the sample set of a window is not known, but it can be
// made irrelevant: the clock (cache.Now = latency.Now = an atomic counter) is
// advanced ONLY by the single update stream, which stamps every update exactly
// L before the value it just set. Every latency the code computes is then
// exactly L (or one of {L1, L2}), whatever the interleaving of Compute (update
// stream) with UpdateReset (refresh goroutine, and Reset on the stream), so
// every value a refresh exports for any window must lie in [L1 - p, L2 + p],
// and min/max must be one of the samples.

type concLatCfg struct {
	Through bool    `json:"through_cache"`
	L1      int64   `json:"latency1_ns"`
	L2      int64   `json:"latency2_ns"`
	P       int64   `json:"avg_precision_ns"`
	Period  int64   `json:"period_ns"`
	Windows []int64 `json:"windows_ns"`
	Samples int     `json:"samples"`
}

type concLatJudge struct {
	cfg    concLatCfg
	names  map[string]statKey
	p      int64
	judged int64
	bad    *mismatch
}

func (j *concLatJudge) judge(name string, v int64, how string) {
	k, ok := j.names[name]
	if !ok {
		if j.bad == nil {
			j.bad = &mismatch{"latency-unknown-name", fmt.Sprintf("refresh set %q=%d, which is not the metadata name of any configured window statistic", name, v)}
		}
		return
	}
	j.judged++
	if j.bad != nil {
		return
	}
	c := j.cfg
	sampleStr := fmt.Sprintf("every latency observed was exactly %d ns", c.L1)
	if c.L2 != c.L1 {
		sampleStr = fmt.Sprintf("every latency observed was exactly %d or %d ns", c.L1, c.L2)
	}
	if v < c.L1-j.p || v > c.L2+j.p {
		j.bad = &mismatch{"latency-concurrent-out-of-bounds", fmt.Sprintf("%s exported %s of window %v = %d ns although %s (precision %d ns), while the update stream and the refresh ran concurrently", how, k.Typ, time.Duration(k.W), v, sampleStr, j.p)}
		return
	}
	if k.Typ != latency.Avg && v != c.L1 && v != c.L2 {
		j.bad = &mismatch{"latency-concurrent-minmax-not-a-sample", fmt.Sprintf("%s exported %s of window %v = %d ns although %s", how, k.Typ, time.Duration(k.W), v, sampleStr)}
	}
}

// SetInt makes the judge a recording latency.Metadata (direct variant; only the
// refresh goroutine calls UpdateReset there).
func (j *concLatJudge) SetInt(name string, v int64) error {
	j.judge(name, v, "UpdateReset")
	return nil
}

func latConcTrial(r *vlib.Run, mode string, trial int, rng *rand.Rand) {
	cfg := concLatCfg{Through: trial%2 == 1}
	cfg.L1 = []int64{100000007, 250000000, 3000000000, 10000000000}[rng.Intn(4)]
	cfg.L2 = cfg.L1
	if rng.Intn(3) == 0 {
		cfg.L2 = cfg.L1 + 1 + rng.Int63n(3)
	}
	cfg.P = []int64{0, 1, 7, 1000}[rng.Intn(4)]
	cfg.Period = []int64{10, 50, 200}[rng.Intn(3)]
	cfg.Windows = []int64{cfg.Period, cfg.Period * []int64{2, 5, 10, 25}[rng.Intn(4)]}
	if rng.Intn(3) == 0 {
		cfg.Windows = cfg.Windows[:1]
	}
	cfg.Samples = r.N(150000, 300000)
	if cfg.Through {
		cfg.Samples = r.N(40000, 80000)
	}
	if mode == modeLatRace {
		cfg.Samples /= 2
	}
	delta := cfg.L2 - cfg.L1 + 1 + rng.Int63n(3) // update timestamps strictly increase
	resetEvery := 400 + rng.Intn(3000)
	r.SaveCurrent(map[string]interface{}{"mode": mode, "trial": trial, "config": cfg})

	names, mm := nameTable(cfg.Windows)
	if mm != nil {
		r.Violation(mode, trial, mm.sig, mm.what, cfg)
		return
	}
	j := &concLatJudge{cfg: cfg, names: names, p: cfg.P}
	if j.p < 1 {
		j.p = 1
	}
	atomic.StoreInt64(&aclk, 1000000000000)
	useAtomicClocks()
	defer useRealClocks() // every goroutine of the trial has been joined by then

	var stop int32
	var refreshes, samples int64
	var pan atomic.Value
	guard := func(f func()) func() {
		return func() {
			defer func() {
				if x := recover(); x != nil {
					pan.Store(fmt.Sprint(x))
				}
			}()
			f()
		}
	}
	lat := func(i int) int64 {
		if i&1 == 1 {
			return cfg.L2
		}
		return cfg.L1
	}
	var stream, refresh func()
	var final func()
	if !cfg.Through {
		var ws []time.Duration
		for _, w := range cfg.Windows {
			ws = append(ws, time.Duration(w))
		}
		l := latency.New(ws, &latency.Options{AvgPrecision: time.Duration(cfg.P)})
		stream = func() {
			for i := 0; i < cfg.Samples; i++ {
				now := atomic.AddInt64(&aclk, delta)
				l.Compute(time.Unix(0, now-lat(i)))
			}
			atomic.AddInt64(&samples, int64(cfg.Samples))
		}
		refresh = func() {
			for atomic.LoadInt32(&stop) == 0 {
				l.UpdateReset(j)
				refreshes++
			}
		}
		final = func() { l.UpdateLast(j) }
	} else {
		var wstr []string
		for _, w := range cfg.Windows {
			wstr = append(wstr, time.Duration(w).String())
		}
		wopt, err := cache.WithLatencyWindows(wstr, time.Duration(cfg.Period))
		if err != nil || wopt == nil {
			r.Inconclusive(fmt.Sprintf("WithLatencyWindows(%v) refused: %v", wstr, err))
			return
		}
		const tgt = "dev"
		c := cache.New([]string{tgt}, wopt, cache.WithAvgLatencyPrecision(time.Duration(cfg.P))) // registers the names before any goroutine starts
		md := c.Metadata()[tgt]
		c.Sync(tgt)
		stream = func() {
			n := 0
			for i := 0; i < cfg.Samples; i++ {
				now := atomic.AddInt64(&aclk, delta)
				c.GnmiUpdate(gen.Update(tgt, "", now-lat(i), nil, gen.Path(false, clatLeaves[i%len(clatLeaves)]...), gen.I(int64(i))))
				n++
				if i%resetEvery == resetEvery-1 {
					// Reset refreshes the statistics on the stream goroutine.
					c.Reset(tgt)
					c.Sync(tgt)
				}
			}
			atomic.AddInt64(&samples, int64(n))
		}
		observe := func(how string) {
			for name := range names {
				if v, err := md.GetInt(name); err == nil {
					j.judge(name, v, how)
				}
			}
		}
		refresh = func() {
			for atomic.LoadInt32(&stop) == 0 {
				c.UpdateMetadata()
				refreshes++
				observe("Cache.Metadata() after a concurrent UpdateMetadata")
			}
		}
		final = func() { c.UpdateMetadata(); observe("Cache.Metadata() after the final UpdateMetadata") }
	}
	var sw, rw sync.WaitGroup
	sw.Add(1)
	rw.Add(1)
	go func() { defer sw.Done(); guard(stream)() }()
	go func() { defer rw.Done(); guard(refresh)() }()
	done := make(chan struct{})
	go func() { sw.Wait(); atomic.StoreInt32(&stop, 1); rw.Wait(); close(done) }()
	select {
	case <-done:
	case <-time.After(10 * time.Minute): // watchdog only
		atomic.StoreInt32(&stop, 1)
		r.Inconclusive("concurrent latency trial did not finish within the watchdog")
		return
	}
	if x := pan.Load(); x != nil {
		r.Violation(mode, trial, "panic:concurrent-latency", "panic under the concurrent latency workload: "+x.(string), cfg)
		return
	}
	guard(final)()
	r.Eval(1)
	variant := "_direct"
	if cfg.Through {
		variant = "_through_cache"
	}
	r.Count(mode+"_samples", atomic.LoadInt64(&samples))
	r.Count(mode+"_refreshes_concurrent", refreshes)
	r.Count(mode+"_values_judged", j.judged)
	r.Count(mode+variant+"_values_judged", j.judged)
	r.Count(mode+variant+"_trials", 1)
	if j.bad != nil {
		r.Count(mode+variant+"_trials_violating", 1)
		r.Violation(mode, trial, j.bad.sig, j.bad.what, map[string]interface{}{"config": cfg, "refreshes": refreshes})
		return
	}
	if j.judged > 0 && refreshes > 1 {
		r.Distinct(vlib.Hash(mode, trial, r.Seed))
	}
}

// ---- driver ---------------------------------------------------------------------------

func body(r *vlib.Run) {
	if r.Race {
		// Clocks are left alone: they are unsynchronised package variables.
		r.ForTrials(modeRace, r.N(12, 40), func(rep int, rng *rand.Rand) { concTrial(r, modeRace, rep, rng) })
		// The atomic clock of these trials is installed while no goroutine runs.
		r.ForTrials(modeLatRace, r.N(6, 20), func(trial int, rng *rand.Rand) { latConcTrial(r, modeLatRace, trial, rng) })
		return
	}
	useVirtualClocks()
	r.ForTrials(modeHist, r.N(20000, 300000), func(trial int, rng *rand.Rand) { histTrial(r, trial, rng) })
	r.ForTrials(modeLat, r.N(4000, 60000), func(trial int, rng *rand.Rand) { latTrial(r, trial, rng) })
	r.ForTrials(modeCacheLat, r.N(3000, 40000), func(trial int, rng *rand.Rand) { cacheLatTrial(r, trial, rng) })
	useRealClocks()
	r.ForTrials(modeConc, r.N(96, 960), func(rep int, rng *rand.Rand) { concTrial(r, modeConc, rep, rng) })
	r.ForTrials(modeLatConc, r.N(32, 320), func(trial int, rng *rand.Rand) { latConcTrial(r, modeLatConc, trial, rng) })
	// Replay of a violation found by a race worker.
	r.ForTrials(modeRace, 0, func(rep int, rng *rand.Rand) { concTrial(r, modeRace, rep, rng) })
	r.ForTrials(modeLatRace, 0, func(trial int, rng *rand.Rand) { latConcTrial(r, modeLatRace, trial, rng) })
}

// Branches the oracle must have exercised for "held" to mean anything.
var mustSee = []string{
	"upd_updated_new", "upd_updated_existing", "upd_suppressed", "upd_stale", "upd_future", "upd_error",
	"del_removed_some", "del_removed_meta_leaves", "atomic_accepted", "atomic_stale", "atomic_error", "empty_judged",
	"multi_judged", "multi_equal_to_sum_of_parts", "reset_judged", "connect_after_connecterror",
	"latest_asserted_from_elem_encoding", "latest_asserted_from_element_encoding", "latest_asserted_from_prefix_only",
	"meta_leaf_compared", "lat_values_judged", "lat_min_exact", "lat_max_exact", "cache_lat_values_judged",
	"conc_quiescent_conservation_checks", "race_quiescent_conservation_checks", "race_update_metadata_calls_concurrent",
	"latconc_direct_values_judged", "latconc_through_cache_values_judged", "latrace_direct_values_judged", "latrace_through_cache_values_judged",
}

func postMerge(tier string, counters map[string]int64) []string {
	var out []string
	for _, k := range mustSee {
		if counters[k] == 0 {
			out = append(out, "oracle branch never exercised: "+k)
		}
	}
	sort.Strings(out)
	return out
}

func main() {
	vlib.Main(&vlib.Spec{
		ID: "C15",
		Rule: "hist: seeded histories of 20-80 calls on 1-2 targets of a real cache.Cache under a virtual cache.Now (single updates in both path encodings, with elements in the prefix, prefix-only and origin-carried paths; exact/subtree/wildcard/whole-target deletes incl. ones covering meta/ leaves; multi-update, atomic and empty notifications; equal/older/newer/far-future timestamps with future threshold 0/5/25 ns; Sync, Connect, ConnectError, Reset, UpdateMetadata, UpdateSize), judged after EVERY step: targetLeaves = non-metadata leaves returned by Cache.Query = added - deleted; per-call classification on the counter deltas; latestTimestamp after UpdateMetadata; meta/ leaves = Cache.Metadata(); in half of the histories a twin cache receives each multi-update notification as its parts and must agree. " +
			"lat: seeded schedules of 20-80 Compute / UpdateReset calls on a real latency.Latency (1-3 windows, precision 1-1000 ns, zero and negative latencies, irregular refresh times) with a recording latency.Metadata; cachelat: the same bound through cache.WithLatencyWindows/WithAvgLatencyPrecision after Sync. " +
			"race/conc: one update goroutine per target (2-3) toggling Sync/Reset/Connect/ConnectError every 3-8 updates + UpdateMetadata + UpdateSize loops, under the race detector (race workers) and without. " +
			"latconc/latrace: concurrent latency oracle — cache.Now/latency.Now read an atomic counter advanced only by the single update stream, every sample is stamped exactly L (or one of {L1,L2}) before it, so every min/avg/max any refresh exports must lie in [L1-p, L2+p] whatever the interleaving of Compute with UpdateReset; half of the trials drive a latency.Latency directly (Compute loop vs UpdateReset loop with a judging latency.Metadata), half go through the cache (synced target, GnmiUpdate stream with periodic Reset+Sync vs UpdateMetadata loop, values read from Cache.Metadata() after each refresh); with and without the race detector. " +
			"A history counts as distinct non-trivial when the oracle judged in it at least one new leaf, one suppressed or stale update, one delete that removed a leaf, one lifecycle call and one latest-timestamp export; a latency schedule when at least one exported value was judged; a concurrent trial when refreshes and toggles overlapped the streams. Hashed by configuration and call list.",
		Assumptions: []string{
			"a leaf is 'metadata' iff the first element of its index path (origin, prefix elements, path elements) is \"meta\"; the update stream writes below meta/ only at names that are not registered metadata values (meta/x, meta/y/z) and deletes below meta/ only those, meta/connectError, meta, meta/* or everything — registered counters are driven through the lifecycle API only",
			"'accepted' = the call returned no error for that update (this includes suppressed updates); a multi-update notification is all-data or all-metadata (the cache decides once per call from the first update whether the call carries target timestamps)",
			"'suppressed' = accepted, a non-atomic leaf with an equal value was cached before the call and event-driven emulation is on (a stored atomic group never equals a scalar update)",
			"Reset post-condition: all eight counters are zero (counters count since the last Reset)",
			"latency: S for window w at refresh time tau = samples of the refresh intervals (call order) that hold a sample and end after tau-w; only values a refresh sets are judged, never values it leaves in place; min/max are additionally required to be the smallest/largest sample of S where the package's '0 means unset' convention cannot interfere (max S > 0; no zero sample in S) — this is stronger than the bound in the statement and only applied with the recording Metadata, where S is known exactly",
			"latency through the cache: S is the superset 'every non-metadata update submitted while the target was synced' (the cache does not sample stale or suppressed updates); values are observed as changes of Cache.Metadata() across UpdateMetadata; cache.Now lags latency.Now by 700 µs so a metadata update leaking into the statistics is visible",
			"concurrent mode: wall clocks untouched, no clock-dependent oracle; each target has ONE stream goroutine (as in the collector) which is the only writer of its data leaves and of its eight counters, so conservation is judged by that goroutine between its own calls and again at quiescence; race reports are attributed when the access site of either stack lies in cache/cache.go, metadata/metadata.go or latency/latency.go",
			"concurrent latency trials: one target and one stream per trial (latency.Now is one package variable, so only one goroutine may advance it if every latency is to be exactly L); L >= 1e8 ns so that one sample counted in a slot's sum but not in its count moves the average far beyond the precision",
			"virtual clocks never run backwards",
		},
		QuickShards: 8, ThoroughShards: 16,
		RaceShardsQuick: 3, RaceShardsThorough: 5,
		RaceAnchors:      []string{"/cache/cache.go", "/metadata/metadata.go", "/latency/latency.go"},
		RaceDeciding:     true,
		MinDistinctQuick: 10000, MinDistinctThorough: 150000,
		PostMerge: postMerge,
		Body:      body,
	})
}
