package main

// Mode "holder": the real manager.Manager as the holder of connections.
//
// The property's anchors name manager/manager.go next to the connection
// manager: the target manager is the component that acquires a connection per
// monitoring attempt and must release every one it was handed ("leak freedom
// ... over all acquire/release interleavings and dial outcomes"). Here the real
// manager runs over the real connection.Manager (NewManagerCustom) with a
// scripted dial function: success at once, success after a while whatever the
// context says (a dial that cannot be abandoned), success after a while unless
// cancelled, or failure. While a dial of the second kind is pending the driver
// removes or force-reconnects a target waiting for it, then lets the dial
// complete: the manager is handed a connection for an attempt that is already
// over and has to give it back. The connections are real *grpc.ClientConn
// objects whose transport never connects (every Subscribe fails at once), so
// attempts end quickly and are retried with a 2-6 ms backoff.
//
// Judged at the end, after Remove has returned for every target: each
// connection the dial function ever produced is closed (connectivity state
// Shutdown) and the address has been forgotten (the next request dials).

import (
	"context"
	"errors"
	"fmt"
	"math/rand"
	"net"
	"runtime"
	"strings"
	"sync"
	"sync/atomic"
	"time"

	"google.golang.org/grpc"
	"google.golang.org/grpc/connectivity"
	"google.golang.org/grpc/credentials/insecure"

	"github.com/openconfig/gnmi/connection"
	"github.com/openconfig/gnmi/manager"
	gpb "github.com/openconfig/gnmi/proto/gnmi"
	tpb "github.com/openconfig/gnmi/proto/target"

	"verif/internal/vlib"
)

type heldConn struct {
	addr string
	cc   *grpc.ClientConn
	kind string
}

func holderTrial(r *vlib.Run, mode string, trial int, rng *rand.Rand) {
	var mu sync.Mutex
	var conns []heldConn
	dials := map[string]int{}
	// pendingUnabandonable: dials of the "cannot be abandoned" kind that are waiting
	// for the driver; the driver acts on a waiting target, then releases them.
	type pend struct {
		addr    string
		release chan struct{}
	}
	pendCh := make(chan pend, 64)
	var dialSeq int64
	kinds := []string{"now", "now", "unabandonable", "unabandonable", "cancellable", "fail"}
	dialRng := rand.New(rand.NewSource(rng.Int63()))
	var dialRngMu sync.Mutex
	stopping := int32(0)
	dial := func(ctx context.Context, addr string, opts ...grpc.DialOption) (*grpc.ClientConn, error) {
		dialRngMu.Lock()
		kind := kinds[dialRng.Intn(len(kinds))]
		wait := time.Duration(1+dialRng.Intn(4)) * time.Millisecond
		dialRngMu.Unlock()
		atomic.AddInt64(&dialSeq, 1)
		mu.Lock()
		dials[addr]++
		mu.Unlock()
		r.Count("holder_dials_"+kind, 1)
		switch kind {
		case "fail":
			time.Sleep(wait / 2)
			return nil, errors.New("scripted dial failure")
		case "cancellable":
			select {
			case <-ctx.Done():
				return nil, ctx.Err()
			case <-time.After(wait):
			}
		case "unabandonable":
			if atomic.LoadInt32(&stopping) == 0 {
				p := pend{addr: addr, release: make(chan struct{})}
				select {
				case pendCh <- p:
					select {
					case <-p.release:
					case <-time.After(200 * time.Millisecond):
					}
				default:
					time.Sleep(wait)
				}
			} else {
				time.Sleep(wait)
			}
			if ctx.Err() != nil {
				r.Count("holder_dials_completed_after_their_context_ended", 1)
			}
		}
		cc, err := grpc.NewClient("passthrough:///c16-holder-"+addr,
			grpc.WithTransportCredentials(insecure.NewCredentials()),
			grpc.WithContextDialer(func(context.Context, string) (net.Conn, error) { return nil, errors.New("c16: no transport") }))
		if err != nil {
			return nil, err
		}
		mu.Lock()
		conns = append(conns, heldConn{addr, cc, kind})
		mu.Unlock()
		return cc, nil
	}
	cm, err := connection.NewManagerCustom(map[string]connection.Dial{connection.DEFAULT: dial})
	if err != nil {
		panic(err)
	}
	m, err := manager.NewManager(manager.Config{
		Update:            func(string, *gpb.Notification) {},
		ConnectionManager: cm,
		Timeout:           2 * time.Second,
	})
	if err != nil {
		panic(err)
	}
	nT := 1 + rng.Intn(3)
	share := rng.Intn(2) == 0
	addrOf := func(i int) string {
		if share {
			return "shared"
		}
		return fmt.Sprintf("a%d", i)
	}
	req := &gpb.SubscribeRequest{Request: &gpb.SubscribeRequest_Subscribe{Subscribe: &gpb.SubscriptionList{Prefix: &gpb.Path{}, Subscription: []*gpb.Subscription{{Path: &gpb.Path{Elem: []*gpb.PathElem{{Name: "x"}}}}}}}}
	managed := map[string]bool{}
	name := func(i int) string { return fmt.Sprintf("t%d", i) }
	hung := false
	bounded := func(what string, f func() error) {
		done := make(chan error, 1)
		go func() { done <- f() }()
		select {
		case <-done:
		case <-time.After(40 * time.Second):
			hung = true
			buf := make([]byte, 1<<19)
			dump := string(buf[:runtime.Stack(buf, true)])
			if strings.Contains(dump, "manager.(*Manager)."+what) {
				r.Violation(mode, trial, "holder-"+strings.ToLower(what)+"-never-returns", fmt.Sprintf("manager.%s did not return within 40 s", what), map[string]interface{}{"goroutines": dump[:min(len(dump), 8000)]})
			} else {
				r.Inconclusive("holder: a manager call did not return within 40 s and the dump does not attribute it")
			}
		}
	}
	for i := 0; i < nT; i++ {
		i := i
		bounded("Add", func() error { return m.Add(name(i), &tpb.Target{Addresses: []string{addrOf(i)}}, req) })
		managed[name(i)] = true
	}
	steps := 4 + rng.Intn(10)
	acted := 0
	for s := 0; s < steps && !hung; s++ {
		// Wait a little for an unabandonable dial to be pending; act on a target of its address.
		var p *pend
		select {
		case x := <-pendCh:
			p = &x
		case <-time.After(time.Duration(1+rng.Intn(6)) * time.Millisecond):
		}
		// pick a managed target (of that address if a dial is pending)
		var cands []int
		for i := 0; i < nT; i++ {
			if managed[name(i)] && (p == nil || addrOf(i) == p.addr) {
				cands = append(cands, i)
			}
		}
		if len(cands) > 0 {
			i := cands[rng.Intn(len(cands))]
			switch rng.Intn(3) {
			case 0:
				if p != nil {
					r.Count("holder_reconnect_during_pending_dial", 1)
				}
				bounded("Reconnect", func() error { return m.Reconnect(name(i)) })
			default:
				// Remove waits for the monitoring goroutine, which may be waiting for
				// the pending dial: release the dial shortly after Remove was entered.
				if p != nil {
					r.Count("holder_remove_during_pending_dial", 1)
					pp := p
					go func() { time.Sleep(500 * time.Microsecond); close(pp.release) }()
					p = nil
				}
				bounded("Remove", func() error { return m.Remove(name(i)) })
				managed[name(i)] = false
				if rng.Intn(2) == 0 && !hung {
					bounded("Add", func() error { return m.Add(name(i), &tpb.Target{Addresses: []string{addrOf(i)}}, req) })
					managed[name(i)] = true
				}
			}
			acted++
		}
		if p != nil {
			close(p.release)
		}
	}
	atomic.StoreInt32(&stopping, 1)
	// drain pending dials
	drain := func() {
		for {
			select {
			case x := <-pendCh:
				close(x.release)
			default:
				return
			}
		}
	}
	drain()
	for i := 0; i < nT && !hung; i++ {
		if managed[name(i)] {
			i := i
			go func() { time.Sleep(300 * time.Microsecond); drain() }()
			bounded("Remove", func() error { return m.Remove(name(i)) })
			managed[name(i)] = false
		}
	}
	drain()
	r.Eval(1)
	if hung {
		return
	}
	// Quiescent: nothing is managed any more. A dial that was still running when the
	// last Remove returned belongs to nobody; give such stragglers a moment to be
	// handed over and dropped (the connection manager closes an unreferenced result
	// only when its last requester releases it; with no requester left the entry is
	// removed by the failing/finishing path). Judge only connections whose dial had
	// returned before the last Remove returned: all of them are in conns by now or
	// arrive within the settle period.
	open := func() []heldConn {
		mu.Lock()
		defer mu.Unlock()
		var out []heldConn
		for _, c := range conns {
			if c.cc.GetState() != connectivity.Shutdown {
				out = append(out, c)
			}
		}
		return out
	}
	var left []heldConn
	for w := 0; w < 200; w++ {
		if left = open(); len(left) == 0 {
			break
		}
		time.Sleep(time.Millisecond)
	}
	mu.Lock()
	total := len(conns)
	mu.Unlock()
	r.Count("holder_connections_dialled", int64(total))
	r.Count("holder_driver_actions", int64(acted))
	if len(left) > 0 {
		var desc []string
		for _, c := range left {
			desc = append(desc, fmt.Sprintf("%s(dial kind %s, state %v)", c.addr, c.kind, c.cc.GetState()))
		}
		r.Violation(mode, trial, "holder-leaked-connection", fmt.Sprintf("every target has been removed (Remove returned) and 200 ms passed, yet %d of the %d connections the target manager was handed are still open: %s", len(left), total, strings.Join(desc, ", ")),
			map[string]interface{}{"targets": nT, "shared_address": share, "open": desc, "driver_actions": acted})
		for _, c := range left {
			c.cc.Close()
		}
		return
	}
	// Forgotten: the next request for each address dials afresh.
	for i := 0; i < nT; i++ {
		a := addrOf(i)
		mu.Lock()
		before := dials[a]
		mu.Unlock()
		ctx, cancel := context.WithTimeout(context.Background(), 5*time.Second)
		_, done, err := cm.Connection(ctx, a, connection.DEFAULT)
		cancel()
		mu.Lock()
		after := dials[a]
		mu.Unlock()
		if err == nil {
			done()
		}
		if after == before {
			r.Violation(mode, trial, "holder-connection-not-forgotten", fmt.Sprintf("after every target was removed a new request for %q was served without a dial", a), map[string]interface{}{"address": a})
			return
		}
	}
	for _, c := range open() {
		c.cc.Close()
	}
	r.Count("holder_trials_all_connections_closed", 1)
	r.Distinct(vlib.Hash(mode, trial, nT, share, total))
}
