// C16 — Shared gRPC connections are reference-counted correctly.
// History monitor over the real connection.Manager driven through
// NewManagerCustom with a scripted dialer. Many goroutines run
// acquire / hold / release cycles over a few addresses; every Connection() and
// done() call, every invocation of the dial function, every close of a
// *grpc.ClientConn (verif point connection.close) and the connectivity state
// of the handed-out connections (Shutdown = closed) are recorded with one
// logical clock. A deterministic oracle then judges the history:
//
//	(a) at most one dial per address in flight;
//	(b) every result is the outcome of one dial of that address, shared by all
//	    callers attached to it, never reused after it was forgotten;
//	(c) a connection is never Shutdown while a holder has not released it;
//	(d) when the harness's own count of unreleased holders is 0 at a quiescent
//	    point the connection is Shutdown, closed at most once, and a later
//	    request is served by a new dial;
//	(e) second releases and releases of failed requests change nothing
//	    (judged through (c) and (d), which count distinct holders);
//	(f) at the end every connection ever dialled is Shutdown.
package main

import (
	"context"
	"errors"
	"fmt"
	"math/rand"
	"os"
	"runtime"
	"sort"
	"strings"
	"sync"
	"sync/atomic"
	"syscall"
	"time"

	"google.golang.org/grpc"
	"google.golang.org/grpc/connectivity"
	"google.golang.org/grpc/credentials/insecure"

	"github.com/openconfig/gnmi/connection"
	"github.com/openconfig/gnmi/manager"
	"github.com/openconfig/gnmi/verifhook"

	"verif/internal/vlib"
)

var clock int64

func tick() int64 { return atomic.AddInt64(&clock, 1) }

const (
	unknownDialer = "nope"
	altDialer     = "alt"
	never         = int64(1) << 62
)

// dialErr is the error of one scripted dial; its identity names the dial.
type dialErr struct {
	ID    int
	Cause error
}

func (e *dialErr) Error() string {
	if e.Cause != nil {
		return fmt.Sprintf("scripted dial %d gave up: %v", e.ID, e.Cause)
	}
	return fmt.Sprintf("scripted dial %d refused", e.ID)
}
func (e *dialErr) Unwrap() error { return e.Cause }

type dialRec struct {
	ID         int
	Addr       int
	Script     string // scripted behaviour
	Start, End int64
	SeenInUse  int32 // in-flight dials of this address at entry, this one included
	Conn       *connRec
	Err        *dialErr
}

type connRec struct {
	ID         int
	Dial       *dialRec
	CC         *grpc.ClientConn
	holders    int32   // harness's own count of unreleased holders
	closeTicks []int64 // connection.close events (guarded by trial.mu)
}

type doneRec struct {
	Kind      string // release, again, noop
	Call, Ret int64
	Panic     string
}

type callRec struct {
	Worker, Seq int
	Addr        int
	Dialer      string
	CtxMode     string // bg, pre, during
	cancelTick  int64  // tick taken immediately before the caller's context was cancelled (0: never)
	Call, Ret   int64
	Panic       string
	Conn        *connRec
	RawConn     bool // a non-nil conn was returned
	NilDone     bool
	Err         error
	Dones       []doneRec
	Samples     int
	// set by the oracle
	servedBy *dialRec
	class    string
	errTxt   string
	errSound bool
}

func (c *callRec) firstRelease() *doneRec {
	for i := range c.Dones {
		if c.Dones[i].Kind == "release" {
			return &c.Dones[i]
		}
	}
	return nil
}

type cfg struct {
	G, A, Cycles  int
	Procs         int
	PFail, PSlow  float64
	PCancelAware  float64
	PDouble       float64
	PConcurrent   float64 // fraction of releases done by calling the same done function from several goroutines at once
	PUnknown      float64
	Forced        bool // gate connection.dialfail until callers joined; joiners spin into the completion window
	JoinSleepUs   int
	HoldMaxUs     int
	Skew          bool
	StwProb       float64
	GateTimeoutUs int
	PIdle         float64 // probability of idling between two cycles
	IdleMaxUs     int
	StartSpreadUs int // workers start staggered over this many microseconds
}

type violation struct {
	sig, what string
	addr      int
}

type failGate struct {
	pending int32
	gen     int32
}

type trial struct {
	r     *vlib.Run
	cfg   cfg
	seed  int64
	addrs []string
	m     *connection.Manager

	world sync.RWMutex // workers: RLock around every call into the manager; quiescent checks: Lock

	mu      sync.Mutex
	dials   []*dialRec
	conns   []*connRec
	byPtr   map[*grpc.ClientConn]*connRec
	viols   []violation
	calls   [][]*callRec // per worker
	qTicks  []int64
	dialCtr int32
	connCtr int32

	inflight [3]int32
	dialIdx  [3]int32
	joins    [3]int64
	gates    [3]failGate
	active   int32

	pert *vlib.Perturb

	// counters
	nSamples, nStw, stwOpenHeld, stwClosedReleased  int64
	hookJoin, hookFail, hookClose, hookCloseUnknown int64
	gateJoined, gateSpinners, waitJoinSatisfied     int64
	failed                                          int32
	nConc, nConcShared                              int64
	tightSpinners                                   int32
}

func (t *trial) viol(sig string, addr int, format string, a ...interface{}) {
	t.mu.Lock()
	defer t.mu.Unlock()
	for _, v := range t.viols {
		if v.sig == sig {
			return
		}
	}
	t.viols = append(t.viols, violation{sig: sig, what: fmt.Sprintf(format, a...), addr: addr})
	atomic.StoreInt32(&t.failed, 1)
}

func (t *trial) addrIndex(a string) int {
	for i, s := range t.addrs {
		if s == a {
			return i
		}
	}
	return -1
}

func spinUntil(cond func() bool, lim time.Duration) bool {
	t0 := time.Now()
	for i := 0; ; i++ {
		if cond() {
			return true
		}
		if time.Since(t0) > lim {
			return false
		}
		runtime.Gosched()
	}
}

// ---------- scripted dialer ----------

type outcome struct {
	fail        bool
	slow        string // "", gosched, sleep, waitjoin
	arg         int
	cancelAware bool
}

func (o outcome) String() string {
	s := "ok"
	if o.fail {
		s = "error"
	}
	if o.slow != "" {
		s = fmt.Sprintf("slow(%s %d)-%s", o.slow, o.arg, s)
	}
	if o.cancelAware {
		s = "honours-cancel-else-" + s
	}
	return s
}

// script is the k-th outcome of the dial queue of address ai: a function of the trial seed only.
func (t *trial) script(ai, k int) outcome {
	x := rand.New(rand.NewSource(vlib.Mix(t.seed, 1000+int64(ai), int64(k))))
	var o outcome
	o.fail = x.Float64() < t.cfg.PFail
	if x.Float64() < t.cfg.PSlow {
		switch x.Intn(3) {
		case 0:
			o.slow, o.arg = "gosched", 1+x.Intn(40)
		case 1:
			o.slow, o.arg = "sleep", x.Intn(150)
		default:
			o.slow, o.arg = "waitjoin", 1+x.Intn(3)
		}
	}
	if x.Float64() < t.cfg.PCancelAware {
		o.cancelAware = true
		if o.slow == "" {
			o.slow, o.arg = "sleep", 20+x.Intn(200)
		}
	}
	return o
}

func (t *trial) dial(ctx context.Context, target string, _ ...grpc.DialOption) (*grpc.ClientConn, error) {
	ai := t.addrIndex(target)
	if ai < 0 {
		return nil, fmt.Errorf("harness: dial of unknown address %q", target)
	}
	d := &dialRec{ID: int(atomic.AddInt32(&t.dialCtr, 1)), Addr: ai}
	k := int(atomic.AddInt32(&t.dialIdx[ai], 1)) - 1
	d.SeenInUse = atomic.AddInt32(&t.inflight[ai], 1)
	d.Start = tick()
	o := t.script(ai, k)
	d.Script = o.String()
	cancelled := false
	wait := func(cond func() bool, lim time.Duration) {
		spinUntil(func() bool {
			if o.cancelAware && ctx.Err() != nil {
				cancelled = true
				return true
			}
			return cond != nil && cond()
		}, lim)
	}
	switch o.slow {
	case "gosched":
		for i := 0; i < o.arg && !cancelled; i++ {
			runtime.Gosched()
			if o.cancelAware && ctx.Err() != nil {
				cancelled = true
			}
		}
	case "sleep":
		if o.cancelAware {
			tm := time.NewTimer(time.Duration(o.arg) * time.Microsecond)
			select {
			case <-ctx.Done():
				cancelled = true
			case <-tm.C:
			}
			tm.Stop()
		} else {
			time.Sleep(time.Duration(o.arg) * time.Microsecond)
		}
	case "waitjoin":
		base := atomic.LoadInt64(&t.joins[ai])
		want := base + int64(o.arg)
		wait(func() bool { return atomic.LoadInt64(&t.joins[ai]) >= want }, 400*time.Microsecond)
		if atomic.LoadInt64(&t.joins[ai]) >= want {
			atomic.AddInt64(&t.waitJoinSatisfied, 1)
		}
	}
	if o.cancelAware && !cancelled && ctx.Err() != nil {
		cancelled = true
	}
	var cc *grpc.ClientConn
	switch {
	case cancelled:
		d.Err = &dialErr{ID: d.ID, Cause: ctx.Err()}
		d.Script += ":cancelled"
	case o.fail:
		d.Err = &dialErr{ID: d.ID}
	default:
		var err error
		cc, err = grpc.NewClient("passthrough:///"+target, grpc.WithTransportCredentials(insecure.NewCredentials()))
		if err != nil {
			// Never observed; if it happens this is simply one more failed dial.
			cc = nil
			d.Err = &dialErr{ID: d.ID, Cause: err}
			d.Script += ":newclient-failed"
		} else {
			d.Conn = &connRec{ID: int(atomic.AddInt32(&t.connCtr, 1)), Dial: d, CC: cc}
		}
	}
	t.mu.Lock()
	t.dials = append(t.dials, d)
	if d.Conn != nil {
		t.conns = append(t.conns, d.Conn)
		t.byPtr[cc] = d.Conn
	}
	t.mu.Unlock()
	d.End = tick()
	atomic.AddInt32(&t.inflight[ai], -1)
	if d.Err != nil {
		return nil, d.Err
	}
	return cc, nil
}

// ---------- verif points ----------

func (t *trial) hook(name string, key interface{}) {
	switch name {
	case "connection.close":
		// Called with the manager's lock held: record only.
		cc, _ := key.(*grpc.ClientConn)
		tk := tick()
		atomic.AddInt64(&t.hookClose, 1)
		t.mu.Lock()
		if cr := t.byPtr[cc]; cr != nil {
			cr.closeTicks = append(cr.closeTicks, tk)
		} else {
			t.hookCloseUnknown++
		}
		t.mu.Unlock()
	case "connection.join":
		a, _ := key.(string)
		ai := t.addrIndex(a)
		if ai < 0 {
			return
		}
		n := atomic.AddInt64(&t.hookJoin, 1)
		g := &t.gates[ai]
		gen := atomic.LoadInt32(&g.gen)
		pending := atomic.LoadInt32(&g.pending) == 1
		atomic.AddInt64(&t.joins[ai], 1)
		if t.cfg.Forced && pending {
			// A failing dial of this address is completing: arrive at the wait
			// for its result just as it is published.
			atomic.AddInt64(&t.gateSpinners, 1)
			t0 := time.Now()
			tight := t.cfg.Procs >= 8 && atomic.AddInt32(&t.tightSpinners, 1) <= int32(t.cfg.Procs/2)
			for i := 0; atomic.LoadInt32(&g.gen) == gen; i++ {
				if !tight {
					runtime.Gosched()
				}
				if (!tight || i&255 == 255) && time.Since(t0) > time.Millisecond {
					break
				}
			}
			if t.cfg.Procs >= 8 {
				atomic.AddInt32(&t.tightSpinners, -1)
			}
			extra := int(vlib.Mix(t.seed, 77, n) % 700)
			for i := 0; i < extra; i++ {
				atomic.LoadInt32(&g.pending)
			}
			return
		}
		t.pert.Handle(name, key)
	case "connection.dialfail":
		a, _ := key.(string)
		ai := t.addrIndex(a)
		if ai < 0 {
			return
		}
		n := atomic.AddInt64(&t.hookFail, 1)
		if !t.cfg.Forced || atomic.LoadInt32(&t.active) <= 1 {
			t.pert.Handle(name, key)
			return
		}
		g := &t.gates[ai]
		base := atomic.LoadInt64(&t.joins[ai])
		want := base + 1 + int64(vlib.Mix(t.seed, 78, n)%3)
		atomic.StoreInt32(&g.pending, 1)
		spinUntil(func() bool { return atomic.LoadInt64(&t.joins[ai]) >= want }, time.Duration(t.cfg.GateTimeoutUs)*time.Microsecond)
		if got := atomic.LoadInt64(&t.joins[ai]) - base; got > 0 {
			atomic.AddInt64(&t.gateJoined, got)
		}
		atomic.StoreInt32(&g.pending, 0)
		atomic.AddInt32(&g.gen, 1)
	}
}

// ---------- workers ----------

type handle struct {
	c    *callRec
	cr   *connRec
	done func()
}

type stale struct {
	c    *callRec
	done func()
	kind string
}

func safeConnection(m *connection.Manager, ctx context.Context, addr, dialer string) (cc *grpc.ClientConn, done func(), err error, pan string) {
	defer func() {
		if p := recover(); p != nil {
			pan = fmt.Sprint(p)
		}
	}()
	cc, done, err = m.Connection(ctx, addr, dialer)
	return
}

func safeDone(f func()) (pan string) {
	defer func() {
		if p := recover(); p != nil {
			pan = fmt.Sprint(p)
		}
	}()
	f()
	return ""
}

func (t *trial) sample(h *handle) {
	st := h.cr.CC.GetState()
	h.c.Samples++
	atomic.AddInt64(&t.nSamples, 1)
	if st == connectivity.Shutdown {
		tk := tick()
		t.viol("closed-while-held", h.c.Addr, "at tick %d worker %d found connection K%d of %s in state Shutdown although it has not released it (acquired by its call #%d over [%d,%d])",
			tk, h.c.Worker, h.cr.ID, t.addrs[h.c.Addr], h.c.Seq, h.c.Call, h.c.Ret)
	}
}

func (t *trial) callDone(c *callRec, f func(), kind string, cr *connRec) {
	t.world.RLock()
	if kind == "release" && cr != nil {
		atomic.AddInt32(&cr.holders, -1)
	}
	d := doneRec{Kind: kind}
	d.Call = tick()
	d.Panic = safeDone(f)
	d.Ret = tick()
	t.world.RUnlock()
	c.Dones = append(c.Dones, d)
	if d.Panic != "" {
		t.viol("panic:done", c.Addr, "the done function (%s) of worker %d call #%d on %s panicked: %s", kind, c.Worker, c.Seq, t.addrs[c.Addr], d.Panic)
	}
}

// concurrentRelease releases one acquisition by calling the SAME done function
// from the holder and from 1-2 helper goroutines at the same instant (all
// spinning on one flag). The harness counts the acquisition as released once.
// One "release" record spans all the calls (its interval encloses whichever of
// them took effect); each helper call is also recorded as kind "concurrent".
func (t *trial) concurrentRelease(h *handle, rng *rand.Rand) {
	nh := 1 + rng.Intn(2)
	skew := rng.Intn(120)
	var ready, goFlag int32
	pans := make([]string, nh)
	var wg sync.WaitGroup
	t.world.RLock()
	for k := 0; k < nh; k++ {
		wg.Add(1)
		k := k
		go func() {
			defer wg.Done()
			atomic.AddInt32(&ready, 1)
			t0 := time.Now()
			for i := 0; atomic.LoadInt32(&goFlag) == 0; i++ {
				if i&255 == 255 && time.Since(t0) > time.Millisecond {
					runtime.Gosched()
				}
			}
			pans[k] = safeDone(h.done)
		}()
	}
	// Wait until the helpers are running (they then spin), so that all calls start together.
	spinUntil(func() bool { return atomic.LoadInt32(&ready) == int32(nh) }, 2*time.Millisecond)
	others := atomic.AddInt32(&h.cr.holders, -1)
	d := doneRec{Kind: "release"}
	d.Call = tick()
	atomic.StoreInt32(&goFlag, 1)
	for i := 0; i < skew; i++ {
		atomic.LoadInt32(&ready)
	}
	d.Panic = safeDone(h.done)
	wg.Wait()
	d.Ret = tick()
	t.world.RUnlock()
	for _, p := range pans {
		if p != "" && d.Panic == "" {
			d.Panic = p
		}
	}
	h.c.Dones = append(h.c.Dones, d)
	for k := 0; k < nh; k++ {
		h.c.Dones = append(h.c.Dones, doneRec{Kind: "concurrent", Call: d.Call, Ret: d.Ret})
	}
	atomic.AddInt64(&t.nConc, int64(nh))
	if others > 0 {
		atomic.AddInt64(&t.nConcShared, int64(nh))
	}
	if d.Panic != "" {
		t.viol("panic:done", h.c.Addr, "the done function of worker %d call #%d on %s, called from %d goroutines at once, panicked: %s", h.c.Worker, h.c.Seq, t.addrs[h.c.Addr], nh+1, d.Panic)
	}
}

func (t *trial) release(h *handle, rng *rand.Rand, st *[]stale) {
	t.sample(h)
	if rng.Float64() < t.cfg.PConcurrent {
		t.concurrentRelease(h, rng)
		if rng.Intn(4) == 0 {
			*st = append(*st, stale{h.c, h.done, "again"})
		}
		return
	}
	t.callDone(h.c, h.done, "release", h.cr)
	if rng.Float64() < t.cfg.PDouble {
		if rng.Intn(2) == 0 {
			t.callDone(h.c, h.done, "again", nil)
		} else {
			*st = append(*st, stale{h.c, h.done, "again"})
		}
	}
}

// quiescent: no call into the manager is in flight; the manager's holders are
// exactly the harness's holders.
func (t *trial) quiescent(final bool) {
	t.world.Lock()
	defer t.world.Unlock()
	q := tick()
	atomic.AddInt64(&t.nStw, 1)
	t.mu.Lock()
	t.qTicks = append(t.qTicks, q)
	conns := append([]*connRec{}, t.conns...)
	t.mu.Unlock()
	for _, cr := range conns {
		h := atomic.LoadInt32(&cr.holders)
		st := cr.CC.GetState()
		switch {
		case h > 0 && st == connectivity.Shutdown:
			t.viol("closed-while-held", cr.Dial.Addr, "at quiescent tick %d connection K%d of %s is Shutdown while %d holders have not released it", q, cr.ID, t.addrs[cr.Dial.Addr], h)
		case h > 0:
			atomic.AddInt64(&t.stwOpenHeld, 1)
		case h == 0 && st != connectivity.Shutdown:
			if final {
				t.viol("leak-at-end", cr.Dial.Addr, "after every holder released everything (tick %d) connection K%d of %s is still in state %v: never closed", q, cr.ID, t.addrs[cr.Dial.Addr], st)
			} else {
				t.viol("not-closed-at-last-release", cr.Dial.Addr, "at quiescent tick %d (no call in flight) connection K%d of %s has no unreleased holder but is in state %v, not Shutdown", q, cr.ID, t.addrs[cr.Dial.Addr], st)
			}
		case h == 0:
			atomic.AddInt64(&t.stwClosedReleased, 1)
		}
	}
}

func (t *trial) worker(w int, seed int64) {
	defer atomic.AddInt32(&t.active, -1)
	rng := rand.New(rand.NewSource(seed))
	var pending []*handle
	var st []stale
	if t.cfg.StartSpreadUs > 0 {
		time.Sleep(time.Duration(rng.Intn(t.cfg.StartSpreadUs)) * time.Microsecond)
	}
	for i := 0; i < t.cfg.Cycles; i++ {
		if rng.Float64() < t.cfg.PIdle {
			if t.cfg.IdleMaxUs == 0 {
				runtime.Gosched()
			} else {
				time.Sleep(time.Duration(rng.Intn(t.cfg.IdleMaxUs)) * time.Microsecond)
			}
		}
		if rng.Float64() < t.cfg.StwProb {
			t.quiescent(false)
		}
		if len(st) > 0 && rng.Intn(3) == 0 {
			k := rng.Intn(len(st))
			t.callDone(st[k].c, st[k].done, st[k].kind, nil)
			st = append(st[:k], st[k+1:]...)
		}
		if len(pending) > 0 && rng.Intn(3) == 0 {
			k := rng.Intn(len(pending))
			h := pending[k]
			pending = append(pending[:k], pending[k+1:]...)
			t.release(h, rng, &st)
		}
		for _, h := range pending {
			t.sample(h)
		}
		t.cycle(w, i, rng, &pending, &st)
	}
	for _, h := range pending {
		t.release(h, rng, &st)
	}
	for _, s := range st {
		if rng.Intn(2) == 0 {
			t.callDone(s.c, s.done, s.kind, nil)
		}
	}
}

func (t *trial) cycle(w, i int, rng *rand.Rand, pending *[]*handle, st *[]stale) {
	ai := rng.Intn(t.cfg.A)
	if t.cfg.Skew && rng.Intn(10) < 6 {
		ai = 0
	}
	c := &callRec{Worker: w, Seq: i, Addr: ai, Dialer: connection.DEFAULT, CtxMode: "bg"}
	switch x := rng.Float64(); {
	case x < t.cfg.PUnknown:
		c.Dialer = unknownDialer
	case x < t.cfg.PUnknown+0.15:
		c.Dialer = altDialer
	}
	ctx := context.Background()
	var cancelOnce sync.Once
	var cancel context.CancelFunc
	doCancel := func() {
		cancelOnce.Do(func() {
			atomic.StoreInt64(&c.cancelTick, tick())
			cancel()
		})
	}
	var tm *time.Timer
	switch x := rng.Float64(); {
	case x < 0.07:
		c.CtxMode = "pre"
		ctx, cancel = context.WithCancel(ctx)
		doCancel()
	case x < 0.27:
		c.CtxMode = "during"
		ctx, cancel = context.WithCancel(ctx)
		tm = time.AfterFunc(time.Duration(rng.Intn(250))*time.Microsecond, doCancel)
	}
	t.calls[w] = append(t.calls[w], c)

	t.world.RLock()
	c.Call = tick()
	cc, done, err, pan := safeConnection(t.m, ctx, t.addrs[ai], c.Dialer)
	c.Ret = tick()
	c.Panic, c.Err, c.RawConn, c.NilDone = pan, err, cc != nil, done == nil
	if pan == "" && cc != nil {
		t.mu.Lock()
		c.Conn = t.byPtr[cc]
		t.mu.Unlock()
		if c.Conn != nil {
			atomic.AddInt32(&c.Conn.holders, 1)
		}
	}
	t.world.RUnlock()
	defer func() {
		if cancel != nil {
			if tm != nil {
				tm.Stop()
			}
			doCancel()
		}
	}()
	if pan != "" {
		t.viol("panic:Connection", ai, "Connection(%s, %q) called by worker %d (#%d) panicked: %s", t.addrs[ai], c.Dialer, w, i, pan)
		return
	}
	if done == nil {
		return // judged as malformed by the oracle
	}
	if c.Conn == nil {
		// Failed request (or a result the oracle will reject): its done must be a no-op.
		if rng.Float64() < 0.7 {
			t.callDone(c, done, "noop", nil)
		}
		if rng.Float64() < 0.3 {
			*st = append(*st, stale{c, done, "noop"})
		}
		return
	}
	h := &handle{c: c, cr: c.Conn, done: done}
	t.sample(h)
	switch x := rng.Float64(); {
	case x < 0.30:
	case x < 0.55:
		n := 1 + rng.Intn(8)
		for k := 0; k < n; k++ {
			runtime.Gosched()
			if rng.Intn(3) == 0 {
				t.sample(h)
			}
		}
	case x < 0.80:
		d := time.Duration(rng.Intn(t.cfg.HoldMaxUs+1)) * time.Microsecond
		if rng.Intn(2) == 0 {
			time.Sleep(d / 2)
			t.sample(h)
			time.Sleep(d / 2)
		} else {
			time.Sleep(d)
		}
	default:
		*pending = append(*pending, h)
		return
	}
	t.release(h, rng, st)
}

// ---------- oracle over the recorded history ----------

// errText renders an error defensively: a broken manager can hand out a torn
// interface value.
func errText(err error) (s string, sound bool) {
	defer func() {
		if p := recover(); p != nil {
			s, sound = fmt.Sprintf("(unusable error value: %v)", p), false
		}
	}()
	var de *dialErr
	if errors.As(err, &de) && de == nil {
		return "(nil *dialErr)", false
	}
	return err.Error(), true
}

func isCtxErr(err error) bool {
	return errors.Is(err, context.Canceled) || errors.Is(err, context.DeadlineExceeded)
}

type interval struct {
	s, e int64
	c    *callRec
}

func (t *trial) judge(all []*callRec) {
	// (a) dial intervals of one address never overlap.
	byAddr := map[int][]*dialRec{}
	known := map[*dialRec]bool{}
	byID := map[int]*dialRec{}
	for _, d := range t.dials {
		byAddr[d.Addr] = append(byAddr[d.Addr], d)
		known[d] = true
		byID[d.ID] = d
		if d.SeenInUse > 1 {
			t.viol("two-dials-in-flight", d.Addr, "dial D%d of %s started (tick %d) while %d dials of that address were in flight", d.ID, t.addrs[d.Addr], d.Start, d.SeenInUse)
		}
	}
	for a, ds := range byAddr {
		sort.Slice(ds, func(i, j int) bool { return ds[i].Start < ds[j].Start })
		for i := 1; i < len(ds); i++ {
			if ds[i].Start < ds[i-1].End {
				t.viol("two-dials-in-flight", a, "dials D%d [%d,%d] and D%d [%d,%d] of %s overlap", ds[i-1].ID, ds[i-1].Start, ds[i-1].End, ds[i].ID, ds[i].Start, ds[i].End, t.addrs[a])
			}
		}
	}
	// (b) attribute every result to a dial.
	served := map[*dialRec][]*callRec{}
	for _, c := range all {
		if c.Err != nil {
			c.errTxt, c.errSound = errText(c.Err)
		}
	}
	for _, c := range all {
		if c.Panic != "" {
			c.class = "panic"
			continue
		}
		name := fmt.Sprintf("Connection(%s,%q) by worker %d (#%d) over [%d,%d]", t.addrs[c.Addr], c.Dialer, c.Worker, c.Seq, c.Call, c.Ret)
		switch {
		case c.NilDone:
			c.class = "malformed"
			t.viol("result-not-from-a-dial", c.Addr, "%s returned a nil done function", name)
		case c.RawConn && c.Err != nil:
			c.class = "malformed"
			t.viol("result-not-from-a-dial", c.Addr, "%s returned both a connection and the error %s", name, c.errTxt)
		case !c.RawConn && c.Err == nil:
			c.class = "malformed"
			t.viol("result-not-from-a-dial", c.Addr, "%s returned neither a connection nor an error", name)
		case c.RawConn:
			if c.Conn == nil {
				c.class = "malformed"
				t.viol("result-not-from-a-dial", c.Addr, "%s returned a connection that no dial produced", name)
				break
			}
			c.class = "conn"
			d := c.Conn.Dial
			if d.Addr != c.Addr {
				t.viol("result-of-other-address", c.Addr, "%s returned connection K%d which was dialled (D%d) for %s", name, c.Conn.ID, d.ID, t.addrs[d.Addr])
				break
			}
			c.servedBy = d
			served[d] = append(served[d], c)
		default:
			var de *dialErr
			if !c.errSound {
				// A torn or typed-nil error value: only a racy publication of the dial result produces this.
				c.class = "malformed"
				t.viol("result-not-from-a-dial", c.Addr, "%s returned an error value that cannot be used (nil pointer inside a non-nil error)", name)
				break
			}
			switch {
			case errors.As(c.Err, &de) && de != nil && byID[de.ID] != nil && byID[de.ID].Err == de:
				c.class = "dial-error"
				d := byID[de.ID]
				if d.Addr != c.Addr {
					t.viol("result-of-other-address", c.Addr, "%s returned the error of dial D%d, which was a dial of %s", name, d.ID, t.addrs[d.Addr])
					break
				}
				c.servedBy = d
				served[d] = append(served[d], c)
			case isCtxErr(c.Err):
				c.class = "ctx-error"
				ct := atomic.LoadInt64(&c.cancelTick)
				if ct == 0 || ct > c.Ret {
					t.viol("fabricated-context-error", c.Addr, "%s returned %q although its own context was not cancelled before it returned (cancel tick %d) and no dial produced that error", name, c.errTxt, ct)
				}
			case strings.Contains(c.errTxt, "no such dialer"):
				c.class = "nodialer-error"
				ok := false
				for _, o := range all {
					if o.Addr == c.Addr && o.Dialer == unknownDialer && o.Panic == "" && o.Err != nil && o.errSound && o.errTxt == c.errTxt && o.Call < c.Ret && c.Call < o.Ret {
						ok = true
						break
					}
				}
				if !ok {
					t.viol("result-not-from-a-dial", c.Addr, "%s returned %q but no overlapping request for that address named an unknown dialer", name, c.errTxt)
				}
			default:
				c.class = "other-error"
				t.viol("result-not-from-a-dial", c.Addr, "%s returned the error %q, which is neither the outcome of a dial of that address nor its own context's error", name, c.errTxt)
			}
		}
	}
	// (b)/(d) the callers attached to one dial form one connected episode that
	// contains the dial: an outcome is never handed out after it was forgotten.
	for _, d := range t.dials {
		cs := served[d]
		ivs := []interval{{d.Start, d.End, nil}}
		for _, c := range cs {
			e := c.Ret
			if d.Conn != nil {
				e = never
				if fr := c.firstRelease(); fr != nil {
					e = fr.Ret
				}
			}
			ivs = append(ivs, interval{c.Call, e, c})
		}
		sort.Slice(ivs, func(i, j int) bool { return ivs[i].s < ivs[j].s })
		maxEnd := ivs[0].e
		for _, iv := range ivs[1:] {
			if iv.s > maxEnd {
				who := fmt.Sprintf("dial D%d", d.ID)
				if iv.c != nil {
					who = fmt.Sprintf("Connection(%s) by worker %d (#%d) over [%d,%d]", t.addrs[iv.c.Addr], iv.c.Worker, iv.c.Seq, iv.c.Call, iv.c.Ret)
				}
				if d.Conn != nil {
					t.viol("conn-reused-after-last-release", d.Addr, "%s was handed connection K%d of dial D%d [%d,%d] although every earlier holder of it had released it by tick %d (before this call began): the connection was not forgotten at its last release", who, d.Conn.ID, d.ID, d.Start, d.End, maxEnd)
				} else {
					t.viol("stale-failure-served", d.Addr, "%s was handed the error of the failed dial D%d [%d,%d] although every earlier caller of that dial had already returned by tick %d: the failed attempt was not forgotten, no new dial", who, d.ID, d.Start, d.End, maxEnd)
				}
				break
			}
			if iv.e > maxEnd {
				maxEnd = iv.e
			}
		}
		for _, c := range cs {
			for _, d2 := range byAddr[d.Addr] {
				if d2.Start > d.End && d2.Start < c.Call {
					t.viol("superseded-outcome-served", d.Addr, "Connection(%s) by worker %d (#%d) began at tick %d, after the newer dial D%d had started (tick %d), but was handed the outcome of the older dial D%d [%d,%d]", t.addrs[c.Addr], c.Worker, c.Seq, c.Call, d2.ID, d2.Start, d.ID, d.Start, d.End)
					break
				}
			}
		}
	}
	// (c) with close events, (d) closed at most once.
	t.mu.Lock()
	defer t.mu.Unlock()
	for _, cr := range t.conns {
		if len(cr.closeTicks) > 1 {
			t.violLocked("closed-more-than-once", cr.Dial.Addr, fmt.Sprintf("connection K%d of %s was closed %d times (connection.close events at ticks %v)", cr.ID, t.addrs[cr.Dial.Addr], len(cr.closeTicks), cr.closeTicks))
		}
		for _, ct := range cr.closeTicks {
			for _, c := range served[cr.Dial] {
				fr := c.firstRelease()
				if fr != nil && c.Ret < ct && ct < fr.Call {
					t.violLocked("closed-while-held", cr.Dial.Addr, fmt.Sprintf("connection K%d of %s was closed at tick %d while worker %d (call #%d returned at %d, release began at %d) was holding it", cr.ID, t.addrs[cr.Dial.Addr], ct, c.Worker, c.Seq, c.Ret, fr.Call))
				}
			}
		}
	}
}

func (t *trial) violLocked(sig string, addr int, what string) {
	for _, v := range t.viols {
		if v.sig == sig {
			return
		}
	}
	t.viols = append(t.viols, violation{sig: sig, what: what, addr: addr})
}

// history renders the events of one address (all when addr < 0) in clock order.
func (t *trial) history(all []*callRec, addr int, limit int) []string {
	type line struct {
		at int64
		s  string
	}
	var ls []line
	for _, d := range t.dials {
		if addr >= 0 && d.Addr != addr {
			continue
		}
		res := "error"
		if d.Conn != nil {
			res = fmt.Sprintf("K%d", d.Conn.ID)
		}
		ls = append(ls, line{d.Start, fmt.Sprintf("[%d-%d] dial D%d %s script=%s -> %s", d.Start, d.End, d.ID, t.addrs[d.Addr], d.Script, res)})
		if d.Conn != nil {
			for _, ct := range d.Conn.closeTicks {
				ls = append(ls, line{ct, fmt.Sprintf("[%d] connection.close K%d", ct, d.Conn.ID)})
			}
		}
	}
	for _, c := range all {
		if addr >= 0 && c.Addr != addr {
			continue
		}
		res := ""
		switch {
		case c.Panic != "":
			res = "PANIC " + c.Panic
		case c.Conn != nil:
			res = fmt.Sprintf("K%d", c.Conn.ID)
		case c.RawConn:
			res = "unknown conn"
		case c.Err != nil:
			res = "err: " + c.errTxt
		default:
			res = "nil,nil"
		}
		ctx := c.CtxMode
		if ct := atomic.LoadInt64(&c.cancelTick); ct != 0 {
			ctx += fmt.Sprintf("(cancelled@%d)", ct)
		}
		ls = append(ls, line{c.Call, fmt.Sprintf("[%d-%d] w%d#%d Connection(%s,%q,ctx=%s) -> %s", c.Call, c.Ret, c.Worker, c.Seq, t.addrs[c.Addr], c.Dialer, ctx, res)})
		for _, d := range c.Dones {
			p := ""
			if d.Panic != "" {
				p = " PANIC " + d.Panic
			}
			ls = append(ls, line{d.Call, fmt.Sprintf("[%d-%d] w%d#%d done(%s)%s", d.Call, d.Ret, c.Worker, c.Seq, d.Kind, p)})
		}
	}
	for _, q := range t.qTicks {
		ls = append(ls, line{q, fmt.Sprintf("[%d] quiescent check (no call in flight)", q)})
	}
	sort.Slice(ls, func(i, j int) bool { return ls[i].at < ls[j].at })
	out := make([]string, 0, len(ls))
	for i, l := range ls {
		if i >= limit {
			out = append(out, fmt.Sprintf("... %d more events", len(ls)-limit))
			break
		}
		out = append(out, l.s)
	}
	return out
}

// ---------- trial ----------

func genCfg(rng *rand.Rand) cfg {
	c := cfg{}
	c.G = 4 + rng.Intn(29)
	c.A = 1 + rng.Intn(3)
	c.Cycles = 2 + rng.Intn(11)
	if rng.Intn(8) == 0 {
		c.G = 4 + rng.Intn(9)
		c.Cycles = 20 + rng.Intn(21)
	}
	for c.G*c.Cycles < 20 {
		c.Cycles++
	}
	c.Procs = []int{2, 4, 8, 16}[rng.Intn(4)]
	c.PFail = []float64{0, 0.1, 0.25, 0.5}[rng.Intn(4)]
	c.PSlow = []float64{0, 0.3, 0.6}[rng.Intn(3)]
	c.PCancelAware = []float64{0, 0.15, 0.4}[rng.Intn(3)]
	c.PDouble = 0.2
	c.PConcurrent = []float64{0.02, 0.06, 0.12}[rng.Intn(3)]
	c.PUnknown = []float64{0, 0, 0.03, 0.08}[rng.Intn(4)]
	c.Forced = rng.Intn(2) == 0
	c.JoinSleepUs = rng.Intn(40)
	c.HoldMaxUs = 5 + rng.Intn(80)
	c.Skew = rng.Intn(2) == 0
	c.StwProb = []float64{0, 0.03, 0.08}[rng.Intn(3)]
	c.GateTimeoutUs = 50 + rng.Intn(400)
	c.PIdle = []float64{0, 0.2, 0.6}[rng.Intn(3)]
	c.IdleMaxUs = []int{0, 30, 150, 400}[rng.Intn(4)]
	c.StartSpreadUs = []int{0, 0, 100, 600}[rng.Intn(4)]
	return c
}

func runTrial(r *vlib.Run, mode string, trialNo int, rng *rand.Rand) (alive bool) {
	c := genCfg(rng)
	t := &trial{r: r, cfg: c, seed: rng.Int63(), byPtr: map[*grpc.ClientConn]*connRec{}}
	for i := 0; i < c.A; i++ {
		t.addrs = append(t.addrs, fmt.Sprintf("h%d.c16.verif:9339", i))
	}
	t.calls = make([][]*callRec, c.G)
	r.SaveCurrent(map[string]interface{}{"mode": mode, "trial": trialNo, "cfg": c, "note": "replay with --replay: same seed, mode and trial regenerate this workload"})
	m, err := connection.NewManagerCustom(map[string]connection.Dial{connection.DEFAULT: t.dial, altDialer: t.dial})
	if err != nil {
		r.Violation(mode, trialNo, "constructor", "NewManagerCustom with two dialers failed: "+err.Error(), nil)
		return true
	}
	t.m = m
	t.pert = vlib.NewPerturb(vlib.Mix(t.seed, 5))
	t.pert.MaxSleep = time.Duration(c.JoinSleepUs) * time.Microsecond
	atomic.StoreInt64(&clock, 0)
	prev := runtime.GOMAXPROCS(c.Procs)
	defer runtime.GOMAXPROCS(prev)
	verifhook.Set(t.hook)
	defer verifhook.Set(nil)

	seeds := make([]int64, c.G)
	for i := range seeds {
		seeds[i] = rng.Int63()
	}
	atomic.StoreInt32(&t.active, int32(c.G))
	var wg sync.WaitGroup
	start := make(chan struct{})
	for w := 0; w < c.G; w++ {
		wg.Add(1)
		w := w
		go func() {
			defer wg.Done()
			<-start
			t.worker(w, seeds[w])
		}()
	}
	fin := make(chan struct{})
	go func() { wg.Wait(); close(fin) }()
	close(start)
	select {
	case <-fin:
	case <-time.After(60 * time.Second):
		buf := make([]byte, 1<<20)
		n := runtime.Stack(buf, true)
		dump := string(buf[:n])
		inMgr, inDial := 0, 0
		for _, b := range strings.Split(dump, "\n\n") {
			if strings.Contains(b, "main.(*trial).dial(") {
				inDial++
			} else if strings.Contains(b, "connection.(*Manager).Connection(") || strings.Contains(b, "connection.(*connection).done") {
				inMgr++
			}
		}
		if inMgr > 0 && inDial == 0 {
			r.Violation(mode, trialNo, "stuck", fmt.Sprintf("no progress for 60 s: %d callers are parked inside Connection()/done() while no dial function is running (the outcome of every dial was already produced)", inMgr),
				map[string]interface{}{"cfg": c, "goroutines": dump})
		} else {
			r.Inconclusive("a trial did not finish within the 60 s watchdog and the stuck state is not attributable to the connection manager")
		}
		return false
	}
	t.quiescent(true)

	var all []*callRec
	for _, cs := range t.calls {
		all = append(all, cs...)
	}
	sort.Slice(all, func(i, j int) bool { return all[i].Call < all[j].Call })
	t.judge(all)
	// Close whatever a broken manager leaked so that later trials are not disturbed.
	for _, cr := range t.conns {
		if cr.CC.GetState() != connectivity.Shutdown {
			cr.CC.Close()
		}
	}

	// Bookkeeping for the evidence.
	r.Eval(1)
	served := map[*dialRec]int{}
	lateJoin := 0
	cls := map[string]int64{}
	var dones, again, noop, exposedAgain, exposedAgainNewer, exposedNoop int64
	for _, cl := range all {
		cls[cl.class]++
		if cl.servedBy != nil {
			served[cl.servedBy]++
			if cl.servedBy.Err != nil && cl.Call > cl.servedBy.End {
				lateJoin++
			}
		}
		for _, d := range cl.Dones {
			dones++
			switch d.Kind {
			case "again":
				again++
			case "noop":
				noop++
			case "concurrent":
				continue
			default:
				continue
			}
			// Was another handle of this address surely held for the whole call? Then a
			// release that is not a no-op had something to damage.
			for _, o := range all {
				if o == cl || o.Addr != cl.Addr || o.Conn == nil || o.Ret >= d.Call {
					continue
				}
				if fr := o.firstRelease(); fr != nil && fr.Call > d.Ret {
					if d.Kind == "again" {
						exposedAgain++
						if o.Conn != cl.Conn {
							exposedAgainNewer++
						}
					} else {
						exposedNoop++
					}
					break
				}
			}
		}
	}
	shared, maxShare, failedDials, cancelledDials, redials := 0, 0, 0, 0, 0
	lastOK := map[int]bool{}
	var sigb strings.Builder
	sort.Slice(t.dials, func(i, j int) bool { return t.dials[i].Start < t.dials[j].Start })
	for _, d := range t.dials {
		n := served[d]
		if n >= 2 {
			shared++
		}
		switch {
		case n == 0:
			r.Count("dials_serving_0_callers", 1)
		case n == 1:
			r.Count("dials_serving_1_caller", 1)
		case n <= 4:
			r.Count("dials_serving_2_to_4_callers", 1)
		default:
			r.Count("dials_serving_5plus_callers", 1)
		}
		if n > maxShare {
			maxShare = n
		}
		if d.Err != nil {
			failedDials++
			if d.Err.Cause != nil {
				cancelledDials++
			}
		}
		if lastOK[d.Addr] {
			redials++
		}
		lastOK[d.Addr] = d.Conn != nil
		fmt.Fprintf(&sigb, "%d%v%d;", d.Addr, d.Err == nil, n)
	}
	for _, cl := range all {
		fmt.Fprintf(&sigb, "%d.%d%.1s,", cl.Worker, cl.Addr, cl.class)
	}
	closeEvents := atomic.LoadInt64(&t.hookClose)
	r.Count("calls", int64(len(all)))
	for k, v := range cls {
		r.Count("calls_result_"+k, v)
	}
	r.Count("dials", int64(len(t.dials)))
	r.Count("dials_failed", int64(failedDials))
	r.Count("dials_failed_by_cancellation", int64(cancelledDials))
	r.Count("dials_shared_by_2plus_callers", int64(shared))
	r.Count("redials_after_last_release", int64(redials))
	r.Count("calls_joined_after_failed_dial_returned", int64(lateJoin))
	r.Count("conns_dialled", int64(len(t.conns)))
	r.Count("done_calls", dones)
	r.Count("done_second_calls", again)
	r.Count("done_calls_of_failed_requests", noop)
	r.Count("done_concurrent_extra_calls_of_the_same_function", atomic.LoadInt64(&t.nConc))
	r.Count("done_concurrent_extra_calls_while_other_holders_of_the_conn_existed", atomic.LoadInt64(&t.nConcShared))
	r.Count("done_second_calls_while_another_handle_of_the_address_was_held", exposedAgain)
	r.Count("done_second_calls_while_a_newer_conn_of_the_address_was_held", exposedAgainNewer)
	r.Count("done_calls_of_failed_requests_while_a_conn_of_the_address_was_held", exposedNoop)
	r.Count("state_samples_while_held", atomic.LoadInt64(&t.nSamples))
	r.Count("quiescent_checks", atomic.LoadInt64(&t.nStw))
	r.Count("quiescent_conns_open_and_held", atomic.LoadInt64(&t.stwOpenHeld))
	r.Count("quiescent_conns_closed_and_released", atomic.LoadInt64(&t.stwClosedReleased))
	r.Count("hook_connection.join", atomic.LoadInt64(&t.hookJoin))
	r.Count("hook_connection.dialfail", atomic.LoadInt64(&t.hookFail))
	r.Count("hook_connection.close", closeEvents)
	r.Count("hook_connection.close_of_unknown_conn", t.hookCloseUnknown)
	r.Count("gate_joiners_released_into_failing_dial_completion", atomic.LoadInt64(&t.gateSpinners))
	r.Count("gate_joins_counted_while_dialfail_was_held", atomic.LoadInt64(&t.gateJoined))
	r.Count("slow_dials_that_waited_for_joiners", atomic.LoadInt64(&t.waitJoinSatisfied))
	if c.Forced {
		r.Count("forced_window_trials", 1)
	}
	if closeEvents > 0 {
		r.Count("trials_with_close_events_exactly_once_judged", 1)
	} else if len(t.conns) > 0 {
		r.Count("trials_without_close_events_exactly_once_not_judged", 1)
	}
	if len(t.viols) == 0 {
		if shared > 0 && (redials > 0 || failedDials > 0) {
			r.Distinct(vlib.Hash("c16", sigb.String()))
		}
		r.SetAdd("interleavings", fmt.Sprintf("%x", vlib.Hash(sigb.String())))
	}
	for _, v := range t.viols {
		r.Violation(mode, trialNo, v.sig, v.what, map[string]interface{}{
			"cfg": c, "address": t.addrs[v.addr], "history_of_address": t.history(all, v.addr, 400),
		})
	}
	if r.WantSample() && trialNo%37 == 0 {
		r.Sample(map[string]interface{}{"mode": mode, "trial": trialNo, "cfg": c, "calls": len(all), "dials": len(t.dials), "dials_failed": failedDials,
			"dials_shared": shared, "max_callers_on_one_dial": maxShare, "redials": redials, "first_events": t.history(all, -1, 14)})
	}
	return true
}

func body(r *vlib.Run) {
	alive := true
	n := r.N(8000, 120000)
	if r.Race {
		n = r.N(400, 3000)
	}
	r.ForTrials("mix", n, func(trialNo int, rng *rand.Rand) {
		if alive {
			alive = runTrial(r, "mix", trialNo, rng)
		}
	})
	// The real target manager as the holder (holder.go).
	manager.RetryBaseDelay = 2 * time.Millisecond
	manager.RetryMaxDelay = 6 * time.Millisecond
	hn := r.N(320, 8000)
	if r.Race {
		hn = r.N(40, 400)
	}
	sem := make(chan struct{}, 8)
	var wg sync.WaitGroup
	r.ForTrials("holder", hn, func(trialNo int, rng *rand.Rand) {
		if !alive || r.NViolations() >= 6 {
			return
		}
		sem <- struct{}{}
		wg.Add(1)
		go func() {
			defer wg.Done()
			defer func() { <-sem }()
			holderTrial(r, "holder", trialNo, rng)
		}()
	})
	wg.Wait()
}

func postMerge(tier string, c map[string]int64) []string {
	var out []string
	if c["hook_connection.close"] == 0 {
		out = append(out, "no connection.close event was observed: the 'closed at most once' clause was not judged (all other clauses decided)")
	}
	if c["calls_joined_after_failed_dial_returned"] == 0 {
		out = append(out, "window 'caller joins while a failing dial is completing' was never hit")
	}
	if c["dials_failed_by_cancellation"] == 0 {
		out = append(out, "no dial was cancelled through the first caller's context")
	}
	if c["done_concurrent_extra_calls_while_other_holders_of_the_conn_existed"] == 0 {
		out = append(out, "no concurrent call of one done function from several goroutines was executed while other holders existed")
	}
	if c["done_second_calls"] == 0 || c["done_calls_of_failed_requests"] == 0 {
		out = append(out, "no second release / no release of a failed request was executed")
	}
	return out
}

func main() {
	// Race reports are diagnostic for this property (it does not state freedom
	// from data races). The race runtime exits with status 66 after any report,
	// which the parent would take for a failed child; re-execute the
	// race-instrumented child once with exitcode=0 so that its result counts and
	// the reports are still collected from the race log.
	if os.Getenv("VERIF_RACE") == "1" && !strings.Contains(os.Getenv("GORACE"), "exitcode=") {
		if exe, err := os.Executable(); err == nil {
			os.Setenv("GORACE", strings.TrimSpace(os.Getenv("GORACE")+" exitcode=0"))
			syscall.Exec(exe, os.Args, os.Environ()) // returns only on failure: then run as we are
		}
	}
	vlib.Main(&vlib.Spec{
		ID:   "C16",
		Rule: "Concurrent trials on the real connection.Manager (NewManagerCustom, two dialer names sharing one scripted dial function): 4-32 goroutines x 2-40 acquire/hold/release cycles over 1-3 addresses (optionally skewed to one), GOMAXPROCS 2/4/8/16, per-address dial scripts drawn from the trial seed (success / error / slow by yielding, sleeping or waiting for joiners / honours-cancel), caller contexts background / cancelled before the call / cancelled during it, unknown dialer names, holds of none / yields / microseconds / across later cycles, second releases with probability 0.2 (immediately or cycles later, also while the worker holds a newer connection of that address), 2-12% of the releases performed by calling the SAME done function from the holder and 1-2 helper goroutines at the same instant (spin barrier; counted as one release by the harness), releases of failed requests, stop-the-world quiescent checks at seeded moments and at the end; seeded delays at connection.join / connection.dialfail, and in half of the trials connection.dialfail is gated until further callers joined, which are then released into the instant the failure is published. Every call/return, dial start/end, connection.close event and connectivity state sample is stamped by one atomic clock and judged after the trial. A trial is distinct non-trivial when the oracle ran to a verdict, at least one dial was shared by two or more callers and at least one dial failed or an address was re-dialled after its connection's last release; the hash is over the per-dial (address, outcome, number of callers served) sequence and the per-call (worker, address, result class) sequence in clock order.",
		Assumptions: []string{
			"closed is observed as connectivity state Shutdown of a real *grpc.ClientConn made by grpc.NewClient on a passthrough target (no traffic); grpc sets that state synchronously inside Close",
			"'closed at most once' is judged from connection.close verif-point events only when such events were observed; every other clause is independent of the hooks, which only delay / gate",
			"schedules are explored by perturbation (seeded delays, gates with timeouts, GOMAXPROCS variation), not enumerated; wall-clock time is used only for those delays and for the 60 s watchdog (inconclusive unless callers are parked inside the manager with no dial running)",
			"a joiner whose own context is cancelled while it waits may legitimately receive either the shared dial outcome or its own context's error; a caller arriving after a failing dial function returned but before the failure was published may share that failure",
			"an error naming an unknown dialer is accepted when an overlapping request for the same address named the unknown dialer (that path invokes no dial function)",
		},
		QuickShards: 8, ThoroughShards: 16,
		RaceShardsQuick: 1, RaceShardsThorough: 2,
		RaceAnchors: []string{"/connection/connection.go"}, RaceDeciding: false,
		MinDistinctQuick: 300, MinDistinctThorough: 5000,
		PostMerge: postMerge,
		Body:      body,
	})
}
